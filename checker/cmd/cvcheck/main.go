// cvcheck decides the convergen properties by static analysis of /repo's current source.
package main

import (
	"encoding/json"
	"flag"
	"fmt"
	"os"
	"path/filepath"
	"runtime/debug"
	"sort"
	"strconv"
	"strings"

	"cvcheck/internal/core"
	"cvcheck/internal/report"
	"cvcheck/internal/rules"
)

var registry = map[string]func(*rules.Ctx){
	"C01": rules.C01,
	"C02": rules.C02,
	"C03": rules.C03,
	"C04": rules.C04,
	"C05": rules.C05,
	"C06": rules.C06,
	"C07": rules.C07,
	"C08": rules.C08,
	"C09": rules.C09,
	"C10": rules.C10,
	"C11": rules.C11,
	"C12": rules.C12,
	"C13": rules.C13,
	"C14": rules.C14,
	"C15": rules.C15,
	"C16": rules.C16,
	"C17": rules.C17,
	"C18": rules.C18,
	"C19": rules.C19,
}

func main() {
	prop := flag.String("property", "", "property id (C01..C19)")
	tier := flag.String("tier", "", "quick|thorough (default: $VERIF_TIER or quick)")
	repo := flag.String("repo", "", "repository to analyse (default: $VERIF_REPO or /repo)")
	verif := flag.String("verif", "", "verif directory (default: $VERIF_DIR or /verif)")
	replay := flag.String("replay", "", "replay file: re-evaluate the rule instance it names")
	dump := flag.String("dump", "", "debug: print reaching conditions of the named function")
	flag.Parse()

	if *tier == "" {
		*tier = os.Getenv("VERIF_TIER")
	}
	if *tier != "thorough" {
		*tier = "quick"
	}
	if *repo == "" {
		*repo = os.Getenv("VERIF_REPO")
	}
	if *repo == "" {
		*repo = "/repo"
	}
	if *verif == "" {
		*verif = os.Getenv("VERIF_DIR")
	}
	if *verif == "" {
		*verif = "/verif"
	}
	seed, _ := strconv.Atoi(os.Getenv("VERIF_SEED"))
	abs, err := filepath.Abs(*repo)
	if err == nil {
		*repo = abs
	}

	var replayKey string
	if *replay != "" {
		b, err := os.ReadFile(*replay)
		if err != nil {
			fmt.Println("cannot read replay file:", err)
			os.Exit(2)
		}
		var rec struct{ Property, Key string }
		if err := json.Unmarshal(b, &rec); err != nil {
			fmt.Println("bad replay file:", err)
			os.Exit(2)
		}
		*prop = rec.Property
		replayKey = rec.Key
	}

	if *dump != "" {
		p, err := core.Load(*repo, false)
		if err != nil {
			fmt.Println(err)
			os.Exit(2)
		}
		if *dump == "tpl" {
			rules.DumpTpl(rules.NewCtx(p, report.New("dump", "quick", *verif, 0), "quick"))
			return
		}
		if *dump == "external" {
			rules.DumpExternal(p)
			return
		}
		if *dump == "funcs" {
			rules.DumpFuncs(p)
			return
		}
		if strings.HasPrefix(*dump, "calls=") {
			rules.DumpCalls(p, strings.TrimPrefix(*dump, "calls="))
			return
		}
		rules.Dump(p, *dump)
		return
	}

	f, ok := registry[*prop]
	if !ok {
		var ids []string
		for k := range registry {
			ids = append(ids, k)
		}
		sort.Strings(ids)
		fmt.Printf("unknown property %q; have %v\n", *prop, ids)
		os.Exit(2)
	}
	run := report.New(*prop, *tier, *verif, seed)
	os.Exit(execute(run, f, *repo, *tier, replayKey))
}

func execute(run *report.Run, f func(*rules.Ctx), repo, tier, replayKey string) (code int) {
	defer func() {
		if e := recover(); e != nil {
			fmt.Printf("analyser panic: %v\n%s\n", e, debug.Stack())
			code = run.Finish(fmt.Errorf("analyser panic: %v", e))
		}
	}()
	p, err := core.Load(repo, tier == "thorough")
	if err != nil {
		return run.Finish(err)
	}
	run.Analysed["repo"] = repo
	run.Analysed["module_packages"] = len(p.Pkgs)
	run.Analysed["packages_loaded_incl_deps"] = p.AllPkgs
	run.Analysed["module_functions_with_ssa"] = len(p.Funcs())
	c := rules.NewCtx(p, run, tier)
	f(c)
	if replayKey != "" {
		for _, o := range run.Obligations {
			if o.Key == replayKey {
				fmt.Printf("replay %s: %s %s %s\n", o.Key, o.Status, o.Pos, o.Msg)
				if o.Status != report.Holds {
					fmt.Printf("VIOLATION property=%s replay=%s\n", run.Property, flag.Lookup("replay").Value.String())
					return 1
				}
				return 0
			}
		}
		fmt.Printf("replay: key %s no longer exists in the tree\n", replayKey)
		return 0
	}
	return run.Finish(nil)
}
