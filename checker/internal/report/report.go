// Package report collects rule obligations, applies the known-findings file and writes evidence.
package report

import (
	"encoding/json"
	"fmt"
	"os"
	"path/filepath"
	"sort"
	"strings"
	"time"
)

// Status of one obligation.
type Status string

const (
	Holds     Status = "holds"
	Violation Status = "violation"
	Undecided Status = "undecided"
)

// Obligation is one rule instance evaluated on the current tree.
type Obligation struct {
	Rule   string `json:"rule"`
	Key    string `json:"key"` // rule@construct, never a line number
	Pos    string `json:"pos,omitempty"`
	Status Status `json:"status"`
	Msg    string `json:"msg,omitempty"`
}

// KnownFinding is one entry of /verif/known_findings.json.
type KnownFinding struct {
	Property string `json:"property"`
	Key      string `json:"key"`
	Status   string `json:"status"` // known | fixed
	Commit   string `json:"commit,omitempty"`
	What     string `json:"what"`
	Witness  string `json:"witness,omitempty"`
	ID       string `json:"id,omitempty"`
}

// Run is the state of one property check.
type Run struct {
	Property    string
	Tier        string
	Seed        int
	VerifDir    string
	start       time.Time
	Obligations []Obligation
	RuleDocs    map[string]string
	ruleOrder   []string
	Inventory   map[string]any
	Samples     []any
	Analysed    map[string]any
	Explanation string
	NotDecided  string
	Assumptions []string
	seenKeys    map[string]bool
}

// New creates a run.
func New(property, tier, verifDir string, seed int) *Run {
	return &Run{Property: property, Tier: tier, VerifDir: verifDir, Seed: seed, start: time.Now(),
		RuleDocs: map[string]string{}, Inventory: map[string]any{}, Analysed: map[string]any{}, seenKeys: map[string]bool{}}
}

// Rule registers the human description of a rule (shown in evidence).
func (r *Run) Rule(id, doc string) {
	if _, ok := r.RuleDocs[id]; !ok {
		r.ruleOrder = append(r.ruleOrder, id)
	}
	r.RuleDocs[id] = doc
}

func (r *Run) add(o Obligation) {
	k := o.Key
	// keep keys unique: a second instance with the same construct gets a #n suffix (stable: order of discovery is sorted by callers)
	if r.seenKeys[k] {
		for i := 2; ; i++ {
			k2 := fmt.Sprintf("%s#%d", o.Key, i)
			if !r.seenKeys[k2] {
				k = k2
				break
			}
		}
	}
	r.seenKeys[k] = true
	o.Key = k
	r.Obligations = append(r.Obligations, o)
}

// Check records an obligation that holds iff ok.
func (r *Run) Check(rule, construct, pos string, ok bool, msg string) bool {
	st := Holds
	if !ok {
		st = Violation
	}
	// reaching conditions can be very long: an evidence file of several megabytes helps nobody
	if limit := map[bool]int{true: 600, false: 6000}[ok]; len(msg) > limit {
		msg = msg[:limit] + " …(cut)"
	}
	r.add(Obligation{Rule: rule, Key: rule + "@" + construct, Pos: pos, Status: st, Msg: msg})
	return ok
}

// Undecided records that a rule could not be evaluated (fails the check).
func (r *Run) Undecided(rule, construct, why string) {
	r.add(Obligation{Rule: rule, Key: rule + "@" + construct, Status: Undecided, Msg: why})
}

// Floor requires at least min anchors for a rule (a rule matching nothing passes vacuously forever).
func (r *Run) Floor(rule, what string, got, min int) {
	if got < min {
		r.Undecided(rule, "floor:"+what, fmt.Sprintf("found %d %s, expected at least %d (anchor lost: rule would pass vacuously)", got, what, min))
		return
	}
	r.add(Obligation{Rule: rule, Key: rule + "@floor:" + what, Status: Holds, Msg: fmt.Sprintf("%d %s (floor %d)", got, what, min)})
}

// Note stores a measured fact in the evidence inventory.
func (r *Run) Note(key string, v any) { r.Inventory[key] = v }

// Sample adds a sample case to the evidence (kept to a bounded number).
func (r *Run) Sample(v any) {
	if len(r.Samples) < 12 {
		r.Samples = append(r.Samples, v)
	}
}

// LoadKnown reads the known-findings file.
func LoadKnown(verifDir string) ([]KnownFinding, error) {
	b, err := os.ReadFile(filepath.Join(verifDir, "known_findings.json"))
	if err != nil {
		if os.IsNotExist(err) {
			return nil, nil
		}
		return nil, err
	}
	var f struct {
		Findings []KnownFinding `json:"findings"`
	}
	if err := json.Unmarshal(b, &f); err != nil {
		return nil, fmt.Errorf("known_findings.json: %w", err)
	}
	return f.Findings, nil
}

// Finish prints verdict lines, writes evidence (and replay files for violations) and returns the exit code.
func (r *Run) Finish(fatal error) int {
	known, kerr := LoadKnown(r.VerifDir)
	if kerr != nil && fatal == nil {
		fatal = kerr
	}
	knownKeys := map[string]KnownFinding{}
	for _, k := range known {
		if k.Property == r.Property && k.Status == "known" {
			knownKeys[k.Key] = k
		}
	}
	sort.SliceStable(r.Obligations, func(i, j int) bool { return r.Obligations[i].Key < r.Obligations[j].Key })

	evDir := filepath.Join(r.VerifDir, "evidence")
	_ = os.MkdirAll(filepath.Join(evDir, "replay"), 0o755)
	// remove stale replay files of this property
	if old, _ := filepath.Glob(filepath.Join(evDir, "replay", r.Property+"-*.json")); old != nil {
		for _, f := range old {
			_ = os.Remove(f)
		}
	}

	exit := 0
	nViol, nKnown, nUndec, nHold := 0, 0, 0, 0
	var knownLines []string
	var violLines []string
	for _, o := range r.Obligations {
		switch o.Status {
		case Holds:
			nHold++
		case Violation, Undecided:
			if kf, ok := knownKeys[o.Key]; ok && o.Status == Violation {
				nKnown++
				knownLines = append(knownLines, fmt.Sprintf("KNOWN-FINDING: property=%s %s %s — %s", r.Property, o.Key, o.Pos, kf.What))
				continue
			}
			if o.Status == Undecided {
				nUndec++
			} else {
				nViol++
			}
			exit = 1
			name := fmt.Sprintf("%s-%s.json", r.Property, sanitize(o.Key))
			path := filepath.Join(evDir, "replay", name)
			rec := map[string]any{"property": r.Property, "kind": string(o.Status), "rule": o.Rule, "key": o.Key, "pos": o.Pos,
				"msg": o.Msg, "rule_doc": r.RuleDocs[o.Rule], "tier": r.Tier}
			b, _ := json.MarshalIndent(rec, "", " ")
			_ = os.WriteFile(path, b, 0o644)
			fmt.Printf("%s: %s %s: %s\n", strings.ToUpper(string(o.Status)), o.Key, o.Pos, o.Msg)
			violLines = append(violLines, fmt.Sprintf("VIOLATION property=%s replay=%s", r.Property, path))
		}
	}
	if fatal != nil {
		exit = 1
		path := filepath.Join(evDir, "replay", r.Property+"-fatal.json")
		rec := map[string]any{"property": r.Property, "kind": "undecided", "key": "fatal", "msg": fatal.Error(), "tier": r.Tier}
		b, _ := json.MarshalIndent(rec, "", " ")
		_ = os.WriteFile(path, b, 0o644)
		fmt.Printf("UNDECIDED: fatal: %v\n", fatal)
		violLines = append(violLines, fmt.Sprintf("VIOLATION property=%s replay=%s", r.Property, path))
	}
	for _, l := range knownLines {
		fmt.Println(l)
	}
	for _, l := range violLines {
		fmt.Println(l)
	}

	// evidence
	perRule := map[string]map[string]int{}
	for _, o := range r.Obligations {
		m := perRule[o.Rule]
		if m == nil {
			m = map[string]int{}
			perRule[o.Rule] = m
		}
		m[string(o.Status)]++
	}
	var rules []map[string]any
	for _, id := range r.ruleOrder {
		rules = append(rules, map[string]any{"rule": id, "doc": r.RuleDocs[id], "instances": perRule[id]})
	}
	var obl []Obligation
	obl = append(obl, r.Obligations...)
	samples := r.Samples
	if len(samples) == 0 {
		for i, o := range r.Obligations {
			if i >= 5 {
				break
			}
			samples = append(samples, o)
		}
	}
	if len(samples) == 0 {
		samples = []any{"no obligation evaluated"}
	}
	distinct := map[string]bool{}
	for _, o := range r.Obligations {
		if !strings.Contains(o.Key, "@floor:") {
			distinct[o.Key] = true
		}
	}
	expl := r.Explanation
	if r.NotDecided != "" {
		expl += " NOT DECIDED: " + r.NotDecided
	}
	if expl == "" {
		expl = "static rules over the type-checked program and SSA of /repo; see rules"
	}
	cov := map[string]any{
		"explanation":         expl,
		"obligations":         len(r.Obligations),
		"discharged":          nHold,
		"known_findings":      nKnown,
		"undecided":           nUndec,
		"evaluations":         len(r.Obligations),
		"distinct_nontrivial": len(distinct),
		"rule":                "one obligation per (rule, construct) instance found in /repo's current source; distinct = distinct keys excluding anchor-floor obligations",
		"samples":             samples,
		"rules":               rules,
		"instances":           obl,
		"inventory":           r.Inventory,
		"analysed":            r.Analysed,
		"checker_cmd":         fmt.Sprintf("bin/cvcheck -property %s -tier %s", r.Property, r.Tier),
		"trusted_base":        []string{"go/packages + go/types + go/ssa (x/tools v0.29.0)", "the rule tables in /verif/checker/internal/rules"},
	}
	ev := map[string]any{
		"property_id": r.Property,
		"tier":        r.Tier,
		"seed":        r.Seed,
		"level":       "other",
		"coverage":    cov,
		"assumptions": append([]string{"/repo type-checks; module code uses neither reflect nor unsafe (asserted by the loader)"}, r.Assumptions...),
		"wall_s":      time.Since(r.start).Seconds(),
		"violations":  nViol + nUndec,
	}
	b, _ := json.MarshalIndent(ev, "", " ")
	if err := os.WriteFile(filepath.Join(evDir, r.Property+".json"), b, 0o644); err != nil {
		fmt.Printf("cannot write evidence: %v\n", err)
		return 1
	}
	fmt.Printf("%s tier=%s obligations=%d holds=%d known=%d violations=%d undecided=%d wall=%.1fs\n", r.Property, r.Tier,
		len(r.Obligations), nHold, nKnown, nViol, nUndec, time.Since(r.start).Seconds())
	return exit
}

func sanitize(s string) string {
	var sb strings.Builder
	for _, c := range s {
		switch {
		case c >= 'a' && c <= 'z', c >= 'A' && c <= 'Z', c >= '0' && c <= '9', c == '-', c == '_', c == '.':
			sb.WriteRune(c)
		default:
			sb.WriteByte('_')
		}
	}
	out := sb.String()
	if len(out) > 120 {
		out = out[:120]
	}
	return out
}
