package rules

import (
	"go/token"
	"go/types"
	"sort"
	"strings"

	"cvcheck/internal/core"

	"golang.org/x/tools/go/ssa"
)

// Effect classes of calls from module code to non-module code.
const (
	effPure   = "pure"
	effOut    = "stdout/stderr"
	effEnv    = "env/argv"
	effProc   = "process"
	effFSRead = "fs-read"
	effFSWrit = "fs-write"
	effNondet = "nondeterministic"
	effConc   = "concurrency"
	effUnk    = "unclassified"
)

// purePkgs: computational packages whose exported API neither touches the file system nor depends on time/randomness.
var purePkgs = map[string]bool{
	"bytes": true, "errors": true, "strings": true, "strconv": true, "unicode": true, "unicode/utf8": true, "unicode/utf16": true,
	"path": true, "regexp": true, "regexp/syntax": true, "sort": true, "slices": true, "maps": true, "math": true, "math/bits": true, "cmp": true,
	"go/ast": true, "go/token": true, "go/types": true, "go/format": true, "go/printer": true, "go/constant": true, "go/scanner": true, "go/doc/comment": true,
	"container/list": true, "container/heap": true, "encoding/json": true, "encoding/hex": true, "encoding/base64": true, "hash/fnv": true, "hash/crc32": true,
	"text/template": true, "text/tabwriter": true, "bufio": true, "io": true, "html": true, "fmt": true,
	"golang.org/x/tools/go/ast/astutil": true, "golang.org/x/tools/go/types/typeutil": true,
}

// per-function classification for packages that are not pure as a whole. Keys are "pkg.Func" or "(recv).Method" in CalleeName form.
var effTable = map[string]string{
	// fmt
	"fmt.Print": effOut, "fmt.Println": effOut, "fmt.Printf": effOut, "fmt.Fprint": effOut, "fmt.Fprintln": effOut, "fmt.Fprintf": effOut,
	"fmt.Scan": effEnv, "fmt.Scanln": effEnv, "fmt.Scanf": effEnv,
	// log
	"log.New": effPure, "(*log.Logger).Printf": effOut, "(*log.Logger).Println": effOut, "(*log.Logger).Print": effOut,
	"(*log.Logger).Fatalf": effProc, "(*log.Logger).Fatal": effProc, "(*log.Logger).Fatalln": effProc, "(*log.Logger).Panicf": effProc,
	"log.Printf": effOut, "log.Println": effOut, "log.Print": effOut, "log.Fatal": effProc, "log.Fatalf": effProc, "log.Fatalln": effProc,
	"(*log.Logger).SetOutput": effPure, "(*log.Logger).SetFlags": effPure, "(*log.Logger).SetPrefix": effPure,
	// flag
	"flag.Arg": effEnv, "flag.Args": effEnv, "flag.NArg": effEnv, "flag.Bool": effEnv, "flag.String": effEnv, "flag.Int": effEnv, "flag.Parse": effEnv, "flag.PrintDefaults": effOut,
	"flag.BoolVar": effEnv, "flag.StringVar": effEnv, "flag.IntVar": effEnv, "flag.Parsed": effEnv, "flag.NFlag": effEnv,
	// os
	"os.Getenv": effEnv, "os.LookupEnv": effEnv, "os.Environ": effEnv, "os.ExpandEnv": effEnv,
	"os.Exit": effProc,
	"os.Stat": effFSRead, "os.Lstat": effFSRead, "os.SameFile": effPure, "os.ReadFile": effFSRead, "os.Open": effFSRead, "os.ReadDir": effFSRead, "os.Readlink": effFSRead,
	"os.IsNotExist": effPure, "(os.DirEntry).Name": effPure, "(io/fs.DirEntry).Name": effPure, "(os.DirEntry).Type": effPure, "(io/fs.DirEntry).Type": effPure, "(os.DirEntry).IsDir": effPure, "(io/fs.DirEntry).IsDir": effPure,
	"(io/fs.FileMode).IsRegular": effPure, "(io/fs.FileMode).IsDir": effPure, "(io/fs.FileMode).Type": effPure, "(io/fs.FileMode).Perm": effPure, "os.IsExist": effPure, "os.IsPermission": effPure,
	"os.WriteFile": effFSWrit, "os.OpenFile": effFSWrit, "os.Create": effFSWrit, "os.CreateTemp": effFSWrit, "os.Remove": effFSWrit, "os.RemoveAll": effFSWrit,
	"os.Rename": effFSWrit, "os.Mkdir": effFSWrit, "os.MkdirAll": effFSWrit, "os.MkdirTemp": effFSWrit, "os.Chmod": effFSWrit, "os.Chown": effFSWrit, "os.Chtimes": effFSWrit,
	"os.Truncate": effFSWrit, "os.Symlink": effFSWrit, "os.Link": effFSWrit, "os.Chdir": effProc, "os.Setenv": effProc, "os.Unsetenv": effProc, "os.Clearenv": effProc,
	"(*os.File).Write": effFSWrit, "(*os.File).WriteString": effFSWrit, "(*os.File).WriteAt": effFSWrit, "(*os.File).Truncate": effFSWrit, "(*os.File).Close": effPure,
	"(*os.File).Sync": effFSWrit, "(*os.File).Read": effFSRead, "(*os.File).Name": effPure, "(*os.File).Stat": effFSRead, "(*os.File).Chmod": effFSWrit,
	"os.Getpid": effNondet, "os.Getppid": effNondet, "os.Getwd": effNondet, "os.Hostname": effNondet, "os.Getuid": effNondet, "os.TempDir": effEnv, "os.UserHomeDir": effEnv,
	"os.Executable": effEnv, "os.Pipe": effProc, "os.StartProcess": effProc, "os.FindProcess": effProc,
	// io/ioutil
	"io/ioutil.ReadFile": effFSRead, "io/ioutil.ReadDir": effFSRead, "io/ioutil.ReadAll": effPure, "io/ioutil.WriteFile": effFSWrit, "io/ioutil.TempFile": effFSWrit, "io/ioutil.TempDir": effFSWrit,
	// path/filepath
	"path/filepath.Abs": effNondet, "path/filepath.Walk": effFSRead, "path/filepath.WalkDir": effFSRead, "path/filepath.Glob": effFSRead, "path/filepath.EvalSymlinks": effFSRead,
	"path/filepath.Join": effPure, "path/filepath.Base": effPure, "path/filepath.Dir": effPure, "path/filepath.Ext": effPure, "path/filepath.Clean": effPure, "path/filepath.Rel": effPure,
	"path/filepath.IsAbs": effPure, "path/filepath.Split": effPure, "path/filepath.ToSlash": effPure, "path/filepath.FromSlash": effPure, "path/filepath.Match": effPure,
	// time
	"time.Now": effNondet, "time.Since": effNondet, "time.Until": effNondet, "time.Sleep": effNondet, "time.After": effNondet, "time.Tick": effNondet, "time.NewTimer": effNondet,
	// randomness
	"maps.Keys": effNondet, "maps.Values": effNondet, "maps.All": effNondet, // iteration order of a map
	"github.com/matoous/go-nanoid.Nanoid": effNondet, "github.com/matoous/go-nanoid.ID": effNondet, "github.com/matoous/go-nanoid.Generate": effNondet,
	// parsing / loading
	"go/parser.ParseFile": effPure, "go/parser.ParseExpr": effPure, "go/parser.ParseDir": effFSRead,
	"golang.org/x/tools/go/packages.Load": effFSRead, "golang.org/x/tools/go/packages.Visit": effPure, "golang.org/x/tools/go/packages.PrintErrors": effOut,
	"golang.org/x/tools/imports.Process": effFSRead,
	"(error).Error":                      effPure,
}

// nondetPkgs: any call into these is nondeterministic / concurrent unless listed above.
var nondetPkgs = map[string]string{
	"math/rand": effNondet, "math/rand/v2": effNondet, "crypto/rand": effNondet, "time": effNondet, "runtime": effNondet,
	"sync": effConc, "sync/atomic": effConc, "context": effConc, "os/exec": effProc, "os/signal": effProc, "syscall": effProc, "net": effProc, "net/http": effProc,
	"os/user": effEnv,
}

func calleePkg(name string) string {
	s := name
	if strings.HasPrefix(s, "(") {
		s = strings.TrimPrefix(s, "(")
		s = strings.TrimPrefix(s, "*")
		if i := strings.Index(s, ")"); i >= 0 {
			s = s[:i]
		}
		// pkg/path.Type
		if i := strings.LastIndex(s, "."); i >= 0 {
			return s[:i]
		}
		return s
	}
	if i := strings.LastIndex(s, "."); i >= 0 {
		return s[:i]
	}
	return s
}

// classify returns the effect class of an external callee name.
func classify(name string) string {
	if strings.HasPrefix(name, "builtin:") {
		return effPure
	}
	if e, ok := effTable[name]; ok {
		return e
	}
	if strings.HasSuffix(name, ".init") {
		return effPure
	}
	pkg := calleePkg(name)
	if e, ok := nondetPkgs[pkg]; ok {
		return e
	}
	if purePkgs[pkg] {
		return effPure
	}
	// short-qualified invoke names such as "(types.Type).String" / "(model.Node).ExprType" / "(error).Error"
	if strings.HasPrefix(name, "(types.") || strings.HasPrefix(name, "(model.") || strings.HasPrefix(name, "(ast.") || strings.HasPrefix(name, "(io.") || strings.HasPrefix(name, "(fmt.") {
		return effPure
	}
	return effUnk
}

// ExtCall is one call from module code to non-module code.
type ExtCall struct {
	Site   Site
	Class  string
	Callee string
}

func isModuleCallee(n string) bool {
	return strings.HasPrefix(n, mod) || strings.HasPrefix(n, "("+mod) || strings.HasPrefix(n, "(*"+mod)
}

// ExternalCalls inventories all calls from module code to external functions with their effect class.
// Dynamic calls (function values) are resolved to module closures elsewhere and not listed.
func (c *Ctx) ExternalCalls() []ExtCall {
	var out []ExtCall
	for _, s := range c.Calls(nil) {
		if s.Callee == "" || isModuleCallee(s.Callee) {
			continue
		}
		class := classify(s.Callee)
		if c.isStdStreamWrite(s) {
			class = effOut // os.Stdout.Write / os.Stderr.WriteString: a print, not a file mutation
		}
		out = append(out, ExtCall{Site: s, Callee: s.Callee, Class: class})
	}
	sort.SliceStable(out, func(i, j int) bool {
		if out[i].Callee != out[j].Callee {
			return out[i].Callee < out[j].Callee
		}
		return FnKey(out[i].Site.Fn) < FnKey(out[j].Site.Fn)
	})
	return out
}

// isStdStreamWrite: (*os.File).Write / WriteString whose receiver is os.Stdout or os.Stderr.
func (c *Ctx) isStdStreamWrite(s Site) bool {
	if s.Callee != "(*os.File).Write" && s.Callee != "(*os.File).WriteString" {
		return false
	}
	recv := c.O.Of(s.Args()[0])
	return recv.Is("global", "os.Stdout") || recv.Is("global", "os.Stderr")
}

// stdoutPrint recognises a print of bytes on stdout: fmt.Print(string(X)), fmt.Println(string(X)) (adds a newline: not
// exact), os.Stdout.Write(X), os.Stdout.WriteString(string(X)). It returns the term of X.
func (c *Ctx) stdoutPrint(s Site) (val *core.Term, exact, ok bool) {
	switch s.Callee {
	case "fmt.Print", "fmt.Println":
		a := c.varargAt(s.Args()[0], 0)
		if a == nil || a.Kind != "convert" || a.Name != "string" {
			return nil, false, false
		}
		return a.Args[0], s.Callee == "fmt.Print", true
	case "(*os.File).Write", "(*os.File).WriteString":
		if !c.O.Of(s.Args()[0]).Is("global", "os.Stdout") {
			return nil, false, false
		}
		a := c.O.Of(s.Args()[1])
		if s.Callee == "(*os.File).WriteString" {
			if a.Kind != "convert" || a.Name != "string" {
				return nil, false, false
			}
			a = a.Args[0]
		}
		return a, true, true
	}
	return nil, false, false
}

func isStdoutPrintCallee(n string) bool {
	return n == "fmt.Println" || n == "fmt.Print" || n == "(*os.File).Write" || n == "(*os.File).WriteString"
}

// reachableFromMain computes the module functions reachable from main.main through static calls, closures
// created, method values and interface invokes (resolved to every module implementer: CHA inside the module).
func (c *Ctx) reachableFrom(roots ...*ssa.Function) map[*ssa.Function]bool {
	seen := map[*ssa.Function]bool{}
	var work []*ssa.Function
	push := func(f *ssa.Function) {
		if f != nil && !seen[f] && f.Blocks != nil {
			seen[f] = true
			work = append(work, f)
		}
	}
	for _, r := range roots {
		push(r)
	}
	// package initialisers of module packages run too
	for _, sp := range c.P.SSAPkgs {
		push(sp.Func("init"))
	}
	for len(work) > 0 {
		f := work[len(work)-1]
		work = work[:len(work)-1]
		for _, b := range f.Blocks {
			for _, in := range b.Instrs {
				// any function value mentioned
				var ops [16]*ssa.Value
				for _, op := range in.Operands(ops[:0]) {
					if op == nil || *op == nil {
						continue
					}
					switch v := (*op).(type) {
					case *ssa.Function:
						push(v)
					case *ssa.MakeClosure:
						push(v.Fn.(*ssa.Function))
					}
				}
				if ci, ok := in.(ssa.CallInstruction); ok && ci.Common().IsInvoke() {
					m := ci.Common().Method
					recvT := ci.Common().Value.Type()
					if iface, ok := recvT.Underlying().(*types.Interface); ok {
						for _, named := range c.P.Implementers(iface) {
							for _, T := range []types.Type{named, types.NewPointer(named)} {
								sel := c.P.SSA.MethodSets.MethodSet(T).Lookup(m.Pkg(), m.Name())
								if sel != nil {
									push(c.P.SSA.MethodValue(sel))
								}
							}
						}
					}
				}
			}
		}
	}
	return seen
}

// mainFunc returns main.main.
func (c *Ctx) mainFunc() *ssa.Function {
	sp := c.P.SSAPkgs[mod]
	if sp == nil {
		return nil
	}
	return sp.Func("main")
}

// mapRanges lists `range` statements over maps in module code.
func (c *Ctx) mapRanges() []*ssa.Range {
	var out []*ssa.Range
	for _, fn := range c.P.Funcs() {
		for _, b := range fn.Blocks {
			for _, in := range b.Instrs {
				if rg, ok := in.(*ssa.Range); ok {
					if _, isMap := rg.X.Type().Underlying().(*types.Map); isMap {
						out = append(out, rg)
					}
				}
			}
		}
	}
	return out
}

// goStmts lists go statements / selects / channel operations in module code.
func (c *Ctx) concurrencyOps() []ssa.Instruction {
	var out []ssa.Instruction
	for _, fn := range c.P.Funcs() {
		for _, b := range fn.Blocks {
			for _, in := range b.Instrs {
				switch x := in.(type) {
				case *ssa.Go, *ssa.Select, *ssa.Send, *ssa.MakeChan:
					out = append(out, in)
				case *ssa.UnOp:
					if x.Op == token.ARROW {
						out = append(out, in)
					}
				}
			}
		}
	}
	return out
}

// capturedStores returns the values stored (anywhere in the enclosing function tree) into the variable
// that closure fn captures as free variable fv.
func capturedStores(fn *ssa.Function, fv *ssa.FreeVar) []ssa.Value {
	idx := -1
	for i, f := range fn.FreeVars {
		if f == fv {
			idx = i
		}
	}
	parent := fn.Parent()
	if idx < 0 || parent == nil {
		return nil
	}
	var cell ssa.Value
	for _, b := range parent.Blocks {
		for _, in := range b.Instrs {
			if mc, ok := in.(*ssa.MakeClosure); ok && mc.Fn == fn && idx < len(mc.Bindings) {
				cell = mc.Bindings[idx]
			}
		}
	}
	if cell == nil {
		return nil
	}
	if pfv, ok := cell.(*ssa.FreeVar); ok {
		return capturedStores(parent, pfv)
	}
	var out []ssa.Value
	var scan func(f *ssa.Function, addr ssa.Value)
	scan = func(f *ssa.Function, addr ssa.Value) {
		for _, b := range f.Blocks {
			for _, in := range b.Instrs {
				if st, ok := in.(*ssa.Store); ok && st.Addr == addr {
					out = append(out, st.Val)
				}
				if mc, ok := in.(*ssa.MakeClosure); ok {
					for i, bnd := range mc.Bindings {
						if bnd == addr {
							cf := mc.Fn.(*ssa.Function)
							scan(cf, cf.FreeVars[i])
						}
					}
				}
			}
		}
	}
	scan(parent, cell)
	return out
}

var _ = core.ModPath
