package rules

import (
	"go/token"
	"go/types"
	"strings"

	"cvcheck/internal/core"

	"golang.org/x/tools/go/ssa"
)

// exprTypeOf matches a term "X.ExprType()" where X renders as node.
func exprTypeOf(node string) func(*core.Term) bool {
	return func(t *core.Term) bool {
		return t.IsCallTo(invExprType) && len(t.Args) == 1 && t.Args[0].String() == node
	}
}

func isStringTypeTerm(t *core.Term) bool {
	if t.IsCallTo(fnStringType) {
		return true
	}
	// types.Typ[types.String]
	if t.Kind == "index" && len(t.Args) == 2 && t.Args[0].Is("global", "types.Typ") && t.Args[1].Is("const", "17") {
		return true
	}
	// types.Universe.Lookup("string").Type()
	if t.Kind == "invoke" && t.Name == "(types.Object).Type" && len(t.Args) == 1 {
		l := t.Args[0]
		if l.IsCallTo("(*go/types.Scope).Lookup") && len(l.Args) == 2 && l.Args[1].Is("const", `"string"`) {
			return true
		}
	}
	return false
}

// defaultMatcher finds the function(s) that call both IterateStructMethods and IterateStructFields
// (the default name matcher).
func (c *Ctx) defaultMatchers() []*ssa.Function {
	var out []*ssa.Function
	for _, fn := range c.P.Funcs() {
		if len(c.CallsIn(fn, fnIterMethods, false)) > 0 && len(c.CallsIn(fn, fnIterFields, false)) > 0 {
			out = append(out, fn)
		}
	}
	return out
}

// C04 — default matching: same name, compatible type, opted-in conversions only.
func C04(c *Ctx) {
	r := c.R
	r.Explanation = "Decided for all inputs: every place where the builder can create a String() wrapper, a type conversion, a converting slice loop, " +
		"a getter-based or name-based candidate is control-dominated (reaching condition ⇒ …) by its opt-in flag and by the go/types judgement that " +
		"justifies it, with the operands in the right direction; the name/getter/stringer predicates have exactly the documented shape."
	r.NotDecided = "which of several equally named candidates is chosen; results of member-wise descent; go/types' own judgement of assignability."

	r.Rule("C04-1", "every bmodel.NewStringer(X) call: reach ⇒ ¬AssignableTo(X.ExprType(),T) ∧ Options.Stringer ∧ AssignableTo(string,T) ∧ CompliesStringer(X.ExprType())")
	sites := c.CallsTo(fnNewStringer)
	r.Floor("C04-1", "NewStringer call sites", len(sites), 1)
	for _, s := range sites {
		x := c.O.Of(s.Args()[0]).String()
		d := c.ReachOf(s.Instr)
		key := FnKey(s.Fn) + ":NewStringer"
		pos := c.Pos(s.Pos())
		r.Check("C04-1", key+":optin", pos, d.Implies(c.M(true, isField(fldStringer))), "String() wrapper not dominated by Options.Stringer == true; reach: "+d.Describe(c.O))
		r.Check("C04-1", key+":complies", pos, d.Implies(c.M(true, isCall(fnCompliesStringer, exprTypeOf(x)))), "String() wrapper not dominated by CompliesStringer(X.ExprType()); reach: "+d.Describe(c.O))
		// T candidates
		okT := false
		for _, T := range c.candidateT(d, x) {
			if d.Implies(c.M(false, isCall(fnAssignable, exprTypeOf(x), termEq(T)))) &&
				d.Implies(c.M(true, isCall(fnAssignable, isStringTypeTerm, termEq(T)))) {
				okT = true
			}
		}
		r.Check("C04-1", key+":types", pos, okT, "String() wrapper needs ¬AssignableTo(X.ExprType(),T) ∧ AssignableTo(string,T) for one target T; reach: "+d.Describe(c.O))
	}

	r.Rule("C04-2", "every bmodel.NewTypecast(_,_,T,X) call: reach ⇒ ¬AssignableTo(X.ExprType(),T) ∧ Options.Typecast ∧ ConvertibleTo(X.ExprType(),T)")
	sites = c.CallsTo(fnNewTypecast)
	r.Floor("C04-2", "NewTypecast call sites", len(sites), 1)
	for _, s := range sites {
		if len(s.Args()) < 4 {
			r.Undecided("C04-2", FnKey(s.Fn)+":NewTypecast", "unexpected arity")
			continue
		}
		T := c.O.Of(s.Args()[2]).String()
		x := c.O.Of(s.Args()[3]).String()
		d := c.ReachOf(s.Instr)
		key := FnKey(s.Fn) + ":NewTypecast"
		pos := c.Pos(s.Pos())
		r.Check("C04-2", key+":optin", pos, d.Implies(c.M(true, isField(fldTypecast))), "conversion not dominated by Options.Typecast == true; reach: "+d.Describe(c.O))
		r.Check("C04-2", key+":convertible", pos, d.Implies(c.M(true, isCall(fnConvertible, exprTypeOf(x), termEq(T)))), "conversion not dominated by ConvertibleTo(X.ExprType(), T) (operands in this order); reach: "+d.Describe(c.O))
		r.Check("C04-2", key+":notassignable", pos, d.Implies(c.M(false, isCall(fnAssignable, exprTypeOf(x), termEq(T)))), "conversion emitted although direct assignment was not ruled out; reach: "+d.Describe(c.O))
	}

	r.Rule("C04-11", "ladder order: a conversion is attempted only when the String() rung did not apply: every NewTypecast call is reached only if ¬Options.Stringer ∨ ¬AssignableTo(string,T) ∨ ¬CompliesStringer(X.ExprType()) (with both :stringer and :typecast on, a Stringer source must be rendered with .String(), not string(x))")
	for _, s := range c.CallsTo(fnNewTypecast) {
		if len(s.Args()) < 4 {
			continue
		}
		T := c.O.Of(s.Args()[2]).String()
		x := c.O.Of(s.Args()[3]).String()
		d := c.ReachOf(s.Instr)
		ok := d.Implies(c.M(false, isField(fldStringer)), c.M(false, isCall(fnAssignable, isStringTypeTerm, termEq(T))), c.M(false, isCall(fnCompliesStringer, exprTypeOf(x))))
		r.Check("C04-11", FnKey(s.Fn)+":typecast-after-stringer", c.Pos(s.Pos()), ok, "a conversion can be chosen although the String() rung applies (string(x) of a Stringer yields a rune string, not its text); reach: "+d.Describe(c.O))
	}

	r.Rule("C04-3", "every gmodel.SliceTypecastAssignment literal: reach ⇒ Options.Typecast ∧ ConvertibleTo(elem(RHS node), elem(LHS node)) ∧ ¬AssignableTo(same)")
	if named := c.MustType("C04-3", "/pkg/generator/model", "SliceTypecastAssignment"); named != nil {
		lits := c.Lits(named)
		r.Floor("C04-3", "SliceTypecastAssignment literals", len(lits), 1)
		for _, a := range lits {
			c.sliceLitRule("C04-3", a, true)
		}
	}
	r.Rule("C04-10", "every gmodel.SliceAssignment / SliceLoopAssignment literal: reach ⇒ AssignableTo(elem(RHS node), elem(LHS node))")
	n := 0
	for _, tn := range []string{"SliceAssignment", "SliceLoopAssignment"} {
		if named := c.MustType("C04-10", "/pkg/generator/model", tn); named != nil {
			for _, a := range c.Lits(named) {
				n++
				c.sliceLitRule("C04-10", a, false)
			}
		}
	}
	r.Floor("C04-10", "slice copy literals", n, 2)

	r.Rule("C04-4", "getter pass IterateStructMethods(src, h) in the default matcher: reach ⇒ Options.Getter ∧ Options.Rule == name; it is never preceded by the field pass and the field pass runs only if the getter pass found nothing")
	r.Rule("C04-5", "field pass IterateStructFields(src, h) in the default matcher: reach ⇒ Options.Rule == name")
	r.Rule("C04-8", "gmodel.NoMatchField in the default matcher is reachable only via the getter pass (or Getter off) and via the field pass (or Rule != name)")
	dms := c.defaultMatchers()
	r.Floor("C04-4", "default matcher functions (call both Iterate helpers)", len(dms), 1)
	ruleIsName := c.M(true, eqConst(isField(fldRule), `"name"`))
	for _, fn := range dms {
		ms := c.CallsIn(fn, fnIterMethods, false)
		fs := c.CallsIn(fn, fnIterFields, false)
		rc := c.Reach(fn)
		for _, m := range ms {
			d := c.ReachOf(m.Instr)
			key := FnKey(fn) + ":getterpass"
			r.Check("C04-4", key+":optin", c.Pos(m.Pos()), d.Implies(c.M(true, isField(fldGetter))), "getter pass not dominated by Options.Getter == true; reach: "+d.Describe(c.O))
			r.Check("C04-4", key+":rule", c.Pos(m.Pos()), d.Implies(ruleIsName), "getter pass (a match by name) not dominated by Options.Rule == name: `:match none` + `:getter` still matches getters by name; reach: "+d.Describe(c.O))
			for _, f := range fs {
				r.Check("C04-4", key+":order", c.Pos(f.Pos()), !rc.CanReach(f.Instr.Block(), m.Instr.Block()) || f.Instr.Block() == m.Instr.Block(),
					"the field pass can run before the getter pass (getters must win)")
			}
		}
		// result variable(s): allocs loaded into result 0 of a return
		resAllocs := map[*ssa.Alloc]bool{}
		for _, ret := range core.Returns(fn) {
			if len(ret.Results) > 0 {
				if u, ok := ret.Results[0].(*ssa.UnOp); ok {
					if al, ok := u.X.(*ssa.Alloc); ok {
						resAllocs[al] = true
					}
				}
			}
		}
		resIsNil := func(l core.Lit) bool {
			t, pos := c.Canon(l)
			if !pos || t.Kind != "binop" || t.Name != "==" {
				return false
			}
			for i := 0; i < 2; i++ {
				if t.Args[i].Is("const", "nil") {
					if u, ok := t.Args[1-i].V.(*ssa.UnOp); ok {
						if al, ok := u.X.(*ssa.Alloc); ok && resAllocs[al] {
							return true
						}
					}
				}
			}
			return false
		}
		for _, f := range fs {
			d := c.ReachOf(f.Instr)
			key := FnKey(fn) + ":fieldpass"
			r.Check("C04-5", key+":rule", c.Pos(f.Pos()), d.Implies(ruleIsName), "field pass not dominated by Options.Rule == name; reach: "+d.Describe(c.O))
			if len(ms) > 0 {
				r.Check("C04-4", key+":getterswin", c.Pos(f.Pos()), d.Implies(c.M(false, isField(fldGetter)), resIsNil),
					"field pass can run although the getter pass already produced a result (getters must win); reach: "+d.Describe(c.O))
			}
		}
		// C04-8
		if nm := c.P.LookupType("/pkg/generator/model", "NoMatchField"); nm != nil {
			for _, a := range c.Lits(nm) {
				if a.Parent() != fn {
					continue
				}
				key := FnKey(fn) + ":nomatch"
				for _, m := range ms {
					av := c.ReachAvoid(fn, map[*ssa.BasicBlock]bool{m.Instr.Block(): true})
					d := av.At(a.Block())
					r.Check("C04-8", key+":aftergetters", c.InstrPos(a), d.Implies(c.M(false, isField(fldGetter)), c.M(false, eqConst(isField(fldRule), `"name"`))), "no-match verdict reachable without running the getter pass while Getter is on and Rule == name; reach avoiding the pass: "+d.Describe(c.O))
				}
				for _, f := range fs {
					av := c.ReachAvoid(fn, map[*ssa.BasicBlock]bool{f.Instr.Block(): true})
					d := dropStaleLoadContradictions(av.At(a.Block()), map[*ssa.BasicBlock]bool{f.Instr.Block(): true})
					r.Check("C04-8", key+":afterfields", c.InstrPos(a), d.Implies(c.M(false, eqConst(isField(fldRule), `"name"`))), "no-match verdict reachable without running the field pass while Rule == name; reach avoiding the pass: "+d.Describe(c.O))
				}
			}
		}
	}

	r.Rule("C04-6", "in the candidate handler (closure given to the Iterate helpers by the default matcher) every write to a captured result variable: reach ⇒ CompareFieldName(dst.ObjName(), cand.ObjName()) ∧ source-side visibility(cand.ObjName())")
	nh := 0
	for _, fn := range dms {
		handlers := map[*ssa.Function]bool{}
		for _, s := range append(c.CallsIn(fn, fnIterMethods, false), c.CallsIn(fn, fnIterFields, false)...) {
			if len(s.Args()) == 2 {
				if mc, ok := s.Args()[1].(*ssa.MakeClosure); ok {
					handlers[mc.Fn.(*ssa.Function)] = true
				}
			}
		}
		for h := range handlers {
			if len(h.Params) != 1 {
				r.Undecided("C04-6", FnKey(h), "handler does not take exactly one candidate node")
				continue
			}
			cand := "param:" + h.Params[0].Name()
			stores := 0
			for _, b := range h.Blocks {
				for _, in := range b.Instrs {
					st, ok := in.(*ssa.Store)
					if !ok {
						continue
					}
					fv, ok := st.Addr.(*ssa.FreeVar)
					if !ok {
						continue
					}
					stores++
					nh++
					d := c.ReachOf(st)
					key := FnKey(h) + ":store:" + fv.Name()
					cmp := c.M(true, func(t *core.Term) bool {
						if !t.IsCallTo("("+pOpt+"Options).CompareFieldName") || len(t.Args) != 3 {
							return false
						}
						a, b := t.Args[1], t.Args[2]
						isCand := func(x *core.Term) bool {
							return x.IsCallTo(invObjName) && x.Args[0].String() == cand
						}
						isDst := func(x *core.Term) bool {
							return x.IsCallTo(invObjName) && (x.Args[0].Kind == "fv" || x.Args[0].Kind == "param") && x.Args[0].String() != cand
						}
						return (isCand(a) && isDst(b)) || (isCand(b) && isDst(a))
					})
					vis := c.M(true, func(t *core.Term) bool {
						if !t.IsCallTo("(*"+pBld+"assignmentBuilder).isStructFieldAccessible") || len(t.Args) != 3 {
							return false
						}
						x := t.Args[2]
						return x.IsCallTo(invObjName) && x.Args[0].String() == cand
					})
					r.Check("C04-6", key+":name", c.InstrPos(st), d.Implies(cmp), "result written for a candidate whose name was not compared with the destination name under the case rule; reach: "+d.Describe(c.O))
					r.Check("C04-6", key+":visible", c.InstrPos(st), d.Implies(vis), "result written for a candidate without the source-side visibility test; reach: "+d.Describe(c.O))
				}
			}
			if stores == 0 {
				r.Undecided("C04-6", FnKey(h), "handler writes no captured variable: idiom not recognised")
			}
		}
	}
	r.Floor("C04-6", "handler result writes", nh, 3)

	c.c04Predicates()
	c.typePredicateRule("C04-12")
	c.methodIterationRule("C04-13")
	c.nodeAccessorRule("C04-14")
	c.handlerStopRule("C04-15")
	c.stringerLookupRule("C04-16")

	r.Rule("C04-9", "cast ladder identity: a function that can wrap a node (calls NewTypecast/NewStringer) returns its node parameter X unchanged with ok=true only if reach ⇒ AssignableTo(X.ExprType(), T)")
	nid := 0
	for _, s := range append(c.CallsTo(fnNewTypecast), c.CallsTo(fnNewStringer)...) {
		fn := s.Fn
		if fn.Signature.Results().Len() != 2 {
			continue
		}
		for _, ret := range core.Returns(fn) {
			p, ok := ret.Results[0].(*ssa.Parameter)
			if !ok {
				continue
			}
			if k, ok := ret.Results[1].(*ssa.Const); !ok || k.Value == nil || k.Value.ExactString() != "true" {
				continue
			}
			nid++
			d := c.ReachOf(ret)
			x := "param:" + p.Name()
			ok2 := false
			for _, T := range c.candidateT(d, x) {
				if d.Implies(c.M(true, isCall(fnAssignable, exprTypeOf(x), termEq(T)))) {
					ok2 = true
				}
			}
			r.Check("C04-9", FnKey(fn)+":identity-return", c.InstrPos(ret), ok2, "node returned as directly assignable without AssignableTo(X.ExprType(), T) == true; reach: "+d.Describe(c.O))
		}
		break
	}
	r.Floor("C04-9", "identity returns in the cast ladder", nid, 1)
}

// candidateT lists the second operands of AssignableTo/ConvertibleTo(X.ExprType(), T) literals in d.
func (c *Ctx) candidateT(d core.DNF, x string) []string {
	set := map[string]bool{}
	for _, cj := range d {
		for _, l := range cj {
			t := l.TermOf(c.O)
			if (t.IsCallTo(fnAssignable) || t.IsCallTo(fnConvertible)) && len(t.Args) == 2 && exprTypeOf(x)(t.Args[0]) {
				set[t.Args[1].String()] = true
			}
		}
	}
	return sortedKeys(set)
}

// sliceLitRule checks one slice-assignment literal: its LHS/RHS fields are AssignExpr() of nodes L/R and the
// reaching condition contains the go/types judgement on (elem(R.ExprType()), elem(L.ExprType())).
func (c *Ctx) sliceLitRule(rule string, a *ssa.Alloc, typecast bool) {
	r := c.R
	fn := a.Parent()
	tn := core.ShortType(a.Type().Underlying().(*types.Pointer).Elem())
	key := FnKey(fn) + ":" + tn
	f := LitFields(a)
	nodeOf := func(v ssa.Value) string {
		if v == nil {
			return ""
		}
		t := c.O.Of(v)
		if t.IsCallTo(invAssignExpr) && len(t.Args) == 1 {
			return t.Args[0].String()
		}
		return ""
	}
	L, R := nodeOf(f["LHS"]), nodeOf(f["RHS"])
	if L == "" || R == "" {
		r.Undecided(rule, key, "LHS/RHS of the literal are not AssignExpr() of a node: idiom not recognised")
		return
	}
	if L == R {
		r.Check(rule, key+":operands", c.InstrPos(a), false, "LHS and RHS of the slice copy are rendered from the same node "+L)
		return
	}
	elemOf := func(node string) func(*core.Term) bool {
		return func(t *core.Term) bool {
			if t.IsCallTo(fnSliceElement) && len(t.Args) == 1 {
				return exprTypeOf(node)(t.Args[0])
			}
			// x.ExprType().(*types.Slice).Elem() etc.
			return t.Contains(func(s *core.Term) bool { return exprTypeOf(node)(s) }) && (t.IsCallTo("(*go/types.Slice).Elem"))
		}
	}
	d := c.ReachOf(a)
	pos := c.InstrPos(a)
	if typecast {
		r.Check(rule, key+":optin", pos, d.Implies(c.M(true, isField(fldTypecast))), "converting slice loop not dominated by Options.Typecast == true; reach: "+d.Describe(c.O))
		r.Check(rule, key+":convertible", pos, d.Implies(c.M(true, isCall(fnConvertible, elemOf(R), elemOf(L)))), "converting slice loop not dominated by ConvertibleTo(elem(RHS), elem(LHS)); reach: "+d.Describe(c.O))
		r.Check(rule, key+":notassignable", pos, d.Implies(c.M(false, isCall(fnAssignable, elemOf(R), elemOf(L)))), "converting loop emitted although plain element assignment was not ruled out; reach: "+d.Describe(c.O))
	} else {
		r.Check(rule, key+":assignable", pos, d.Implies(c.M(true, isCall(fnAssignable, elemOf(R), elemOf(L)))), "slice copy not dominated by AssignableTo(elem(RHS), elem(LHS)); reach: "+d.Describe(c.O))
	}
}

// c04Predicates checks the bodies of the matching predicates.
func (c *Ctx) c04Predicates() {
	r := c.R
	r.Rule("C04-7", "predicate bodies: CompareFieldName = (ExactCase ? a==b : strings.EqualFold(a,b)); CompliesGetter ⇔ 0 params ∧ 1 result ∧ ¬error; CompliesStringer ⇒ method String, 0 params, 1 result of type string")

	// CompareFieldName
	if fn := c.MustMethod("C04-7", "/pkg/option", "Options", "CompareFieldName"); fn != nil {
		c.caseSplitEquality("C04-7", fn, fldExactCase, "")
	}

	if fn := c.MustFunc("C04-7", "/pkg/util", "CompliesGetter"); fn != nil {
		rc := c.Reach(fn)
		p0 := "param:" + fn.Params[0].Name()
		sigOf := func(t *core.Term) bool {
			// m.Type().(*types.Signature)
			return t.Contains(func(s *core.Term) bool { return s.String() == p0 })
		}
		lenIs := func(tuple string, k string) func(*core.Term) bool {
			return eqConst(func(t *core.Term) bool {
				return t.IsCallTo("(*go/types.Tuple).Len") && t.Args[0].IsCallTo("(*go/types.Signature)."+tuple) && sigOf(t.Args[0])
			}, k)
		}
		isErr := func(t *core.Term) bool {
			if !t.IsCallTo(fnIsErrorType) {
				return false
			}
			a := t.Args[0] // Results().At(0).Type(): Type is promoted from the embedded go/types.object
			return a.Kind == "call" && strings.HasSuffix(a.Name, ").Type") && a.Contains(func(s *core.Term) bool {
				return s.IsCallTo("(*go/types.Tuple).At") && s.Args[1].Is("const", "0") && s.Args[0].IsCallTo("(*go/types.Signature).Results")
			})
		}
		tr := rc.RetCond(0, true)
		fl := rc.RetCond(0, false)
		key := FnKey(fn)
		pos := c.Pos(fn.Pos())
		r.Check("C04-7", key+":true⇒noparams", pos, tr.Implies(c.M(true, lenIs("Params", "0"))), "returns true without Params().Len() == 0; true-condition: "+tr.Describe(c.O))
		r.Check("C04-7", key+":true⇒oneresult", pos, tr.Implies(c.M(true, lenIs("Results", "1"))), "returns true without Results().Len() == 1; true-condition: "+tr.Describe(c.O))
		r.Check("C04-7", key+":true⇒noterror", pos, tr.Implies(c.M(false, isErr)), "returns true without ¬IsErrorType(result 0); true-condition: "+tr.Describe(c.O))
		r.Check("C04-7", key+":false⇒reason", pos, fl.Implies(c.M(false, lenIs("Params", "0")), c.M(false, lenIs("Results", "1")), c.M(true, isErr)),
			"returns false for a method that has no parameters and exactly one non-error result; false-condition: "+fl.Describe(c.O))
	}

	if fn := c.MustFunc("C04-7", "/pkg/util", "CompliesStringer"); fn != nil {
		rc := c.Reach(fn)
		tr := rc.RetCond(0, true)
		key := FnKey(fn)
		pos := c.Pos(fn.Pos())
		lookupString := func(t *core.Term) bool {
			return t.Contains(func(s *core.Term) bool {
				// addressable must be false: the rendered receiver may be a call result (getter), which cannot take a pointer method
				return s.IsCallTo("go/types.LookupFieldOrMethod") && len(s.Args) == 4 && s.Args[3].Is("const", `"String"`) && s.Args[1].Is("const", "false")
			})
		}
		lenIs := func(tuple, k string) func(*core.Term) bool {
			return eqConst(func(t *core.Term) bool {
				return t.IsCallTo("(*go/types.Tuple).Len") && t.Args[0].IsCallTo("(*go/types.Signature)."+tuple) && lookupString(t)
			}, k)
		}
		resIsString := func(t *core.Term) bool {
			// Results().At(0).Type().String() == "string"  or  types.Identical(.., string)
			if eqConst(func(x *core.Term) bool {
				return x.Kind == "invoke" && x.Name == "(types.Type).String" && lookupString(x) && x.Contains(func(s *core.Term) bool {
					return s.IsCallTo("(*go/types.Tuple).At") && s.Args[1].Is("const", "0") && s.Args[0].IsCallTo("(*go/types.Signature).Results")
				})
			}, `"string"`)(t) {
				return true
			}
			return false
		}
		r.Check("C04-7", key+":true⇒method-String", pos, tr.Implies(c.M(false, eqConst(lookupString, "nil"))), "returns true without having found a member named String; true-condition: "+tr.Describe(c.O))
		r.Check("C04-7", key+":true⇒noparams", pos, tr.Implies(c.M(true, lenIs("Params", "0"))), "returns true without Params().Len() == 0; true-condition: "+tr.Describe(c.O))
		r.Check("C04-7", key+":true⇒oneresult", pos, tr.Implies(c.M(true, lenIs("Results", "1"))), "returns true without Results().Len() == 1; true-condition: "+tr.Describe(c.O))
		r.Check("C04-7", key+":true⇒string", pos, tr.Implies(c.M(true, resIsString)), "returns true without result 0 being of type string; true-condition: "+tr.Describe(c.O))
		r.Check("C04-7", key+":true⇒signature", pos, tr.Implies(c.M(true, func(t *core.Term) bool {
			return t.Kind == "extract" && t.Name == "1" && t.Args[0].Kind == "typeassert,ok" && t.Args[0].Name == "*types.Signature" && lookupString(t)
		})), "returns true without the member being a function (comma-ok *types.Signature); true-condition: "+tr.Describe(c.O))
	}
}

// caseSplitEquality checks a (a,b [,exactCase]) predicate: under the case flag it returns a==b of its two
// string operands, otherwise strings.EqualFold of the same two operands.
// flagField is the field that carries the case rule ("" = the last bool parameter).
func (c *Ctx) caseSplitEquality(rule string, fn *ssa.Function, flagField string, _ string) {
	r := c.R
	key := FnKey(fn)
	pos := c.Pos(fn.Pos())
	var flag func(*core.Term) bool
	if flagField != "" {
		flag = isField(flagField)
	} else {
		var bp *ssa.Parameter
		for _, p := range fn.Params {
			if b, ok := p.Type().Underlying().(*types.Basic); ok && b.Kind() == types.Bool {
				bp = p
			}
		}
		if bp == nil {
			r.Undecided(rule, key, "no bool parameter carrying the case rule")
			return
		}
		flag = termEq("param:" + bp.Name())
	}
	// operands: the string-typed parameters or fields of the receiver
	isStr := func(t *core.Term) bool {
		if t.Type == nil {
			return false
		}
		b, ok := t.Type.Underlying().(*types.Basic)
		return ok && b.Info()&types.IsString != 0 && (t.Kind == "param" || t.Kind == "field")
	}
	n := 0
	for _, ret := range core.Returns(fn) {
		if len(ret.Results) != 1 {
			continue
		}
		n++
		d := c.ReachOf(ret)
		t := c.O.Of(ret.Results[0])
		exact := d.Implies(c.M(true, flag))
		fold := d.Implies(c.M(false, flag))
		k := sprintf("%s:return%d", key, n)
		switch {
		case exact && !fold:
			ok := t.Kind == "binop" && t.Name == "==" && isStr(t.Args[0]) && isStr(t.Args[1]) && t.Args[0].String() != t.Args[1].String()
			r.Check(rule, k+":exact", c.InstrPos(ret), ok, "under the exact-case rule the result must be `a == b` of the two names, got "+t.String())
		case fold && !exact:
			ok := t.IsCallTo("strings.EqualFold") && isStr(t.Args[0]) && isStr(t.Args[1]) && t.Args[0].String() != t.Args[1].String()
			r.Check(rule, k+":fold", c.InstrPos(ret), ok, "with the case rule off the result must be strings.EqualFold(a, b) (Unicode simple folding) of the two names, got "+t.String())
		default:
			r.Check(rule, k+":controlled", c.InstrPos(ret), false, "return is not controlled by the case rule; reach: "+d.Describe(c.O))
		}
	}
	r.Check(rule, key+":both-branches", pos, n >= 2, "expected one return per case rule")
}

// dropStaleLoadContradictions removes the conjuncts that ask two loads of one local cell to be nil and non-nil although no
// instruction that can write the cell (a store to it, any call – closures write captured cells) lies between the two loads on a
// path that avoids the blocked blocks: `if a == nil { pass() }; if a != nil { return }` skips the pass only with a != nil, and
// then returns.
func dropStaleLoadContradictions(d core.DNF, blocked map[*ssa.BasicBlock]bool) core.DNF {
	type ld struct {
		u   *ssa.UnOp
		nil bool // the literal says: loaded value == nil
	}
	nilLoad := func(l core.Lit) (ld, bool) {
		v := l.V
		neg := l.Neg
		for {
			if u, ok := v.(*ssa.UnOp); ok && u.Op == token.NOT {
				v, neg = u.X, !neg
				continue
			}
			break
		}
		b, ok := v.(*ssa.BinOp)
		if !ok || (b.Op != token.EQL && b.Op != token.NEQ) {
			return ld{}, false
		}
		for i := 0; i < 2; i++ {
			x, y := b.X, b.Y
			if i == 1 {
				x, y = y, x
			}
			k, isK := y.(*ssa.Const)
			u, isU := x.(*ssa.UnOp)
			if !isK || !k.IsNil() || !isU || u.Op != token.MUL {
				continue
			}
			if _, isAlloc := u.X.(*ssa.Alloc); !isAlloc {
				continue
			}
			return ld{u: u, nil: (b.Op == token.EQL) != neg}, true
		}
		return ld{}, false
	}
	writes := func(in ssa.Instruction, cell ssa.Value) bool {
		switch x := in.(type) {
		case *ssa.Store:
			return x.Addr == cell
		case ssa.CallInstruction:
			if bi, ok := x.Common().Value.(*ssa.Builtin); ok && (bi.Name() == "len" || bi.Name() == "cap") {
				return false
			}
			return true
		}
		return false
	}
	// no write between `from` (exclusive) and `to` (exclusive) on any path avoiding the blocked blocks
	clean := func(from, to *ssa.UnOp) bool {
		cell := from.X
		fb, tb := from.Block(), to.Block()
		idx := func(b *ssa.BasicBlock, in ssa.Instruction) int {
			for i, x := range b.Instrs {
				if x == in {
					return i
				}
			}
			return -1
		}
		if fb == tb {
			i, j := idx(fb, from), idx(tb, to)
			if i > j {
				return false
			}
			for _, in := range fb.Instrs[i+1 : j] {
				if writes(in, cell) {
					return false
				}
			}
			return true
		}
		for _, in := range fb.Instrs[idx(fb, from)+1:] {
			if writes(in, cell) {
				return false
			}
		}
		for _, in := range tb.Instrs[:idx(tb, to)] {
			if writes(in, cell) {
				return false
			}
		}
		// blocks strictly between: reachable from fb and reaching tb, avoiding blocked blocks
		fwd := map[*ssa.BasicBlock]bool{}
		var f func(b *ssa.BasicBlock)
		f = func(b *ssa.BasicBlock) {
			for _, s := range b.Succs {
				if !fwd[s] && !blocked[s] && s != tb && s != fb {
					fwd[s] = true
					f(s)
				}
			}
		}
		f(fb)
		bwd := map[*ssa.BasicBlock]bool{}
		var g func(b *ssa.BasicBlock)
		g = func(b *ssa.BasicBlock) {
			for _, p := range b.Preds {
				if !bwd[p] && !blocked[p] && p != fb && p != tb {
					bwd[p] = true
					g(p)
				}
			}
		}
		g(tb)
		reaches := false
		for _, s := range fb.Succs {
			if s == tb || (fwd[s] && bwd[s]) {
				reaches = true
			}
		}
		if !reaches {
			return false
		}
		for b := range fwd {
			if !bwd[b] {
				continue
			}
			for _, in := range b.Instrs {
				if writes(in, cell) {
					return false
				}
			}
		}
		return true
	}
	var out core.DNF
	for _, cj := range d {
		var lds []ld
		for _, l := range cj {
			if x, ok := nilLoad(l); ok {
				lds = append(lds, x)
			}
		}
		contradiction := false
		for i := range lds {
			for j := range lds {
				if i != j && lds[i].u.X == lds[j].u.X && lds[i].nil != lds[j].nil && lds[i].u != lds[j].u && clean(lds[i].u, lds[j].u) {
					contradiction = true
				}
			}
		}
		if !contradiction {
			out = append(out, cj)
		}
	}
	return out
}
