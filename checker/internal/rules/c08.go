package rules

import (
	"strings"

	"cvcheck/internal/core"

	"golang.org/x/tools/go/ssa"
)

// C08 — signatures follow the documented shapes.
func C08(c *Ctx) {
	r := c.R
	r.Explanation = "Decided for all inputs: (templates) for every valuation of style × receiver × error × pointer-ness × 0..3 additional arguments the function header extracted from the generator parses and its go/types signature equals the documented table; " +
		"(builder) the IR fields of a Function are fed from the method's name, options and signature elements they are documented to come from, default names are src/dst/arg<i> (swapped under :reverse), a receiver name replaces the source name; " +
		"(legality) success of the notation parser, of CreateFunction and of parseMethod is reachable only when the documented illegal combinations are absent."
	r.NotDecided = ":reverse shapes beyond what the README shows; correctness of the rendered type names for every Go type (TypeName is checked for its shape only)."

	c.tplC08()
	c.importKeyRule("C08-4")
	c.createFunctionShapeRule("C08-5", "variadic")
	c.derefRule("C08-6")
	c.genericShapesRule("C08-7", "receiver")
	c.lateShapeRules("C08-8", "results")

	r.Rule("C08-2", "legality: notation parser succeeds only if ¬(Reverse ∧ Style==return); CreateFunction only if ¬(Reverse ∧ 0<len(additional args)) ∧ ¬(Receiver≠\"\" ∧ source type external); parseMethod only with ≥1 parameter and ≥1 result")
	if fn := c.notationParser(); fn != nil {
		c.rejects("C08-2", fn, "reverse-needs-arg-style", ":reverse is accepted together with return style",
			c.M(false, isField(fldReverse)), c.M(false, eqConst(isField(fldStyle), `"return"`)))
	} else {
		r.Undecided("C08-2", "notation-parser", "not found")
	}
	cf := c.MustMethod("C08-2", "/pkg/builder", "FunctionBuilder", "CreateFunction")
	if cf != nil {
		isArgs := func(t *core.Term) bool {
			return t.IsCallTo("(*"+pBM+"MethodEntry).AdditionalArgVars") || (t.Kind == "slice" && t.Contains(func(s *core.Term) bool { return s.IsCallTo("(*go/types.Signature).Params") }))
		}
		c.rejects("C08-2", cf, "reverse-without-extra-args", ":reverse is accepted together with additional arguments",
			c.M(false, isField(fldReverse)), c.atMost(lenOf(isArgs), 0))
		c.rejects("C08-2", cf, "receiver-not-external", "a receiver of an imported type is accepted",
			c.M(true, eqConst(isField(fldReceiver), `""`)), c.M(false, func(t *core.Term) bool { return t.IsField("model.Var.External") }))
		for _, what := range []string{"src", "dst"} {
			w := what
			c.rejects("C08-2", cf, w+"-is-struct", "a non-struct "+w+" operand is accepted",
				c.M(true, func(t *core.Term) bool {
					if !t.IsCallTo(fnIsStruct) {
						return false
					}
					return t.Contains(func(s *core.Term) bool {
						return s.IsCallTo("(*" + pBM + "MethodEntry)." + map[string]string{"src": "SrcVar", "dst": "DstVar"}[w])
					})
				}))
		}
	}
	if fn := c.MustMethod("C08-2", "/pkg/parser", "Parser", "parseMethod"); fn != nil {
		for _, tup := range []string{"Params", "Results"} {
			tp := tup
			c.rejects("C08-2", fn, "has-"+strings.ToLower(tp), "a method without "+strings.ToLower(tp)+" is accepted",
				c.atLeast(func(t *core.Term) bool {
					return t.IsCallTo("(*go/types.Tuple).Len") && t.Args[0].IsCallTo("(*go/types.Signature)."+tp)
				}, 1))
		}
	}

	r.Rule("C08-3", "IR feeding: Function.{Name,Receiver,DstVarStyle,RetError,Src,Dst,AdditionalArgs} come from Method.Name(), Opts.Receiver, Opts.Style, RetError(), createVar(SrcVar()), createVar(DstVar()), createVar(param i≥1); createVar: Name = declared name, default only under name==\"\" ∨ name==\"_\" (and never the declared blank identifier); Pointer/Type from util.Deref of the variable's type; defaults are the constants src, dst (swapped under Reverse) and arg%d with the loop index; the receiver name replaces the source name only")
	if cf == nil {
		return
	}
	fnT := c.MustType("C08-3", "/pkg/generator/model", "Function")
	if fnT == nil {
		return
	}
	lits := c.Lits(fnT)
	var lit *ssa.Alloc
	for _, a := range lits {
		if a.Parent() == cf {
			lit = a
		}
	}
	if lit == nil {
		r.Undecided("C08-3", FnKey(cf)+":Function-literal", "no gmodel.Function literal in CreateFunction")
		return
	}
	f := LitFields(lit)
	key := FnKey(cf) + ":Function."
	pos := c.InstrPos(lit)
	chk := func(field string, ok bool, want string) {
		got := "<unset>"
		if v := f[field]; v != nil {
			got = c.O.Of(v).String()
		}
		r.Check("C08-3", key+field, pos, ok, "Function."+field+" must be "+want+", got "+got)
	}
	term := func(field string) *core.Term {
		if v := f[field]; v != nil {
			return c.O.Of(v)
		}
		return &core.Term{Kind: "opaque", Name: "unset"}
	}
	methodName := func(t *core.Term) bool {
		return (t.Kind == "invoke" && t.Name == "(types.Object).Name" && t.Args[0].IsField("model.MethodEntry.Method")) || t.IsCallTo("(*"+pBM+"MethodEntry).Name")
	}
	chk("Name", methodName(term("Name")), "the method's name")
	chk("Receiver", term("Receiver").IsField(fldReceiver), "Opts.Receiver")
	chk("DstVarStyle", term("DstVarStyle").IsField(fldStyle), "Opts.Style")
	chk("RetError", term("RetError").IsCallTo(fnMethodRetError), "MethodEntry.RetError()")
	chk("Comments", term("Comments").IsCallTo(pUtil+"ToTextList") && term("Comments").Args[0].IsField("model.MethodEntry.DocComment"), "util.ToTextList(m.DocComment)")

	// Src / Dst are loads of local Var cells: examine the stores into those cells
	createVar := "(*" + pBld + "FunctionBuilder).createVar"
	varCell := func(field string) *ssa.Alloc {
		if v := f[field]; v != nil {
			if u, ok := v.(*ssa.UnOp); ok {
				if al, ok := u.X.(*ssa.Alloc); ok {
					return al
				}
			}
		}
		return nil
	}
	checkVar := func(field, accessor, def, defRev string) {
		al := varCell(field)
		var whole *core.Term
		if al != nil {
			for _, rf := range *al.Referrers() {
				if st, ok := rf.(*ssa.Store); ok && st.Addr == al {
					whole = c.O.Of(st.Val)
				}
			}
		} else if v := f[field]; v != nil {
			whole = c.O.Of(v)
		}
		ok := whole != nil && whole.IsCallTo(createVar) && whole.Args[1].IsCallTo("(*"+pBM+"MethodEntry)."+accessor)
		chk(field, ok, "createVar(m."+accessor+"(), default)")
		if !ok {
			return
		}
		// default name: phi("src","dst") chosen by Reverse, or the constant
		d := whole.Args[2]
		okD := false
		switch {
		case d.Is("const", `"`+def+`"`):
			okD = false // must swap under reverse
		case d.Kind == "phi" && len(d.Args) == 2:
			// resolve which edge is the reverse edge
			if phi, isPhi := d.V.(*ssa.Phi); isPhi {
				rc := c.Reach(cf)
				okD = true
				for i, p := range phi.Block().Preds {
					ec := rc.EdgeCond(p, phi.Block())
					val := c.O.Of(phi.Edges[i])
					rev := ec.Implies(c.M(true, isField(fldReverse)))
					nrev := ec.Implies(c.M(false, isField(fldReverse)))
					switch {
					case rev && !nrev:
						okD = okD && val.Is("const", `"`+defRev+`"`)
					case nrev && !rev:
						okD = okD && val.Is("const", `"`+def+`"`)
					default:
						okD = false
					}
				}
			}
		}
		r.Check("C08-3", key+field+":default-name", pos, okD, "the default name of "+field+" must be \""+def+"\" (\""+defRev+"\" under :reverse), got "+d.String())
	}
	checkVar("Src", "SrcVar", "src", "dst")
	checkVar("Dst", "DstVar", "dst", "src")
	// receiver override: only Src.Name, only under Receiver != ""
	for _, field := range []string{"Src", "Dst"} {
		al := varCell(field)
		if al == nil {
			continue
		}
		for _, rf := range *al.Referrers() {
			fa, ok := rf.(*ssa.FieldAddr)
			if !ok || fa.Referrers() == nil {
				continue
			}
			for _, rr := range *fa.Referrers() {
				st, ok := rr.(*ssa.Store)
				if !ok || st.Addr != fa {
					continue
				}
				fname := core.FieldName(fa.X.Type(), fa.Field)
				d := c.ReachOf(st)
				ok2 := field == "Src" && fname == "model.Var.Name" && c.O.Of(st.Val).IsField(fldReceiver) && d.Implies(c.M(false, eqConst(isField(fldReceiver), `""`)))
				r.Check("C08-3", key+field+":override:"+fname, c.InstrPos(st), ok2, "only the source variable's name may be replaced, by Opts.Receiver under Receiver != \"\"")
			}
		}
	}
	// additional args: stores into the slice element: createVar(arg, Sprintf("arg%d", i))
	aa := term("AdditionalArgs")
	okAA := false
	if ms, isMS := aa.V.(*ssa.MakeSlice); isMS && ms.Referrers() != nil {
		lenT := c.O.Of(ms.Len)
		okLen := lenT.IsCallTo("builtin:len") && lenT.Args[0].IsCallTo("(*"+pBM+"MethodEntry).AdditionalArgVars")
		for _, rf := range *ms.Referrers() {
			ia, ok := rf.(*ssa.IndexAddr)
			if !ok || ia.Referrers() == nil {
				continue
			}
			for _, rr := range *ia.Referrers() {
				st, ok := rr.(*ssa.Store)
				if !ok {
					continue
				}
				v := c.O.Of(st.Val)
				if !v.IsCallTo(createVar) {
					continue
				}
				name := v.Args[2]
				idx := c.O.Of(ia.Index).String()
				okName := name.IsCallTo("fmt.Sprintf") && name.Args[0].Is("const", `"arg%d"`)
				if okName {
					el := c.varargAt(name.V.(*ssa.Call).Call.Args[1], 0)
					okName = el != nil && el.String() == idx
				}
				// element i of the arg vars goes to slot i
				src := v.Args[1]
				okSrc := src.Kind == "index" && src.Args[0].IsCallTo("(*"+pBM+"MethodEntry).AdditionalArgVars") && src.Args[1].String() == idx
				okAA = okLen && okName && okSrc
			}
		}
	}
	chk("AdditionalArgs", okAA, "make([]Var, len(m.AdditionalArgVars())) filled with createVar(args[i], \"arg<i>\") at index i")

	// createVar body
	if cv := c.MustMethod("C08-3", "/pkg/builder", "FunctionBuilder", "createVar"); cv != nil {
		vt := c.MustType("C08-3", "/pkg/generator/model", "Var")
		if vt != nil {
			for _, a := range c.Lits(vt) {
				if a.Parent() != cv {
					continue
				}
				ff := LitFields(a)
				k := FnKey(cv) + ":Var."
				vparam := "param:" + cv.Params[1].Name()
				isDeref := func(t *core.Term, idx string) bool {
					return t.Kind == "extract" && t.Name == idx && t.Args[0].IsCallTo(pUtil+"Deref") && t.Args[0].Args[0].Contains(func(s *core.Term) bool { return s.String() == vparam })
				}
				// Name: phi(v.Name(), defName) with defName only under v.Name()==""
				okN := false
				if nv := ff["Name"]; nv != nil {
					rc := c.Reach(cv)
					cases := rc.Cases(nv)
					okN = len(cases) == 2 || len(cases) == 3
					for _, cs := range cases {
						t := c.O.Of(cs.V)
						isDecl := t.Kind == "call" && strings.HasSuffix(t.Name, ").Name") && t.Contains(func(s *core.Term) bool { return s.String() == vparam })
						empty := c.M(true, eqConst(func(x *core.Term) bool {
							return x.Kind == "call" && strings.HasSuffix(x.Name, ").Name")
						}, `""`))
						notEmpty := c.M(false, eqConst(func(x *core.Term) bool {
							return x.Kind == "call" && strings.HasSuffix(x.Name, ").Name")
						}, `""`))
						blank := c.M(true, eqConst(func(x *core.Term) bool {
							return x.Kind == "call" && strings.HasSuffix(x.Name, ").Name")
						}, `"_"`))
						notBlank := c.M(false, eqConst(func(x *core.Term) bool {
							return x.Kind == "call" && strings.HasSuffix(x.Name, ").Name")
						}, `"_"`))
						switch {
						case isDecl:
							// the blank identifier is no name: the body could not refer to the operand
							okN = okN && cs.Cond.Implies(notEmpty) && cs.Cond.Implies(notBlank)
						case t.Kind == "param":
							okN = okN && cs.Cond.Implies(empty, blank)
						default:
							okN = false
						}
					}
				}
				r.Check("C08-3", k+"Name", c.InstrPos(a), okN, "Var.Name must be the declared name – never the blank identifier, which the function body could not refer to (`dst.V = _.V`) – and the default only when the declared name is empty or blank")
				r.Check("C08-3", k+"Pointer", c.InstrPos(a), ff["Pointer"] != nil && isDeref(c.O.Of(ff["Pointer"]), "1"), "Var.Pointer must be the pointer flag of util.Deref(v.Type())")
				tt := ff["Type"]
				okT := tt != nil && c.O.Of(tt).IsCallTo("("+pUtil+"ImportNames).TypeName") && isDeref(c.O.Of(tt).Args[1], "0")
				r.Check("C08-3", k+"Type", c.InstrPos(a), okT, "Var.Type must be imports.TypeName(dereferenced type)")
				et := ff["External"]
				okE := et != nil && c.O.Of(et).IsCallTo("("+pUtil+"ImportNames).IsExternal") && c.O.Of(et).Args[1].Contains(func(s *core.Term) bool { return s.String() == vparam })
				r.Check("C08-3", k+"External", c.InstrPos(a), okE, "Var.External must be imports.IsExternal(type)")
			}
		}
	}
	// accessors SrcVar/DstVar/AdditionalArgVars
	for _, acc := range []struct{ name, tuple string }{{"SrcVar", "Params"}, {"DstVar", "Results"}} {
		if fn := c.MustMethod("C08-3", "/pkg/builder/model", "MethodEntry", acc.name); fn != nil {
			ok := false
			for _, ret := range core.Returns(fn) {
				t := c.O.Of(ret.Results[0])
				if t.IsCallTo("(*go/types.Tuple).At") && t.Args[1].Is("const", "0") && t.Args[0].IsCallTo("(*go/types.Signature)."+acc.tuple) {
					ok = true
				} else if !t.Is("const", "nil") {
					ok = false
					break
				}
			}
			r.Check("C08-3", FnKey(fn), c.Pos(fn.Pos()), ok, acc.name+" must be "+acc.tuple+"().At(0)")
		}
	}
	if fn := c.MustMethod("C08-3", "/pkg/builder/model", "MethodEntry", "AdditionalArgVars"); fn != nil {
		ok := false
		for _, ret := range core.Returns(fn) {
			t := c.O.Of(ret.Results[0])
			if t.Kind == "slice" && t.Args[1].Is("const", "1") && t.Args[2].Is("const", "-") {
				ok = true
			} else if !t.Is("const", "nil") {
				ok = false
				break
			}
		}
		r.Check("C08-3", FnKey(fn), c.Pos(fn.Pos()), ok, "AdditionalArgVars must be params[1:] (or nil)")
	}
}
