package rules

import (
	"fmt"
	"go/types"
	"strings"

	"cvcheck/internal/core"

	"golang.org/x/tools/go/ssa"
)

// Interprocedural reading of helper verdicts.
//
// A reaching condition may contain a literal that is the verdict of a module helper – "p.isSetupFileInterface(obj)",
// "¬(checkSignature(…) != nil)" – instead of the tests themselves (the product of an "extract method" refactoring).
// summaryOf gives, for such a literal, the condition under which the helper gives that verdict, expressed over the
// caller's terms (parameters replaced by the argument terms, free variables of a closure by their bindings). It is a
// necessary condition of the literal, so every fact it establishes on all of its disjuncts is established by the literal.

type sumKey struct {
	fn   *ssa.Function
	idx  int
	want bool
	nilT bool
}

// summaryOf implements core.Expander.
func (c *Ctx) summaryOf(l core.Lit) (core.DNF, bool) {
	t, pos := c.Canon(l)
	nilTest := false
	x := t
	if t.Kind == "binop" && t.Name == "==" && len(t.Args) == 2 {
		switch {
		case t.Args[1].Is("const", "nil"):
			x = t.Args[0]
		case t.Args[0].Is("const", "nil"):
			x = t.Args[1]
		default:
			return nil, false
		}
		nilTest = true
	}
	idx := 0
	call := x
	if x.Kind == "extract" && len(x.Args) == 1 {
		call = x.Args[0]
		if _, err := fmt.Sscanf(x.Name, "%d", &idx); err != nil {
			return nil, false
		}
	}
	if call.Kind != "call" || !isModuleCallee(call.Name) {
		return nil, false
	}
	cv, ok := call.V.(*ssa.Call)
	if !ok {
		return nil, false
	}
	fn := cv.Call.StaticCallee()
	if fn == nil || fn.Blocks == nil || len(fn.Blocks) > 60 || c.sumBusy[fn] {
		return nil, false
	}
	res := fn.Signature.Results()
	if idx >= res.Len() {
		return nil, false
	}
	rt := res.At(idx).Type()
	if nilTest {
		if !types.IsInterface(rt) {
			return nil, false
		}
	} else if b, isB := rt.Underlying().(*types.Basic); !isB || b.Kind() != types.Bool {
		return nil, false
	}
	k := sumKey{fn, idx, pos, nilTest}
	sum, done := c.sums[k]
	if !done {
		c.sumBusy[fn] = true
		r := c.Reach(fn)
		if r.Err == nil {
			if nilTest {
				sum = c.retNil(fn, idx, pos)
			} else {
				sum = r.RetCond(idx, pos)
			}
			if len(sum) > 24 {
				sum = nil
				r = nil
			}
		}
		delete(c.sumBusy, fn)
		if r == nil || r.Err != nil {
			c.sums[k] = nil
			c.sumBad[k] = true
			return nil, false
		}
		c.sums[k] = sum
	}
	if c.sumBad[k] {
		return nil, false
	}
	// substitution: parameters → argument terms; for a closure, free variables → bound values
	sub := map[string]*core.Term{}
	for i, p := range fn.Params {
		if i < len(call.Args) {
			sub[p.Name()] = call.Args[i]
		}
	}
	fvs := map[string]*core.Term{}
	if mc, isMC := cv.Call.Value.(*ssa.MakeClosure); isMC {
		for i, fv := range fn.FreeVars {
			if i < len(mc.Bindings) {
				if cvl := c.O.CellValue(mc.Bindings[i]); cvl != nil {
					fvs[fv.Name()] = cvl
				}
			}
		}
	}
	var out core.DNF
	for _, cj := range sum {
		n := core.DNF{core.Conj{}}
		for _, sl := range cj {
			tt := substFV(core.Subst(sl.TermOf(c.O), sub), fvs)
			key := "T:" + tt.String()
			if !looseStable(tt) {
				key = fmt.Sprintf("S:%p:%s", cv, tt.String())
			}
			n = core.AndLit(n, key, core.Lit{V: sl.V, Neg: sl.Neg, T: tt})
		}
		out = append(out, n...)
	}
	return core.Or(out, nil), true
}

// substFV replaces free-variable terms of a closure body by the terms bound at the closure's creation.
func substFV(t *core.Term, m map[string]*core.Term) *core.Term {
	if len(m) == 0 {
		return t
	}
	seen := map[*core.Term]*core.Term{}
	var rec func(x *core.Term, d int) *core.Term
	rec = func(x *core.Term, d int) *core.Term {
		if x == nil || d > 40 {
			return x
		}
		if r, ok := seen[x]; ok {
			return r
		}
		if x.Kind == "fv" {
			if r, ok := m[x.Name]; ok {
				return r
			}
			return x
		}
		n := &core.Term{Kind: x.Kind, Name: x.Name, V: x.V, Type: x.Type}
		seen[x] = n
		for _, a := range x.Args {
			n.Args = append(n.Args, rec(a, d+1))
		}
		return n
	}
	return rec(t, 0)
}

// looseStable: the term denotes the same value wherever it is evaluated during one activation of the caller
// (constants, parameters, globals, operators and pure judgements over them); used only to share atoms between a
// caller's own tests and a helper's substituted tests.
func looseStable(t *core.Term) bool {
	ok := true
	var rec func(x *core.Term, d int)
	rec = func(x *core.Term, d int) {
		if !ok || x == nil {
			return
		}
		if d > 30 {
			ok = false
			return
		}
		switch x.Kind {
		case "const", "param", "global":
			return
		case "binop", "unop", "convert", "extract":
		case "call":
			if !(pureCallees[x.Name] || strings.HasPrefix(x.Name, pUtil+"Is") || strings.HasPrefix(x.Name, pUtil+"Complies")) {
				ok = false
				return
			}
		default:
			ok = false
			return
		}
		for _, a := range x.Args {
			rec(a, d+1)
		}
	}
	rec(t, 0)
	return ok
}

// retNil: the condition under which fn returns with result idx nil (wantNil) or non-nil.
func (c *Ctx) retNil(fn *ssa.Function, idx int, wantNil bool) core.DNF {
	r := c.Reach(fn)
	var acc core.DNF
	for _, ret := range core.Returns(fn) {
		if idx >= len(ret.Results) {
			continue
		}
		base := r.At(ret.Block())
		if base == nil {
			continue
		}
		acc = core.Or(acc, c.nilCond(r, ret.Block(), base, ret.Results[idx], wantNil, 0))
	}
	return acc
}

// nilCond conjoins "v is nil" (wantNil) or "v is not nil" to base, the reaching condition of block blk.
func (c *Ctx) nilCond(r *core.Reach, blk *ssa.BasicBlock, base core.DNF, v ssa.Value, wantNil bool, depth int) core.DNF {
	v = core.SpilledValue(v)
	switch x := v.(type) {
	case *ssa.Const:
		if x.IsNil() == wantNil {
			return base
		}
		return nil
	case *ssa.MakeInterface:
		if !wantNil {
			return base
		}
		return nil
	case *ssa.ChangeInterface:
		return c.nilCond(r, blk, base, x.X, wantNil, depth)
	case *ssa.Call:
		if callee := x.Call.StaticCallee(); callee != nil && c.neverNil(callee, 0) {
			if !wantNil {
				return base
			}
			return nil
		}
	case *ssa.Phi:
		if depth < 5 && (x.Block() == blk || x.Block().Dominates(blk)) {
			var acc core.DNF
			pb := x.Block()
			for i, q := range pb.Preds {
				in := r.EdgeCond(q, pb)
				if in == nil {
					continue
				}
				ci := c.nilCond(r, q, in, x.Edges[i], wantNil, depth+1)
				if ci == nil {
					continue
				}
				acc = core.Or(acc, core.And(base, ci))
			}
			return acc
		}
	}
	// an existing comparison of v with nil is the atom (so that "return err" under "if err != nil" is recognised)
	for _, ref := range *v.Referrers() {
		bo, ok := ref.(*ssa.BinOp)
		if !ok || (bo.Op.String() != "!=" && bo.Op.String() != "==") {
			continue
		}
		other := bo.Y
		if other == v {
			other = bo.X
		}
		if k, isC := other.(*ssa.Const); !isC || !k.IsNil() {
			continue
		}
		isNilWhenTrue := bo.Op.String() == "=="
		return core.AndLit(base, r.Key(bo), core.Lit{V: bo, Neg: isNilWhenTrue != wantNil})
	}
	t := &core.Term{Kind: "binop", Name: "==", Args: []*core.Term{c.O.Of(v), {Kind: "const", Name: "nil"}}, V: v}
	return core.AndLit(base, fmt.Sprintf("N:%p", v), core.Lit{V: v, Neg: !wantNil, T: t})
}

// neverNil: every return of fn yields a non-nil error (fmt.Errorf, errors.New, or module wrappers of them).
func (c *Ctx) neverNil(fn *ssa.Function, depth int) bool {
	switch core.FuncName(fn) {
	case "fmt.Errorf", "errors.New":
		return true
	}
	if fn.Blocks == nil || depth > 3 {
		return false
	}
	res := fn.Signature.Results()
	if res.Len() != 1 || !types.IsInterface(res.At(0).Type()) {
		return false
	}
	for _, ret := range core.Returns(fn) {
		switch x := ret.Results[0].(type) {
		case *ssa.MakeInterface:
		case *ssa.Call:
			callee := x.Call.StaticCallee()
			if callee == nil || callee == fn || !c.neverNil(callee, depth+1) {
				return false
			}
		default:
			return false
		}
	}
	return true
}

// ExpandDNF replaces, in every conjunct, each literal that is a helper's verdict by the helper's return condition
// (up to depth levels), except the literals accepted by keep; for rules that enumerate the tests a decision depends on.
func (c *Ctx) ExpandDNF(d core.DNF, depth int, keep func(core.Lit) bool) core.DNF {
	if depth == 0 {
		return d
	}
	var out core.DNF
	changed := false
	for _, cj := range d {
		cur := core.DNF{core.Conj{}}
		for k, l := range cj {
			if keep != nil && keep(l) {
				cur = core.AndLit(cur, k, l)
			} else if s, ok := c.summaryOf(l); ok {
				changed = true
				cur = core.And(cur, s)
			} else {
				cur = core.AndLit(cur, k, l)
			}
		}
		out = append(out, cur...)
		if len(out) > 512 {
			return d
		}
	}
	if !changed {
		return d
	}
	return c.ExpandDNF(core.Or(out, nil), depth-1, keep)
}

// UniqueCaller returns the only static call site of fn in module code (a helper produced by splitting a function),
// provided fn is not used as a value anywhere.
func (c *Ctx) UniqueCaller(fn *ssa.Function) (Site, bool) {
	if c.callers == nil {
		c.callers = map[*ssa.Function][]Site{}
		c.valueUse = map[*ssa.Function]bool{}
		for _, f := range c.P.Funcs() {
			for _, b := range f.Blocks {
				for _, in := range b.Instrs {
					if ci, ok := in.(ssa.CallInstruction); ok {
						if callee := ci.Common().StaticCallee(); callee != nil {
							c.callers[callee] = append(c.callers[callee], Site{Fn: f, Instr: ci, Callee: core.CalleeName(ci.Common())})
						}
					}
					for _, op := range in.Operands(nil) {
						if g, ok := (*op).(*ssa.Function); ok {
							if ci, isCall := in.(ssa.CallInstruction); !isCall || ci.Common().Value != ssa.Value(g) {
								c.valueUse[g] = true
							}
						}
					}
				}
			}
		}
	}
	if c.valueUse[fn] || len(c.callers[fn]) != 1 || c.callers[fn][0].Fn == fn {
		return Site{}, false
	}
	return c.callers[fn][0], true
}

// Up rewrites a term of fn over the terms of its unique caller (parameters replaced by the arguments, fields of a
// parameter-struct literal projected), up to three levels; terms of functions with several callers stay as they are.
func (c *Ctx) Up(fn *ssa.Function, t *core.Term) *core.Term { return c.UpTo(fn, t, nil) }

// UpTo is Up that stops at function stop (whose parameters are left as they are).
func (c *Ctx) UpTo(fn *ssa.Function, t *core.Term, stop *ssa.Function) *core.Term {
	for lvl := 0; lvl < 3 && fn != nil && fn != stop; lvl++ {
		if !t.Contains(func(x *core.Term) bool { return x.Kind == "param" }) {
			break
		}
		site, ok := c.UniqueCaller(fn)
		if !ok {
			break
		}
		sub := map[string]*core.Term{}
		args := site.Instr.Common().Args
		for i, p := range fn.Params {
			if i < len(args) {
				sub[p.Name()] = c.O.Of(args[i])
			}
		}
		t = core.Subst(t, sub)
		fn = site.Fn
	}
	return t
}

// OfUp is Origins.Of followed by Up.
func (c *Ctx) OfUp(v ssa.Value) *core.Term { return c.OfUpTo(v, nil) }

// OfUpTo is Origins.Of followed by UpTo.
func (c *Ctx) OfUpTo(v ssa.Value, stop *ssa.Function) *core.Term {
	t := c.O.Of(v)
	if in, ok := v.(ssa.Instruction); ok && in.Parent() != nil {
		return c.UpTo(in.Parent(), t, stop)
	}
	if p, ok := v.(*ssa.Parameter); ok {
		return c.UpTo(p.Parent(), t, stop)
	}
	return t
}

// guardedResultWrites implements core.SpillGuardOK: every store of the closure to the captured cell is reached only
// under `cell == nil` (the closure can add a failure, never hide one).
func (c *Ctx) guardedResultWrites(mc *ssa.MakeClosure, cell *ssa.Alloc) bool {
	fn, ok := mc.Fn.(*ssa.Function)
	if !ok {
		return false
	}
	var fv *ssa.FreeVar
	for i, b := range mc.Bindings {
		if b == ssa.Value(cell) && i < len(fn.FreeVars) {
			fv = fn.FreeVars[i]
		}
	}
	if fv == nil {
		return false
	}
	if fv.Referrers() != nil {
		for _, rf := range *fv.Referrers() {
			if _, nested := rf.(*ssa.MakeClosure); nested {
				return false
			}
		}
	}
	name := "fv:" + fv.Name()
	isNil := c.M(true, isNilCmp(func(t *core.Term) bool { return t.String() == name }))
	n := 0
	for _, b := range fn.Blocks {
		for _, in := range b.Instrs {
			st, ok := in.(*ssa.Store)
			if !ok || st.Addr != ssa.Value(fv) {
				continue
			}
			n++
			if !c.ReachOf(st).Implies(isNil) {
				return false
			}
		}
	}
	return n > 0
}
