package rules

import (
	"go/types"
	"strings"

	"cvcheck/internal/core"

	"golang.org/x/tools/go/ssa"
)

const (
	fnMethodRetError = "(*" + pBM + "MethodEntry).RetError"
	fnMethodResults  = "(*" + pBM + "MethodEntry).Results"
	fnConvRetError   = "(*" + pOpt + "FieldConverter).RetError"
	fldBuilderRetErr = "builder.assignmentBuilder.retError"
)

// isNilCmp matches "X == nil" where X satisfies pred.
func isNilCmp(pred func(*core.Term) bool) func(*core.Term) bool {
	return eqConst(pred, "nil")
}

// lenOf matches len(X) / X.Len() for X satisfying pred.
func lenOf(pred func(*core.Term) bool) func(*core.Term) bool {
	return func(t *core.Term) bool {
		if t.IsCallTo("builtin:len") || t.IsCallTo("(*go/types.Tuple).Len") {
			return pred(t.Args[0])
		}
		return false
	}
}

// cmpConst recognises comparisons of X (pred) with an integer constant and returns the interval of X
// for which the (canonical, positive) literal holds: [lo, hi] with hi = -1 meaning unbounded.
// Handles ==, <, <= with the constant on either side; callers apply polarity.
func cmpInterval(t *core.Term, pred func(*core.Term) bool) (lo, hi int, ok bool) {
	if t.Kind != "binop" || len(t.Args) != 2 {
		return
	}
	a, b := t.Args[0], t.Args[1]
	num := func(x *core.Term) (int, bool) {
		if x.Kind != "const" {
			return 0, false
		}
		n := 0
		if x.Name == "" {
			return 0, false
		}
		for _, ch := range x.Name {
			if ch < '0' || ch > '9' {
				return 0, false
			}
			n = n*10 + int(ch-'0')
		}
		return n, true
	}
	if k, isK := num(b); isK && pred(a) { // X op k
		switch t.Name {
		case "==":
			return k, k, true
		case "<":
			return 0, k - 1, true
		case "<=":
			return 0, k, true
		case ">":
			return k + 1, -1, true
		case ">=":
			return k, -1, true
		}
	}
	if k, isK := num(a); isK && pred(b) { // k op X
		switch t.Name {
		case "==":
			return k, k, true
		case "<":
			return k + 1, -1, true
		case "<=":
			return k, -1, true
		case ">":
			return 0, k - 1, true
		case ">=":
			return 0, k, true
		}
	}
	return
}

// boundM builds a matcher: the literal implies lo <= X (X = value matching pred) — or X <= hi when upper is set.
func (c *Ctx) atLeast(pred func(*core.Term) bool, n int) core.LitMatcher {
	return func(l core.Lit) bool {
		t, pos := c.Canon(l)
		lo, hi, ok := cmpInterval(t, pred)
		if !ok {
			return false
		}
		if pos {
			return lo >= n
		}
		// negation of [lo,hi]: X < lo or X > hi; implies X >= n only if lo == 0 and hi+1 >= n
		return lo == 0 && hi >= 0 && hi+1 >= n
	}
}

func (c *Ctx) atMost(pred func(*core.Term) bool, n int) core.LitMatcher {
	return func(l core.Lit) bool {
		t, pos := c.Canon(l)
		lo, hi, ok := cmpInterval(t, pred)
		if !ok {
			return false
		}
		if pos {
			return hi >= 0 && hi <= n
		}
		// negation: X < lo or X > hi; implies X <= n only if hi == -1 (unbounded above) and lo-1 <= n
		return hi == -1 && lo-1 <= n
	}
}

// notExactly: the literal implies X != n.
func (c *Ctx) notExactly(pred func(*core.Term) bool, n int) core.LitMatcher {
	return func(l core.Lit) bool {
		t, pos := c.Canon(l)
		lo, hi, ok := cmpInterval(t, pred)
		if !ok {
			return false
		}
		if pos {
			return n < lo || (hi >= 0 && n > hi)
		}
		// negation of [lo,hi] excludes n iff n inside [lo,hi]
		return n >= lo && (hi < 0 || n <= hi)
	}
}

func (c *Ctx) exactly(pred func(*core.Term) bool, n int) core.LitMatcher {
	return func(l core.Lit) bool {
		t, pos := c.Canon(l)
		lo, hi, ok := cmpInterval(t, pred)
		return ok && pos && lo == n && hi == n
	}
}

// successReturns: returns of fn whose error result (last) is the constant nil and whose first result is not the constant nil.
func (c *Ctx) successReturns(fn *ssa.Function) []*ssa.Return {
	var out []*ssa.Return
	for _, ret := range core.Returns(fn) {
		n := len(ret.Results)
		if n == 0 {
			continue
		}
		last := c.O.Of(ret.Results[n-1])
		if ret.Results[n-1].Type().String() == "error" && !last.Is("const", "nil") {
			continue
		}
		if n >= 2 && c.O.Of(ret.Results[0]).Is("const", "nil") {
			continue
		}
		out = append(out, ret)
	}
	return out
}

// rejects records: every success return of fn is reached only if the rejection condition is false.
// cond is given as a disjunction of matchers that must hold (each describes "this conjunct of the rejection is false").
func (c *Ctx) rejects(rule string, fn *ssa.Function, name, msg string, ms ...core.LitMatcher) {
	rets := c.successReturns(fn)
	if len(rets) == 0 {
		c.R.Undecided(rule, FnKey(fn)+":"+name, "no success return found")
		return
	}
	for i, ret := range rets {
		d := c.ReachOf(ret)
		c.R.Check(rule, sprintf("%s:success%d:%s", FnKey(fn), i+1, name), c.InstrPos(ret), d.Implies(ms...), msg+"; reach of the success return: "+d.Describe(c.O))
	}
}

// C07 — errors from user functions returned, never swallowed or outrun (builder / flag half; the emitted text is judged by the TPL rules).
func C07(c *Ctx) {
	r := c.R
	r.Explanation = "Decided for all inputs: (templates) every member of the emitted-code grammar puts `if err != nil { return … }` directly after each statement that assigns err, at every nesting depth and for both hooks, and never mentions err in a function without an error result; " +
		"(builder) an assignment or hook flagged as error-returning can only be created when the method itself returns an error; the error flags are computed from the signatures exactly as documented; wrappers are never put around error-returning nodes."
	r.NotDecided = "run-time identity of the returned error and the actual call trace (needs executing generated code)."

	c.tplC07()

	r.Rule("C07-3", "I1: every gmodel.SimpleField literal whose Error flag is not constant false is reached only if the flag's source is false or the builder's retError (fed from MethodEntry.RetError()) is true; handler literals take the flag from a node delivered by the Iterate helpers (getter-compliant, hence single-valued)")
	sf := c.MustType("C07-3", "/pkg/generator/model", "SimpleField")
	handlers := map[*ssa.Function]bool{}
	for _, fn := range c.defaultMatchers() {
		for _, s := range append(c.CallsIn(fn, fnIterMethods, false), c.CallsIn(fn, fnIterFields, false)...) {
			if mc, ok := s.Args()[1].(*ssa.MakeClosure); ok {
				handlers[mc.Fn.(*ssa.Function)] = true
			}
		}
	}
	if sf != nil {
		lits := c.Lits(sf)
		r.Floor("C07-3", "SimpleField literals", len(lits), 5)
		perFn := map[*ssa.Function]int{}
		nFlagged := 0
		for _, a := range lits {
			fn := a.Parent()
			perFn[fn]++
			key := sprintf("%s:SimpleField%d", FnKey(fn), perFn[fn])
			ev := LitFields(a)["Error"]
			if ev == nil {
				continue // zero value: false
			}
			et := c.O.Of(ev)
			if et.Is("const", "false") {
				continue
			}
			nFlagged++
			d := c.ReachOf(a)
			if handlers[fn] {
				// Error = ReturnsError(castNode(_, cand)) with cand the handler's parameter
				cand := "param:" + fn.Params[0].Name()
				ok := et.IsCallTo(invRetErr) && et.Args[0].Contains(func(t *core.Term) bool { return t.String() == cand })
				r.Check("C07-3", key+":iterate-node", c.InstrPos(a), ok, "in the candidate handler the error flag must come from the node delivered by the Iterate helper, got "+et.String())
				continue
			}
			src := et.String()
			flagFalse := c.M(false, termEq(src))
			methodErr := c.M(true, isField(fldBuilderRetErr))
			r.Check("C07-3", key+":needs-method-error", c.InstrPos(a), d.Implies(flagFalse, methodErr),
				"an assignment that captures err ("+src+") can be emitted into a method that has no error result (undeclared err); reach: "+d.Describe(c.O))
		}
		r.Floor("C07-3", "SimpleField literals with a non-constant Error flag", nFlagged, 4)
	}
	// retError field of the builder
	if ab := c.MustType("C07-3", "/pkg/builder", "assignmentBuilder"); ab != nil {
		for _, a := range c.Lits(ab) {
			v := LitFields(a)["retError"]
			ok := v != nil && c.O.Of(v).IsCallTo(fnMethodRetError) && c.O.Of(v).Args[0].Kind == "param"
			r.Check("C07-3", FnKey(a.Parent())+":builder.retError", c.InstrPos(a), ok, "assignmentBuilder.retError must be MethodEntry.RetError() of the method being built")
		}
	}
	// IterateStructMethods only delivers getter-compliant methods
	r.Rule("C07-8", "bmodel.IterateStructMethods builds a StructMethodNode only for methods with CompliesGetter(fn) == true (so candidate nodes never return an error); resolver-built method nodes are dominated by ParseGetterReturnTypes ok")
	nm := 0
	for _, s := range c.CallsTo(fnNewMethodNode) {
		nm++
		d := c.ReachOf(s.Instr)
		m := c.O.Of(s.Args()[1]).String()
		ok := d.Implies(c.M(true, isCall(fnCompliesGetter, termEq(m)))) || d.Implies(c.M(true, func(t *core.Term) bool {
			return t.Kind == "extract" && t.Name == "2" && t.Args[0].IsCallTo(pUtil+"ParseGetterReturnTypes") && t.Args[0].Args[0].String() == m
		}))
		r.Check("C07-8", FnKey(s.Fn)+":NewStructMethodNode", c.Pos(s.Pos()), ok, "a method node is built without CompliesGetter / ParseGetterReturnTypes having accepted that method (ExprType() would index an empty result tuple, ReturnsError() would be wrong); reach: "+d.Describe(c.O))
	}
	r.Floor("C07-8", "NewStructMethodNode sites", nm, 2) // the member iterator and at least one path resolver

	r.Rule("C07-4", "I2: buildManipulator returns a hook only if ¬(hook.RetError ∧ ¬retError); retError is MethodEntry.RetError() at every call site")
	if fn := c.MustMethod("C07-4", "/pkg/builder", "FunctionBuilder", "buildManipulator"); fn != nil {
		var rp string
		for _, p := range fn.Params {
			if p.Type().String() == "bool" {
				rp = "param:" + p.Name()
			}
		}
		c.rejects("C07-4", fn, "error-mismatch", "an error-returning hook can be attached to a method without an error result",
			c.M(false, isField("option.Manipulator.RetError")), c.M(true, termEq(rp)))
		n := 0
		for _, s := range c.Calls(nil) {
			if s.Instr.Common().StaticCallee() != fn {
				continue
			}
			n++
			for i, p := range fn.Params {
				if "param:"+p.Name() == rp {
					a := c.O.Of(s.Args()[i])
					r.Check("C07-4", sprintf("%s→buildManipulator:retError-arg%d", FnKey(s.Fn), n), c.Pos(s.Pos()), a.IsCallTo(fnMethodRetError), "retError must be the method's own RetError(), got "+a.String())
				}
			}
		}
		r.Floor("C07-4", "buildManipulator call sites", n, 2)
	}

	c.c07Flags()
	c.assignmentKindsRule("C07-10")
	c.converterSetRule("C07-11")
	c.getterShapeRule("C07-12")
	c.converterArgRule("C07-13")

	r.Rule("C07-7", "the Error flag of a SimpleField built for a :conv / :map / $map notation is taken from the converter's RetError() / the resolved node's ReturnsError() (never a constant)")
	if sf != nil {
		n := 0
		for _, a := range c.Lits(sf) {
			fn := a.Parent()
			hasNot := false
			for _, p := range fn.Params {
				s := p.Type().String()
				if strings.HasSuffix(s, "option.FieldConverter") || strings.HasSuffix(s, "option.NameMatcher") {
					hasNot = true
				}
			}
			if !hasNot {
				continue
			}
			n++
			ev := LitFields(a)["Error"]
			ok := false
			if ev != nil {
				t := c.O.Of(ev)
				ok = t.IsCallTo(fnConvRetError) || t.IsCallTo(invRetErr)
			}
			r.Check("C07-7", sprintf("%s:SimpleField.Error", FnKey(fn)), c.InstrPos(a), ok, "the assignment built for an explicit notation does not take its error flag from the converter / resolved node: a two-value call would be emitted into a one-value assignment")
		}
		r.Floor("C07-7", "notation-built SimpleField literals", n, 3)
	}
}

// c07Flags: shape of the error-capability flags.
func (c *Ctx) c07Flags() {
	r := c.R
	r.Rule("C07-5", "error flags: MethodEntry.RetError ⇔ 0 < len(Results()) ∧ IsErrorType(last); Results() keeps every result in return style and only error-typed ones otherwise; StructMethodNode.ReturnsError ⇔ Results().Len()==2; ConverterNode.ReturnsError = converter.RetError(); lookupConverterFunc's flag ⇔ 2 results ∧ second is error, and it accepts only functions that can be called as f(x) – one parameter, not variadic; wrapper nodes report false and are only built around nodes with ReturnsError()==false")
	if fn := c.MustMethod("C07-5", "/pkg/builder/model", "MethodEntry", "RetError"); fn != nil {
		rc := c.Reach(fn)
		tr, fl := rc.RetCond(0, true), rc.RetCond(0, false)
		isRes := func(t *core.Term) bool { return t.IsCallTo(fnMethodResults) }
		last := func(t *core.Term) bool {
			if !t.IsCallTo(fnIsErrorType) {
				return false
			}
			x := t.Args[0]
			return x.Kind == "index" && isRes(x.Args[0]) && x.Args[1].Kind == "binop" && x.Args[1].Name == "-" && lenOf(isRes)(x.Args[1].Args[0]) && x.Args[1].Args[1].Is("const", "1")
		}
		key := FnKey(fn)
		r.Check("C07-5", key+":true⇒nonempty", c.Pos(fn.Pos()), len(tr) > 0 && tr.Implies(c.atLeast(lenOf(isRes), 1)), "true-condition: "+tr.Describe(c.O))
		r.Check("C07-5", key+":true⇒last-is-error", c.Pos(fn.Pos()), len(tr) > 0 && tr.Implies(c.M(true, last)), "true-condition: "+tr.Describe(c.O))
		r.Check("C07-5", key+":false⇒reason", c.Pos(fn.Pos()), len(fl) > 0 && fl.Implies(c.atMost(lenOf(isRes), 0), c.M(false, last)),
			"reports no error result for a method whose last counted result is an error; false-condition: "+fl.Describe(c.O))
	}
	if fn := c.MustMethod("C07-5", "/pkg/builder/model", "MethodEntry", "Results"); fn != nil {
		key := FnKey(fn)
		styleRet := eqConst(isField(fldStyle), `"return"`)
		isErr := func(t *core.Term) bool { return t.IsCallTo(fnIsErrorType) }
		n := 0
		blocked := map[*ssa.BasicBlock]bool{}
		var anyAppend *ssa.Call
		for _, b := range fn.Blocks {
			for _, in := range b.Instrs {
				ca, ok := in.(*ssa.Call)
				if !ok || core.CalleeName(&ca.Call) != "builtin:append" {
					continue
				}
				n++
				anyAppend = ca
				blocked[b] = true
				d := c.ReachOf(ca)
				el := c.varargElem(ca)
				isResType := el != nil && el.Kind == "call" && strings.HasSuffix(el.Name, ").Type") && el.Contains(func(t *core.Term) bool { return t.IsCallTo("(*go/types.Signature).Results") })
				r.Check("C07-5", sprintf("%s:append%d:result-type", key, n), c.Pos(ca.Pos()), isResType, "Results() must collect the types of the signature's results")
				r.Check("C07-5", sprintf("%s:append%d:counted-only-if", key, n), c.Pos(ca.Pos()), d.Implies(c.M(true, styleRet), c.M(true, isErr)),
					"a result is counted although the style is not return and it is not an error; reach: "+d.Describe(c.O))
			}
		}
		r.Check("C07-5", key+":appends", c.Pos(fn.Pos()), n >= 1, "no append found in Results()")
		if anyAppend != nil {
			// a result is skipped only if the style is not return and it is not an error
			if lp := loopOf(anyAppend.Block()); lp != nil {
				av := c.ReachAvoid(fn, blocked)
				for lb := range lp {
					for _, s := range lb.Succs {
						if !s.Dominates(lb) || !lp[s] || blocked[lb] {
							continue
						}
						d := av.At(lb)
						if len(d) == 0 {
							continue
						}
						r.Check("C07-5", key+":skipped-only-if", c.Pos(fn.Pos()), d.Implies(c.M(false, styleRet)) && d.Implies(c.M(false, isErr)),
							"a result can be left out although the style is return or it is an error; reach of the latch avoiding the appends: "+d.Describe(c.O))
					}
				}
			}
		}
	}
	// node flags
	if fn := c.MustMethod("C07-5", "/pkg/builder/model", "StructMethodNode", "ReturnsError"); fn != nil {
		rets := core.Returns(fn)
		ok := len(rets) == 1
		if ok {
			t := c.O.Of(rets[0].Results[0])
			lo, hi, isCmp := cmpInterval(t, func(x *core.Term) bool {
				return x.IsCallTo("(*go/types.Tuple).Len") && x.Args[0].IsCallTo("(*go/types.Signature).Results")
			})
			ok = isCmp && lo == 2 && hi == 2
		}
		r.Check("C07-5", FnKey(fn), c.Pos(fn.Pos()), ok, "StructMethodNode.ReturnsError must be Results().Len() == 2")
	}
	if fn := c.MustMethod("C07-5", "/pkg/builder/model", "ConverterNode", "ReturnsError"); fn != nil {
		rets := core.Returns(fn)
		ok := len(rets) == 1 && c.O.Of(rets[0].Results[0]).IsCallTo(fnConvRetError)
		r.Check("C07-5", FnKey(fn), c.Pos(fn.Pos()), ok, "ConverterNode.ReturnsError must be converter.RetError()")
	}
	if fn := c.MustMethod("C07-5", "/pkg/option", "FieldConverter", "RetError"); fn != nil {
		rets := core.Returns(fn)
		ok := len(rets) == 1 && c.O.Of(rets[0].Results[0]).IsField("option.FieldConverter.retError")
		r.Check("C07-5", FnKey(fn), c.Pos(fn.Pos()), ok, "FieldConverter.RetError must return the recorded flag")
	}
	if fn := c.MustMethod("C07-5", "/pkg/option", "FieldConverter", "Set"); fn != nil {
		ok := false
		for _, b := range fn.Blocks {
			for _, in := range b.Instrs {
				if st, isSt := in.(*ssa.Store); isSt {
					if fa, isFA := st.Addr.(*ssa.FieldAddr); isFA && core.FieldName(fa.X.Type(), fa.Field) == "option.FieldConverter.retError" {
						if p, isP := st.Val.(*ssa.Parameter); isP && p == fn.Params[len(fn.Params)-1] {
							ok = true
						}
					}
				}
			}
		}
		r.Check("C07-5", FnKey(fn), c.Pos(fn.Pos()), ok, "FieldConverter.Set must record its bool argument as retError")
	}
	if fn := c.MustMethod("C07-5", "/pkg/parser", "Parser", "lookupConverterFunc"); fn != nil {
		// success returns: flag result (index 2)
		key := FnKey(fn)
		isLenRes := func(x *core.Term) bool {
			return x.IsCallTo("(*go/types.Tuple).Len") && x.Args[0].IsCallTo("(*go/types.Signature).Results")
		}
		secondErr := func(t *core.Term) bool {
			return t.IsCallTo(fnIsErrorType) && t.Contains(func(s *core.Term) bool {
				return s.IsCallTo("(*go/types.Tuple).At") && s.Args[1].Is("const", "1") && s.Args[0].IsCallTo("(*go/types.Signature).Results")
			})
		}
		rc := c.Reach(fn)
		n := 0
		for _, ret := range core.Returns(fn) {
			if len(ret.Results) != 4 {
				continue
			}
			errT := c.O.Of(ret.Results[3])
			if !(errT.Is("const", "nil") || errT.Kind == "local" || errT.Kind == "phi") {
				continue
			}
			d := c.ReachOf(ret)
			// only the final (success) return: reached with a signature
			if !d.Implies(c.exactly(func(x *core.Term) bool {
				return x.IsCallTo("(*go/types.Tuple).Len") && x.Args[0].IsCallTo("(*go/types.Signature).Params")
			}, 1)) {
				continue
			}
			n++
			_ = rc
			// flag value cases
			fv := ret.Results[2]
			if u, isLoad := fv.(*ssa.UnOp); isLoad {
				if al, isAl := u.X.(*ssa.Alloc); isAl {
					// named result: find the store
					for _, rf := range *al.Referrers() {
						if st, isSt := rf.(*ssa.Store); isSt && st.Addr == al {
							fv = st.Val
						}
					}
				}
			}
			tr := c.Reach(fn).Cases(fv)
			okT := len(tr) > 0
			for _, cs := range tr {
				t := c.O.Of(cs.V)
				switch {
				case t.Is("const", "false"):
					// must be on the Len != 2 side
					if cs.Cond == nil || !cs.Cond.Implies(func(l core.Lit) bool {
						tt, pos := c.Canon(l)
						lo, hi, isCmp := cmpInterval(tt, isLenRes)
						return isCmp && !pos && lo == 2 && hi == 2
					}) {
						okT = false
					}
				case secondErr(t):
					if cs.Cond == nil || !cs.Cond.Implies(c.exactly(isLenRes, 2)) {
						okT = false
					}
				default:
					// `Len() == 2` alone says the same where two results imply that the second is the error
					lo, hi, isCmp := cmpInterval(t, isLenRes)
					if !(isCmp && lo == 2 && hi == 2 && d.Implies(c.notExactly(isLenRes, 2), c.M(true, secondErr))) {
						okT = false
					}
				}
			}
			r.Check("C07-5", key+":flag", c.InstrPos(ret), okT, "the converter's error flag must be Results().Len()==2 ∧ IsErrorType(Results().At(1).Type()), got "+c.O.Of(fv).String()+" under "+d.Describe(c.O))
			r.Check("C07-5", key+":second-must-be-error", c.InstrPos(ret), d.Implies(c.notExactly(isLenRes, 2), c.M(true, secondErr)), "a two-result function whose second result is not an error is accepted as converter; reach: "+d.Describe(c.O))
			r.Check("C07-5", key+":at-most-two", c.InstrPos(ret), d.Implies(c.atMost(isLenRes, 2)), "a function with more than two results is accepted as converter; reach: "+d.Describe(c.O))
			r.Check("C07-5", key+":at-least-one", c.InstrPos(ret), d.Implies(c.atLeast(isLenRes, 1)), "a function without results is accepted as converter; reach: "+d.Describe(c.O))
			r.Check("C07-5", key+":not-variadic", c.InstrPos(ret), d.Implies(c.M(false, func(x *core.Term) bool { return x.IsCallTo("(*go/types.Signature).Variadic") })),
				"a variadic function is accepted as converter although the call is emitted as f(x), without `...`: `Sum(src.Nums)` for `func Sum(...int) int` does not compile; reach: "+d.Describe(c.O))
		}
		r.Check("C07-5", key+":success-return", c.Pos(fn.Pos()), n >= 1, "success return of lookupConverterFunc not recognised")
	}
	c.wrapperRule("C07-9")
	for _, tn := range []string{"TypecastEntry", "StringerEntry"} {
		if fn := c.P.LookupMethod("/pkg/builder/model", tn, "ReturnsError"); fn != nil {
			rets := core.Returns(fn)
			ok := len(rets) == 1 && (c.O.Of(rets[0].Results[0]).Is("const", "false") || c.O.Of(rets[0].Results[0]).IsCallTo(invRetErr))
			r.Check("C07-9", FnKey(fn), c.Pos(fn.Pos()), ok, "wrapper ReturnsError must be false (or delegate to the inner node)")
		}
	}
}

var _ = types.Typ
