package rules

import (
	"fmt"
	"go/ast"
	"go/token"
	"go/types"
	"strings"

	"cvcheck/internal/tpl"
)

const genPos = "pkg/generator (templates)"

// member is one rendered function with its valuation.
type member struct {
	h        header
	pre, pst hook
	asgs     []asg
	text     string
}

func (m member) String() string {
	var as []string
	for _, a := range m.asgs {
		as = append(as, a.String())
	}
	s := m.h.String()
	if m.pre.present {
		s += fmt.Sprintf(" pre=%+v", m.pre)
	}
	if m.pst.present {
		s += fmt.Sprintf(" post=%+v", m.pst)
	}
	if len(as) > 0 {
		s += " assignments=[" + strings.Join(as, "; ") + "]"
	}
	return s
}

func (c *Ctx) renderMember(s *tplState, m *member) error {
	v := newVal()
	m.h.apply(v)
	m.pre.apply(v, "PreProcess", "preHook")
	m.pst.apply(v, "PostProcess", "postHook")
	v.n["f.Assignments"] = len(m.asgs)
	for i, a := range m.asgs {
		a.apply(v, fmt.Sprintf("f.Assignments[%d]", i), "dst", m.h.srcName(), fmt.Sprintf("%d", i))
	}
	t, err := tpl.Render(s.funcTpl, v)
	m.text = t
	return err
}

func (m member) decls() (string, string) {
	d := synthTypes
	hk := ""
	n := len(m.h.argPtr)
	if m.pre.present {
		if m.pre.imported {
			hk += hookDecl("PreHook", m.pre, m.h, n)
		} else {
			d += hookDecl("preHook", m.pre, m.h, n)
		}
	}
	if m.pst.present {
		if m.pst.imported {
			hk += hookDecl("PostHook", m.pst, m.h, n)
		} else {
			d += hookDecl("postHook", m.pst, m.h, n)
		}
	}
	if hk != "" {
		// the hook package needs the operand types: declare them there and alias in p
		hk = strings.ReplaceAll(synthTypes, "func conv(x int) (int, error) { return x, nil }", "") + hk
		d = "type A0 = hk.A0\ntype A1 = hk.A1\ntype A2 = hk.A2\ntype NT = hk.NT\ntype SrcT = hk.SrcT\ntype DstT = hk.DstT\nfunc conv(x int) (int, error) { return x, nil }\n" +
			strings.Join(filterLines(d, func(l string) bool {
				return strings.HasPrefix(l, "func preHook") || strings.HasPrefix(l, "func postHook")
			}), "\n")
	}
	return d, hk
}

func filterLines(s string, keep func(string) bool) []string {
	var out []string
	for _, l := range strings.Split(s, "\n") {
		if keep(l) {
			out = append(out, l)
		}
	}
	return out
}

// judged is the result of the generic judgements on one member.
type judged struct {
	fd    *ast.FuncDecl
	file  *ast.File
	info  *types.Info
	fails []string // "class: detail"
}

func exprText(e ast.Expr) string { return types.ExprString(e) }

func isHookCall(e ast.Expr, name string) bool {
	call, ok := e.(*ast.CallExpr)
	if !ok {
		return false
	}
	switch f := call.Fun.(type) {
	case *ast.Ident:
		return f.Name == name
	case *ast.SelectorExpr:
		return strings.EqualFold(f.Sel.Name, name)
	}
	return false
}

func stmtHookCall(s ast.Stmt, name string) *ast.CallExpr {
	switch x := s.(type) {
	case *ast.ExprStmt:
		if isHookCall(x.X, name) {
			return x.X.(*ast.CallExpr)
		}
	case *ast.AssignStmt:
		if len(x.Rhs) == 1 && isHookCall(x.Rhs[0], name) {
			return x.Rhs[0].(*ast.CallExpr)
		}
	}
	return nil
}

func assignsErr(s ast.Stmt) bool {
	as, ok := s.(*ast.AssignStmt)
	if !ok {
		return false
	}
	for _, l := range as.Lhs {
		if id, ok := l.(*ast.Ident); ok && id.Name == "err" {
			return true
		}
	}
	return false
}

// isErrCheck: `if err != nil { return … }`; returns the return statement.
func isErrCheck(s ast.Stmt) *ast.ReturnStmt {
	ifs, ok := s.(*ast.IfStmt)
	if !ok || ifs.Init != nil || ifs.Else != nil {
		return nil
	}
	be, ok := ifs.Cond.(*ast.BinaryExpr)
	if !ok || be.Op != token.NEQ || exprText(be.X) != "err" || exprText(be.Y) != "nil" {
		return nil
	}
	if len(ifs.Body.List) != 1 {
		return nil
	}
	ret, _ := ifs.Body.List[0].(*ast.ReturnStmt)
	return ret
}

// judge parses, type-checks and applies the shape rules to a member.
func judge(m member) judged {
	var j judged
	fail := func(class, format string, a ...any) { j.fails = append(j.fails, class+": "+fmt.Sprintf(format, a...)) }
	d, hk := m.decls()
	f, info, _, perr, terrs := checkMember(m.text, d, hk)
	if perr != nil {
		fail("parse", "%v", perr)
		return j
	}
	j.file, j.info = f, info
	for _, e := range terrs {
		fail("type", "%v", e)
		break
	}
	fd := findFunc(f, "Fn")
	if fd == nil || fd.Body == nil {
		fail("parse", "no function Fn")
		return j
	}
	j.fd = fd
	body := fd.Body.List
	h := m.h

	// C02-1 allocation
	allocIdx := -1
	nAlloc := 0
	for i, s := range body {
		if as, ok := s.(*ast.AssignStmt); ok && len(as.Lhs) == 1 && exprText(as.Lhs[0]) == "dst" && as.Tok == token.ASSIGN {
			if u, ok := as.Rhs[0].(*ast.UnaryExpr); ok && u.Op == token.AND {
				if _, ok := u.X.(*ast.CompositeLit); ok {
					nAlloc++
					allocIdx = i
				}
			}
		}
	}
	wantAlloc := !h.arg && h.dstPtr
	if wantAlloc && !(nAlloc == 1 && allocIdx == 0) {
		fail("alloc", "return style with pointer destination must start with exactly one `dst = &T{}` (found %d, first at %d)", nAlloc, allocIdx)
	}
	if !wantAlloc && nAlloc != 0 {
		fail("alloc", "`dst = &T{}` emitted although style=%v dst*=%v", map[bool]string{true: "arg", false: "return"}[h.arg], h.dstPtr)
	}

	// statement classification
	isAssignmentStmt := func(s ast.Stmt) bool {
		if stmtHookCall(s, "preHook") != nil || stmtHookCall(s, "postHook") != nil {
			return false
		}
		switch x := s.(type) {
		case *ast.AssignStmt:
			return !(len(x.Lhs) == 1 && exprText(x.Lhs[0]) == "dst")
		case *ast.IfStmt:
			return isErrCheck(s) == nil
		}
		return false
	}
	first, last := -1, -1
	for i, s := range body {
		if isAssignmentStmt(s) {
			if first < 0 {
				first = i
			}
			last = i
			// an error check directly after belongs to the assignment
			if i+1 < len(body) && isErrCheck(body[i+1]) != nil {
				last = i + 1
			}
		}
	}
	// C10-1 hook placement
	count := func(name string) (n, idx int) {
		idx = -1
		var walk func(list []ast.Stmt, top bool)
		walk = func(list []ast.Stmt, top bool) {
			for i, s := range list {
				if stmtHookCall(s, name) != nil {
					n++
					if top {
						idx = i
					} else {
						idx = -2
					}
				}
				if ifs, ok := s.(*ast.IfStmt); ok {
					walk(ifs.Body.List, false)
				}
				if rs, ok := s.(*ast.RangeStmt); ok {
					walk(rs.Body.List, false)
				}
			}
		}
		walk(body, true)
		return
	}
	if n, idx := count("preHook"); m.pre.present {
		switch {
		case n != 1:
			fail("hook-once", "preprocess hook called %d times", n)
		case idx < 0:
			fail("hook-place", "preprocess hook called inside a nested block")
		case allocIdx >= 0 && idx < allocIdx:
			fail("hook-place", "preprocess hook called before the destination is allocated")
		case first >= 0 && idx > first:
			fail("hook-place", "preprocess hook called after an assignment")
		}
	} else if n != 0 {
		fail("hook-once", "preprocess hook called although none is configured")
	}
	if n, idx := count("postHook"); m.pst.present {
		switch {
		case n != 1:
			fail("hook-once", "postprocess hook called %d times", n)
		case idx < 0:
			fail("hook-place", "postprocess hook called inside a nested block")
		case last >= 0 && idx < last:
			fail("hook-place", "postprocess hook called before the last assignment (or its error check)")
		case allocIdx >= 0 && idx < allocIdx:
			fail("hook-place", "postprocess hook called before the destination is allocated")
		}
		if pn, pidx := count("preHook"); pn == 1 && pidx >= 0 && idx >= 0 && idx < pidx {
			fail("hook-place", "postprocess hook called before the preprocess hook")
		}
	} else if n != 0 {
		fail("hook-once", "postprocess hook called although none is configured")
	}
	// hook arguments: (dst, src, extras in order)
	checkArgs := func(name string, k hook) {
		var call *ast.CallExpr
		for _, s := range body {
			if c := stmtHookCall(s, name); c != nil {
				call = c
			}
		}
		if call == nil {
			return
		}
		base := func(e ast.Expr) string {
			switch x := e.(type) {
			case *ast.UnaryExpr:
				return exprText(x.X)
			case *ast.StarExpr:
				return exprText(x.X)
			}
			return exprText(e)
		}
		want := []string{"dst", h.srcName()}
		if k.extra {
			for i := range h.argPtr {
				want = append(want, fmt.Sprintf("arg%d", i))
			}
		}
		var got []string
		for _, a := range call.Args {
			got = append(got, base(a))
		}
		if strings.Join(got, ",") != strings.Join(want, ",") {
			fail("hook-args", "%s receives (%s), documented (%s)", name, strings.Join(got, ", "), strings.Join(want, ", "))
		}
	}
	if m.pre.present {
		checkArgs("preHook", m.pre)
	}
	if m.pst.present {
		checkArgs("postHook", m.pst)
	}

	// C07-1 error checks at every nesting level; C07-6 err only from calls
	usesErr := false
	var walk func(list []ast.Stmt)
	walk = func(list []ast.Stmt) {
		for i, s := range list {
			if assignsErr(s) {
				usesErr = true
				as := s.(*ast.AssignStmt)
				if len(as.Rhs) != 1 {
					fail("err-source", "err assigned from a non-call")
				} else if _, ok := as.Rhs[0].(*ast.CallExpr); !ok {
					fail("err-source", "err assigned from a non-call: %s", exprText(as.Rhs[0]))
				}
				var ret *ast.ReturnStmt
				if i+1 < len(list) {
					ret = isErrCheck(list[i+1])
				}
				if ret == nil {
					fail("err-check", "`%s` is not immediately followed by `if err != nil { return … }` (a failure would be overwritten or outrun)", stmtText(s))
				} else {
					switch len(ret.Results) {
					case 0:
					case 2:
						if !(exprText(ret.Results[0]) == "nil" && exprText(ret.Results[1]) == "err") || h.arg || !h.dstPtr {
							fail("err-return", "error return `return %s, %s` does not fit style=%v dst*=%v", exprText(ret.Results[0]), exprText(ret.Results[1]), h.arg, h.dstPtr)
						}
					default:
						fail("err-return", "unexpected error return shape")
					}
				}
			}
			switch x := s.(type) {
			case *ast.IfStmt:
				walk(x.Body.List)
			case *ast.RangeStmt:
				walk(x.Body.List)
			}
		}
	}
	walk(body)
	ast.Inspect(fd, func(n ast.Node) bool {
		if id, ok := n.(*ast.Ident); ok && id.Name == "err" {
			usesErr = true
		}
		return true
	})
	if !h.retErr && usesErr {
		fail("err-undeclared", "err is mentioned in a function without an error result")
	}
	// tail
	if h.retErr || !h.arg {
		if len(body) == 0 {
			fail("tail", "empty body")
		} else if ret, ok := body[len(body)-1].(*ast.ReturnStmt); !ok || len(ret.Results) != 0 {
			fail("tail", "the function must end with a bare return (named results)")
		}
	}
	return j
}

func stmtText(s ast.Stmt) string {
	switch x := s.(type) {
	case *ast.AssignStmt:
		var l, r []string
		for _, e := range x.Lhs {
			l = append(l, exprText(e))
		}
		for _, e := range x.Rhs {
			r = append(r, exprText(e))
		}
		return strings.Join(l, ", ") + " " + x.Tok.String() + " " + strings.Join(r, ", ")
	}
	return fmt.Sprintf("%T", s)
}

// runMembers renders and judges members; failures are grouped by class per rule mapping.
type classRule struct{ rule, what string }

var classToRule = map[string]classRule{
	"render":         {"C01-2", "member cannot be rendered"},
	"parse":          {"C01-2", "emitted function does not parse"},
	"type":           {"C01-2", "emitted function does not type-check"},
	"alloc":          {"C02-1", "destination allocation"},
	"hook-once":      {"C10-1", "hook called exactly once"},
	"hook-place":     {"C10-1", "hook placement"},
	"hook-args":      {"C10-2", "hook arguments"},
	"err-check":      {"C07-1", "error check directly after each err assignment"},
	"err-return":     {"C07-1", "shape of the error return"},
	"err-source":     {"C07-6", "err assigned only from calls"},
	"err-undeclared": {"C07-3t", "err only in functions with an error result"},
	"tail":           {"C07-6", "bare return at the end"},
	"slice":          {"C16-1", "slice copy shape"},
	"assign":         {"C02-2", "simple assignment writes LHS and reads RHS"},
	"comment":        {"C05-5", "skip / no match rendering"},
}

type tally struct {
	judged   int
	failures map[string][]string // class -> first few "valuation ⇒ detail"
	counts   map[string]int
}

func newTally() *tally { return &tally{failures: map[string][]string{}, counts: map[string]int{}} }

func (t *tally) add(m member, fails []string) {
	t.judged++
	for _, f := range fails {
		i := strings.Index(f, ": ")
		class := f[:i]
		t.counts[class]++
		if len(t.failures[class]) < 2 {
			t.failures[class] = append(t.failures[class], m.String()+" ⇒ "+f[i+2:]+"\n"+m.text)
		}
	}
}

// report writes one obligation per class in classes (holds if no failure), under the rule given by classToRule
// unless overridden by ruleOf.
func (c *Ctx) reportTally(t *tally, group string, classes []string, ruleOf map[string]string) {
	for _, cl := range classes {
		cr := classToRule[cl]
		rule := cr.rule
		if o, ok := ruleOf[cl]; ok {
			rule = o
		}
		msg := ""
		if t.counts[cl] > 0 {
			msg = sprintf("%d of %d members violate `%s`; first: %s", t.counts[cl], t.judged, cr.what, strings.Join(t.failures[cl], "\n---\n"))
		}
		c.R.Check(rule, group+":"+cl, genPos, t.counts[cl] == 0, msg)
	}
}

// ---------- hooks (C10-1, C10-2, C07-2) ----------

func (c *Ctx) tplC10() {
	r := c.R
	r.Rule("C10-1", "every function member with a preprocess hook has exactly one top-level call of it, after `dst = &T{}` (if any) and before the first assignment; with a postprocess hook exactly one, after the last assignment and its error check, before the final return")
	r.Rule("C10-2", "for all pointer/value combinations × styles × receiver × error × 0..2 extra arguments × local/imported hook the call type-checks against the hook declaration implied by the valuation and passes (destination, source, extras in order)")
	r.Rule("C07-2", "an error-returning hook is called as `err = hook(…)` immediately followed by `if err != nil { return }`; other hooks never mention err")
	s := c.tplReady("C10-1")
	if s == nil {
		return
	}
	t := c.hookMembers(s)
	c.reportTally(t, "hooks", []string{"render", "parse", "type", "hook-once", "hook-place", "hook-args"}, map[string]string{"render": "C10-2", "parse": "C10-2", "type": "C10-2"})
	r.Note("C10_hook_members_judged", t.judged)
	r.Floor("C10-1", "hook members judged", t.judged, 2000)
}

func (c *Ctx) hookMembers(s *tplState) *tally {
	if c.hookTally != nil {
		return c.hookTally
	}
	t := newTally()
	c.hookTally = t
	two := []asg{{kind: "model.SimpleField"}, {kind: "model.SimpleField"}}
	maxArgs := 2
	if c.Tier == "thorough" {
		maxArgs = 3
	}
	var hooks []hook
	for m := 0; m < 32; m++ {
		hooks = append(hooks, hook{present: true, dstPtr: m&1 != 0, srcPtr: m&2 != 0, extra: m&4 != 0, retErr: m&8 != 0, imported: m&16 != 0})
	}
	sampled := 0
	for _, h := range allHeaders(maxArgs) {
		// extra-arg pointer-ness: all-false and all-true only (the hook declaration follows the valuation)
		mixed := false
		for i := 1; i < len(h.argPtr); i++ {
			if h.argPtr[i] != h.argPtr[0] {
				mixed = true
			}
		}
		if mixed && c.Tier != "thorough" {
			continue
		}
		for _, k := range hooks {
			if k.retErr && !h.retErr {
				continue // I2 (C07-4)
			}
			if k.extra && len(h.argPtr) == 0 {
				continue // I3 (C10-3 extra-count)
			}
			if k.imported && h.recv {
				continue // a hook of another package cannot take the (necessarily local) receiver type: import cycle
			}
			asgs := two
			if h.retErr {
				asgs = []asg{{kind: "model.SimpleField", err: true}, {kind: "model.SimpleField"}}
			}
			for which := 0; which < 3; which++ {
				m := member{h: h, asgs: asgs}
				switch which {
				case 0:
					m.pre = k
				case 1:
					m.pst = k
				case 2:
					// both: pair the hook with its mirror to limit the product
					m.pre = k
					m.pst = hook{present: true, dstPtr: !k.dstPtr, srcPtr: !k.srcPtr, extra: k.extra, retErr: k.retErr, imported: false}
				}
				if err := c.renderMember(s, &m); err != nil {
					t.add(m, []string{"render: " + err.Error()})
					continue
				}
				j := judge(m)
				t.add(m, j.fails)
				if len(j.fails) == 0 && sampled < 3 && t.judged%701 == 0 {
					sampled++
					c.R.Sample(map[string]string{"valuation": m.String(), "member": m.text})
				}
			}
		}
	}
	return t
}

// ---------- assignments (C07-1, C07-6, C16-1, C05-5, C02-1, C01-2) ----------

func (c *Ctx) asgKinds(s *tplState, nestDepth int, maxContents int) []asg {
	leaf := []asg{{kind: "model.SkipField"}, {kind: "model.NoMatchField"}, {kind: "model.SimpleField"}, {kind: "model.SimpleField", err: true},
		{kind: "model.SliceAssignment"}, {kind: "model.SliceLoopAssignment"}, {kind: "model.SliceTypecastAssignment"}}
	out := append([]asg{}, leaf...)
	// sources that are getter calls (x.G()): the text of the source expression is a call, not a selector
	out = append(out, asg{kind: "model.SimpleField", getter: true}, asg{kind: "model.SliceAssignment", getter: true},
		asg{kind: "model.SliceLoopAssignment", getter: true}, asg{kind: "model.SliceTypecastAssignment", getter: true})
	inner := []asg{{kind: "model.SimpleField"}, {kind: "model.SimpleField", err: true}, {kind: "model.NoMatchField"}, {kind: "model.SliceLoopAssignment"}}
	var seqs [][]asg
	for _, a := range inner {
		seqs = append(seqs, []asg{a})
	}
	if maxContents >= 2 {
		for _, a := range inner {
			for _, b := range inner {
				seqs = append(seqs, []asg{a, b})
			}
		}
	}
	for nm := 0; nm < 4; nm++ {
		for _, cs := range seqs {
			out = append(out, asg{kind: "model.NestStruct", null: nm&1 != 0, init: nm&2 != 0, contents: cs})
		}
	}
	if nestDepth >= 3 {
		// three levels: nest{nest{nest{leaf}}} with every guard combination on the innermost two
		for nm := 0; nm < 4; nm++ {
			for _, in := range inner[:2] {
				n3 := asg{kind: "model.NestStruct", null: nm&1 != 0, init: nm&2 != 0, contents: []asg{in}}
				n2 := asg{kind: "model.NestStruct", null: nm&2 != 0, init: nm&1 != 0, contents: []asg{in, n3}}
				out = append(out, asg{kind: "model.NestStruct", null: true, init: false, contents: []asg{n2, in}})
			}
		}
	}
	if nestDepth >= 2 {
		// one more level: a nest whose contents are [leaf?, nest{leaf…}]
		for nm := 0; nm < 4; nm++ {
			for _, in := range inner {
				n2 := asg{kind: "model.NestStruct", null: nm&2 != 0, init: nm&1 != 0, contents: []asg{in}}
				out = append(out, asg{kind: "model.NestStruct", null: nm&1 != 0, init: nm&2 != 0, contents: []asg{n2}})
				out = append(out, asg{kind: "model.NestStruct", null: nm&1 != 0, init: nm&2 != 0, contents: []asg{in, n2, in}})
			}
		}
	}
	return out
}

func hasErr(a asg) bool {
	if a.err {
		return true
	}
	for _, c := range a.contents {
		if hasErr(c) {
			return true
		}
	}
	return false
}

func (c *Ctx) asgMembers(s *tplState) *tally {
	if c.asgTally != nil {
		return c.asgTally
	}
	t := newTally()
	c.asgTally = t
	depth := 2
	if c.Tier == "thorough" && s.x.MaxDepth >= 4 {
		depth = 3
	}
	kinds := c.asgKinds(s, depth, map[bool]int{true: 2, false: 1}[c.Tier == "thorough"])
	// the implementers seen by go/types must all be exercised
	seen := map[string]bool{}
	for _, k := range kinds {
		seen[k.kind] = true
	}
	for _, k := range c.assignmentKinds("C07-1", s) {
		if !seen[k] {
			c.R.Undecided("C07-1", "assignment-kind:"+k, "an implementer of gmodel.Assignment is not covered by the member generator")
		}
	}
	var headers []header
	for m := 0; m < 8; m++ {
		headers = append(headers, header{arg: m&1 != 0, retErr: m&2 != 0, dstPtr: m&4 != 0, srcPtr: true})
	}
	headers = append(headers, header{recv: true, retErr: true, dstPtr: true, srcPtr: true}, header{arg: true, recv: true, retErr: true, srcPtr: false})
	sampled := 0
	judgeOne := func(h header, as []asg) {
		m := member{h: h, asgs: as}
		for _, a := range as {
			if hasErr(a) && !h.retErr {
				return // I1 (C07-3)
			}
		}
		if err := c.renderMember(s, &m); err != nil {
			t.add(m, []string{"render: " + err.Error()})
			return
		}
		j := judge(m)
		fails := j.fails
		if j.fd != nil {
			fails = append(fails, sliceAndCommentShape(m, j)...)
		}
		t.add(m, fails)
		if len(fails) == 0 && sampled < 4 && t.judged%997 == 0 {
			sampled++
			c.R.Sample(map[string]string{"valuation": m.String(), "member": m.text})
		}
	}
	for _, h := range headers {
		judgeOne(h, nil)
		for _, a := range kinds {
			judgeOne(h, []asg{a})
		}
		for _, a := range kinds {
			for _, b := range kinds {
				if c.Tier != "thorough" && a.kind == "model.NestStruct" && b.kind == "model.NestStruct" && (len(a.contents) > 1 || len(b.contents) > 1) {
					continue
				}
				judgeOne(h, []asg{a, b})
			}
		}
		if c.Tier == "thorough" {
			leafs := kinds[:7]
			for _, a := range leafs {
				for _, b := range leafs {
					for _, cc := range leafs {
						judgeOne(h, []asg{a, b, cc})
					}
				}
			}
		}
	}
	return t
}

// sliceAndCommentShape checks C16-1 and C05-5 on the parsed member.
func sliceAndCommentShape(m member, j judged) []string {
	var fails []string
	fail := func(class, format string, a ...any) { fails = append(fails, class+": "+fmt.Sprintf(format, a...)) }
	// expected slice statements in order of appearance (depth-first)
	type want struct{ kind, lhs, rhs string }
	var wants []want
	var comments []string
	var collect func(a asg, dst, src, tag string)
	collect = func(a asg, dst, src, tag string) {
		switch a.kind {
		case "model.SliceAssignment", "model.SliceLoopAssignment", "model.SliceTypecastAssignment":
			wants = append(wants, want{a.kind, dst + ".S" + tag, a.sliceSrc(src, tag)})
		case "model.SkipField":
			comments = append(comments, "// skip: "+dst+".F"+tag)
		case "model.NoMatchField":
			comments = append(comments, "// no match: "+dst+".F"+tag)
		case "model.NestStruct":
			for i, cc := range a.contents {
				collect(cc, dst+".N"+tag, src+".N"+tag, fmt.Sprintf("%d", i))
			}
		}
	}
	for i, a := range m.asgs {
		collect(a, "dst", m.h.srcName(), fmt.Sprintf("%d", i))
	}
	// find slice ifs
	var found []*ast.IfStmt
	var walk func(list []ast.Stmt)
	walk = func(list []ast.Stmt) {
		for _, s := range list {
			ifs, ok := s.(*ast.IfStmt)
			if !ok || isErrCheck(s) != nil {
				continue
			}
			isSlice := false
			if len(ifs.Body.List) > 0 {
				if as, ok := ifs.Body.List[0].(*ast.AssignStmt); ok && len(as.Rhs) == 1 {
					if call, ok := as.Rhs[0].(*ast.CallExpr); ok && exprText(call.Fun) == "make" {
						isSlice = true
					}
				}
			}
			if isSlice {
				found = append(found, ifs)
			} else {
				walk(ifs.Body.List)
			}
		}
	}
	walk(j.fd.Body.List)
	if len(found) != len(wants) {
		fail("slice", "expected %d slice copies, found %d `if … { x = make(…) … }` statements", len(wants), len(found))
		return fails
	}
	for i, w := range wants {
		ifs := found[i]
		be, ok := ifs.Cond.(*ast.BinaryExpr)
		if !ok || be.Op != token.NEQ || exprText(be.X) != w.rhs || exprText(be.Y) != "nil" || ifs.Else != nil {
			fail("slice", "slice copy of %s must be guarded by `if %s != nil` (nil must stay nil)", w.lhs, w.rhs)
			continue
		}
		b := ifs.Body.List
		if len(b) != 2 {
			fail("slice", "slice copy body must be make + copy/loop, has %d statements", len(b))
			continue
		}
		as := b[0].(*ast.AssignStmt)
		mk := as.Rhs[0].(*ast.CallExpr)
		if exprText(as.Lhs[0]) != w.lhs || as.Tok != token.ASSIGN || len(mk.Args) != 2 || exprText(mk.Args[1]) != "len("+w.rhs+")" {
			fail("slice", "destination must be assigned make(T, len(%s)), got %s", w.rhs, stmtText(as))
			continue
		}
		switch w.kind {
		case "model.SliceAssignment":
			es, ok := b[1].(*ast.ExprStmt)
			if !ok || exprText(es.X) != "copy("+w.lhs+", "+w.rhs+")" {
				fail("slice", "copy form must be copy(%s, %s)", w.lhs, w.rhs)
			}
		default:
			rs, ok := b[1].(*ast.RangeStmt)
			okShape := ok && exprText(rs.X) == w.rhs && rs.Key != nil && rs.Value != nil && len(rs.Body.List) == 1
			if okShape {
				el, ok := rs.Body.List[0].(*ast.AssignStmt)
				okShape = ok && len(el.Lhs) == 1 && exprText(el.Lhs[0]) == w.lhs+"["+exprText(rs.Key)+"]"
				if okShape {
					val := exprText(rs.Value)
					rhs := exprText(el.Rhs[0])
					if w.kind == "model.SliceLoopAssignment" {
						okShape = rhs == val
					} else {
						okShape = rhs == "int("+val+")"
					}
				}
			}
			if !okShape {
				fail("slice", "loop form must be `for i, e := range %s { %s[i] = e | Cast(e) }`", w.rhs, w.lhs)
			}
		}
	}
	// simple assignments: `<dst expr> [, err] = <src expr>` present exactly once each
	var simples [][2]string
	var collectS func(a asg, dst, src, tag string)
	collectS = func(a asg, dst, src, tag string) {
		switch a.kind {
		case "model.SimpleField":
			rhs := src + ".F" + tag
			if a.err {
				rhs = "conv(" + rhs + ")"
			} else if a.getter {
				rhs = src + ".GF" + tag + "()"
			}
			simples = append(simples, [2]string{dst + ".F" + tag, rhs})
		case "model.NestStruct":
			for i, cc := range a.contents {
				collectS(cc, dst+".N"+tag, src+".N"+tag, fmt.Sprintf("%d", i))
			}
		}
	}
	for i, a := range m.asgs {
		collectS(a, "dst", m.h.srcName(), fmt.Sprintf("%d", i))
	}
	for _, sp := range simples {
		n := 0
		ast.Inspect(j.fd.Body, func(nd ast.Node) bool {
			if as, ok := nd.(*ast.AssignStmt); ok && len(as.Rhs) == 1 && exprText(as.Lhs[0]) == sp[0] && exprText(as.Rhs[0]) == sp[1] && as.Tok == token.ASSIGN {
				n++
			}
			return true
		})
		if n != 1 {
			fail("assign", "expected exactly one statement `%s = %s`, found %d", sp[0], sp[1], n)
		}
	}
	// comments: each expected line appears exactly once as a whole comment line
	for _, cm := range comments {
		n := 0
		for _, cg := range j.file.Comments {
			for _, cc := range cg.List {
				if cc.Text == cm {
					n++
				}
			}
		}
		if n != 1 {
			fail("comment", "expected exactly one line %q, found %d", cm, n)
		}
	}
	return fails
}

func (c *Ctx) tplC07() {
	r := c.R
	r.Rule("C07-1", "in every function member, at every nesting depth (≤2 unfolded), each statement that assigns err is immediately followed by `if err != nil { return … }`; `return nil, err` only in pointer-return style, bare return otherwise")
	r.Rule("C07-6", "err is assigned only from calls and the function ends with a bare return (so nil is returned when nothing failed)")
	r.Rule("C07-3t", "under the IR invariants I1/I2 no member of a function without error result mentions err")
	s := c.tplReady("C07-1")
	if s == nil {
		return
	}
	t := c.asgMembers(s)
	c.reportTally(t, "assignments", []string{"render", "parse", "type", "err-check", "err-return", "err-source", "err-undeclared", "tail"}, map[string]string{"render": "C07-1", "parse": "C07-1", "type": "C07-1"})
	th := c.hookMembers(s)
	c.reportTally(th, "hooks", []string{"err-check", "err-return", "err-source", "err-undeclared", "tail"}, map[string]string{"err-check": "C07-2", "err-return": "C07-2", "err-source": "C07-2", "err-undeclared": "C07-2", "tail": "C07-2"})
	r.Rule("C07-2", "an error-returning hook is called as `err = hook(…)` immediately followed by `if err != nil { return }`; other hooks never mention err")
	r.Note("C07_assignment_members_judged", t.judged)
	r.Note("C07_hook_members_judged", th.judged)
	r.Floor("C07-1", "assignment members judged", t.judged, 1500)
}
