package rules

import (
	"go/token"
	"go/types"
	"strings"

	"cvcheck/internal/core"

	"golang.org/x/tools/go/ssa"
)

// C13 — deterministic output.
func C13(c *Ctx) {
	r := c.R
	r.Explanation = "Decided for all inputs: the set of nondeterminism sources in convergen's own code equals the confirmed table {gonanoid.Nanoid in the interface scan – used only as a cut key that is replaced before output; log timestamps – log file only}; no go statement, select, channel operation, time, math/rand, pid/cwd/hostname; " +
		"every `range` over a map is order-insensitive by shape (sets a flag to a constant, or folds with a strict minimum on the key); stderr messages are printed by a logger without timestamp."
	r.NotDecided = "that the random marker never collides with text of the setup file; determinism of go/packages, goimports and gofmt themselves; dependence on the environment through `go list` (GOFLAGS, module cache)."

	r.Rule("C13-1", "inventory of nondeterminism sources: every external call is classified; nondeterministic ones are exactly the confirmed table; no concurrency; the elogger (stderr) never carries timestamps")
	ext := c.ExternalCalls()
	accepted := map[string]string{
		"(*parser.Parser).findConvergenEntries:github.com/matoous/go-nanoid.Nanoid": "per-interface placeholder marker; replaced by the generated functions (C17-4)",
		"parser.NewParser:path/filepath.Abs":                                        "the absolute path of the setup file fixes the directory the go command runs in and the file it is asked about: the loader's answer no longer depends on the working directory (the absolute form denotes the same file whatever the cwd)",
		"parser.outputOverlay:path/filepath.Abs":                                    "the absolute forms of the setup and output paths only address the loader overlay entry and are compared by directory (C12-2 checks that the value flows nowhere else); the overlay content is the package name, no path reaches the output",
	}
	n := 0
	for _, e := range ext {
		key := FnKey(e.Site.Fn) + ":" + e.Callee
		switch e.Class {
		case effUnk:
			r.Undecided("C13-1", key, "external callee "+e.Callee+" is not in the effect table: classify it before trusting the inventory")
		case effNondet, effConc:
			n++
			_, ok := accepted[key]
			r.Check("C13-1", key, c.Pos(e.Site.Pos()), ok, "nondeterministic / concurrent API "+e.Callee+" used outside the confirmed table")
		}
	}
	r.Floor("C13-1", "nondeterministic call sites found (the marker generator)", n, 1)
	for _, in := range c.concurrencyOps() {
		r.Check("C13-1", FnKey(in.Parent())+":concurrency", c.InstrPos(in), false, "goroutine / channel operation in module code")
	}
	r.Check("C13-1", "no-concurrency", "-", true, "")
	// loggers: log.New(w, prefix, flags): flags must be 0 for anything writing to os.Stderr
	for _, s := range c.CallsTo("log.New") {
		w := c.O.Of(s.Args()[0])
		fl := c.O.Of(s.Args()[2])
		if w.Is("global", "os.Stderr") || w.Is("global", "os.Stdout") {
			stdoutLogger := w.Is("global", "os.Stdout") // enabled without output: not used by the runner (C05-4)
			r.Check("C13-1", FnKey(s.Fn)+":log.New:"+w.Name, c.Pos(s.Pos()), fl.Is("const", "0") || stdoutLogger, "a logger writing to "+w.Name+" carries timestamps (flags "+fl.String()+"): diagnostics differ between runs")
		}
	}
	// marker flows
	r.Rule("C13-3", "the random marker flows only into the planted comments, the cut regexp and its replacement, and the old-text argument of the final strings.Replace (it is a key, never output)")
	allowedSinks := map[string]bool{
		pUtil + "InsertComment": true, "regexp.QuoteMeta": true, "(*regexp.Regexp).ReplaceAllString": true, "strings.Replace": true,
	}
	nm := 0
	for _, fn := range c.P.Funcs() {
		for _, b := range fn.Blocks {
			for _, in := range b.Instrs {
				v, ok := in.(ssa.Value)
				if !ok {
					continue
				}
				var fname string
				switch x := in.(type) {
				case *ssa.UnOp:
					if fa, ok := x.X.(*ssa.FieldAddr); ok && x.Op == token.MUL {
						fname = core.FieldName(fa.X.Type(), fa.Field)
					}
				case *ssa.Field:
					fname = core.FieldName(x.X.Type(), x.Field)
				}
				if !(fname == "parser.intfEntry.marker" || fname == "model.MethodsInfo.Marker" || fname == "model.FunctionsBlock.Marker") || v.Referrers() == nil {
					continue
				}
				for _, rf := range *v.Referrers() {
					switch x := rf.(type) {
					case *ssa.DebugRef:
					case *ssa.Store:
						// into another marker field
						if fa, ok := x.Addr.(*ssa.FieldAddr); ok {
							fn2 := core.FieldName(fa.X.Type(), fa.Field)
							nm++
							r.Check("C13-3", FnKey(fn)+":marker→"+fn2, c.InstrPos(rf), fn2 == "model.MethodsInfo.Marker" || fn2 == "model.FunctionsBlock.Marker", "the marker is stored into "+fn2)
						} else {
							nm++
							r.Check("C13-3", FnKey(fn)+":marker→store", c.InstrPos(rf), false, "the marker is stored somewhere else")
						}
					case ssa.CallInstruction:
						name := core.CalleeName(x.Common())
						nm++
						ok := allowedSinks[name]
						if name == "strings.Replace" {
							ok = x.Common().Args[1] == v // old text, not the replacement
						}
						r.Check("C13-3", FnKey(fn)+":marker→"+shortCallee(name), c.InstrPos(rf), ok, "the random marker flows into "+name+" (it could reach the output)")
					case *ssa.BinOp:
						// concatenation into the regexp text: followed to MustCompile by the C17-4 rule
					default:
						nm++
						r.Check("C13-3", sprintf("%s:marker→%T", FnKey(fn), rf), c.InstrPos(rf), false, "unexpected use of the random marker")
					}
				}
			}
		}
	}
	r.Floor("C13-3", "uses of the marker examined", nm, 5)

	r.Rule("C13-2", "every `range` over a map is order-insensitive by shape: inside the loop no store/map update/effectful call/non-constant return; every value carried around the loop is either unchanged, a constant, the iteration key taken under `first time ∨ key < accumulator` (strict minimum), or a local slice grown by append that reaches a total sort (sort.Strings/Ints/Float64s, slices.Sort) before any other use")
	ranges := c.mapRanges()
	r.Note("map_ranges", len(ranges))
	r.Floor("C13-2", "range statements over maps", len(ranges), 1)
	for i, rg := range ranges {
		c.mapRangeRule(sprintf("%s:maprange%d", FnKey(rg.Parent()), i+1), rg)
	}
	ctl := func(pc *Ctx) {
		for i, rg := range pc.mapRanges() {
			pc.mapRangeRule(sprintf("%s:maprange%d", FnKey(rg.Parent()), i+1), rg)
		}
	}
	c.positive("C13-2", "first-key-wins", ctl, []string{"runner.FirstKey"}, nil)
	c.positive("C13-2", "unsorted-collection", ctl, []string{"runner.Keys"}, []string{"runner.SortedKeys"})
	c.positionedWarnings("C13-4")
	c.loaderConfigRule("C13-5")
	c.positive("C13-1", "goroutine", func(pc *Ctx) {
		for _, in := range pc.concurrencyOps() {
			pc.R.Check("C13-1", FnKey(in.Parent())+":concurrency", pc.InstrPos(in), false, "goroutine / channel operation")
		}
	}, []string{"runner.Spawn"}, nil)
}

func (c *Ctx) mapRangeRule(key string, rg *ssa.Range) {
	r := c.R
	fn := rg.Parent()
	// the loop: header is the block holding the Next on this iterator
	var next *ssa.Next
	for _, rf := range *rg.Referrers() {
		if n, ok := rf.(*ssa.Next); ok {
			next = n
		}
	}
	if next == nil {
		r.Undecided("C13-2", key, "no Next for the map iterator")
		return
	}
	header := next.Block()
	body := loopOf(header)
	if body == nil {
		// Next's block is the loop header itself: compute natural loop of back edges to header
		body = map[*ssa.BasicBlock]bool{}
	}
	// natural loop with header `header`
	body = map[*ssa.BasicBlock]bool{header: true}
	var stack []*ssa.BasicBlock
	for _, p := range header.Preds {
		if header.Dominates(p) && !body[p] {
			body[p] = true
			stack = append(stack, p)
		}
	}
	for len(stack) > 0 {
		x := stack[len(stack)-1]
		stack = stack[:len(stack)-1]
		for _, p := range x.Preds {
			if !body[p] {
				body[p] = true
				stack = append(stack, p)
			}
		}
	}
	pos := c.InstrPos(rg)
	isKey := func(v ssa.Value) bool {
		ex, ok := v.(*ssa.Extract)
		return ok && ex.Tuple == ssa.Value(next) && ex.Index == 1
	}
	okAll := true
	why := ""
	bad := func(s string) {
		if okAll {
			why = s
		}
		okAll = false
	}
	// effects inside the loop (including blocks that leave it by break/return but are dominated by the header and reached from the body)
	region := map[*ssa.BasicBlock]bool{}
	for b := range body {
		region[b] = true
		for _, s := range b.Succs {
			if !body[s] && len(s.Preds) == 1 && len(s.Instrs) > 0 {
				if _, isRet := s.Instrs[len(s.Instrs)-1].(*ssa.Return); isRet {
					region[s] = true // early-return block
				}
			}
		}
	}
	// collect-then-sort idiom: s = append(s, <entry>) on a loop-carried local slice that is handed to a total sort
	// (sort.Strings/Ints/Float64s, slices.Sort) before any other use after the loop
	collects := map[*ssa.Call]bool{}   // accepted append calls
	collectArr := map[ssa.Value]bool{} // their varargs arrays
	for _, in := range header.Instrs {
		phi, ok := in.(*ssa.Phi)
		if !ok {
			continue
		}
		var app *ssa.Call
		nIn := 0
		for i, p := range header.Preds {
			if !body[p] {
				continue
			}
			nIn++
			if ca, ok := phi.Edges[i].(*ssa.Call); ok && core.CalleeName(&ca.Call) == "builtin:append" && ca.Call.Args[0] == ssa.Value(phi) && (app == nil || app == ca) {
				app = ca
			} else if phi.Edges[i] != ssa.Value(phi) {
				app = nil
				nIn = -100
			}
		}
		if app == nil || nIn < 1 || !c.sortedBeforeUse(phi, app, body) {
			continue
		}
		collects[app] = true
		if sl, ok := app.Call.Args[1].(*ssa.Slice); ok {
			collectArr[sl.X] = true
		}
	}
	for b := range region {
		for _, in := range b.Instrs {
			switch x := in.(type) {
			case *ssa.Store:
				if ia, ok := x.Addr.(*ssa.IndexAddr); ok && collectArr[ia.X] {
					continue // element of a collected-then-sorted slice
				}
				if _, isK := x.Val.(*ssa.Const); !isK {
					bad("a non-constant value is stored inside the loop (" + c.O.Of(x.Val).String() + "): the result depends on iteration order")
				} else if _, isLocal := x.Addr.(*ssa.Alloc); !isLocal {
					if _, isFV := x.Addr.(*ssa.FreeVar); !isFV {
						bad("a store through a pointer inside the loop")
					}
				}
			case *ssa.MapUpdate:
				bad("a map is updated while ranging over a map: which entry wins depends on iteration order")
			case *ssa.Return:
				if body[b] || region[b] {
					for _, res := range x.Results {
						for _, cs := range c.Reach(fn).Cases(res) {
							if _, isK := cs.V.(*ssa.Const); !isK {
								// returning a loop-independent value is fine only outside the loop
								if body[b] || dependsOnNext(cs.V, next) {
									bad("the loop returns a value taken from the current entry (first match wins: order-dependent): " + c.O.Of(cs.V).String())
								}
							}
						}
					}
				}
			case ssa.CallInstruction:
				name := core.CalleeName(x.Common())
				if name == "" || (classify(name) != effPure && !isModuleCallee(name)) {
					bad("an effectful call inside the loop: " + name)
				}
				if ca, isCall := x.(*ssa.Call); name == "builtin:append" && !(isCall && collects[ca]) {
					bad("append inside the loop: the collected order depends on iteration order (sort before use and extend this rule)")
				}
			}
		}
	}
	// loop-carried values
	for _, in := range header.Instrs {
		phi, ok := in.(*ssa.Phi)
		if !ok {
			continue
		}
		for i, p := range header.Preds {
			if !body[p] {
				continue
			}
			for _, cs := range c.Reach(fn).CasesStop(phi.Edges[i], map[ssa.Value]bool{phi: true}) {
				v := cs.V
				// condition of this way round the loop: the latch's reaching condition (within one iteration) and the φ-case
				if cs.Cond == nil {
					cs.Cond = c.Reach(fn).At(p)
				} else {
					cs.Cond = core.And(cs.Cond, c.Reach(fn).At(p))
				}
				switch {
				case v == ssa.Value(phi):
				case isConst(v):
				case isCollect(v, collects):
				case isKey(v):
					// key taken under: first-time flag false, or strict comparison key < acc
					strict := func(l core.Lit) bool {
						t, pos := c.Canon(l)
						if !pos || t.Kind != "binop" || !(t.Name == "<" || t.Name == ">") {
							return false
						}
						a, b := t.Args[0], t.Args[1]
						return (a.V == v && b.V == ssa.Value(phi)) || (b.V == v && a.V == ssa.Value(phi))
					}
					first := func(l core.Lit) bool {
						// a boolean loop-carried flag that is false initially and set true when an entry is taken
						if ph, ok := l.V.(*ssa.Phi); ok && ph.Block() == header && l.Neg {
							return true
						}
						return false
					}
					if cs.Cond == nil || !cs.Cond.Implies(strict, first) {
						bad("the iteration key is kept without a strict order comparison against the accumulator: which entry wins depends on iteration order; condition: " + cs.Cond.Describe(c.O))
					}
				default:
					// values derived from the entry other than the key
					if dependsOnNext(v, next) {
						bad("a value derived from the current entry is carried around the loop without a minimum rule: " + c.O.Of(v).String())
					}
				}
			}
		}
	}
	r.Check("C13-2", key, pos, okAll, why)
}

func isCollect(v ssa.Value, collects map[*ssa.Call]bool) bool {
	ca, ok := v.(*ssa.Call)
	return ok && collects[ca]
}

// totalSorts order their argument completely (equal elements are indistinguishable), so the result does not depend
// on the order in which the elements were collected.
var totalSorts = map[string]bool{"sort.Strings": true, "sort.Ints": true, "sort.Float64s": true, "slices.Sort": true}

// sortedBeforeUse: the loop-carried slice phi (grown by app inside the loop body) is used inside the loop only by app,
// and after the loop it reaches a total sort before any other use.
func (c *Ctx) sortedBeforeUse(phi *ssa.Phi, app *ssa.Call, body map[*ssa.BasicBlock]bool) bool {
	if phi.Referrers() == nil {
		return false
	}
	var sortCall *ssa.Call
	var others []ssa.Instruction
	for _, rf := range *phi.Referrers() {
		if _, isDbg := rf.(*ssa.DebugRef); isDbg {
			continue
		}
		if body[rf.Block()] {
			if rf == ssa.Instruction(app) || rf == ssa.Instruction(phi) {
				continue
			}
			if ph, ok := rf.(*ssa.Phi); ok && ph == phi {
				continue
			}
			return false
		}
		if ca, ok := rf.(*ssa.Call); ok && totalSorts[core.CalleeName(&ca.Call)] && len(ca.Call.Args) >= 1 && ca.Call.Args[0] == ssa.Value(phi) && sortCall == nil {
			sortCall = ca
			continue
		}
		others = append(others, rf)
	}
	if sortCall == nil {
		return false
	}
	for _, o := range others {
		if o.Block() == sortCall.Block() {
			after := false
			for _, in := range o.Block().Instrs {
				if in == ssa.Instruction(sortCall) {
					after = true
				}
				if in == o {
					break
				}
			}
			if !after {
				return false
			}
		} else if !sortCall.Block().Dominates(o.Block()) {
			return false
		}
	}
	// the append result itself is only carried round the loop
	if app.Referrers() != nil {
		for _, rf := range *app.Referrers() {
			if _, isDbg := rf.(*ssa.DebugRef); isDbg {
				continue
			}
			if rf != ssa.Instruction(phi) {
				return false
			}
		}
	}
	return true
}

func isConst(v ssa.Value) bool {
	_, ok := v.(*ssa.Const)
	return ok
}

func dependsOnNext(v ssa.Value, next *ssa.Next) bool {
	seen := map[ssa.Value]bool{}
	var rec func(x ssa.Value, d int) bool
	rec = func(x ssa.Value, d int) bool {
		if x == nil || seen[x] || d > 10 {
			return false
		}
		seen[x] = true
		if x == ssa.Value(next) {
			return true
		}
		if in, ok := x.(ssa.Instruction); ok {
			var ops [8]*ssa.Value
			for _, op := range in.Operands(ops[:0]) {
				if op != nil && *op != nil && rec(*op, d+1) {
					return true
				}
			}
		}
		return false
	}
	return rec(v, 0)
}

var _ = types.Typ
var _ = strings.Contains
