package rules

func (c *Ctx) tplC07() {}
func (c *Ctx) tplC08() {}
func (c *Ctx) tplC10() {}
