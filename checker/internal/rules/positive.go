package rules

import (
	"path/filepath"
	"strings"

	"cvcheck/internal/core"
	"cvcheck/internal/report"
)

// Positive controls. Some rules are expected to find nothing on the real tree (no goroutines, no deferred function that
// writes the error result, no unsorted key collection …). A detector that silently stopped matching would pass forever,
// so each such detector is also run on a tiny module kept under checker/testdata/positive that contains exactly the
// construct it must report (and, where an accepted idiom exists, the idiom it must not report). The control module is
// source text analysed like /repo; nothing in it is executed.

func (c *Ctx) controlCtx() (*Ctx, error) {
	if c.posCtx != nil || c.posErr != nil {
		return c.posCtx, c.posErr
	}
	dir := filepath.Join(c.R.VerifDir, "checker", "testdata", "positive")
	p, err := core.LoadMin(dir, false, 1)
	if err != nil {
		c.posErr = err
		return nil, err
	}
	c.posProg = p
	c.posCtx = &Ctx{} // marker; a fresh context is made per detector
	return c.posCtx, nil
}

// positive runs detect on the control module and requires a violation whose key contains every string of must; no
// violation may mention a string of mustNot.
func (c *Ctx) positive(rule, name string, detect func(pc *Ctx), must []string, mustNot []string) {
	if _, err := c.controlCtx(); err != nil {
		c.R.Undecided(rule, "positive-control:"+name, "control module could not be loaded: "+err.Error())
		return
	}
	pc := NewCtx(c.posProg, report.New("positive", c.Tier, "", 0), c.Tier)
	func() {
		defer func() {
			// the hooks in core are per context: restore ours
			core.Expander = c.summaryOf
			core.SpillGuardOK = c.guardedResultWrites
		}()
		detect(pc)
	}()
	hit := false
	spurious := ""
	for _, o := range pc.R.Obligations {
		if o.Status != report.Violation {
			continue
		}
		all := true
		for _, m := range must {
			if !strings.Contains(o.Key, m) {
				all = false
			}
		}
		if all {
			hit = true
		}
		for _, m := range mustNot {
			if strings.Contains(o.Key, m) {
				spurious = o.Key
			}
		}
	}
	c.R.Check(rule, "positive-control:"+name, "checker/testdata/positive", hit, "the detector did not report the construct planted in the control module (it would pass vacuously on /repo)")
	if len(mustNot) > 0 {
		c.R.Check(rule, "negative-control:"+name, "checker/testdata/positive", spurious == "", "the detector reports the accepted idiom planted in the control module: "+spurious)
	}
}
