package rules

import (
	"go/token"
	"go/types"
	"strings"

	"cvcheck/internal/core"

	"golang.org/x/tools/go/ssa"
)

const fnAccessible = "(*" + pBld + "assignmentBuilder).isStructFieldAccessible"

// structPassClosures: closures that call a per-field matcher (the body of the destination-field loop).
func (c *Ctx) structPassClosures() map[*ssa.Function]ssa.CallInstruction {
	out := map[*ssa.Function]ssa.CallInstruction{}
	pf := map[*ssa.Function]bool{}
	for _, f := range c.perFieldMatchers() {
		pf[f] = true
	}
	for _, fn := range c.P.Funcs() {
		for _, b := range fn.Blocks {
			for _, in := range b.Instrs {
				if ci, ok := in.(ssa.CallInstruction); ok {
					if cal := ci.Common().StaticCallee(); cal != nil && pf[cal] {
						out[fn] = ci
					}
				}
			}
		}
	}
	return out
}

// C05 — every reachable destination field accounted for exactly once.
func C05(c *Ctx) {
	r := c.R
	r.Explanation = "Decided for all inputs (structure of the destination pass): every destination field is visited once, in declaration order, by a loop that cannot stop early; " +
		"the per-field matcher is called exactly once for each field that passes the visibility filter and for no other; its result can only be dropped when it is nil or an error is pending; " +
		"each `no match` verdict is preceded on every path by a warning whose format starts with a file:line position and that is printed on stderr."
	r.NotDecided = "the covering relation for nested/embedded shapes as a whole (a nested struct with no visible member yields no line); what the per-field matcher decides (C04, C06)."

	r.Rule("C05-1", "struct pass: the per-field matcher call is dominated by isStructFieldAccessible(dstStruct, field.ObjName()) == true")
	r.Rule("C05-2", "struct pass: one matcher call per invocation, no cycle, the callback never asks the iteration to stop while no error is pending, and the matcher's result is appended unless it is nil or an error is pending")
	closures := c.structPassClosures()
	r.Floor("C05-1", "struct-pass callbacks (functions calling the per-field matcher)", len(closures), 1)
	for fn, call := range closures {
		key := FnKey(fn)
		if len(fn.Params) != 1 {
			r.Undecided("C05-1", key, "callback does not take exactly one node")
			continue
		}
		cand := "param:" + fn.Params[0].Name()
		d := c.ReachOf(call)
		vis := c.M(true, func(t *core.Term) bool {
			return t.IsCallTo(fnAccessible) && len(t.Args) == 3 && t.Args[2].IsCallTo(invObjName) && t.Args[2].Args[0].String() == cand
		})
		r.Check("C05-1", key+":visible", c.Pos(call.Pos()), d.Implies(vis), "per-field matcher runs for a destination member without the visibility test; reach: "+d.Describe(c.O))
		// the matcher gets the candidate as destination
		a0 := c.O.Of(call.Common().Args[1])
		r.Check("C05-1", key+":operand", c.Pos(call.Pos()), a0.String() == cand, "the per-field matcher must receive the visited destination field, got "+a0.String())
		// skipping the call only when invisible
		rc := c.Reach(fn)
		av := c.ReachAvoid(fn, map[*ssa.BasicBlock]bool{call.Block(): true})
		for i, ret := range core.Returns(fn) {
			if ret.Block() == call.Block() {
				continue
			}
			dd := av.At(ret.Block())
			if dd == nil {
				continue
			}
			invisible := c.M(false, func(t *core.Term) bool { return t.IsCallTo(fnAccessible) })
			r.Check("C05-1", sprintf("%s:return%d:skips-only-invisible", key, i+1), c.InstrPos(ret), dd.Implies(invisible), "a visible destination field can be passed over without calling the per-field matcher; reach avoiding the call: "+dd.Describe(c.O))
		}
		// C05-2
		ncalls := 0
		for _, b := range fn.Blocks {
			for _, in := range b.Instrs {
				if ci, ok := in.(ssa.CallInstruction); ok && ci.Common().StaticCallee() == call.Common().StaticCallee() {
					ncalls++
				}
			}
		}
		r.Check("C05-2", key+":one-call", c.Pos(call.Pos()), ncalls == 1, sprintf("expected exactly one per-field matcher call, found %d", ncalls))
		hasBack := false
		for _, b := range fn.Blocks {
			for _, s := range b.Succs {
				if s.Dominates(b) {
					hasBack = true
				}
			}
		}
		r.Check("C05-2", key+":no-cycle", c.Pos(fn.Pos()), !hasBack, "the struct-pass callback contains a loop")
		// appends of the result
		var appends []*ssa.Call
		for _, b := range fn.Blocks {
			for _, in := range b.Instrs {
				if ca, ok := in.(*ssa.Call); ok && core.CalleeName(&ca.Call) == "builtin:append" {
					if el := c.varargElem(ca); el != nil && el.Kind == "extract" && el.Name == "0" && el.Args[0].V == call.(ssa.Value) {
						appends = append(appends, ca)
					}
				}
			}
		}
		r.Check("C05-2", key+":one-append", c.Pos(call.Pos()), len(appends) == 1, sprintf("the matcher's result must be appended exactly once, found %d appends", len(appends)))
		if len(appends) == 1 {
			ap := appends[0]
			// stored back into the captured slice it was appended to
			okStore := false
			if ap.Referrers() != nil {
				for _, rf := range *ap.Referrers() {
					if st, ok := rf.(*ssa.Store); ok && st.Val == ap {
						if c.O.Of(ap.Call.Args[0]).String() == c.O.Of(st.Addr).String() || strings.HasPrefix(c.O.Of(ap.Call.Args[0]).String(), "fv:") {
							okStore = true
						}
					}
				}
			}
			r.Check("C05-2", key+":append-stored", c.Pos(ap.Pos()), okStore, "append result is not stored back into the collected slice")
			av2 := c.ReachAvoid(fn, map[*ssa.BasicBlock]bool{ap.Block(): true})
			resNil := c.M(true, func(t *core.Term) bool {
				return t.Kind == "binop" && t.Name == "==" && ((t.Args[0].Kind == "extract" && t.Args[0].Args[0].V == call.(ssa.Value) && t.Args[1].Is("const", "nil")) ||
					(t.Args[1].Kind == "extract" && t.Args[1].Args[0].V == call.(ssa.Value) && t.Args[0].Is("const", "nil")))
			})
			errPending := c.M(false, func(t *core.Term) bool {
				return t.Kind == "binop" && t.Name == "==" && (t.Args[1].Is("const", "nil") || t.Args[0].Is("const", "nil")) && isErrTyped(t.Args[0], t.Args[1])
			})
			for i, ret := range core.Returns(fn) {
				if !rc.CanReach(call.Block(), ret.Block()) || ret.Block() == ap.Block() {
					continue
				}
				dd := av2.At(ret.Block())
				if dd == nil {
					continue
				}
				// restrict to paths through the call: those have accessible==true
				var through core.DNF
				for _, cj := range dd {
					if (core.DNF{cj}).Implies(vis) {
						through = append(through, cj)
					}
				}
				r.Check("C05-2", sprintf("%s:return%d:drop-only-nil-or-error", key, i+1), c.InstrPos(ret), through.Implies(resNil, errPending),
					"the matcher's verdict for a visible field can be dropped although it is non-nil and no error is pending; reach avoiding the append: "+through.Describe(c.O))
			}
		}
		for i, ret := range core.Returns(fn) {
			if len(ret.Results) != 1 {
				continue
			}
			t := c.O.Of(ret.Results[0])
			if t.Is("const", "false") {
				continue
			}
			dd := c.ReachOf(ret)
			errPending := c.M(false, func(t *core.Term) bool {
				return t.Kind == "binop" && t.Name == "==" && (t.Args[1].Is("const", "nil") || t.Args[0].Is("const", "nil")) && isErrTyped(t.Args[0], t.Args[1])
			})
			r.Check("C05-2", sprintf("%s:return%d:never-stops", key, i+1), c.InstrPos(ret), dd.Implies(errPending), "the callback can stop the destination-field iteration early (returns "+t.String()+") while no error is pending: later fields would be dropped silently")
		}
	}

	c.c05Iterate()
	c.c05Warn()
	c.visibilityRules("C05-7")
	c.noNilVerdictRule("C05-9")
	c.lookaheadVisibilityRule("C05-10")

	r.Rule("C05-8", "the flag that suppresses the `no match` verdict in the default matcher (a captured bool set by the candidate handler) is set only when both the destination field and the candidate are struct-typed (member-wise descent was attempted), and to `error pending ∨ the nested copy produced at least one line` – never unconditionally")
	nf := 0
	for _, dm := range c.defaultMatchers() {
		seen := map[*ssa.Function]bool{}
		for _, s := range append(c.CallsIn(dm, fnIterMethods, false), c.CallsIn(dm, fnIterFields, false)...) {
			mc, ok := s.Args()[1].(*ssa.MakeClosure)
			if !ok || seen[mc.Fn.(*ssa.Function)] {
				continue
			}
			h := mc.Fn.(*ssa.Function)
			seen[h] = true
			cand := "param:" + h.Params[0].Name()
			for _, b := range h.Blocks {
				for _, in := range b.Instrs {
					st, ok := in.(*ssa.Store)
					if !ok {
						continue
					}
					fv, ok := st.Addr.(*ssa.FreeVar)
					if !ok {
						continue
					}
					if bt, ok := fv.Type().Underlying().(*types.Pointer).Elem().Underlying().(*types.Basic); !ok || bt.Kind() != types.Bool {
						continue
					}
					nf++
					d := c.ReachOf(st)
					v := c.O.Of(st.Val)
					structOf := func(who func(*core.Term) bool) core.LitMatcher {
						return c.M(true, func(t *core.Term) bool {
							return t.IsCallTo(fnIsStruct) && t.Args[0].IsCallTo(invExprType) && who(t.Args[0].Args[0])
						})
					}
					isCand := func(t *core.Term) bool { return t.String() == cand }
					isDst := func(t *core.Term) bool { return t.Kind == "fv" }
					// the value: the constant true (older form) or `err != nil || 0 < len(contents)` computed after the nested copy
					okVal := v.Is("const", "true")
					produced := false
					if v.Kind == "phi" && strings.HasPrefix(v.Name, "||") {
						okVal = true
						for _, a := range v.Args {
							switch {
							case a.Is("const", "true"): // the short-circuit edge of `err != nil ||`
							case a.Kind == "binop" && (a.Name == "<" || a.Name == ">") && a.Contains(func(x *core.Term) bool {
								return x.IsCallTo("builtin:len") && x.Args[0].IsField("model.NestStruct.Contents")
							}):
								produced = true
							default:
								okVal = false
							}
						}
					}
					ok2 := okVal && d.Implies(structOf(isCand)) && d.Implies(structOf(isDst))
					// the flag may only say "handled" when the member-wise copy produced a line or failed
					r.Check("C05-8", FnKey(h)+":flag:"+fv.Name()+":only-when-produced", c.InstrPos(st), okVal && produced,
						"the no-match-suppressing flag "+fv.Name()+" is set ("+v.String()+") whether or not the member-wise copy produced anything: a struct field whose members are all invisible (time.Time against sql.NullTime) then gets neither an assignment nor a `no match` line nor a warning")
					r.Check("C05-8", FnKey(h)+":flag:"+fv.Name(), c.InstrPos(st), ok2,
						"the no-match-suppressing flag "+fv.Name()+" can be set ("+v.String()+") without both sides being structs: the destination field would then get neither an assignment nor a `no match` line nor a warning; reach: "+d.Describe(c.O))
				}
			}
		}
	}
	if nf == 0 {
		// the handler keeps no flag: what suppresses the `no match` verdict is then the captured result itself. The demand is the
		// same – a member-wise copy counts only if it produced a line: every NestStruct stored into the captured result is stored
		// under `0 < len(Contents)` (an empty one stored there would end the search with neither assignment, comment nor warning)
		for _, dm := range c.defaultMatchers() {
			seen := map[*ssa.Function]bool{}
			for _, s := range append(c.CallsIn(dm, fnIterMethods, false), c.CallsIn(dm, fnIterFields, false)...) {
				mc, ok := s.Args()[1].(*ssa.MakeClosure)
				if !ok || seen[mc.Fn.(*ssa.Function)] {
					continue
				}
				h := mc.Fn.(*ssa.Function)
				seen[h] = true
				for _, b := range h.Blocks {
					for _, in := range b.Instrs {
						st, ok := in.(*ssa.Store)
						if !ok {
							continue
						}
						fv, ok := st.Addr.(*ssa.FreeVar)
						if !ok {
							continue
						}
						mi, ok := st.Val.(*ssa.MakeInterface)
						if !ok || !strings.HasSuffix(mi.X.Type().String(), "generator/model.NestStruct") {
							continue
						}
						nf++
						produced := c.M(true, func(t *core.Term) bool {
							return t.Kind == "binop" && (t.Name == "<" || t.Name == ">") && t.Contains(func(x *core.Term) bool {
								return x.IsCallTo("builtin:len") && x.Args[0].IsField("model.NestStruct.Contents")
							})
						})
						d := c.ReachOf(st)
						r.Check("C05-8", FnKey(h)+":result:"+fv.Name()+":only-when-produced", c.InstrPos(st), d.Implies(produced),
							"a member-wise copy is stored as the candidate's result whether or not it produced anything: a struct field whose members are all invisible then gets neither an assignment nor a `no match` line nor a warning; reach: "+d.Describe(c.O))
					}
				}
			}
		}
	}
	r.Floor("C05-8", "stores to captured bool flags (or of member-wise copies into the captured result) in candidate handlers", nf, 1)
}

func isErrTyped(a, b *core.Term) bool {
	for _, t := range []*core.Term{a, b} {
		if t.Type != nil && t.Type.String() == "error" {
			return true
		}
		if t.Type != nil {
			if p, ok := t.Type.Underlying().(*types.Pointer); ok && p.Elem().String() == "error" && (t.Kind == "fv" || t.Kind == "local") {
				return true
			}
		}
	}
	return false
}

// c05Iterate checks the field iteration helpers: index from 0, step 1, bound NumFields, callback gets Field(i),
// early exit only when the callback asks for it.
// iteratorRule: the util iterator hands every element (elemCallee(i), i = 0..countCallee()-1) to the callback, in order,
// and stops early only when the callback says so.
func (c *Ctx) iteratorRule(rule, fnName, elemCallee, countCallee string) {
	r := c.R
	fn := c.MustFunc(rule, "/pkg/util", fnName)
	if fn == nil {
		return
	}
	key := FnKey(fn)
	var cbCall ssa.CallInstruction
	for _, b := range fn.Blocks {
		for _, in := range b.Instrs {
			if ci, ok := in.(ssa.CallInstruction); ok {
				if p, ok := ci.Common().Value.(*ssa.Parameter); ok && !ci.Common().IsInvoke() && p == fn.Params[len(fn.Params)-1] {
					if cbCall != nil {
						r.Check(rule, key+":one-callback-call", c.Pos(ci.Pos()), false, "callback invoked at more than one site")
					}
					cbCall = ci
				}
			}
		}
	}
	if cbCall == nil {
		r.Undecided(rule, key, "callback call not found")
		return
	}
	arg := cbCall.Common().Args[0]
	fcall, ok := arg.(*ssa.Call)
	okShape := ok && core.CalleeName(&fcall.Call) == elemCallee
	var idx *ssa.Phi
	if okShape {
		idx, _ = fcall.Call.Args[1].(*ssa.Phi)
		okShape = idx != nil && len(idx.Edges) == 2
	}
	if okShape {
		// phi(0, phi+1)
		var zero, step bool
		for _, e := range idx.Edges {
			if k, ok := e.(*ssa.Const); ok && k.Value != nil && k.Value.ExactString() == "0" {
				zero = true
			}
			if bo, ok := e.(*ssa.BinOp); ok && bo.Op == token.ADD && bo.X == idx {
				if k, ok := bo.Y.(*ssa.Const); ok && k.Value != nil && k.Value.ExactString() == "1" {
					step = true
				}
			}
		}
		okShape = zero && step
	}
	r.Check(rule, key+":index-0-step-1", c.Pos(cbCall.Pos()), okShape, "callback must receive "+elemCallee+"(i) with i running from 0 in steps of 1")
	if okShape {
		d := c.ReachOf(cbCall)
		bound := c.M(true, func(t *core.Term) bool {
			return t.Kind == "binop" && t.Name == "<" && t.Args[0].V == ssa.Value(idx) && t.Args[1].IsCallTo(countCallee) &&
				t.Args[1].Args[0].V == fcall.Call.Args[0]
		})
		r.Check(rule, key+":bound", c.Pos(cbCall.Pos()), d.Implies(bound), "loop bound must be i < "+countCallee+"() of the same object; reach: "+d.Describe(c.O))
		// the only literals on the way to the callback are the loop bound and (on later iterations) nothing else: no filter
		filtered := false
		for _, cj := range d {
			for _, l := range cj {
				t := l.TermOf(c.O)
				if t.Kind == "binop" && t.Name == "<" {
					continue
				}
				if t.Kind == "extract" || strings.HasPrefix(t.Kind, "typeassert") {
					continue // comma-ok struct test before the loop
				}
				filtered = true
			}
		}
		r.Check(rule, key+":no-filter", c.Pos(cbCall.Pos()), !filtered, "a condition other than the loop bound / struct test decides whether a field is visited; reach: "+d.Describe(c.O))
		// early exit only on callback true: every return inside the loop is under cb()==true
		rc := c.Reach(fn)
		for i, ret := range core.Returns(fn) {
			if !rc.CanReach(cbCall.Block(), ret.Block()) {
				continue
			}
			dd := core.Restrict(c.ReachOf(ret), c.ReachOf(cbCall)) // only the ways that went through the callback (a shared final return also serves "nothing to iterate")
			stop := c.M(true, func(t *core.Term) bool { return t.V == cbCall.(ssa.Value) })
			done := c.M(false, func(t *core.Term) bool { return t.Kind == "binop" && t.Name == "<" && t.Args[0].V == ssa.Value(idx) })
			r.Check(rule, sprintf("%s:return%d:exit", key, i+1), c.InstrPos(ret), dd.Implies(stop, done), "iteration can end before the last field without the callback asking for it; reach: "+dd.Describe(c.O))
		}
	}
}

func (c *Ctx) c05Iterate() {
	r := c.R
	r.Rule("C05-6", "util.IterateFields visits Field(i) for i = 0..NumFields()-1 in order and stops early only when the callback returns true; bmodel.IterateStructFields forwards every field to its callback as a node whose parent is the iterated struct")
	c.iteratorRule("C05-6", "IterateFields", "(*go/types.Struct).Field", "(*go/types.Struct).NumFields")
	// IterateStructFields: cb(NewStructFieldNode(structNode, t)) unconditionally, result forwarded
	if f2 := c.MustFunc("C05-6", "/pkg/builder/model", "IterateStructFields"); f2 != nil {
		k2 := FnKey(f2)
		ok := false
		for _, a := range f2.AnonFuncs {
			for _, b := range a.Blocks {
				for _, in := range b.Instrs {
					ci, isCall := in.(ssa.CallInstruction)
					if !isCall {
						continue
					}
					if fv, isFv := ci.Common().Value.(*ssa.UnOp); isFv || true {
						_ = fv
						t := c.O.Of(ci.Common().Value)
						if t.Kind != "fv" {
							continue
						}
						arg := c.O.Of(ci.Common().Args[0])
						d := c.ReachOf(ci)
						if arg.IsCallTo(fnNewFieldNode) && arg.Args[0].Kind == "fv" && arg.Args[1].Kind == "param" && len(d) == 1 && len(d[0]) == 0 {
							// result forwarded
							for _, ret := range core.Returns(a) {
								if c.O.Of(ret.Results[0]).V == ci.(ssa.Value) {
									ok = true
								}
							}
						}
					}
				}
			}
		}
		r.Check("C05-6", k2+":forwards-every-field", c.Pos(f2.Pos()), ok, "IterateStructFields must call cb(NewStructFieldNode(structNode, field)) unconditionally for every field and forward its result")
	}
}

// c05Warn: every NoMatchField literal is preceded by a positioned warning on stderr.
func (c *Ctx) c05Warn() {
	r := c.R
	r.Rule("C05-3", "every gmodel.NoMatchField literal is preceded on every path by logger.Warnf whose constant format starts with \"%v: \" and whose first operand is a token.Position from FileSet.Position(pos of the method or of the failing notation)")
	named := c.MustType("C05-3", "/pkg/generator/model", "NoMatchField")
	if named != nil {
		lits := c.Lits(named)
		r.Floor("C05-3", "NoMatchField literals", len(lits), 5)
		perFn := map[*ssa.Function]int{}
		for _, a := range lits {
			fn := a.Parent()
			perFn[fn]++
			key := sprintf("%s:nomatch%d", FnKey(fn), perFn[fn])
			warns := c.CallsIn(fn, fnWarnf, false)
			blocked := map[*ssa.BasicBlock]bool{}
			sameBlockBefore := false
			var good []Site
			for _, w := range warns {
				if c.warnIsPositioned(w) {
					good = append(good, w)
				}
			}
			for _, w := range good {
				if w.Instr.Block() == a.Block() {
					if indexIn(a.Block(), w.Instr) < indexIn(a.Block(), a) {
						sameBlockBefore = true
					}
					continue
				}
				blocked[w.Instr.Block()] = true
			}
			ok := sameBlockBefore
			if !ok {
				av := c.ReachAvoid(fn, blocked)
				ok = len(good) > 0 && len(av.At(a.Block())) == 0
			}
			r.Check("C05-3", key+":warned", c.InstrPos(a), ok, "a `no match` verdict can be produced without a preceding positioned warning (logger.Warnf(\"%v: …\", fset.Position(…), …))")
		}
	}

	r.Rule("C05-4", "logger.Warnf prints format+operands on the global elogger; elogger is log.New(os.Stderr, …) initially and on every SetupLogger branch except test mode / (enabled ∧ no output), and runner.Run always passes Enable() and Output(f)")
	if fn := c.MustFunc("C05-4", "/pkg/logger", "Warnf"); fn != nil {
		ok := false
		for _, s := range c.CallsIn(fn, "(*log.Logger).Printf", false) {
			recv := c.O.Of(s.Args()[0])
			if recv.Is("global", "logger.elogger") {
				f := c.O.Of(s.Args()[1])
				a := c.O.Of(s.Args()[2])
				if f.Kind == "param" && a.Kind == "param" && len(c.ReachOf(s.Instr)) == 1 && len(c.ReachOf(s.Instr)[0]) == 0 {
					ok = true
				}
			}
		}
		r.Check("C05-4", FnKey(fn)+":prints-on-elogger", c.Pos(fn.Pos()), ok, "Warnf must unconditionally call elogger.Printf(format, a...)")
	}
	// stores to elogger
	lp := c.P.SSAPkgs[mod+"/pkg/logger"]
	if lp == nil {
		r.Undecided("C05-4", "logger", "package not found")
		return
	}
	g, _ := lp.Members["elogger"].(*ssa.Global)
	if g == nil {
		r.Undecided("C05-4", "elogger", "global not found")
		return
	}
	nst := 0
	for _, fn := range c.P.Funcs() {
		for _, b := range fn.Blocks {
			for _, in := range b.Instrs {
				st, ok := in.(*ssa.Store)
				if !ok || st.Addr != ssa.Value(g) {
					continue
				}
				nst++
				v := c.OfInl(st.Val) // a local constructor helper (func() *log.Logger { return log.New(…) }) is read through
				toStderr := v.IsCallTo("log.New") && v.Args[0].Is("global", "os.Stderr")
				key := sprintf("%s:store-elogger%d", FnKey(fn), nst)
				if toStderr {
					r.Check("C05-4", key, c.InstrPos(st), true, "")
					continue
				}
				d := c.ReachOf(st)
				forTest := c.M(true, isField("logger.option.forTest"))
				enabledNoOut := func(l core.Lit) bool {
					t, pos := c.Canon(l)
					return pos && t.Kind == "binop" && t.Name == "==" && t.Args[0].IsField("logger.option.out") && t.Args[1].Is("const", "nil")
				}
				r.Check("C05-4", key, c.InstrPos(st), d.Implies(forTest, enabledNoOut), "warnings/errors are sent somewhere other than os.Stderr outside test mode / the enabled-without-output branch; value "+v.String()+"; reach: "+d.Describe(c.O))
			}
		}
	}
	r.Floor("C05-4", "stores to logger.elogger (incl. initialiser)", nst, 3)
	// runner: SetupLogger(Enable(), Output(f))
	for _, s := range c.CallsTo(pLog + "SetupLogger") {
		if s.Fn.Pkg == nil || s.Fn.Pkg.Pkg.Path() != mod+"/pkg/runner" {
			continue
		}
		// varargs elements
		var names []string
		if sl, ok := s.Args()[0].(*ssa.Slice); ok {
			if al, ok := sl.X.(*ssa.Alloc); ok && al.Referrers() != nil {
				for _, rf := range *al.Referrers() {
					if ia, ok := rf.(*ssa.IndexAddr); ok && ia.Referrers() != nil {
						for _, rr := range *ia.Referrers() {
							if st, ok := rr.(*ssa.Store); ok {
								names = append(names, c.O.Of(st.Val).Name)
							}
						}
					}
				}
			}
		}
		hasEnable, hasOutput, other := false, false, false
		for _, n := range names {
			switch n {
			case pLog + "Enable":
				hasEnable = true
			case pLog + "Output":
				hasOutput = true
			default:
				other = true
			}
		}
		r.Check("C05-4", FnKey(s.Fn)+":SetupLogger-args", c.Pos(s.Pos()), hasEnable && hasOutput && !other, sprintf("runner must call SetupLogger(Enable(), Output(f)) so that stderr stays the error sink, got %v", names))
	}
}

func indexIn(b *ssa.BasicBlock, in ssa.Instruction) int {
	for i, x := range b.Instrs {
		if x == in {
			return i
		}
	}
	return -1
}

// warnIsPositioned: Warnf("%v: …", fset.Position(X), …).
func (c *Ctx) warnIsPositioned(w Site) bool {
	args := w.Args()
	f := c.O.Of(args[0])
	if f.Kind != "const" || !strings.HasPrefix(f.Name, `"%v: `) {
		return false
	}
	first := c.varargAt(args[1], 0)
	if first == nil {
		return false
	}
	// either the call itself or a local of type token.Position (only FileSet.Position/PositionFor produce one)
	return first.IsCallTo("(*go/token.FileSet).Position") || (first.Type != nil && first.Type.String() == "go/token.Position")
}

// varargAt returns the term stored at index i of the varargs array behind slice value v.
func (c *Ctx) varargAt(v ssa.Value, i int) *core.Term {
	sl, ok := v.(*ssa.Slice)
	if !ok {
		// may be a single-store local holding the position (methodPosStr := …) passed on: not a vararg slice
		return nil
	}
	al, ok := sl.X.(*ssa.Alloc)
	if !ok || al.Referrers() == nil {
		return nil
	}
	for _, rf := range *al.Referrers() {
		ia, ok := rf.(*ssa.IndexAddr)
		if !ok || ia.Referrers() == nil {
			continue
		}
		k, ok := ia.Index.(*ssa.Const)
		if !ok || k.Value == nil || k.Value.ExactString() != sprintf("%d", i) {
			continue
		}
		for _, rr := range *ia.Referrers() {
			if st, ok := rr.(*ssa.Store); ok && st.Addr == ia {
				return c.O.Of(st.Val)
			}
		}
	}
	return nil
}
