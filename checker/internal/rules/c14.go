package rules

import (
	"go/token"
	"go/types"
	"regexp/syntax"
	"sort"
	"strconv"
	"strings"

	"cvcheck/internal/core"

	"golang.org/x/tools/go/ssa"
)

func constInt(t *core.Term) (int, bool) {
	if t == nil || t.Kind != "const" {
		return 0, false
	}
	n, err := strconv.Atoi(t.Name)
	return n, err == nil
}

// lenOfValue matches len(v)/v.Len() where the operand is the given SSA value or renders as the given term.
func lenOfValue(v ssa.Value, s string) func(*core.Term) bool {
	return func(t *core.Term) bool {
		if !(t.IsCallTo("builtin:len") || t.IsCallTo("(*go/types.Tuple).Len")) {
			return false
		}
		return (v != nil && t.Args[0].V == v) || t.Args[0].String() == s
	}
}

// C14 — bad input yields a diagnostic and a non-zero exit, never a crash or hang.
func C14(c *Ctx) {
	r := c.R
	r.Explanation = "Panic-freedom is not decidable in general; decided is a closed list of panic/hang classes this code base can hit, each with its accepted idioms enumerated: " +
		"tuple indexing and make() lengths dominated by an interval on the same tuple's Len(); constant indexes into FindStringSubmatch/Fields/Split results dominated by a length fact; no error discarded while its value is used; " +
		"no method call on a possibly-nil *types.Package; unchecked type assertions only where a constructor-side comma-ok assertion exists; variables assigned only in callbacks nil-tested before use; MustCompile only on constants and QuoteMeta; " +
		"every loop's exit condition depends on a value that changes in the loop; errors of callees are returned; all-or-nothing method parsing; main prints on stderr and exits non-zero; diagnostics start with a position."
	r.NotDecided = "slice/string bounds in general (the compiler's unproven-bounds list is only cross-referenced in the thorough tier); panics inside go/packages, goimports, go/printer; hangs inside `go list`."

	c.c14Tuples()
	c.c14Index()
	c.sliceBoundsRule("C14-11")
	c.varIndexRule("C14-12")
	c.deferredResultRule("C14-13")
	c.errorfRule("C14-14")
	c.emptiedDocRule("C14-15")
	c.identifierRule("C14-17")
	c.interfaceTypeErrorRule("C14-18")
	c.genericShapesRule("C14-19", "interface")
	c.lateShapeRules("C14-20", "lookup-components")
	c.iterationErrorRule("C14-21")
	c.recursionRule("C14-22")
	c.literalExprRule("C14-23")
	c.positive("C14-13", "deferred-overwrite", func(pc *Ctx) { pc.deferredResultRule("C14-13") }, []string{"runner.Run$1", "writes:err"}, nil)
	c.positive("C14-12", "unbounded-index", func(pc *Ctx) { pc.varIndexRule("C14-12") }, []string{"runner.At"}, nil)
	c.c14Errors()
	c.c14NilPkg()
	c.c14Assert()
	c.c14Callback()
	c.c14Regexp()
	c.c14Loops()
	c.c14Exit()
	c.c14Diag()
}

func (c *Ctx) c14Tuples() {
	r := c.R
	r.Rule("C14-1", "(*types.Tuple).At(k) and make(_, X.Len()-c): dominated by an interval on the same tuple's Len() (constant index: Len ≥ k+1; loop index i: i < Len; i+c: i < Len-c), or the constructor invariant of StructMethodNode (C07-8)")
	// constructor invariant: methods of StructMethodNode may index Results() of their method field
	invariant := func(fn *ssa.Function) bool {
		return fn.Signature.Recv() != nil && strings.HasSuffix(fn.Signature.Recv().Type().String(), "builder/model.StructMethodNode")
	}
	n := 0
	for _, s := range c.CallsTo("(*go/types.Tuple).At") {
		n++
		tuple := s.Args()[0]
		ts := c.O.Of(tuple).String()
		idx := c.O.Of(s.Args()[1])
		d := c.ReachOf(s.Instr)
		key := sprintf("%s:At:%s", FnKey(s.Fn), idx.String())
		lp := lenOfValue(tuple, ts)
		if invariant(s.Fn) {
			k, isK := constInt(idx)
			r.Check("C14-1", key+":ctor-invariant", c.Pos(s.Pos()), isK && k == 0, "StructMethodNode methods may only touch Results().At(0) (guaranteed by the constructor sites, rule C07-8)")
			continue
		}
		if k, isK := constInt(idx); isK {
			ok := d.Implies(c.atLeast(lp, k+1))
			if !ok && k >= 1 {
				// num == 2 / Len()==2 style
				ok = d.Implies(c.exactly(lp, k+1))
			}
			r.Check("C14-1", key, c.Pos(s.Pos()), ok, sprintf("Tuple.At(%d) is not dominated by Len() ≥ %d on the same tuple (a signature with fewer elements panics); reach: %s", k, k+1, d.Describe(c.O)))
			continue
		}
		// loop index
		ok := d.Implies(c.M(true, func(t *core.Term) bool {
			if t.Kind != "binop" || t.Name != "<" {
				return false
			}
			l, rr := t.Args[0], t.Args[1]
			if l.String() == idx.String() && lp(rr) {
				return true
			}
			// i+c < ... : At(i+c) with i < Len-c, also when the bound is len(make(_, Len-c))
			bound := rr
			if bound.IsCallTo("builtin:len") && bound.Args[0].Kind == "make" && len(bound.Args[0].Args) > 0 {
				bound = bound.Args[0].Args[0]
			}
			if idx.Kind == "binop" && idx.Name == "+" && l.String() == idx.Args[0].String() && bound.Kind == "binop" && bound.Name == "-" && lp(bound.Args[0]) && bound.Args[1].String() == idx.Args[1].String() {
				return true
			}
			return false
		}))
		r.Check("C14-1", key, c.Pos(s.Pos()), ok, "Tuple.At(i) with a variable index is not dominated by i < Len() of the same tuple; reach: "+d.Describe(c.O))
	}
	r.Floor("C14-1", "Tuple.At sites", n, 12)
	// make with Len()-c
	for _, fn := range c.P.Funcs() {
		for _, b := range fn.Blocks {
			for _, in := range b.Instrs {
				ms, ok := in.(*ssa.MakeSlice)
				if !ok {
					continue
				}
				lt := c.O.Of(ms.Len)
				if lt.Kind != "binop" || lt.Name != "-" {
					continue
				}
				k, isK := constInt(lt.Args[1])
				if !isK {
					continue
				}
				d := c.ReachOf(ms)
				a := lt.Args[0]
				pred := func(t *core.Term) bool { return t.String() == a.String() }
				r.Check("C14-1", sprintf("%s:make:%s", FnKey(fn), lt.String()), c.InstrPos(ms), d.Implies(c.atLeast(pred, k)),
					sprintf("make(_, n-%d) is not dominated by n ≥ %d (negative length panics); reach: %s", k, k, d.Describe(c.O)))
			}
		}
	}
}

func (c *Ctx) c14Index() {
	r := c.R
	r.Rule("C14-2", "constant index into the result of FindStringSubmatch / strings.Fields / strings.Split: dominated by a nil/len fact on that very slice (Split ⇒ len ≥ 1)")
	n := 0
	for _, fn := range c.P.Funcs() {
		for _, b := range fn.Blocks {
			for _, in := range b.Instrs {
				var base, idx ssa.Value
				switch x := in.(type) {
				case *ssa.IndexAddr:
					base, idx = x.X, x.Index
				case *ssa.Index:
					base, idx = x.X, x.Index
				default:
					continue
				}
				if _, isSlice := base.Type().Underlying().(*types.Slice); !isSlice {
					continue
				}
				bt := c.O.Of(base)
				src := bt.Find(func(t *core.Term) bool {
					return t.IsCallTo("(*regexp.Regexp).FindStringSubmatch") || t.IsCallTo("strings.Fields") || t.IsCallTo("strings.Split") || t.IsCallTo("strings.SplitN")
				})
				if src == nil || !(bt == src || bt.Kind == "phi") {
					continue
				}
				k, isK := constInt(c.O.Of(idx))
				if !isK {
					continue
				}
				n++
				d := c.ReachOf(in)
				lp := lenOfValue(base, "")
				known := 0
				if bt.IsCallTo("strings.Split") {
					known = 1
				}
				ok := k < known || d.Implies(c.atLeast(lp, k+1), c.exactly(lp, k+1))
				if !ok && known > 0 && k == known {
					ok = d.Implies(c.notExactly(lp, known), c.atLeast(lp, k+1))
				}
				if !ok {
					// exactly(len, m) with m > k
					ok = d.Implies(func(l core.Lit) bool {
						t, pos := c.Canon(l)
						lo, _, isCmp := cmpInterval(t, lp)
						return isCmp && pos && lo >= k+1
					})
				}
				if !ok && src.IsCallTo("(*regexp.Regexp).FindStringSubmatch") && bt == src {
					// a regexp global with a constant pattern of g groups yields nil or exactly g+1 elements
					if g := c.regexpGroups(src.Args[0]); g >= k {
						nonNil := c.M(false, isNilCmp(func(t *core.Term) bool { return t.V == base }))
						ok = d.Implies(nonNil, c.atLeast(lp, 1))
					}
				}
				r.Check("C14-2", sprintf("%s:index%d:%s", FnKey(fn), k, shortCallee(src.Name)), c.InstrPos(in), ok,
					sprintf("index [%d] into the result of %s is not dominated by a length fact on that slice (malformed notation text panics with index out of range); reach: %s", k, src.Name, d.Describe(c.O)))
			}
		}
	}
	r.Floor("C14-2", "constant indexes into match/split results", n, 15)
}

// regexpGroups returns the number of capture groups of the regexp held in a package-level variable
// initialised by regexp.MustCompile(<constant>), or -1.
func (c *Ctx) regexpGroups(recv *core.Term) int {
	if recv.Kind != "global" {
		return -1
	}
	for _, fn := range c.P.Funcs() {
		if fn.Name() != "init" {
			continue
		}
		for _, b := range fn.Blocks {
			for _, in := range b.Instrs {
				st, ok := in.(*ssa.Store)
				if !ok {
					continue
				}
				g, ok := st.Addr.(*ssa.Global)
				if !ok || g.Pkg.Pkg.Name()+"."+g.Name() != recv.Name {
					continue
				}
				v := c.O.Of(st.Val)
				if !v.IsCallTo("regexp.MustCompile") || v.Args[0].Kind != "const" {
					return -1
				}
				pat, err := strconv.Unquote(v.Args[0].Name)
				if err != nil {
					return -1
				}
				re, err := syntax.Parse(pat, syntax.Perl)
				if err != nil {
					return -1
				}
				return re.MaxCap()
			}
		}
	}
	return -1
}

func (c *Ctx) c14Errors() {
	r := c.R
	r.Rule("C14-3", "no call's error result is discarded while its other result is used (table: os.Stat(output path) – absent output is normal; gonanoid.Nanoid – fails only if crypto/rand fails)")
	accepted := map[string]string{
		"parser.NewParser:os.Stat": "the output file may not exist yet; a nil FileInfo makes SameFile false",
		"(*parser.Parser).findConvergenEntries:github.com/matoous/go-nanoid.Nanoid": "fails only when the system random source fails",
	}
	n := 0
	for _, fn := range c.P.Funcs() {
		for _, b := range fn.Blocks {
			for _, in := range b.Instrs {
				call, ok := in.(*ssa.Call)
				if !ok {
					continue
				}
				tup, ok := call.Type().(*types.Tuple)
				if !ok || tup.Len() < 2 || tup.At(tup.Len()-1).Type().String() != "error" {
					continue
				}
				n++
				errUsed, valUsed := false, false
				if call.Referrers() != nil {
					for _, rf := range *call.Referrers() {
						if ex, ok := rf.(*ssa.Extract); ok && ex.Referrers() != nil && len(*ex.Referrers()) > 0 {
							nonDebug := false
							for _, rr := range *ex.Referrers() {
								if _, isD := rr.(*ssa.DebugRef); !isD {
									nonDebug = true
								}
							}
							if ex.Index == tup.Len()-1 {
								errUsed = errUsed || nonDebug
							} else {
								valUsed = valUsed || nonDebug
							}
						}
					}
				}
				if errUsed || !valUsed {
					continue
				}
				name := core.CalleeName(&call.Call)
				k := FnKey(fn) + ":" + name
				_, okT := accepted[k]
				r.Check("C14-3", k, c.Pos(call.Pos()), okT, "the error of "+name+" is discarded and its value used anyway (a nil/zero value is then dereferenced or trusted)")
			}
		}
	}
	r.Floor("C14-3", "calls returning (…, error) examined", n, 15)
}

func (c *Ctx) c14NilPkg() {
	r := c.R
	r.Rule("C14-4", "a method is called on Object.Pkg() (nil for universe types such as error) only under a dominating nil test of that value; table: function objects (a *types.Signature-typed object always has a package). An earlier table entry for the conversion targets in NewTypecast (\"a conversion to error is always an assignment\") was false behind a pointer (*MyErr → *error, finding F24) and was removed")
	accepted := map[string]string{
		"(*builder.FunctionBuilder).buildManipulator": "hook function objects are declared functions: Pkg() != nil",
	}
	n := 0
	for _, s := range c.Calls(func(n string) bool { return strings.HasPrefix(n, "(*go/types.Package).") }) {
		recv := c.O.Of(s.Args()[0])
		isPkgCall := (recv.Kind == "call" && strings.HasSuffix(recv.Name, ").Pkg")) || (recv.Kind == "invoke" && strings.HasSuffix(recv.Name, ").Pkg"))
		if !isPkgCall {
			continue
		}
		n++
		d := c.ReachOf(s.Instr)
		rs := recv.String()
		ok := d.Implies(c.M(false, isNilCmp(termEq(rs))))
		if !ok {
			ok = c.onlyReachedFrom(s.Fn, accepted, 3)
		}
		r.Check("C14-4", FnKey(s.Fn)+":"+shortCallee(s.Callee), c.Pos(s.Pos()), ok, "method call on "+rs+" without a dominating nil test (an `error`-typed field makes Pkg() nil → SIGSEGV); reach: "+d.Describe(c.O))
	}
	r.Floor("C14-4", "method calls on Pkg() results", n, 4)
}

// onlyReachedFrom: fn is one of the accepted functions, or every static call site of fn lies in a function that is
// (helpers extracted from an accepted function inherit its justification).
func (c *Ctx) onlyReachedFrom(fn *ssa.Function, accepted map[string]string, depth int) bool {
	if _, ok := accepted[FnKey(fn)]; ok {
		return true
	}
	if depth == 0 {
		return false
	}
	if fn.Parent() != nil {
		return c.onlyReachedFrom(fn.Parent(), accepted, depth)
	}
	n := 0
	for _, s := range c.Calls(nil) {
		if s.Instr.Common().StaticCallee() != fn {
			continue
		}
		n++
		if !c.onlyReachedFrom(s.Fn, accepted, depth-1) {
			return false
		}
	}
	// the function must not be used as a value elsewhere
	return n > 0 && !c.usedAsValue(fn)
}

func (c *Ctx) usedAsValue(fn *ssa.Function) bool {
	for _, f := range c.P.Funcs() {
		for _, b := range f.Blocks {
			for _, in := range b.Instrs {
				var ops [16]*ssa.Value
				for i, op := range in.Operands(ops[:0]) {
					if op == nil || *op != ssa.Value(fn) {
						continue
					}
					if ci, ok := in.(ssa.CallInstruction); ok && i == 0 && ci.Common().Value == ssa.Value(fn) {
						continue
					}
					return true
				}
			}
		}
	}
	return false
}

func (c *Ctx) c14Assert() {
	r := c.R
	r.Rule("C14-5", "x.(T) without comma-ok only for (a) Type() of a *types.Func asserted to *types.Signature, (b) Type() of MethodEntry.Method / intfEntry.intf, whose constructions are dominated by a comma-ok assertion of the same shape")
	n := 0
	for _, fn := range c.P.Funcs() {
		for _, b := range fn.Blocks {
			for _, in := range b.Instrs {
				ta, ok := in.(*ssa.TypeAssert)
				if !ok || ta.CommaOk {
					continue
				}
				// type switches are compiled to comma-ok asserts; a plain assert remains
				n++
				t := c.O.Of(ta.X)
				target := core.ShortType(ta.AssertedType)
				ok2 := false
				switch target {
				case "*types.Signature":
					// Type() of a *types.Func value
					isFuncType := (t.Kind == "call" && strings.HasSuffix(t.Name, ").Type") && t.Contains(func(s *core.Term) bool {
						return s.Type != nil && (s.Type.String() == "*go/types.Func")
					}))
					fromEntry := t.Kind == "invoke" && t.Name == "(types.Object).Type" && t.Args[0].IsField("model.MethodEntry.Method")
					ok2 = isFuncType || fromEntry
				case "*types.Interface":
					ok2 = t.Contains(func(s *core.Term) bool { return s.IsField("parser.intfEntry.intf") })
				}
				r.Check("C14-5", sprintf("%s:assert:%s", FnKey(fn), target), c.InstrPos(ta), ok2, "unchecked type assertion to "+target+" on "+t.String())
			}
		}
	}
	r.Floor("C14-5", "unchecked type assertions", n, 5)
	// constructor side: MethodEntry literal in the parser dominated by comma-ok *types.Signature on Method.Type()
	if me := c.P.LookupType("/pkg/builder/model", "MethodEntry"); me != nil {
		for _, a := range c.Lits(me) {
			if a.Parent().Pkg == nil || a.Parent().Pkg.Pkg.Path() != mod+"/pkg/parser" {
				continue
			}
			m := LitFields(a)["Method"]
			ok := false
			if m != nil {
				ms := c.O.Of(m).String()
				d := c.ReachOf(a)
				ok = d.Implies(c.M(true, func(t *core.Term) bool {
					return t.Kind == "extract" && t.Name == "1" && t.Args[0].Kind == "typeassert,ok" && t.Args[0].Name == "*types.Signature" && t.Args[0].Args[0].Contains(func(s *core.Term) bool { return s.String() == ms })
				}))
			}
			r.Check("C14-5", FnKey(a.Parent())+":MethodEntry:signature-checked", c.InstrPos(a), ok, "a MethodEntry can be built for an object whose type was not asserted (comma-ok) to be a signature")
		}
	}
}

func (c *Ctx) c14Callback() {
	r := c.R
	r.Rule("C14-6", "a pointer variable that is assigned only inside a callback (closure) is dereferenced in the enclosing function only under a dominating nil test of that variable")
	n := 0
	for _, fn := range c.P.Funcs() {
		for _, b := range fn.Blocks {
			for _, in := range b.Instrs {
				al, ok := in.(*ssa.Alloc)
				if !ok || !al.Heap || al.Referrers() == nil {
					continue
				}
				if _, isPtr := al.Type().Underlying().(*types.Pointer).Elem().Underlying().(*types.Pointer); !isPtr {
					continue
				}
				storedInClosure, storedHere := false, false
				for _, rf := range *al.Referrers() {
					switch x := rf.(type) {
					case *ssa.Store:
						if x.Addr == al {
							if k, isK := x.Val.(*ssa.Const); !isK || k.Value != nil || !k.IsNil() {
								storedHere = true
							}
						}
					case *ssa.MakeClosure:
						if core.ClosureStores(x, al) {
							storedInClosure = true
						}
					}
				}
				if !storedInClosure || storedHere {
					continue
				}
				n++
				// loads in fn that are dereferenced
				for _, rf := range *al.Referrers() {
					u, ok := rf.(*ssa.UnOp)
					if !ok || u.Op != token.MUL || u.Referrers() == nil {
						continue
					}
					for _, use := range *u.Referrers() {
						deref := false
						switch x := use.(type) {
						case *ssa.FieldAddr:
							deref = x.X == u
						case ssa.CallInstruction:
							cc := x.Common()
							if !cc.IsInvoke() && len(cc.Args) > 0 && cc.Args[0] == ssa.Value(u) && cc.Signature().Recv() != nil {
								deref = true
							}
						case *ssa.UnOp:
							deref = x.Op == token.MUL
						}
						if !deref {
							continue
						}
						d := c.ReachOf(use)
						nilTest := c.M(false, isNilCmp(func(t *core.Term) bool {
							if lu, ok := t.V.(*ssa.UnOp); ok {
								return lu.X == ssa.Value(al)
							}
							return false
						}))
						r.Check("C14-6", sprintf("%s:%s:deref", FnKey(fn), al.Comment), c.InstrPos(use), d.Implies(nilTest),
							"variable "+al.Comment+" is assigned only inside a callback and dereferenced without a dominating nil test (it stays nil when the callback never runs); reach: "+d.Describe(c.O))
					}
				}
			}
		}
	}
	r.Floor("C14-6", "callback-assigned pointer variables", n, 1)
}

func (c *Ctx) c14Regexp() {
	r := c.R
	r.Rule("C14-7", "regexp.MustCompile only on constants, possibly concatenated with regexp.QuoteMeta(…)")
	n := 0
	for _, s := range c.CallsTo("regexp.MustCompile") {
		n++
		t := c.O.Of(s.Args()[0])
		var okTerm func(t *core.Term) bool
		okTerm = func(t *core.Term) bool {
			switch {
			case t.Kind == "const":
				return true
			case t.IsCallTo("regexp.QuoteMeta"):
				return true
			case t.Kind == "binop" && t.Name == "+":
				return okTerm(t.Args[0]) && okTerm(t.Args[1])
			}
			return false
		}
		r.Check("C14-7", FnKey(s.Fn)+":MustCompile", c.Pos(s.Pos()), okTerm(t), "MustCompile on text that is not constant/quoted panics on bad input: "+t.String())
	}
	r.Floor("C14-7", "MustCompile sites", n, 5)
	for _, s := range c.Calls(func(n string) bool { return n == "builtin:panic" }) {
		r.Check("C14-8", FnKey(s.Fn)+":panic", c.Pos(s.Pos()), false, "explicit panic in module code")
	}
}

func (c *Ctx) c14Loops() {
	r := c.R
	r.Rule("C14-8", "no explicit panic, no integer division by a non-constant; every loop has an exit whose condition depends on a value that changes inside the loop (φ of the loop header, range/next, or a call on such a value); recursion only in the confirmed cycles")
	n := 0
	for _, fn := range c.P.Funcs() {
		// division
		for _, b := range fn.Blocks {
			for _, in := range b.Instrs {
				if bo, ok := in.(*ssa.BinOp); ok && (bo.Op == token.QUO || bo.Op == token.REM) {
					if bt, ok := bo.X.Type().Underlying().(*types.Basic); ok && bt.Info()&types.IsInteger != 0 {
						_, isK := bo.Y.(*ssa.Const)
						r.Check("C14-8", FnKey(fn)+":int-division", c.InstrPos(bo), isK, "integer division by a non-constant")
					}
				}
			}
		}
		// loops
		heads := map[*ssa.BasicBlock]bool{}
		for _, b := range fn.Blocks {
			for _, s := range b.Succs {
				if s.Dominates(b) {
					heads[s] = true
				}
			}
		}
		var hs []*ssa.BasicBlock
		for h := range heads {
			hs = append(hs, h)
		}
		sort.Slice(hs, func(i, j int) bool { return hs[i].Index < hs[j].Index })
		for li, h := range hs {
			n++
			// natural loop body: union over back edges to h
			body := map[*ssa.BasicBlock]bool{h: true}
			var stack []*ssa.BasicBlock
			for _, p := range h.Preds {
				if h.Dominates(p) && !body[p] {
					body[p] = true
					stack = append(stack, p)
				}
			}
			for len(stack) > 0 {
				x := stack[len(stack)-1]
				stack = stack[:len(stack)-1]
				for _, p := range x.Preds {
					if !body[p] {
						body[p] = true
						stack = append(stack, p)
					}
				}
			}
			variant := false
			hasExit := false
			for b := range body {
				if len(b.Instrs) == 0 {
					continue
				}
				last := b.Instrs[len(b.Instrs)-1]
				exits := false
				for _, s := range b.Succs {
					if !body[s] {
						exits = true
					}
				}
				if _, isRet := last.(*ssa.Return); isRet {
					exits = true
				}
				if !exits {
					continue
				}
				hasExit = true
				iff, ok := last.(*ssa.If)
				if !ok {
					continue
				}
				// does the condition depend on something defined in the loop that varies?
				seen := map[ssa.Value]bool{}
				var dep func(v ssa.Value, d int) bool
				dep = func(v ssa.Value, d int) bool {
					if v == nil || seen[v] || d > 12 {
						return false
					}
					seen[v] = true
					switch x := v.(type) {
					case *ssa.Phi:
						if body[x.Block()] {
							return true
						}
					case *ssa.Next:
						return true
					case *ssa.UnOp:
						if x.Op == token.MUL {
							// load of a variable stored inside the loop (or in a closure)
							if al, ok := x.X.(*ssa.Alloc); ok && al.Referrers() != nil {
								for _, rf := range *al.Referrers() {
									if st, ok := rf.(*ssa.Store); ok && body[st.Block()] {
										return true
									}
									if _, ok := rf.(*ssa.MakeClosure); ok {
										return true
									}
								}
							}
							if _, ok := x.X.(*ssa.FreeVar); ok {
								return true
							}
						}
					case *ssa.Call:
						// result of a call made inside the loop on loop-variant operands, or of a callback
						if body[x.Block()] {
							if _, isParam := x.Call.Value.(*ssa.Parameter); isParam {
								return true
							}
							if _, isFV := x.Call.Value.(*ssa.UnOp); isFV {
								return true
							}
						}
					}
					var ops [8]*ssa.Value
					if in, ok := v.(ssa.Instruction); ok {
						for _, op := range in.Operands(ops[:0]) {
							if op != nil && *op != nil && dep(*op, d+1) {
								return true
							}
						}
					}
					return false
				}
				if dep(iff.Cond, 0) {
					variant = true
				}
			}
			r.Check("C14-8", sprintf("%s:loop%d:terminates", FnKey(fn), li+1), c.InstrPos(h.Instrs[0]), hasExit && variant, "no exit condition of this loop depends on a value that changes inside it (possible hang)")
		}
	}
	r.Floor("C14-8", "loops examined", n, 25)
}

func (c *Ctx) c14Exit() {
	r := c.R
	r.Rule("C14-9", "exit path: in main every error branch prints on os.Stderr and reaches os.Exit with a non-zero constant; in Run/Parse/CreateFunctions/CreateFunction/GenerateBaseCode/Generate a success return is reachable only on the nil edge of every error-returning call it passed; parseMethods succeeds only if it produced an entry for every method of the method set")
	if mf := c.mainFunc(); mf != nil {
		// exit sites: os.Exit calls in package main (main itself or a helper such as exitOnError(err))
		var exits []Site
		for _, s := range c.CallsTo("os.Exit") {
			if s.Fn.Pkg == mf.Pkg {
				exits = append(exits, s)
			}
		}
		r.Floor("C14-9", "os.Exit calls in package main", len(exits), 1)
		for i, s := range exits {
			code, isK := constInt(c.O.Of(s.Args()[0]))
			r.Check("C14-9", sprintf("%s:exit%d:non-zero", FnKey(s.Fn), i+1), c.Pos(s.Pos()), isK && code != 0, "error exit with status "+c.O.Of(s.Args()[0]).String())
			// a print to os.Stderr in the same block before it
			printed := false
			for _, in := range s.Instr.Block().Instrs {
				if ci, ok := in.(ssa.CallInstruction); ok && indexIn(s.Instr.Block(), in) < indexIn(s.Instr.Block(), s.Instr) {
					nme := core.CalleeName(ci.Common())
					if (nme == "fmt.Fprintln" || nme == "fmt.Fprint" || nme == "fmt.Fprintf") && c.O.Of(ci.Common().Args[0]).Is("global", "os.Stderr") {
						printed = true
					}
				}
			}
			r.Check("C14-9", sprintf("%s:exit%d:message-on-stderr", FnKey(s.Fn), i+1), c.Pos(s.Pos()), printed, "exit without a message on os.Stderr")
		}
		// each error-returning call in main leads to an exit on err != nil
		for _, b := range mf.Blocks {
			for _, in := range b.Instrs {
				call, ok := in.(*ssa.Call)
				if !ok || call.Type().String() != "error" {
					continue
				}
				name := core.CalleeName(&call.Call)
				if !isModuleCallee(name) {
					continue
				}
				found := false
				for _, s := range exits {
					if s.Fn != mf {
						continue
					}
					d := c.ReachOf(s.Instr)
					if d.Implies(c.M(false, isNilCmp(func(t *core.Term) bool { return t.V == ssa.Value(call) }))) && len(d) > 0 {
						found = true
					}
				}
				if !found {
					found = c.handedToExitHelper(call, exits)
				}
				r.Check("C14-9", "main.main:"+shortCallee(name)+":error-exits", c.Pos(call.Pos()), found, "an error of "+name+" does not lead to os.Exit")
			}
		}
	} else {
		r.Undecided("C14-9", "main.main", "not found")
	}
	for _, spec := range [][3]string{{"/pkg/runner", "", "Run"}, {"/pkg/parser", "Parser", "Parse"}, {"/pkg/builder", "FunctionBuilder", "CreateFunctions"},
		{"/pkg/builder", "FunctionBuilder", "CreateFunction"}, {"/pkg/parser", "Parser", "GenerateBaseCode"}, {"/pkg/generator", "Generator", "Generate"}, {"/pkg/parser", "", "NewParser"},
		{"/pkg/parser", "Parser", "parseMethod"}, {"/pkg/builder", "assignmentBuilder", "structToStruct"}, {"/pkg/parser", "Parser", "findConvergenEntries"}} {
		var fn *ssa.Function
		if spec[1] == "" {
			fn = c.MustFunc("C14-9", spec[0], spec[2])
		} else {
			fn = c.MustMethod("C14-9", spec[0], spec[1], spec[2])
		}
		if fn == nil {
			continue
		}
		c.errorsPropagate("C14-9", fn)
	}
	if fn := c.MustMethod("C14-9", "/pkg/parser", "Parser", "parseMethods"); fn != nil {
		for i, ret := range c.successReturns(fn) {
			d := c.ReachOf(ret)
			res := ret.Results[0]
			complete := func(l core.Lit) bool {
				t, pos := c.Canon(l)
				if t.Kind != "binop" || t.Name != "<" || pos {
					return false
				}
				return t.Args[0].IsCallTo("builtin:len") && t.Args[0].Args[0].V == res && t.Args[1].IsCallTo("(*go/types.MethodSet).Len")
			}
			okAll := d.Implies(complete)
			if !okAll {
				okAll = d.Implies(c.failFlagClear(fn))
			}
			r.Check("C14-9", sprintf("%s:success%d:all-or-nothing", FnKey(fn), i+1), c.InstrPos(ret), okAll,
				"parseMethods can report success although fewer entries than methods were produced (a converter method would be dropped silently); reach: "+d.Describe(c.O))
		}
		c.noDropLoop("C14-9", fn, "appending the parsed method", func(in ssa.Instruction) bool {
			return isAppendTo(c, in, func(t *core.Term) bool {
				return t.Kind == "extract" && t.Args[0].IsCallTo("(*"+pPar+"Parser).parseMethod")
			})
		}, c.M(false, isNilCmp(func(t *core.Term) bool {
			return t.Kind == "extract" && t.Name == "1" && t.Args[0].IsCallTo("(*"+pPar+"Parser).parseMethod")
		})))
	}
}

// handedToExitHelper: the error value is passed, in the block that produced it, to a helper of package main that
// returns normally only when that parameter is nil (every other path ends in os.Exit).
func (c *Ctx) handedToExitHelper(errv *ssa.Call, exits []Site) bool {
	if errv.Referrers() == nil {
		return false
	}
	for _, rf := range *errv.Referrers() {
		hc, ok := rf.(*ssa.Call)
		if !ok || hc.Block() != errv.Block() {
			continue
		}
		h := hc.Call.StaticCallee()
		if h == nil || h.Blocks == nil || h.Pkg != errv.Parent().Pkg {
			continue
		}
		pi := -1
		for i, a := range hc.Call.Args {
			if a == ssa.Value(errv) {
				pi = i
			}
		}
		if pi < 0 || pi >= len(h.Params) {
			continue
		}
		blocked := map[*ssa.BasicBlock]bool{}
		for _, s := range exits {
			if s.Fn == h {
				blocked[s.Instr.Block()] = true
			}
		}
		if len(blocked) == 0 {
			continue
		}
		av := c.ReachAvoid(h, blocked)
		pname := "param:" + h.Params[pi].Name()
		isNil := c.M(true, isNilCmp(func(t *core.Term) bool { return t.String() == pname }))
		okAll := true
		for _, ret := range core.Returns(h) {
			if blocked[ret.Block()] {
				continue // ends in os.Exit
			}
			d := av.At(ret.Block())
			if d != nil && !d.Implies(isNil) {
				okAll = false
			}
		}
		if okAll {
			return true
		}
	}
	return false
}

// failFlagClear matches the literal "F is false" for a loop-carried bool flag F of fn that starts false, is only ever
// set to the constant true inside the loop, and is set to true on every way round the loop on which the per-method parse
// reported an error (alternative to comparing the number of produced entries).
func (c *Ctx) failFlagClear(fn *ssa.Function) core.LitMatcher {
	parseErr := func(t *core.Term) bool {
		return t.Kind == "extract" && t.Name == "1" && t.Args[0].IsCallTo("(*"+pPar+"Parser).parseMethod")
	}
	good := map[ssa.Value]bool{}
	rc := c.Reach(fn)
	for _, b := range fn.Blocks {
		for _, in := range b.Instrs {
			phi, ok := in.(*ssa.Phi)
			if !ok || phi.Type().String() != "bool" {
				continue
			}
			body := loopOf(b)
			if body == nil || !body[b] {
				continue
			}
			ok = true
			sawSet := false
			for i, p := range b.Preds {
				e := phi.Edges[i]
				if !body[p] {
					if k, isK := e.(*ssa.Const); !isK || k.Value == nil || k.Value.ExactString() != "false" {
						ok = false
					}
					continue
				}
				for _, cs := range rc.CasesStop(e, map[ssa.Value]bool{phi: true}) {
					cond := rc.At(p)
					if cs.Cond != nil {
						cond = core.And(cs.Cond, cond)
					}
					isTrue := false
					if k, isK := cs.V.(*ssa.Const); isK && k.Value != nil && k.Value.ExactString() == "true" {
						isTrue = true
						sawSet = true
					}
					if !isTrue && cs.V != ssa.Value(phi) {
						ok = false
					}
					// a way round the loop with a pending parse error must set the flag
					failing := core.Restrict(cond, core.DNF{})
					_ = failing
					for _, cj := range cond {
						hasErr := false
						for _, l := range cj {
							t, pos := c.Canon(l)
							if isNilCmp(parseErr)(t) && !pos {
								hasErr = true
							}
						}
						if hasErr && !isTrue {
							ok = false
						}
					}
				}
			}
			if ok && sawSet {
				good[phi] = true
			}
		}
	}
	return func(l core.Lit) bool { return l.Neg && good[l.V] }
}

// errorsPropagate: for every module call in fn that yields an error, each success return reachable after it is on the nil edge of that error.
func (c *Ctx) errorsPropagate(rule string, fn *ssa.Function) {
	rc := c.Reach(fn)
	rets := c.successReturns(fn)
	n := 0
	for _, b := range fn.Blocks {
		for _, in := range b.Instrs {
			call, ok := in.(*ssa.Call)
			if !ok {
				continue
			}
			var errV func(t *core.Term) bool
			switch tt := call.Type().(type) {
			case *types.Tuple:
				if tt.Len() == 0 || tt.At(tt.Len()-1).Type().String() != "error" {
					continue
				}
				idx := strconv.Itoa(tt.Len() - 1)
				one := func(t *core.Term) bool { return t.Kind == "extract" && t.Name == idx && t.Args[0].V == ssa.Value(call) }
				errV = func(t *core.Term) bool {
					if one(t) {
						return true
					}
					if t.Kind == "phi" { // err assigned in both arms of an if/else and tested once
						for _, a := range t.Args {
							if one(a) {
								return true
							}
						}
					}
					return false
				}
			default:
				if call.Type().String() != "error" {
					continue
				}
				errV = func(t *core.Term) bool { return t.V == ssa.Value(call) }
			}
			name := core.CalleeName(&call.Call)
			if name == "os.Stat" && strings.Contains(c.O.Of(call.Call.Args[0]).String(), "dstPath") {
				continue // table C14-3
			}
			if strings.HasPrefix(name, pLog) || name == "fmt.Errorf" || name == "errors.New" || name == "github.com/matoous/go-nanoid.Nanoid" {
				continue // constructors of errors, not failures
			}
			if !isModuleCallee(name) && (classify(name) == effOut || c.isStdStreamWrite(Site{Fn: fn, Instr: call, Callee: name})) {
				continue // printing on stdout/stderr: its error is conventionally ignored
			}
			for i, ret := range rets {
				if !rc.CanReach(b, ret.Block()) {
					continue
				}
				if ret.Block() == b && indexIn(b, ret) < indexIn(b, in) {
					continue
				}
				n++
				// only the ways of reaching the return that can have passed through the call
				d := core.Restrict(c.ReachOf(ret), c.ReachOf(call))
				ok := d.Implies(c.M(true, isNilCmp(errV)))
				if !ok {
					// error stored in a variable that is returned: `return assignments, err`
					last := c.O.Of(ret.Results[len(ret.Results)-1])
					if !last.Is("const", "nil") {
						ok = true
					}
				}
				c.R.Check(rule, sprintf("%s:after:%s:success%d", FnKey(fn), shortCallee(name), i+1), c.InstrPos(ret), ok,
					"success can be returned although "+name+" failed (its error is not on a nil edge); reach: "+d.Describe(c.O))
			}
		}
	}
	if n == 0 {
		// functions that hand back a pending error variable on every return (`return assignments, err`) have no constant-nil return
		forwards := false
		for _, ret := range core.Returns(fn) {
			if len(ret.Results) > 0 && !c.O.Of(ret.Results[len(ret.Results)-1]).Is("const", "nil") {
				forwards = true
			}
		}
		c.R.Check(rule, FnKey(fn)+":has-error-calls", c.Pos(fn.Pos()), len(rets) > 0 || forwards, "no success return found")
	}
}

func (c *Ctx) c14Diag() {
	r := c.R
	r.Rule("C14-10", "every logger.Errorf in pkg/parser and pkg/builder has a constant format starting with \"%v: \" whose first operand is a token.Position (or the input path in NewParser)")
	n := 0
	for _, s := range c.CallsTo(fnErrorf) {
		p := s.Fn.Pkg
		if p == nil && s.Fn.Parent() != nil {
			p = s.Fn.Parent().Pkg
		}
		if p == nil || !(p.Pkg.Path() == mod+"/pkg/parser" || p.Pkg.Path() == mod+"/pkg/builder") {
			continue
		}
		n++
		f := c.O.Of(s.Args()[0])
		first := c.varargAt(s.Args()[1], 0)
		okF := f.Kind == "const" && strings.HasPrefix(f.Name, `"%v: `)
		okP := first != nil && ((first.Type != nil && first.Type.String() == "go/token.Position") || (first.Kind == "param" && first.Type != nil && first.Type.String() == "string"))
		r.Check("C14-10", sprintf("%s:Errorf%d", FnKey(s.Fn), n), c.Pos(s.Pos()), okF && okP, "diagnostic does not start with the position of the offending item: format "+f.String())
	}
	r.Floor("C14-10", "Errorf sites in parser/builder", n, 40)
	c.positionedWarnings("C14-16")
}

// positionedWarnings: every warning on stderr starts with a resolved position.
func (c *Ctx) positionedWarnings(rule string) {
	r := c.R
	r.Rule(rule, "every logger.Warnf (diagnostic on stderr) has a constant format starting with \"%v: \" whose first operand is a token.Position – the resolved file:line:col, never a raw token.Pos (an offset into the shared file set that depends on the order in which the loader registered the files)")
	n := 0
	perFn := map[*ssa.Function]int{}
	for _, s := range c.CallsTo(fnWarnf) {
		if p := pkgOf(s.Fn); p != nil && p.Path() == mod+"/pkg/logger" {
			continue
		}
		n++
		perFn[s.Fn]++
		f := c.O.Of(s.Args()[0])
		first := c.varargAt(s.Args()[1], 0)
		okF := f.Kind == "const" && strings.HasPrefix(f.Name, `"%v: `)
		okP := first != nil && first.Type != nil && first.Type.String() == "go/token.Position"
		got := "<none>"
		if first != nil && first.Type != nil {
			got = first.Type.String()
		}
		r.Check(rule, sprintf("%s:Warnf%d", FnKey(s.Fn), perFn[s.Fn]), c.Pos(s.Pos()), okF && okP, "a warning does not start with a resolved position: format "+f.String()+", first operand of type "+got)
	}
	r.Floor(rule, "Warnf sites", n, 4)
}
