package rules

import (
	"cvcheck/internal/core"
	"strings"

	"golang.org/x/tools/go/ssa"
)

// C10 — hooks run once, in order, on the real operands.
func C10(c *Ctx) {
	r := c.R
	r.Explanation = "Decided for all hook shapes: (templates) every member of the emitted grammar with a preprocess hook has exactly one call of it after the allocation statement and before the first assignment, with a postprocess hook exactly one call after the last assignment and before return, and for all pointer/value combinations × styles × receiver × error × 0..2 extra arguments the call type-checks against the hook declaration implied by the valuation with arguments (destination, source, extras in order); " +
		"(builder) the IR flags of a hook are fed from the corresponding elements of its signature (parameter 0 = destination side, 1 = source side, i+2 = extras; error flag ⇔ single error result) and ill-shaped hooks cannot get past the two validators."
	r.NotDecided = "run-time observation of call order and operand identity; hooks under :reverse (undocumented)."

	c.tplC10()

	r.Rule("C10-3", "rejections: lookupManipulatorFunc succeeds only if Results().Len() ≤ 1, a single result is an error, and Params().Len() ≥ 2; buildManipulator succeeds only if ¬(RetError ∧ ¬method error), destination/source assignable to the parameter as declared in the form handed over (pointer or struct), extra-argument count and types match, imported hooks exported")
	isLen := func(tuple string) func(*core.Term) bool {
		return func(t *core.Term) bool {
			return t.IsCallTo("(*go/types.Tuple).Len") && t.Args[0].IsCallTo("(*go/types.Signature)."+tuple)
		}
	}
	firstIsErr := func(t *core.Term) bool {
		return t.IsCallTo(fnIsErrorType) && t.Contains(func(s *core.Term) bool {
			return s.IsCallTo("(*go/types.Tuple).At") && s.Args[1].Is("const", "0") && s.Args[0].IsCallTo("(*go/types.Signature).Results")
		})
	}
	lm := c.MustMethod("C10-3", "/pkg/parser", "Parser", "lookupManipulatorFunc")
	if lm != nil {
		c.rejects("C10-3", lm, "at-most-one-result", "a hook with more than one result is accepted (its error would be dropped)", c.atMost(isLen("Results"), 1))
		c.rejects("C10-3", lm, "single-result-is-error", "a hook with a non-error result is accepted", c.notExactly(isLen("Results"), 1), c.M(true, firstIsErr))
		c.rejects("C10-3", lm, "two-params", "a hook with fewer than two parameters is accepted (Params().At(1) panics)", c.atLeast(isLen("Params"), 2))
		c.rejects("C10-3", lm, "is-function", "a non-function object is accepted as hook", c.M(true, func(t *core.Term) bool {
			return t.Kind == "extract" && t.Name == "1" && t.Args[0].Kind == "typeassert,ok" && t.Args[0].Name == "*types.Signature"
		}))
	}
	if lm := c.MustMethod("C10-3", "/pkg/parser", "Parser", "lookupManipulatorFunc"); lm != nil {
		c.rejects("C10-3", lm, "not-variadic", "a variadic function is accepted as hook although the call is emitted with one plain argument per parameter",
			c.M(false, func(t *core.Term) bool { return t.IsCallTo("(*go/types.Signature).Variadic") }))
	}
	bm := c.MustMethod("C10-3", "/pkg/builder", "FunctionBuilder", "buildManipulator")
	if bm != nil {
		// AssignableTo(V, T): V is the type of the value handed over (the method's operand in the form in which it is passed:
		// a pointer to its struct, or the struct), T the hook's parameter type itself. Stripping a pointer from the parameter
		// (the form before F74) accepts `*struct{…}` / `*interface{}` parameters for a *Dst operand and rejects an interface
		// parameter that only the pointer implements.
		side := func(fld, param string, asPtr bool) func(*core.Term) bool {
			return func(t *core.Term) bool {
				if !t.IsCallTo(fnAssignable) {
					return false
				}
				a0, a1 := t.Args[0], t.Args[1]
				if !a1.IsField("option.Manipulator."+fld) || !a0.Contains(func(s *core.Term) bool { return s.Is("param", param) }) {
					return false
				}
				ptrForm := a0.IsCallTo("go/types.NewPointer")
				if !ptrForm && a0.Contains(func(s *core.Term) bool { return s.IsCallTo("go/types.NewPointer") }) {
					return false
				}
				return ptrForm == asPtr
			}
		}
		var srcP, dstP string
		for _, p := range bm.Params {
			if p.Type().String() == "*go/types.Var" {
				if srcP == "" {
					srcP = p.Name()
				} else {
					dstP = p.Name()
				}
			}
		}
		c.rejects("C10-3", bm, "dst-type", "the destination is not checked, in the form in which it is handed over (pointer to its struct, or the struct), for assignability TO the hook's first parameter as declared (AssignableTo(operand, parameter); the reverse order accepts a *bytes.Buffer parameter for an io.Writer operand, a pointer-stripped parameter accepts *struct{…} for *Dst)", c.M(true, side("DstSide", dstP, true)), c.M(true, side("DstSide", dstP, false)))
		c.rejects("C10-3", bm, "src-type", "the source is not checked, in the form in which it is handed over, for assignability TO the hook's second parameter as declared (AssignableTo(operand, parameter))", c.M(true, side("SrcSide", srcP, true)), c.M(true, side("SrcSide", srcP, false)))
		// every assignability judgement in the validation asks operand → parameter
		nA := 0
		for _, sc := range c.CallsIn(bm, fnAssignable, false) {
			nA++
			a0, a1 := c.O.Of(sc.Args()[0]), c.O.Of(sc.Args()[1])
			isHookSide := func(t *core.Term) bool {
				return t.Contains(func(x *core.Term) bool { return x.Kind == "field" && strings.HasPrefix(x.Name, "option.Manipulator.") })
			}
			r.Check("C10-3", sprintf("%s:assignable%d:operand-to-parameter", FnKey(bm), nA), c.Pos(sc.Pos()), isHookSide(a1) && !isHookSide(a0),
				"types.AssignableTo(V, T) must be asked with V = the type of the method's operand and T = the hook's parameter type, got AssignableTo("+a0.String()+", "+a1.String()+")")
		}
		r.Floor("C10-3", "assignability judgements in the hook validation", nA, 3)
		// a dot-imported hook package gives no qualifier
		dotReset := false
		for _, b := range bm.Blocks {
			for _, in := range b.Instrs {
				if st, ok := in.(*ssa.Store); ok {
					if fa, ok := st.Addr.(*ssa.FieldAddr); ok && core.FieldName(fa.X.Type(), fa.Field) == "model.Manipulator.Pkg" && c.O.Of(st.Val).Is("const", `""`) {
						dotReset = true
					}
				}
			}
		}
		r.Check("C10-3", FnKey(bm)+":dot-import-unqualified", c.Pos(bm.Pos()), dotReset, "the import table name \".\" (dot import) is used as the hook's package qualifier: the call is emitted as `..Hook(…)`")
		hookArgs := func(t *core.Term) bool { return t.IsField("option.Manipulator.AdditionalArgs") }
		c.rejects("C10-3", bm, "extra-count", "a hook with a different number of extra parameters is accepted",
			c.atMost(lenOf(hookArgs), 0), c.M(false, func(t *core.Term) bool {
				return t.Kind == "binop" && t.Name == "==" && ((lenOf(hookArgs)(t.Args[0]) && t.Args[1].IsCallTo("builtin:len")) || (lenOf(hookArgs)(t.Args[1]) && t.Args[0].IsCallTo("builtin:len"))) == false && false
			}), func(l core.Lit) bool {
				t, pos := c.Canon(l)
				if t.Kind != "binop" || t.Name != "==" {
					return false
				}
				a, b := t.Args[0], t.Args[1]
				return pos && ((lenOf(hookArgs)(a) && b.IsCallTo("builtin:len") && b.Args[0].Kind == "param") || (lenOf(hookArgs)(b) && a.IsCallTo("builtin:len") && a.Args[0].Kind == "param"))
			})
		c.rejects("C10-3", bm, "exported-if-imported", "an unexported function of another package is accepted as hook",
			c.M(true, eqConst(func(t *core.Term) bool { return t.IsField("model.Manipulator.Pkg") }, `""`)),
			c.M(true, func(t *core.Term) bool { return t.Kind == "invoke" && t.Name == "(types.Object).Exported" }))
		// callers pass (hook, src, dst, extras) from the method entry
		n := 0
		for _, s := range c.Calls(nil) {
			if s.Instr.Common().StaticCallee() != bm {
				continue
			}
			n++
			k := sprintf("%s→buildManipulator%d", FnKey(s.Fn), n)
			for i, p := range bm.Params {
				a := c.O.Of(s.Args()[i])
				switch p.Name() {
				case srcP:
					r.Check("C10-3", k+":src-arg", c.Pos(s.Pos()), a.IsCallTo("(*"+pBM+"MethodEntry).SrcVar"), "source operand must be m.SrcVar(), got "+a.String())
				case dstP:
					r.Check("C10-3", k+":dst-arg", c.Pos(s.Pos()), a.IsCallTo("(*"+pBM+"MethodEntry).DstVar"), "destination operand must be m.DstVar(), got "+a.String())
				}
			}
		}
	}

	r.Rule("C10-4", "hook flags: option.Manipulator{DstSide, SrcSide, AdditionalArgs[i], RetError} = Params().At(0), At(1), At(i+2), (Results().Len()==1 ∧ error); gmodel.Manipulator{IsDstPtr, IsSrcPtr, RetError, Name, Pkg, HasAdditionalArgs} = AssignableTo(*operand struct, DstSide), AssignableTo(*operand struct, SrcSide), RetError, Func.Name(), LookupName(Func.Pkg().Path()), 0<len(AdditionalArgs); Function.PreProcess/PostProcess come from Opts.PreProcess/PostProcess")
	if lm != nil {
		if mt := c.MustType("C10-4", "/pkg/option", "Manipulator"); mt != nil {
			for _, a := range c.Lits(mt) {
				if a.Parent() != lm {
					continue
				}
				f := LitFields(a)
				k := FnKey(lm) + ":Manipulator."
				paramAt := func(v ssa.Value, idx string) bool {
					if v == nil {
						return false
					}
					t := c.O.Of(v)
					return t.Contains(func(s *core.Term) bool {
						return s.IsCallTo("(*go/types.Tuple).At") && s.Args[1].Is("const", idx) && s.Args[0].IsCallTo("(*go/types.Signature).Params")
					})
				}
				r.Check("C10-4", k+"DstSide", c.InstrPos(a), paramAt(f["DstSide"], "0"), "DstSide must be the type of parameter 0")
				r.Check("C10-4", k+"SrcSide", c.InstrPos(a), paramAt(f["SrcSide"], "1"), "SrcSide must be the type of parameter 1")
				okF := f["Func"] != nil && c.O.Of(f["Func"]).Kind == "extract" && c.O.Of(f["Func"]).Args[0].IsCallTo("(*"+pPar+"Parser).lookupType")
				r.Check("C10-4", k+"Func", c.InstrPos(a), okF, "Func must be the looked-up object")
				// RetError: phi(false, IsErrorType(Results.At(0))) under Len==1
				okR := false
				if v := f["RetError"]; v != nil {
					okR = true
					for _, cs := range c.Reach(lm).Cases(v) {
						t := c.O.Of(cs.V)
						switch {
						case t.Is("const", "false"):
						case firstIsErr(t):
							okR = okR && cs.Cond.Implies(c.exactly(isLen("Results"), 1))
						default:
							okR = false
						}
					}
				}
				r.Check("C10-4", k+"RetError", c.InstrPos(a), okR, "RetError must be Results().Len()==1 ∧ IsErrorType(Results().At(0).Type())")
				// AdditionalArgs: make(len-2); element i = At(i+2)
				okA := false
				if v := f["AdditionalArgs"]; v != nil {
					if ms, isMS := v.(*ssa.MakeSlice); isMS && ms.Referrers() != nil {
						lt := c.O.Of(ms.Len)
						okLen := lt.Kind == "binop" && lt.Name == "-" && isLen("Params")(lt.Args[0]) && lt.Args[1].Is("const", "2")
						for _, rf := range *ms.Referrers() {
							ia, ok := rf.(*ssa.IndexAddr)
							if !ok || ia.Referrers() == nil {
								continue
							}
							for _, rr := range *ia.Referrers() {
								st, ok := rr.(*ssa.Store)
								if !ok {
									continue
								}
								idx := c.O.Of(ia.Index).String()
								val := c.O.Of(st.Val)
								okEl := val.Contains(func(s *core.Term) bool {
									return s.IsCallTo("(*go/types.Tuple).At") && s.Args[0].IsCallTo("(*go/types.Signature).Params") &&
										s.Args[1].Kind == "binop" && s.Args[1].Name == "+" && s.Args[1].Args[0].String() == idx && s.Args[1].Args[1].Is("const", "2")
								})
								okA = okLen && okEl
							}
						}
					}
				}
				// the same list built by appending: empty to begin with, Params().At(i).Type() for i = 2, 3, … while i < Params().Len()
				if ph, isPhi := f["AdditionalArgs"].(*ssa.Phi); isPhi && !okA {
					okMake, okApp := false, false
					for _, e := range ph.Edges {
						switch x := e.(type) {
						case *ssa.MakeSlice:
							okMake = c.O.Of(x.Len).Is("const", "0")
						case *ssa.Call:
							if core.CalleeName(&x.Call) != "builtin:append" || len(x.Call.Args) != 2 || x.Call.Args[0] != ssa.Value(ph) {
								continue
							}
							el, el2 := c.varargAt(x.Call.Args[1], 0), c.varargAt(x.Call.Args[1], 1)
							if el == nil || el2 != nil {
								continue
							}
							at := el.Find(func(s *core.Term) bool {
								return s.IsCallTo("(*go/types.Tuple).At") && s.Args[0].IsCallTo("(*go/types.Signature).Params")
							})
							if at == nil || at.Args[1].Kind != "phi" {
								continue
							}
							iv := at.Args[1]
							from2 := len(iv.Args) == 2 && iv.Args[0].Is("const", "2") && iv.Args[1].Kind == "binop" && iv.Args[1].Name == "+" && iv.Args[1].Args[1].Is("const", "1")
							bounded := c.ReachOf(x).Implies(c.M(true, func(t *core.Term) bool {
								return t.Kind == "binop" && t.Name == "<" && t.Args[0].Kind == "phi" && t.Args[0].String() == iv.String() && isLen("Params")(t.Args[1])
							}))
							okApp = from2 && bounded
						}
					}
					okA = okMake && okApp
				}
				r.Check("C10-4", k+"AdditionalArgs", c.InstrPos(a), okA, "AdditionalArgs must be make([]Type, Params().Len()-2) with element i = Params().At(i+2).Type()")
			}
		}
	}
	if bm != nil {
		asPtrJudgement := func(fld string) func(*core.Term) bool {
			return func(t *core.Term) bool {
				return t.IsCallTo(fnAssignable) && t.Args[1].IsField("option.Manipulator."+fld) && t.Args[0].IsCallTo("go/types.NewPointer") &&
					t.Args[0].Contains(func(s *core.Term) bool { return s.Kind == "param" && s.Name != "m" })
			}
		}
		want := map[string]func(*core.Term) bool{
			// the flag that makes the emitter hand over a pointer is the judgement that a pointer to the operand's struct fits the
			// parameter (IsPtr(parameter), the form before F74, hands a copy to an interface parameter and `*dst` to `*interface{}`)
			"IsDstPtr": asPtrJudgement("DstSide"),
			"IsSrcPtr": asPtrJudgement("SrcSide"),
			"RetError": func(t *core.Term) bool { return t.IsField("option.Manipulator.RetError") },
			"Name": func(t *core.Term) bool {
				return t.Kind == "invoke" && t.Name == "(types.Object).Name" && t.Args[0].IsField("option.Manipulator.Func")
			},
			"Pkg": func(t *core.Term) bool {
				if t.Is("const", `""`) {
					return true // reset for a dot-imported package (checked below: only under Pkg == ".")
				}
				return t.Kind == "extract" && t.Name == "0" && t.Args[0].IsCallTo("("+pUtil+"ImportNames).LookupName") && t.Args[0].Args[1].Contains(func(s *core.Term) bool { return s.IsField("option.Manipulator.Func") })
			},
			"HasAdditionalArgs": func(t *core.Term) bool { return t.Is("const", "true") },
		}
		seen := map[string]bool{}
		for _, b := range bm.Blocks {
			for _, in := range b.Instrs {
				st, ok := in.(*ssa.Store)
				if !ok {
					continue
				}
				fa, ok := st.Addr.(*ssa.FieldAddr)
				if !ok {
					continue
				}
				fname := core.FieldName(fa.X.Type(), fa.Field)
				const pfx = "model.Manipulator."
				if len(fname) <= len(pfx) || fname[:len(pfx)] != pfx {
					continue
				}
				fld := fname[len(pfx):]
				seen[fld] = true
				pred := want[fld]
				ok2 := pred != nil && pred(c.O.Of(st.Val))
				if fld == "Pkg" && ok2 && c.O.Of(st.Val).Is("const", `""`) {
					ok2 = c.ReachOf(st).Implies(c.M(true, eqConst(func(t *core.Term) bool { return t.IsField("model.Manipulator.Pkg") }, `"."`)))
				}
				if fld == "HasAdditionalArgs" && ok2 {
					d := c.ReachOf(st)
					ok2 = d.Implies(c.atLeast(lenOf(func(t *core.Term) bool { return t.IsField("option.Manipulator.AdditionalArgs") }), 1))
				}
				r.Check("C10-4", FnKey(bm)+":gmodel.Manipulator."+fld, c.InstrPos(st), ok2, "hook flag "+fld+" is fed from the wrong element: "+c.O.Of(st.Val).String())
			}
		}
		for _, fld := range sortedKeys(want) {
			r.Check("C10-4", FnKey(bm)+":sets:"+fld, c.Pos(bm.Pos()), seen[fld], "hook flag "+fld+" is never set")
		}
	}
	if cf := c.P.LookupMethod("/pkg/builder", "FunctionBuilder", "CreateFunction"); cf != nil && bm != nil {
		if fnT := c.P.LookupType("/pkg/generator/model", "Function"); fnT != nil {
			for _, a := range c.Lits(fnT) {
				if a.Parent() != cf {
					continue
				}
				f := LitFields(a)
				for fld, opt := range map[string]string{"PreProcess": "option.Options.PreProcess", "PostProcess": "option.Options.PostProcess"} {
					ok := false
					if v := f[fld]; v != nil {
						t := c.O.Of(v)
						ok = t.Kind == "extract" && t.Name == "0" && t.Args[0].IsCallTo("(*"+pBld+"FunctionBuilder).buildManipulator") && t.Args[0].Args[1].IsField(opt)
					}
					r.Check("C10-4", FnKey(cf)+":Function."+fld, c.InstrPos(a), ok, "Function."+fld+" must be built from Opts."+fld)
				}
			}
		}
	}
	c.searchFlagRule("C10-6")
	c.positive("C10-6", "sticky-search-flag", func(pc *Ctx) { pc.searchFlagRule("C10-6") }, []string{"runner.Uniq:"}, []string{"runner.UniqOK"})
}
