package rules

import (
	"cvcheck/internal/core"
	"go/token"
	"strings"

	"golang.org/x/tools/go/ssa"
)

// noDropLoop: for every emit instruction (selected by pred) that sits in a loop of fn, each way of getting
// from the loop entry to a back edge without executing the emit must satisfy one of the allowed-skip matchers.
// Returns the number of emits examined.
func (c *Ctx) noDropLoop(rule string, fn *ssa.Function, what string, pred func(in ssa.Instruction) bool, allow ...core.LitMatcher) int {
	n := 0
	for _, b := range fn.Blocks {
		for _, in := range b.Instrs {
			if !pred(in) {
				continue
			}
			lp := loopOf(b)
			if lp == nil {
				continue
			}
			n++
			av := c.ReachAvoid(fn, map[*ssa.BasicBlock]bool{b: true})
			ok := true
			var bad core.DNF
			var header *ssa.BasicBlock
			for hb := range lp {
				all := true
				for x := range lp {
					if !hb.Dominates(x) {
						all = false
						break
					}
				}
				if all {
					header = hb
				}
			}
			for lb := range lp {
				for _, s := range lb.Succs {
					if s != header || !s.Dominates(lb) {
						continue
					}
					// lb is a latch
					if lb == b {
						continue
					}
					// the way this latch is taken: a `continue` whose block was folded away leaves only the branch outcome
					d := av.BackEdgeCond(lb, header)
					if len(d) == 0 {
						continue
					}
					if len(allow) == 0 || !d.Implies(allow...) {
						ok = false
						bad = d
					}
				}
			}
			msg := ""
			if !ok {
				msg = "an iteration can complete without " + what + " (an element would be dropped silently); reach of the loop latch avoiding it: " + bad.Describe(c.O)
			}
			c.R.Check(rule, sprintf("%s:loop%d:%s", FnKey(fn), n, what), c.InstrPos(in), ok, msg)
		}
	}
	return n
}

func isAppendTo(c *Ctx, in ssa.Instruction, elemPred func(*core.Term) bool) bool {
	ca, ok := in.(*ssa.Call)
	if !ok || core.CalleeName(&ca.Call) != "builtin:append" {
		return false
	}
	el := c.varargElem(ca)
	return el != nil && elemPred(el)
}

// noDropRules: per-element loops must emit or fail (shared by C03 and C17). The loops are found by what they emit, in
// whatever function they live (so splitting Run or Parse into helpers keeps the rule attached).
func (c *Ctx) noDropRules(rule string) {
	r := c.R
	r.Rule(rule, "no-drop loops: wherever module code appends a MethodsInfo (one per interface entry), stores a CreateFunction result at its index (one per method), appends a FunctionsBlock (one per interface), replaces a block marker or renders a function (one per block / function), every iteration of the enclosing loop emits its element or the function returns an error")
	total := 0
	inPkg := func(fn *ssa.Function, suffix string) bool {
		p := pkgOf(fn)
		return p != nil && p.Path() == mod+suffix
	}
	for _, fn := range c.P.Funcs() {
		switch {
		case inPkg(fn, "/pkg/parser"):
			total += c.noDropLoop(rule, fn, "appending the interface's MethodsInfo", func(in ssa.Instruction) bool {
				return isAppendTo(c, in, func(t *core.Term) bool { return t.Kind == "alloc" && t.Name == "*model.MethodsInfo:complit" })
			})
		case inPkg(fn, "/pkg/builder"):
			total += c.noDropLoop(rule, fn, "storing the method's Function", func(in ssa.Instruction) bool {
				st, ok := in.(*ssa.Store)
				if !ok {
					return false
				}
				_, isIdx := st.Addr.(*ssa.IndexAddr)
				t := c.O.Of(st.Val)
				return isIdx && t.Kind == "extract" && t.Args[0].IsCallTo("(*"+pBld+"FunctionBuilder).CreateFunction")
			})
		case inPkg(fn, "/pkg/runner"):
			total += c.noDropLoop(rule, fn, "appending the interface's FunctionsBlock", func(in ssa.Instruction) bool {
				ca, ok := in.(*ssa.Call)
				if !ok || core.CalleeName(&ca.Call) != "builtin:append" {
					return false
				}
				return strings.Contains(ca.Type().String(), "generator/model.FunctionsBlock")
			})
		case inPkg(fn, "/pkg/generator"):
			total += c.noDropLoop(rule, fn, "replacing the block's marker", func(in ssa.Instruction) bool {
				ca, ok := in.(*ssa.Call)
				return ok && (core.CalleeName(&ca.Call) == "strings.Replace" || core.CalleeName(&ca.Call) == "strings.ReplaceAll")
			})
			total += c.noDropLoop(rule, fn, "rendering the function", func(in ssa.Instruction) bool {
				// sb.WriteString(g.FuncToString(f)) or text = text + g.FuncToString(f)
				if bo, ok := in.(*ssa.BinOp); ok && bo.Op == token.ADD {
					_, carried := bo.X.(*ssa.Phi)
					return carried && c.O.Of(bo.Y).IsCallTo("(*"+pGen+"Generator).FuncToString")
				}
				ca, ok := in.(*ssa.Call)
				if !ok || core.CalleeName(&ca.Call) != "(*strings.Builder).WriteString" {
					return false
				}
				return c.O.Of(ca.Call.Args[1]).IsCallTo("(*" + pGen + "Generator).FuncToString")
			})
		}
	}
	r.Floor(rule, "emit sites in per-element loops", total, 5)
	// pairing of markers with their elements
	if mi := c.P.LookupType("/pkg/builder/model", "MethodsInfo"); mi != nil {
		for _, a := range c.Lits(mi) {
			f := LitFields(a)
			okM := f["Marker"] != nil && c.O.Of(f["Marker"]).IsField("parser.intfEntry.marker")
			okS := f["Methods"] != nil && c.O.Of(f["Methods"]).Kind == "extract" && c.O.Of(f["Methods"]).Args[0].IsCallTo("(*"+pPar+"Parser).parseMethods")
			same := okM && okS && c.O.Of(f["Marker"]).Args[0].String() == c.O.Of(f["Methods"]).Args[0].Args[1].String()
			r.Check(rule, FnKey(a.Parent())+":MethodsInfo", c.InstrPos(a), same, "MethodsInfo must pair the marker of an entry with the methods parsed from that same entry")
		}
	}
	if fb := c.P.LookupType("/pkg/generator/model", "FunctionsBlock"); fb != nil {
		for _, a := range c.Lits(fb) {
			if !inPkg(a.Parent(), "/pkg/runner") {
				continue
			}
			f := LitFields(a)
			okM := f["Marker"] != nil && c.O.Of(f["Marker"]).IsField("model.MethodsInfo.Marker")
			okF := f["Functions"] != nil && c.O.Of(f["Functions"]).Kind == "extract" && c.O.Of(f["Functions"]).Args[0].IsCallTo("(*"+pBld+"FunctionBuilder).CreateFunctions")
			same := okM && okF && c.O.Of(f["Functions"]).Args[0].Args[1].IsField("model.MethodsInfo.Methods") &&
				c.O.Of(f["Functions"]).Args[0].Args[1].Args[0].String() == c.O.Of(f["Marker"]).Args[0].String()
			r.Check(rule, FnKey(a.Parent())+":FunctionsBlock", c.InstrPos(a), same, "a FunctionsBlock must pair the marker of an interface with the functions created from that interface's methods")
		}
	}
	if fn := c.MustMethod(rule, "/pkg/builder", "FunctionBuilder", "CreateFunctions"); fn != nil {
		for _, ret := range c.successReturns(fn) {
			t := c.O.Of(ret.Results[0])
			ok := t.Kind == "make" && t.Args[0].IsCallTo("builtin:len") && t.Args[0].Args[0].Kind == "param"
			r.Check(rule, FnKey(fn)+":result-size", c.InstrPos(ret), ok, "CreateFunctions must return a slice with one slot per method: "+t.String())
		}
	}
	for _, s := range c.CallsTo("strings.Replace") {
		if !inPkg(s.Fn, "/pkg/generator") {
			continue
		}
		a := s.Args()
		old := c.O.Of(a[1])
		nw := c.O.Of(a[2])
		cnt := c.O.Of(a[3])
		// the rendered functions of the block: the builder's content, or a string grown by + FuncToString(f) from ""
		rendered := nw.IsCallTo("(*strings.Builder).String")
		if nw.Kind == "phi" && len(nw.Args) == 2 {
			for i := 0; i < 2; i++ {
				g := nw.Args[1-i]
				if nw.Args[i].Is("const", `""`) && g.Kind == "binop" && g.Name == "+" && len(g.Args) == 2 && strings.HasPrefix(g.Args[0].String(), "opaque:cycle") &&
					g.Args[1].IsCallTo("(*"+pGen+"Generator).FuncToString") {
					rendered = true
				}
			}
		}
		// … or the answer of a helper of the package that is handed this block and renders its functions that way
		helperCall, helperTerm := a[2], nw
		if ex, isEx := a[2].(*ssa.Extract); isEx && ex.Index == 0 {
			helperCall, helperTerm = ex.Tuple, nw.Args[0] // (string, error): the error is checked in between (C14-9)
		}
		if cv, isCall := helperCall.(*ssa.Call); isCall && !rendered {
			if h := cv.Call.StaticCallee(); h != nil && h.Blocks != nil && inPkg(h, "/pkg/generator") && len(c.CallsIn(h, "(*"+pGen+"Generator).FuncToString", false)) > 0 {
				rets := core.Returns(h)
				sameBlock := false
				for _, arg := range helperTerm.Args {
					if len(old.Args) == 1 && arg.String() == old.Args[0].String() {
						sameBlock = true // the helper gets the very block whose marker is replaced
					}
				}
				nStr, okRets := 0, true
				for _, hr := range rets {
					ht := c.O.Of(hr.Results[0])
					switch {
					case ht.IsCallTo("(*strings.Builder).String"):
						nStr++
					case ht.Is("const", `""`) && len(hr.Results) == 2: // the error exits
					default:
						okRets = false
					}
				}
				if nStr >= 1 && okRets && sameBlock {
					ranges := false
					for _, b := range h.Blocks {
						for _, in := range b.Instrs {
							if v, isV := in.(ssa.Value); isV && c.O.Of(v).IsField("model.FunctionsBlock.Functions") {
								ranges = true
							}
						}
					}
					rendered = ranges
				}
			}
		}
		ok := old.IsField("model.FunctionsBlock.Marker") && rendered && (cnt.Is("const", "1") || cnt.Is("const", "-1"))
		r.Check(rule, FnKey(s.Fn)+":replace-operands", c.Pos(s.Pos()), ok, "the marker of the block must be replaced by the rendered functions of that block: Replace(code, block.Marker, sb.String(), 1); got old="+old.String()+" new="+nw.String())
	}
}

// C17 — exactly the marked interfaces of the input file.
func C17(c *Ctx) {
	r := c.R
	r.Explanation = "Decided for all inputs: an interface entry is created only for a package-scope object whose underlying type is an interface (comma-ok), that is declared in the input file (position file name equals the parsed setup file's), and that is named Convergen or whose doc comment matches the :convergen marker; " +
		"every scope name is examined (no other filter), zero entries is an error, each entry gets its own random marker which is the one planted at both braces of that interface and the one replaced by that interface's functions; no per-interface loop can drop an element silently."
	r.NotDecided = "that an unselected interface is printed verbatim (go/printer); doc-comment association for unusual declaration groupings (GetDocCommentOn path search)."

	r.Rule("C17-1", "interface-entry literal: reach ⇒ comma-ok *types.Interface on obj.Type().Underlying() ∧ ¬(srcPath != Position(obj.Pos()).Filename) ∧ (obj.Name()==\"Convergen\" ∨ MatchComments(doc(obj), reConvergen)); entry.intf is that obj; obj ranges over Scope().Names() of the loaded package")
	entry := c.MustType("C17-1", "/pkg/parser", "intfEntry")
	if entry == nil {
		return
	}
	lits := c.Lits(entry)
	r.Floor("C17-1", "intfEntry literals", len(lits), 1)
	for _, a := range lits {
		fn := a.Parent()
		key := FnKey(fn) + ":intfEntry"
		f := LitFields(a)
		if f["intf"] == nil {
			r.Check("C17-1", key+":intf", c.InstrPos(a), false, "entry without interface object")
			continue
		}
		obj := c.O.Of(f["intf"])
		objS := obj.String()
		okObj := obj.IsCallTo("(*go/types.Scope).Lookup") && obj.Args[0].IsCallTo("(*go/types.Package).Scope") && obj.Args[0].Args[0].IsField("packages.Package.Types") &&
			obj.Args[1].Kind == "index" && obj.Args[1].Args[0].IsCallTo("(*go/types.Scope).Names")
		r.Check("C17-1", key+":scope-scan", c.InstrPos(a), okObj, "the candidate object must be Scope().Lookup(name) for name ranging over Scope().Names() of the loaded package, got "+objS)
		d := c.ReachOf(a)
		isIface := c.M(true, func(t *core.Term) bool {
			return t.Kind == "extract" && t.Name == "1" && t.Args[0].Kind == "typeassert,ok" && t.Args[0].Name == "*types.Interface" &&
				t.Args[0].Args[0].Kind == "invoke" && t.Args[0].Args[0].Name == "(types.Type).Underlying" && t.Args[0].Args[0].Contains(func(s *core.Term) bool { return s.String() == objS })
		})
		r.Check("C17-1", key+":is-interface", c.InstrPos(a), d.Implies(isIface), "an entry can be created for an object that is not an interface type; reach: "+d.Describe(c.O))
		sameFile := func(l core.Lit) bool {
			t, pos := c.Canon(l)
			if !pos || t.Kind != "binop" || t.Name != "==" {
				return false
			}
			for i := 0; i < 2; i++ {
				x, y := t.Args[i], t.Args[1-i]
				// the unadjusted position: PositionFor(pos, false) – a //line directive must not move a declaration to another file
				if x.IsField("parser.Parser.srcPath") && y.IsField("token.Position.Filename") && y.Args[0].IsCallTo("(*go/token.FileSet).PositionFor") && len(y.Args[0].Args) == 3 &&
					y.Args[0].Args[2].Is("const", "false") &&
					y.Args[0].Args[1].Kind == "invoke" && y.Args[0].Args[1].Name == "(types.Object).Pos" && y.Args[0].Args[1].Args[0].String() == objS {
					return true
				}
			}
			return false
		}
		r.Check("C17-1", key+":declared-in-input-file", c.InstrPos(a), d.Implies(sameFile), "an entry can be created for an interface declared in another file of the package (the test must compare the parsed file's name with the UNADJUSTED position PositionFor(obj.Pos(), false): Position() follows //line directives); reach: "+d.Describe(c.O))
		named := c.M(true, eqConst(func(t *core.Term) bool {
			return t.Kind == "invoke" && t.Name == "(types.Object).Name" && t.Args[0].String() == objS
		}, `"Convergen"`))
		marked := c.M(true, func(t *core.Term) bool {
			if !t.IsCallTo(pUtil + "MatchComments") {
				return false
			}
			doc := t.Args[0]
			okDoc := doc.Kind == "extract" && doc.Name == "0" && doc.Args[0].IsCallTo(pUtil+"GetDocCommentOn") && doc.Args[0].Args[1].String() == objS && doc.Args[0].Args[0].IsField("parser.Parser.file")
			return okDoc && t.Args[1].Is("global", "parser.reConvergen")
		})
		r.Check("C17-1", key+":named-or-marked", c.InstrPos(a), d.Implies(named, marked), "an entry can be created for an interface that is neither named Convergen nor marked :convergen on its own doc comment; reach: "+d.Describe(c.O))
		// no other filter: the literals in reach are only those three tests, the loop bound and the notation-parse error
		extra := ""
		known := func(l core.Lit) bool {
			t, _ := c.Canon(l)
			p, n := core.Lit{V: l.V, T: l.T}, core.Lit{V: l.V, Neg: true, T: l.T}
			switch {
			case isIface(p) || isIface(n), sameFile(p) || sameFile(n), named(p) || named(n), marked(p) || marked(n):
			case t.Kind == "binop" && t.Name == "<" && t.Args[1].IsCallTo("builtin:len"):
			case t.Kind == "binop" && t.Name == "==" && (t.Args[0].IsCallTo(fnParseNotation) || t.Args[1].IsCallTo(fnParseNotation)):
			default:
				return false
			}
			return true
		}
		for _, cj := range c.ExpandDNF(d, 2, known) { // tests moved into a predicate helper are read through
			for _, l := range cj {
				if !known(l) {
					t, _ := c.Canon(l)
					extra = t.String()
				}
			}
		}
		r.Check("C17-1", key+":no-other-filter", c.InstrPos(a), extra == "", "a further condition decides whether a marked interface is converted: "+extra)
		// no iteration may finish without an entry unless the object is not an interface, not in the input file, or not marked
		// (a marked interface whose notations fail to parse must end the run, not be passed over)
		notIface := func(l core.Lit) bool { return isIface(core.Lit{V: l.V, Neg: !l.Neg, T: l.T}) }
		notHere := func(l core.Lit) bool { return sameFile(core.Lit{V: l.V, Neg: !l.Neg, T: l.T}) }
		notMarked := func(l core.Lit) bool { return marked(core.Lit{V: l.V, Neg: !l.Neg, T: l.T}) }
		c.noDropLoop("C17-1", fn, "appending the interface entry", func(in ssa.Instruction) bool {
			return isAppendTo(c, in, func(t *core.Term) bool { return t.V == ssa.Value(a) })
		}, notIface, notHere, notMarked)
		// C17-4 marker
		mk := f["marker"]
		okMk := mk != nil && c.O.Of(mk).Kind == "extract" && c.O.Of(mk).Name == "0" && c.O.Of(mk).Args[0].IsCallTo("github.com/matoous/go-nanoid.Nanoid")
		if okMk {
			// generated in the same loop iteration
			var call ssa.Instruction
			if ex, ok := mk.(*ssa.Extract); ok {
				call, _ = ex.Tuple.(*ssa.Call)
			}
			lp := loopOf(a.Block())
			okMk = call != nil && (lp == nil || lp[call.Block()])
		}
		r.Check("C17-4", key+":own-marker", c.InstrPos(a), okMk, "each entry must get a marker generated for it (Nanoid() inside the same iteration)")
		// appended
		appended := false
		for _, b := range fn.Blocks {
			for _, in := range b.Instrs {
				if isAppendTo(c, in, func(t *core.Term) bool { return t.V == ssa.Value(a) }) {
					appended = true
				}
			}
		}
		r.Check("C17-1", key+":appended", c.InstrPos(a), appended, "the entry is never appended to the result")
	}

	r.Rule("C17-2", "findConvergenEntries returns a non-error result only if at least one entry was found")
	if fn := c.MustMethod("C17-2", "/pkg/parser", "Parser", "findConvergenEntries"); fn != nil {
		for i, ret := range c.successReturns(fn) {
			d := c.ReachOf(ret)
			res := ret.Results[0]
			nonEmpty := func(l core.Lit) bool {
				t, pos := c.Canon(l)
				lo, _, ok := cmpInterval(t, func(x *core.Term) bool { return x.IsCallTo("builtin:len") && x.Args[0].V == res })
				if !ok {
					return false
				}
				if pos {
					return lo >= 1
				}
				return lo == 0
			}
			r.Check("C17-2", sprintf("%s:success%d:non-empty", FnKey(fn), i+1), c.InstrPos(ret), d.Implies(nonEmpty), "a file without converter interface is accepted (success with zero entries); reach: "+d.Describe(c.O))
		}
	}

	c.noDropRules("C17-3")
	c.anchoredRegexpRule("C17-6", "parser.reConvergen", "parser.reNotation")
	c.patternWitnessRule("C17-7")
	c.lineSubjectRule("C17-8")
	c.cutRangeRule("C17-9")

	r.Rule("C17-5", "util.GetDocCommentOn returns only `Doc` comment groups of the enclosing declaration nodes (never a trailing line comment, never the file's doc comment), each under a non-nil test of that same Doc link")
	if fn := c.MustFunc("C17-5", "/pkg/util", "GetDocCommentOn"); fn != nil {
		// isDocAddr: the address is &X.Doc of an ast node (possibly through a local pointer variable / φ)
		nilEdge := map[*ssa.Phi]bool{}
		nilCall := map[*ssa.Call]bool{}
		nilExtract := map[*ssa.Extract]bool{}
		helpers := map[*ssa.Function]bool{}
		sawFileDoc := false
		var isDocAddr func(a ssa.Value, d int) bool
		isDocAddr = func(a ssa.Value, d int) bool {
			if d > 4 {
				return false
			}
			switch x := a.(type) {
			case *ssa.FieldAddr:
				n := core.FieldName(x.X.Type(), x.Field)
				if n == "ast.File.Doc" {
					sawFileDoc = true // the package documentation belongs to no declaration
					return false
				}
				return len(n) > 8 && n[:4] == "ast." && n[len(n)-4:] == ".Doc"
			case *ssa.Phi:
				for _, e := range x.Edges {
					if k, isK := e.(*ssa.Const); isK && k.IsNil() {
						nilEdge[x] = true // "no Doc member": allowed when the pointer is tested before it is followed
						continue
					}
					if !isDocAddr(e, d+1) {
						return false
					}
				}
				return len(x.Edges) > 0
			case *ssa.Call: // a helper of the package that answers the address of the Doc member of its argument, or nil
				callee := x.Call.StaticCallee()
				if callee == nil || callee.Blocks == nil || pkgOf(callee) != pkgOf(fn) {
					return false
				}
				helpers[callee] = true
				k := 0
				for _, hr := range core.Returns(callee) {
					if len(hr.Results) != 1 {
						return false
					}
					if kc, isK := hr.Results[0].(*ssa.Const); isK && kc.IsNil() {
						nilCall[x] = true
						continue
					}
					k++
					if !isDocAddr(hr.Results[0], d+1) {
						return false
					}
				}
				return k > 0
			case *ssa.Extract: // the same helper answering (address, flag …): the address is its first result
				hc, isCall := x.Tuple.(*ssa.Call)
				if !isCall || x.Index != 0 {
					return false
				}
				callee := hc.Call.StaticCallee()
				if callee == nil || callee.Blocks == nil || pkgOf(callee) != pkgOf(fn) {
					return false
				}
				helpers[callee] = true
				k := 0
				for _, hr := range core.Returns(callee) {
					if len(hr.Results) < 1 {
						return false
					}
					if kc, isK := hr.Results[0].(*ssa.Const); isK && kc.IsNil() {
						nilExtract[x] = true
						continue
					}
					k++
					if !isDocAddr(hr.Results[0], d+1) {
						return false
					}
				}
				return k > 0
			case *ssa.UnOp: // load of a pointer variable
				if al, ok := x.X.(*ssa.Alloc); ok && al.Referrers() != nil {
					n := 0
					for _, rf := range *al.Referrers() {
						if st, ok := rf.(*ssa.Store); ok && st.Addr == al {
							n++
							if !isDocAddr(st.Val, d+1) {
								return false
							}
						}
					}
					return n > 0
				}
			}
			return false
		}
		addrOf := func(v ssa.Value) ssa.Value {
			if u, ok := v.(*ssa.UnOp); ok {
				// normalise "load of pointer variable" to the variable
				if u2, ok := u.X.(*ssa.UnOp); ok {
					return u2.X
				}
				return u.X
			}
			return nil
		}
		n := 0
		for i, ret := range core.Returns(fn) {
			t := c.O.Of(ret.Results[0])
			if t.Is("const", "nil") {
				continue
			}
			n++
			v := ret.Results[0]
			u, isLoad := v.(*ssa.UnOp)
			okDoc := isLoad && isDocAddr(u.X, 0)
			d := c.ReachOf(ret)
			nonNil := c.M(false, isNilCmp(func(x *core.Term) bool {
				if x.String() == t.String() {
					return true
				}
				return x.V != nil && addrOf(x.V) != nil && addrOf(x.V) == addrOf(v)
			}))
			if hc, isCall := u.X.(*ssa.Call); okDoc && isLoad && isCall && nilCall[hc] {
				okDoc = d.Implies(c.M(false, isNilCmp(func(x *core.Term) bool { return x.V == ssa.Value(hc) })))
			}
			if ex, isEx := u.X.(*ssa.Extract); okDoc && isLoad && isEx && nilExtract[ex] {
				okDoc = d.Implies(c.M(false, isNilCmp(func(x *core.Term) bool { return x.V == ssa.Value(ex) })))
			}
			if ph, isPhi := u.X.(*ssa.Phi); okDoc && isLoad && isPhi && nilEdge[ph] {
				// the address itself may be nil: it must be tested too
				okDoc = d.Implies(c.M(false, isNilCmp(func(x *core.Term) bool { return x.V == ssa.Value(ph) })))
			}
			r.Check("C17-5", sprintf("%s:return%d", FnKey(fn), i+1), c.InstrPos(ret), okDoc && d.Implies(nonNil), "the doc lookup may return something other than a non-nil Doc group: "+t.String())
		}
		r.Floor("C17-5", "Doc-returning branches of GetDocCommentOn", n, 1)
		// no branch of the lookup reads File.Doc at all
		for _, b := range fn.Blocks {
			for _, in := range b.Instrs {
				if fa, ok := in.(*ssa.FieldAddr); ok && core.FieldName(fa.X.Type(), fa.Field) == "ast.File.Doc" {
					sawFileDoc = true
				}
			}
		}
		scan := append([]*ssa.Function{}, fn.AnonFuncs...)
		for h := range helpers {
			scan = append(scan, h)
		}
		for _, af := range scan {
			for _, b := range af.Blocks {
				for _, in := range b.Instrs {
					if fa, ok := in.(*ssa.FieldAddr); ok && core.FieldName(fa.X.Type(), fa.Field) == "ast.File.Doc" {
						sawFileDoc = true
					}
				}
			}
		}
		r.Check("C17-5", FnKey(fn)+":not-the-package-doc", c.Pos(fn.Pos()), !sawFileDoc, "the doc lookup can end at File.Doc: the package documentation is then taken for the doc comment of an undocumented interface or method (copied above generated functions, deleted from the output, its notation-like lines applied to whichever declaration comes first)")
	}

	c.docStopsAtFieldRule("C17-10")

	r.Rule("C17-4", "marker identity: both InsertComment calls of an entry plant that entry's marker at positions taken from the interface's own declaration (ToAstNode(file, entry.intf)); the cut regexp and the replacement use the same entry's marker")
	if fn := c.MustMethod("C17-4", "/pkg/parser", "Parser", "GenerateBaseCode"); fn != nil {
		ins := c.CallsIn(fn, pUtil+"InsertComment", false)
		r.Check("C17-4", FnKey(fn)+":two-markers", c.Pos(fn.Pos()), len(ins) == 2, sprintf("expected two marker insertions per interface, found %d", len(ins)))
		var entryTerm string
		for i, s := range ins {
			txt := c.O.Of(s.Args()[1])
			ok := txt.IsField("parser.intfEntry.marker")
			if ok {
				if entryTerm == "" {
					entryTerm = txt.Args[0].String()
				}
				ok = txt.Args[0].String() == entryTerm
			}
			r.Check("C17-4", sprintf("%s:InsertComment%d:text", FnKey(fn), i+1), c.Pos(s.Pos()), ok, "the planted text must be the marker of the entry being processed, got "+txt.String())
			file := c.O.Of(s.Args()[0])
			r.Check("C17-4", sprintf("%s:InsertComment%d:file", FnKey(fn), i+1), c.Pos(s.Pos()), file.IsField("parser.Parser.file"), "markers must be planted in the setup file's AST")
		}
		for _, s := range c.CallsIn(fn, pUtil+"ToAstNode", false) {
			o := c.O.Of(s.Args()[1])
			ok := o.IsField("parser.intfEntry.intf") && (entryTerm == "" || o.Args[0].String() == entryTerm)
			r.Check("C17-4", FnKey(fn)+":ToAstNode", c.Pos(s.Pos()), ok, "the brace positions must be looked up for the entry's own interface object, got "+o.String())
		}
		for _, s := range c.CallsIn(fn, "(*regexp.Regexp).ReplaceAllString", false) {
			re := c.O.Of(s.Args()[0])
			repl := c.O.Of(s.Args()[2])
			okRe := re.IsCallTo("regexp.MustCompile") && re.Args[0].Contains(func(t *core.Term) bool {
				return t.IsCallTo("regexp.QuoteMeta") && t.Args[0].IsField("parser.intfEntry.marker")
			}) && !re.Args[0].Contains(func(t *core.Term) bool {
				return t.IsField("parser.intfEntry.marker") && !true
			})
			okRepl := repl.IsField("parser.intfEntry.marker")
			same := okRe && okRepl && re.Args[0].Find(func(t *core.Term) bool { return t.IsField("parser.intfEntry.marker") }).Args[0].String() == repl.Args[0].String()
			r.Check("C17-4", FnKey(fn)+":cut", c.Pos(s.Pos()), same, "the text between the two markers must be cut with a regexp built from QuoteMeta(entry.marker) and replaced by that same marker")
		}
	}
}
