package rules

// Rules added after the second (blind) round of seeded changes: each generalises a missed change into a
// repository-wide discipline (keying of a table, per-iteration state, inventories) rather than matching that change.

import (
	"go/token"
	"go/types"
	"regexp/syntax"
	"strconv"
	"strings"

	"cvcheck/internal/core"

	"golang.org/x/tools/go/ssa"
)

// derivesFrom reports whether some sub-term of t satisfies pred (looking through φ, conversions, slices, concatenation).
func derivesFrom(t *core.Term, pred func(*core.Term) bool) bool { return t.Contains(pred) }

// importKeyRule: util.ImportNames maps import *path* → name. Every key used on it (map index, map update, LookupName
// argument) must be a package path; LookupPath must only be asked with qualifier text of a notation.
func (c *Ctx) importKeyRule(rule string) {
	r := c.R
	r.Rule(rule, "util.ImportNames is keyed by import path: every map index/update on it and every LookupName argument derives from (*types.Package).Path() / the import spec's path (or is such a parameter whose callers comply); LookupPath is only asked with notation qualifier text, never with text taken from a go/types package")
	isImportNames := func(t types.Type) bool {
		return strings.HasSuffix(t.String(), "pkg/util.ImportNames")
	}
	isPathTerm := func(t *core.Term) bool {
		return derivesFrom(t, func(s *core.Term) bool {
			return s.IsCallTo("(*go/types.Package).Path") || s.IsField("ast.BasicLit.Value")
		})
	}
	fromTypesName := func(t *core.Term) bool {
		return derivesFrom(t, func(s *core.Term) bool {
			return s.IsCallTo("(*go/types.Package).Name") || s.IsCallTo("(*go/types.Package).Path") || (s.Kind == "call" && strings.HasPrefix(s.Name, "(*go/types.") && strings.HasSuffix(s.Name, ").Name"))
		})
	}
	n := 0
	var checkKey func(fn *ssa.Function, key ssa.Value, pos token.Pos, what string, depth int)
	checkKey = func(fn *ssa.Function, key ssa.Value, pos token.Pos, what string, depth int) {
		t := c.O.Of(key)
		n++
		k := FnKey(fn) + ":" + what
		if isPathTerm(t) {
			r.Check(rule, k, c.Pos(pos), true, "")
			return
		}
		if fromTypesName(t) && !isPathTerm(t) {
			r.Check(rule, k, c.Pos(pos), false, "the import table (path → name) is asked with a package *name* ("+t.String()+"): aliased imports and packages sharing a name resolve wrongly")
			return
		}
		// a key that is a parameter or a range key of the table itself
		if p, ok := key.(*ssa.Parameter); ok && depth > 0 {
			idx := paramIndex(fn, p)
			for _, cs := range c.Calls(nil) {
				if cs.Instr.Common().StaticCallee() == fn && idx < len(cs.Args()) {
					checkKey(cs.Fn, cs.Args()[idx], cs.Pos(), what+"←"+FnKey(fn), depth-1)
				}
			}
			return
		}
		if t.Is("const", `"unsafe"`) {
			// the one package that go/types gives no *types.Package for a basic type to answer Path() with; path and name coincide
			r.Check(rule, k, c.Pos(pos), true, "")
			return
		}
		if t.Kind == "extract" && t.Args[0].Kind == "next" {
			r.Check(rule, k, c.Pos(pos), true, "")
			return
		}
		// keys built from the import spec text (strings.ReplaceAll(spec.Path.Value, …)) or local copies of such keys
		if derivesFrom(t, func(s *core.Term) bool { return s.IsField("ast.ImportSpec.Path") || s.Kind == "index" }) && !fromTypesName(t) {
			r.Check(rule, k, c.Pos(pos), true, "")
			return
		}
		r.Check(rule, k, c.Pos(pos), false, "cannot show that this import-table key is a package path: "+t.String())
	}
	for _, fn := range c.P.Funcs() {
		for _, b := range fn.Blocks {
			for _, in := range b.Instrs {
				switch x := in.(type) {
				case *ssa.Lookup:
					if isImportNames(x.X.Type()) {
						checkKey(fn, x.Index, x.Pos(), "index", 2)
					}
				case *ssa.MapUpdate:
					if isImportNames(x.Map.Type()) {
						checkKey(fn, x.Key, x.Pos(), "update", 2)
					}
				}
			}
		}
	}
	for _, s := range c.CallsTo("(" + pUtil + "ImportNames).LookupPath") {
		n++
		t := c.O.Of(s.Args()[1])
		ok := !fromTypesName(t)
		if !ok {
			// one other question is legitimate: “is this declared package name already the name of an import?” – asked by the
			// nameability test before a package's own name is written as a qualifier; only the found-flag may be used
			onlyFlag := false
			if v, isV := s.Instr.(ssa.Value); isV && v.Referrers() != nil {
				onlyFlag = true
				for _, rf := range *v.Referrers() {
					if ex, isEx := rf.(*ssa.Extract); isEx && ex.Index == 0 && ex.Referrers() != nil && len(*ex.Referrers()) > 0 {
						onlyFlag = false
					}
				}
			}
			for _, p := range c.nameablePredicates() {
				if p == s.Fn && onlyFlag && t.IsCallTo("(*go/types.Package).Name") {
					ok = true
				}
			}
		}
		r.Check(rule, FnKey(s.Fn)+":LookupPath-arg", c.Pos(s.Pos()), ok, "LookupPath (name → path, for notation qualifiers) is asked with text taken from a go/types package: "+t.String())
	}
	r.Floor(rule, "import-table key uses", n, 5)
}

// perIterationStateRule: variables that a callback writes inside a per-interface loop must be fresh per iteration.
func (c *Ctx) perIterationStateRule(rule, suffix, typ, name string) {
	r := c.R
	r.Rule(rule, "per-iteration state: in every loop over the parser's interface entries, a variable that a closure created inside that loop writes to is allocated inside the loop (or reset there before the closure is created), so nothing computed for one interface leaks into the next")
	nLoops, n := 0, 0
	for _, fn := range c.P.Funcs() {
		p := pkgOf(fn)
		if p == nil || p.Path() != mod+suffix {
			continue
		}
		// loops over p.intfEntries: header compares the index with len(Parser.intfEntries)
		heads := map[*ssa.BasicBlock]map[*ssa.BasicBlock]bool{}
		for _, b := range fn.Blocks {
			if len(b.Instrs) == 0 {
				continue
			}
			iff, ok := b.Instrs[len(b.Instrs)-1].(*ssa.If)
			if !ok {
				continue
			}
			t := c.O.Of(iff.Cond)
			if t.Kind == "binop" && t.Name == "<" && t.Args[1].IsCallTo("builtin:len") && t.Args[1].Args[0].IsField("parser.Parser.intfEntries") {
				if lp := loopOf(b); lp != nil {
					heads[b] = lp
				}
			}
		}
		for _, lp := range heads {
			nLoops++
			for b := range lp {
				for _, in := range b.Instrs {
					mc, ok := in.(*ssa.MakeClosure)
					if !ok {
						continue
					}
					for _, bnd := range mc.Bindings {
						al, ok := bnd.(*ssa.Alloc)
						if !ok || !core.ClosureStores(mc, al) {
							continue
						}
						n++
						fresh := lp[al.Block()]
						if !fresh && al.Referrers() != nil {
							for _, rf := range *al.Referrers() {
								if st, ok := rf.(*ssa.Store); ok && st.Addr == al && lp[st.Block()] && st.Block().Dominates(b) {
									if _, isK := st.Val.(*ssa.Const); isK {
										fresh = true
									}
								}
							}
						}
						r.Check(rule, FnKey(fn)+":"+al.Comment, c.InstrPos(mc), fresh, "variable "+al.Comment+" is written by a callback inside the per-interface loop but lives across iterations without being reset: a value computed for one interface leaks into the next")
					}
				}
			}
		}
	}
	r.Floor(rule, "loops over the parser's interface entries", nLoops, 2)
	r.Note(rule+"_callback_written_variables", n)
	_ = typ
	_ = name
}

// noNilVerdictRule: the per-field chain never answers (nil, nil) by a constant.
func (c *Ctx) noNilVerdictRule(rule string) {
	r := c.R
	r.Rule(rule, "the per-field matcher and every function whose result it returns never return the constants (nil, nil): a destination field must get an assignment, a skip or a no-match verdict")
	seen := map[*ssa.Function]bool{}
	var fns []*ssa.Function
	for _, pf := range c.perFieldMatchers() {
		if !seen[pf] {
			seen[pf] = true
			fns = append(fns, pf)
		}
		for _, ret := range core.Returns(pf) {
			if len(ret.Results) == 0 {
				continue
			}
			if ex, ok := ret.Results[0].(*ssa.Extract); ok {
				if call, ok := ex.Tuple.(*ssa.Call); ok {
					if g := call.Call.StaticCallee(); g != nil && g.Blocks != nil && !seen[g] {
						seen[g] = true
						fns = append(fns, g)
					}
				}
			}
		}
	}
	n := 0
	for _, fn := range fns {
		for i, ret := range core.Returns(fn) {
			if len(ret.Results) != 2 {
				continue
			}
			n++
			a, e := c.O.Of(ret.Results[0]), c.O.Of(ret.Results[1])
			r.Check(rule, sprintf("%s:return%d", FnKey(fn), i+1), c.InstrPos(ret), !(a.Is("const", "nil") && e.Is("const", "nil")), "returns (nil, nil): the destination field is dropped silently (no assignment, no `no match`, no warning)")
		}
	}
	r.Floor(rule, "returns of the per-field chain", n, 10)
}

// converterResolutionRule: converters are resolved against the complete method list.
func (c *Ctx) converterResolutionRule(rule string) {
	r := c.R
	r.Rule(rule, "converter resolution (incl. to-be-generated functions) runs after all interfaces were parsed: the method list given to resolveConverters is complete – the call does not sit in the loop that extends that list")
	name := "(*" + pPar + "Parser).resolveConverters"
	sites := c.CallsTo(name)
	r.Floor(rule, "resolveConverters call sites", len(sites), 1)
	for _, s := range sites {
		list := s.Args()[1]
		// appends that build the list: follow φ back to append calls
		ok := true
		seen := map[ssa.Value]bool{}
		var walk func(v ssa.Value, d int)
		walk = func(v ssa.Value, d int) {
			if v == nil || seen[v] || d > 8 {
				return
			}
			seen[v] = true
			switch x := v.(type) {
			case *ssa.Phi:
				for _, e := range x.Edges {
					walk(e, d+1)
				}
			case *ssa.Call:
				if core.CalleeName(&x.Call) == "builtin:append" {
					lp := loopOf(x.Block())
					if lp != nil && lp[s.Instr.Block()] {
						ok = false
					}
					walk(x.Call.Args[0], d+1)
				}
			}
		}
		walk(list, 0)
		r.Check(rule, FnKey(s.Fn)+":complete-list", c.Pos(s.Pos()), ok, "converters are resolved while the list of methods is still being collected: a :conv that refers to a function generated from a later interface is reported as not found")
	}
}

// assignmentKindsRule: what the builder puts into the Assignment interface is what the generator's type tests expect.
func (c *Ctx) assignmentKindsRule(rule string) {
	r := c.R
	r.Rule(rule, "dynamic types: every type the generator tests an Assignment for (type assertion / type switch) is converted to Assignment by the builder in exactly that form (value vs pointer): a *T stored where T is tested bypasses the special rendering")
	tested := map[string]bool{}
	for _, fn := range c.P.Funcs() {
		p := pkgOf(fn)
		if p == nil || !strings.HasPrefix(p.Path(), mod+"/pkg/generator") {
			continue
		}
		for _, b := range fn.Blocks {
			for _, in := range b.Instrs {
				if ta, ok := in.(*ssa.TypeAssert); ok && strings.HasSuffix(ta.X.Type().String(), "generator/model.Assignment") {
					tested[ta.AssertedType.String()] = true
				}
			}
		}
	}
	r.Note("assignment_types_tested_by_generator", sortedKeys(tested))
	n := 0
	for _, fn := range c.P.Funcs() {
		p := pkgOf(fn)
		if p == nil || !strings.HasPrefix(p.Path(), mod+"/pkg/builder") {
			continue
		}
		for _, b := range fn.Blocks {
			for _, in := range b.Instrs {
				mi, ok := in.(*ssa.MakeInterface)
				if !ok || !strings.HasSuffix(mi.Type().String(), "generator/model.Assignment") {
					continue
				}
				n++
				ts := mi.X.Type().String()
				bad := false
				if pt, isPtr := mi.X.Type().(*types.Pointer); isPtr && tested[pt.Elem().String()] && !tested[ts] {
					bad = true
				}
				if tested["*"+ts] && !tested[ts] {
					bad = true
				}
				r.Check(rule, sprintf("%s:as-Assignment:%s", FnKey(fn), core.ShortType(mi.X.Type())), c.InstrPos(mi), !bad, "the builder stores "+ts+" in an Assignment while the generator tests for the other form: nested error checks are lost")
			}
		}
	}
	r.Floor(rule, "conversions to gmodel.Assignment in the builder", n, 8)
	r.Check(rule, "generator-tests-a-type", "-", len(tested) >= 1, "the generator no longer distinguishes nested structs by type")
}

// converterSetRule: the facts recorded on a converter come from the same, successful, source.
func (c *Ctx) converterSetRule(rule string) {
	r := c.R
	r.Rule(rule, "FieldConverter.Set(arg, ret, errFlag): either all three are the results of one lookupConverterFunc call taken on its nil-error edge, or (SrcVar().Type(), DstVar().Type(), RetError()) of one and the same generated method, which is reached only if that method has no additional arguments (the converter call passes the source alone)")
	setName := "(*" + pOpt + "FieldConverter).Set"
	lookup := "(*" + pPar + "Parser).lookupConverterFunc"
	sites := c.CallsTo(setName)
	r.Floor(rule, "FieldConverter.Set call sites", len(sites), 2)
	for i, s := range sites {
		a := s.Args()
		t1, t2, t3 := c.O.Of(a[1]), c.O.Of(a[2]), c.O.Of(a[3])
		d := c.ReachOf(s.Instr)
		ok := false
		why := ""
		fromLookup := func(t *core.Term, idx string) bool {
			return t.Kind == "extract" && t.Name == idx && t.Args[0].IsCallTo(lookup)
		}
		switch {
		case fromLookup(t1, "0") || fromLookup(t2, "1") || fromLookup(t3, "2"):
			ok = fromLookup(t1, "0") && fromLookup(t2, "1") && fromLookup(t3, "2") && t1.Args[0].V == t2.Args[0].V && t2.Args[0].V == t3.Args[0].V &&
				d.Implies(c.M(true, isNilCmp(func(t *core.Term) bool { return fromLookup(t, "3") && t.Args[0].V == t1.Args[0].V })))
			why = "results of a converter lookup are recorded although that lookup failed, or mixed with facts from elsewhere"
		default:
			m1 := t1.Find(func(t *core.Term) bool { return t.IsCallTo("(*" + pBM + "MethodEntry).SrcVar") })
			m2 := t2.Find(func(t *core.Term) bool { return t.IsCallTo("(*" + pBM + "MethodEntry).DstVar") })
			ok = m1 != nil && m2 != nil && t3.IsCallTo(fnMethodRetError) && m1.Args[0].String() == m2.Args[0].String() && m2.Args[0].String() == t3.Args[0].String()
			why = "for a to-be-generated function the converter must record SrcVar/DstVar/RetError() of that one method; got (" + t1.String() + ", " + t2.String() + ", " + t3.String() + ")"
			if ok {
				// the call is emitted with the source alone: a method with additional arguments cannot be a converter
				m := m1.Args[0].String()
				noExtra := c.atMost(lenOf(func(t *core.Term) bool {
					return t.IsCallTo("(*"+pBM+"MethodEntry).AdditionalArgVars") && t.Args[0].String() == m
				}), 0)
				r.Check(rule, sprintf("%s:Set%d:no-additional-arguments", FnKey(s.Fn), i+1), c.Pos(s.Pos()), d.Implies(noExtra),
					"a to-be-generated function with additional arguments is accepted as converter although the call is emitted with the source as its only argument (`Conv(src.In)` for `Conv(*In, int) *Out` does not compile); reach: "+d.Describe(c.O))
			}
		}
		r.Check(rule, sprintf("%s:Set%d", FnKey(s.Fn), i+1), c.Pos(s.Pos()), ok, why)
	}
}

// toggleCasesRule: each toggle keyword writes its own option field with its own polarity.
func (c *Ctx) toggleCasesRule(rule string) {
	r := c.R
	r.Rule(rule, "toggle notations: in the notation parser every store to Options.{ExactCase,Getter,Stringer,Typecast} is a constant v reached only under tag == <keyword> where keyword = {case,getter,stringer,typecast} for that very field, with suffix \":off\" iff v is false; all eight keywords occur")
	fn := c.notationParser()
	if fn == nil {
		r.Undecided(rule, "notation-parser", "not found")
		return
	}
	names := map[string]string{"option.Options.ExactCase": "case", "option.Options.Getter": "getter", "option.Options.Stringer": "stringer", "option.Options.Typecast": "typecast"}
	seen := map[string]bool{}
	for _, b := range fn.Blocks {
		for _, in := range b.Instrs {
			st, ok := in.(*ssa.Store)
			if !ok {
				continue
			}
			fa, ok := st.Addr.(*ssa.FieldAddr)
			if !ok {
				continue
			}
			fname := core.FieldName(fa.X.Type(), fa.Field)
			kw, isToggle := names[fname]
			if !isToggle {
				continue
			}
			v := c.O.Of(st.Val)
			if !(v.Is("const", "true") || v.Is("const", "false")) {
				r.Check(rule, FnKey(fn)+":"+fname+":constant", c.InstrPos(st), false, "a toggle is set to a non-constant: "+v.String())
				continue
			}
			want := kw
			if v.Is("const", "false") {
				want += ":off"
			}
			seen[want] = true
			d := c.ReachOf(st)
			ok2 := d.Implies(c.M(true, func(t *core.Term) bool {
				return t.Kind == "binop" && t.Name == "==" && (t.Args[1].Is("const", `"`+want+`"`) || t.Args[0].Is("const", `"`+want+`"`))
			}))
			r.Check(rule, FnKey(fn)+":"+want, c.InstrPos(st), ok2, "Options."+strings.TrimPrefix(fname, "option.Options.")+" = "+v.Name+" is not reached under the notation `:"+want+"` (another keyword sets this field, so that notation does not do what it says); reach: "+d.Describe(c.O))
		}
	}
	for _, kw := range []string{"case", "case:off", "getter", "getter:off", "stringer", "stringer:off", "typecast", "typecast:off"} {
		r.Check(rule, FnKey(fn)+":has:"+kw, c.Pos(fn.Pos()), seen[kw], "no store implements `:"+kw+"`")
	}
}

// pkgImportsIndexRule: packages.Package.Imports (go list's package-wide view, which includes the withheld output's
// imports) is only consulted with a path that the setup file itself imports.
func (c *Ctx) pkgImportsIndexRule(rule string) {
	r := c.R
	r.Rule(rule, "packages.Package.Imports is indexed only with the path returned by the setup file's own import table (LookupPath, taken on its ok edge) or with the path text of one of the setup file's own import specs: the imports of whatever file sits at the output path must not decide what a notation resolves to")
	n := 0
	for _, fn := range c.P.Funcs() {
		for _, b := range fn.Blocks {
			for _, in := range b.Instrs {
				lk, ok := in.(*ssa.Lookup)
				if !ok {
					continue
				}
				if !c.O.Of(lk.X).IsField("packages.Package.Imports") {
					continue
				}
				n++
				d := c.ReachOf(lk)
				okAll := true
				for _, cs := range c.Reach(fn).Cases(lk.Index) {
					t := c.O.Of(cs.V)
					isLP := t.Kind == "extract" && t.Name == "0" && t.Args[0].IsCallTo("("+pUtil+"ImportNames).LookupPath")
					// or the path text of one of the setup file's own import specs (the same expression NewImportNames keys its table with)
					if t.IsCallTo("strings.ReplaceAll") && t.Args[0].IsField("ast.BasicLit.Value") && t.Args[0].Args[0].IsField("ast.ImportSpec.Path") &&
						t.Args[0].Args[0].Args[0].Contains(func(x *core.Term) bool { return x.IsField("ast.File.Imports") }) {
						continue
					}
					if !isLP {
						okAll = false
						continue
					}
					cond := d
					if cs.Cond != nil {
						cond = core.And(cs.Cond, d)
					}
					if !cond.Implies(c.M(true, func(x *core.Term) bool { return x.Kind == "extract" && x.Name == "1" && x.Args[0].V == t.Args[0].V })) {
						okAll = false
					}
				}
				r.Check(rule, FnKey(fn)+":Imports-index", c.InstrPos(lk), okAll, "the package's import map is indexed with something other than a path the setup file imports: "+c.O.Of(lk.Index).String())
			}
		}
	}
	r.Floor(rule, "lookups in packages.Package.Imports", n, 1)
}

// sliceBoundExceptions: accepted x[1:] sites, one symbol and one reason each.
var sliceBoundExceptions = map[string]string{
	"(*builder.assignmentBuilder).resolveTemplatedExpr": "the first path element of a templated mapper starts with `$`: templated mappers are created only for sources with that prefix (rule C06-5 route) and strings.Split never yields an empty first element for them",
}

// sliceBoundsRule: x[k:len(x)-c] needs len(x) ≥ k+c.
func (c *Ctx) sliceBoundsRule(rule string) {
	r := c.R
	r.Rule(rule, "constant-offset slicing x[k : len(x)-c] (k, c constants, k+c > 0) is dominated by len(x) ≥ k+c")
	n := 0
	for _, fn := range c.P.Funcs() {
		for _, b := range fn.Blocks {
			for _, in := range b.Instrs {
				sl, ok := in.(*ssa.Slice)
				if !ok {
					continue
				}
				k := 0
				if sl.Low != nil {
					lk, isK := constInt(c.O.Of(sl.Low))
					if !isK {
						continue
					}
					k = lk
				}
				cc := 0
				if sl.High != nil {
					h := c.O.Of(sl.High)
					if h.Kind == "binop" && h.Name == "-" && h.Args[0].IsCallTo("builtin:len") && h.Args[0].Args[0].V == sl.X {
						ck, isK := constInt(h.Args[1])
						if !isK {
							continue
						}
						cc = ck
					} else {
						continue
					}
				} else if k == 0 {
					continue
				}
				if k+cc == 0 {
					continue
				}
				if _, isArr := sl.X.Type().Underlying().(*types.Pointer); isArr {
					continue // slicing a fixed-size array
				}
				n++
				d := c.ReachOf(sl)
				lp := lenOfValue(sl.X, "")
				okB := d.Implies(c.atLeast(lp, k+cc))
				if !okB && k+cc <= 1 {
					// field invariant: a field that is only ever assigned strings.Split(…) holds at least one element
					if ft := c.O.Of(sl.X); ft.Kind == "field" && c.fieldOnlySplit(ft.Name) {
						okB = true
					}
				}
				if !okB {
					// table: one symbol + reason
					if why, has := sliceBoundExceptions[FnKey(fn)]; has && k == 1 && cc == 0 {
						_ = why
						okB = true
					}
				}
				r.Check(rule, sprintf("%s:slice[%d:len-%d]", FnKey(fn), k, cc), c.InstrPos(sl), okB,
					sprintf("x[%d:len(x)-%d] is not dominated by len(x) ≥ %d (a shorter value panics with slice bounds out of range); reach: %s", k, cc, k+cc, d.Describe(c.O)))
			}
		}
	}
	r.Floor(rule, "constant-offset slice expressions", n, 1)
}

// anchoredRegexpRule: the line-classifying patterns are anchored at the start of the comment.
func (c *Ctx) anchoredRegexpRule(rule string, globals ...string) {
	r := c.R
	r.Rule(rule, "the constant patterns that classify a whole comment line ("+strings.Join(globals, ", ")+") begin with ^ (a marker or directive mentioned in the middle of a line is prose, not a marker)")
	for _, g := range globals {
		pat, ok := c.globalRegexpPattern(g)
		if !ok {
			r.Undecided(rule, g, "not a package-level regexp.MustCompile(<constant>)")
			continue
		}
		re, err := syntax.Parse(pat, syntax.Perl)
		anchored := false
		if err == nil {
			re = re.Simplify()
			first := re
			for first.Op == syntax.OpConcat && len(first.Sub) > 0 {
				first = first.Sub[0]
			}
			anchored = first.Op == syntax.OpBeginText || first.Op == syntax.OpBeginLine
		}
		r.Check(rule, g+":anchored", "-", anchored, "pattern "+strconv.Quote(pat)+" is not anchored at the start of the comment text")
	}
}

func (c *Ctx) globalRegexpPattern(global string) (string, bool) {
	for _, fn := range c.P.Funcs() {
		if fn.Name() != "init" {
			continue
		}
		for _, b := range fn.Blocks {
			for _, in := range b.Instrs {
				st, ok := in.(*ssa.Store)
				if !ok {
					continue
				}
				g, ok := st.Addr.(*ssa.Global)
				if !ok || g.Pkg.Pkg.Name()+"."+g.Name() != global {
					continue
				}
				v := c.O.Of(st.Val)
				if !v.IsCallTo("regexp.MustCompile") || v.Args[0].Kind != "const" {
					return "", false
				}
				pat, err := strconv.Unquote(v.Args[0].Name)
				return pat, err == nil
			}
		}
	}
	return "", false
}

// stdoutInventoryRule: only the writing function prints on stdout.
func (c *Ctx) stdoutInventoryRule(rule string) {
	r := c.R
	r.Rule(rule, "stdout inventory: in code reachable from main the only writers to stdout (fmt.Print/Printf/Println, Fprint*(os.Stdout)) are the code prints of the writing function and config.Usage; everything else goes to the loggers / stderr (otherwise -print output does not equal the written file)")
	g := c.generateFacts(rule)
	reach := c.reachableFrom(c.mainFunc())
	n := 0
	for _, s := range c.Calls(func(n string) bool {
		switch n {
		case "fmt.Print", "fmt.Printf", "fmt.Println", "fmt.Fprint", "fmt.Fprintf", "fmt.Fprintln", "flag.PrintDefaults", "(*os.File).Write", "(*os.File).WriteString":
			return true
		}
		return false
	}) {
		if strings.HasPrefix(s.Callee, "(*os.File)") && !c.O.Of(s.Args()[0]).Is("global", "os.Stdout") {
			continue
		}
		root := s.Fn
		for root.Parent() != nil {
			root = root.Parent()
		}
		if !reach[s.Fn] && !reach[root] {
			continue
		}
		if strings.HasPrefix(s.Callee, "fmt.F") {
			w := c.O.Of(s.Args()[0])
			if !w.Is("global", "os.Stdout") {
				continue
			}
		}
		if s.Callee == "flag.PrintDefaults" {
			continue // writes to flag.CommandLine's output = stderr
		}
		n++
		ok := g != nil && (s.Fn == g.fn || s.Fn.Parent() == g.fn)
		r.Check(rule, FnKey(s.Fn)+":"+shortCallee(s.Callee), c.Pos(s.Pos()), ok, s.Callee+" writes to stdout outside the function that prints the generated code: with -print the text on stdout no longer equals the written file")
	}
	r.Floor(rule, "stdout writers reachable from main", n, 1)
}

// fieldOnlySplit reports whether every store to the struct field (qualified name) in module code is a strings.Split result.
func (c *Ctx) fieldOnlySplit(field string) bool {
	n := 0
	for _, fn := range c.P.Funcs() {
		for _, b := range fn.Blocks {
			for _, in := range b.Instrs {
				st, ok := in.(*ssa.Store)
				if !ok {
					continue
				}
				fa, ok := st.Addr.(*ssa.FieldAddr)
				if !ok || core.FieldName(fa.X.Type(), fa.Field) != field {
					continue
				}
				n++
				if !c.O.Of(st.Val).IsCallTo("strings.Split") {
					return false
				}
			}
		}
	}
	return n > 0
}
