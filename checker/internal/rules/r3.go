package rules

// Shape rules for the type-name renderer and the matcher delegations (added while round 3 was running; evaluated
// blind against the round3-baseline checker first).

import (
	"go/token"
	"go/types"
	"regexp"
	"sort"
	"strconv"
	"strings"

	"cvcheck/internal/core"

	"golang.org/x/tools/go/ssa"
)

// typeNameRule: ImportNames.TypeName renders every type shape as documented.
func (c *Ctx) typeNameRule(rule string) {
	r := c.R
	r.Rule(rule, "ImportNames.TypeName(t): *T → \"*\"+TypeName(T); basic → its name, except unsafe.Pointer → <table name of unsafe>.Pointer (bare under a dot import, `unsafe.Pointer` when the table lacks it); named types carry their type arguments, each rendered by TypeName, in brackets; named without package (universe) → bare name; named whose package path is in the import table under a name other than \".\" → <table name>.<Name>; other named (own package, dot-imported) → bare name; anything else → types.TypeString with a qualifier that answers the table name for imported paths and \"\" otherwise; IsExternal(t) ⇔ named ∧ package path in the table")
	fn := c.MustMethod(rule, "/pkg/util", "ImportNames", "TypeName")
	if fn == nil {
		return
	}
	tparam := "param:" + fn.Params[1].Name()
	assert := func(typ string) func(*core.Term) bool {
		return func(t *core.Term) bool {
			return t.Kind == "extract" && t.Name == "1" && t.Args[0].Kind == "typeassert,ok" && t.Args[0].Name == typ && t.Args[0].Args[0].String() == tparam
		}
	}
	objName := func(t *core.Term) bool {
		return t.Kind == "call" && strings.HasSuffix(t.Name, ").Name") && t.Contains(func(s *core.Term) bool { return s.IsCallTo("(*go/types.Named).Obj") })
	}
	pkgOfObj := func(t *core.Term) bool {
		return t.Kind == "call" && strings.HasSuffix(t.Name, ").Pkg") && t.Contains(func(s *core.Term) bool { return s.IsCallTo("(*go/types.Named).Obj") })
	}
	// typeArgsOf: a call of a module function that renders Named.TypeArgs() of the judged type ("" when there are none)
	typeArgsOf := func(t *core.Term) bool {
		if t == nil || t.Kind != "call" || !t.Contains(func(s *core.Term) bool {
			return s.Kind == "extract" && s.Name == "0" && s.Args[0].Kind == "typeassert,ok" && s.Args[0].Name == "*types.Named" && s.Args[0].Args[0].String() == tparam
		}) {
			return false
		}
		for _, f := range c.P.Funcs() {
			if f.String() != t.Name && core.FuncName(f) != t.Name {
				continue
			}
			return c.typeArgsRenderer(rule, f)
		}
		return false
	}
	tableLookup := func(t *core.Term) bool { // imports[Obj().Pkg().Path()]
		return (t.Kind == "lookup,ok" || t.Kind == "lookup") && t.Args[1].IsCallTo("(*go/types.Package).Path") && pkgOfObj(t.Args[1].Args[0])
	}
	// the table name "." (dot import) is no qualifier
	isDotName := func(x *core.Term) bool {
		return x.Kind == "extract" && x.Name == "0" && (tableLookup(x.Args[0]) || x.Args[0].Kind == "lookup,ok")
	}
	dot := c.M(true, eqConst(isDotName, `"."`))
	notDot := c.M(false, eqConst(isDotName, `"."`))
	seen := map[string]bool{}
	for i, ret := range core.Returns(fn) {
		d := c.ReachOf(ret)
		t := c.O.Of(ret.Results[0])
		k := sprintf("%s:return%d", FnKey(fn), i+1)
		switch {
		case d.Implies(c.M(true, assert("*types.Pointer"))):
			seen["pointer"] = true
			ok := t.Kind == "binop" && t.Name == "+" && t.Args[0].Is("const", `"*"`) && t.Args[1].IsCallTo("("+pUtil+"ImportNames).TypeName") &&
				t.Args[1].Args[1].IsCallTo("(*go/types.Pointer).Elem")
			r.Check(rule, k+":pointer", c.InstrPos(ret), ok, "a pointer type must render as \"*\" + TypeName(elem), got "+t.String())
		case d.Implies(c.M(true, assert("*types.Basic"))):
			seen["basic"] = true
			// unsafe.Pointer is the one basic type that lives in a package: its bare name does not denote it
			unsafeKind := func(x *core.Term) bool {
				return x.Kind == "binop" && x.Name == "==" && ((x.Args[0].IsCallTo("(*go/types.Basic).Kind") && x.Args[1].Is("const", "18")) || (x.Args[1].IsCallTo("(*go/types.Basic).Kind") && x.Args[0].Is("const", "18")))
			}
			unsafeEntry := func(x *core.Term) bool {
				return (x.Kind == "lookup,ok" || x.Kind == "lookup") && x.Args[1].Is("const", `"unsafe"`)
			}
			isUnsafeName := func(x *core.Term) bool { return x.Kind == "extract" && x.Name == "0" && unsafeEntry(x.Args[0]) }
			foundUnsafe := func(x *core.Term) bool { return x.Kind == "extract" && x.Name == "1" && unsafeEntry(x.Args[0]) }
			basicName := func(x *core.Term) bool { return x.IsCallTo("(*go/types.Basic).Name") }
			switch {
			case d.Implies(c.M(false, unsafeKind)):
				r.Check(rule, k+":basic", c.InstrPos(ret), basicName(t), "a basic type must render as its name, got "+t.String())
			case d.Implies(c.M(true, unsafeKind)):
				seen["unsafe"] = true
				var ok bool
				switch {
				case d.Implies(c.M(true, foundUnsafe)) && d.Implies(c.M(true, eqConst(isUnsafeName, `"."`))):
					ok = basicName(t) // dot-imported
				case d.Implies(c.M(true, foundUnsafe)):
					ok = d.Implies(c.M(false, eqConst(isUnsafeName, `"."`))) && t.Kind == "binop" && t.Contains(isUnsafeName) && t.Contains(func(s *core.Term) bool { return s.Is("const", `"."`) }) && t.Contains(basicName)
				case d.Implies(c.M(false, foundUnsafe)):
					ok = t.Kind == "binop" && t.Args[0].Is("const", `"unsafe."`) && basicName(t.Args[1])
				}
				r.Check(rule, k+":unsafe-pointer", c.InstrPos(ret), ok, "unsafe.Pointer must render as <name of \"unsafe\" in the import table>.Pointer (bare under a dot import, unsafe.Pointer when the table lacks it), got "+t.String())
			default:
				r.Check(rule, k+":basic:unsafe-pointer-qualified", c.InstrPos(ret), false, "every basic type is rendered as its bare name: unsafe.Pointer becomes `Pointer`, which is undefined in the generated file; reach: "+d.Describe(c.O))
			}
		case d.Implies(c.M(true, assert("*types.Named"))):
			switch {
			case d.Implies(c.M(true, isNilCmp(pkgOfObj))):
				seen["universe"] = true
				r.Check(rule, k+":universe", c.InstrPos(ret), objName(t), "a package-less named type must render as its bare name, got "+t.String())
			case d.Implies(c.M(true, func(x *core.Term) bool { return x.Kind == "extract" && x.Name == "1" && tableLookup(x.Args[0]) })) && !d.Implies(dot):
				seen["imported"] = true
				r.Check(rule, k+":imported:not-dot", c.InstrPos(ret), d.Implies(notDot), "a type of a dot-imported package (table name \".\") is rendered with the table name as qualifier: `..T` does not parse")
				ok := false
				if t.IsCallTo("fmt.Sprintf") && t.Args[0].Is("const", `"%v.%v%v"`) {
					a0 := c.varargAt(ret.Results[0].(*ssa.Call).Call.Args[1], 0)
					a1 := c.varargAt(ret.Results[0].(*ssa.Call).Call.Args[1], 1)
					a2 := c.varargAt(ret.Results[0].(*ssa.Call).Call.Args[1], 2)
					ok = a0 != nil && a1 != nil && a2 != nil && a0.Kind == "extract" && a0.Name == "0" && tableLookup(a0.Args[0]) && objName(a1) && typeArgsOf(a2)
					r.Check(rule, k+":imported:type-arguments", c.InstrPos(ret), a2 != nil && typeArgsOf(a2), "the type arguments of an instantiated generic type are not rendered")
				} else if t.IsCallTo("fmt.Sprintf") && t.Args[0].Is("const", `"%v.%v"`) {
					r.Check(rule, k+":imported:type-arguments", c.InstrPos(ret), false, "a named type is rendered as <qualifier>.<name> without its type arguments: `ext.Box` does not denote ext.Box[int] (`make([]ext.Box, …)` does not compile)")
					a0 := c.varargAt(ret.Results[0].(*ssa.Call).Call.Args[1], 0)
					a1 := c.varargAt(ret.Results[0].(*ssa.Call).Call.Args[1], 1)
					ok = a0 != nil && a1 != nil && a0.Kind == "extract" && a0.Name == "0" && tableLookup(a0.Args[0]) && objName(a1)
				} else if t.Kind == "binop" {
					ok = t.Contains(func(s *core.Term) bool { return s.Kind == "extract" && s.Name == "0" && tableLookup(s.Args[0]) }) && t.Contains(objName) && t.Contains(func(s *core.Term) bool { return s.Is("const", `"."`) })
				}
				r.Check(rule, k+":imported", c.InstrPos(ret), ok, "a named type of an imported package must render as <name in the import table>.<type name>, got "+t.String())
			default:
				seen["local"] = true
				bare := objName(t)
				if t.Kind == "binop" && t.Name == "+" && objName(t.Args[0]) {
					bare = typeArgsOf(t.Args[1])
				}
				r.Check(rule, k+":local:type-arguments", c.InstrPos(ret), t.Kind == "binop" && t.Name == "+" && typeArgsOf(t.Args[1]), "a named type is rendered by its bare name without its type arguments: `Box` does not denote Box[int] (`make([]Box, …)` does not compile)")
				r.Check(rule, k+":local", c.InstrPos(ret), bare && d.Implies(c.M(false, func(x *core.Term) bool { return x.Kind == "extract" && x.Name == "1" && tableLookup(x.Args[0]) }), dot),
					"a named type whose package is not in the import table, or is dot-imported, must render as its bare name (only on the not-found edge of the table lookup or for the table name \".\"), got "+t.String())
			}
		default:
			seen["composite"] = true
			ok := t.IsCallTo("go/types.TypeString") && t.Args[0].String() == tparam && t.Args[1].Kind == "closure"
			r.Check(rule, k+":composite", c.InstrPos(ret), ok, "composite types must render through types.TypeString(t, <qualifier from the import table>), got "+t.String())
			if ok {
				for _, af := range fn.AnonFuncs {
					if !strings.HasSuffix(t.Args[1].Name, af.Name()) {
						continue
					}
					okQ := true
					nq := 0
					for _, qr := range core.Returns(af) {
						nq++
						qt := c.O.Of(qr.Results[0])
						qd := c.ReachOf(qr)
						found := func(x *core.Term) bool {
							return x.Kind == "extract" && x.Name == "1" && x.Args[0].Kind == "lookup,ok" && x.Args[0].Args[1].IsCallTo("(*go/types.Package).Path") && x.Args[0].Args[1].Args[0].Kind == "param"
						}
						switch {
						case qd.Implies(c.M(true, found)) && !qd.Implies(dot):
							okQ = okQ && qt.Kind == "extract" && qt.Name == "0" && qt.Args[0].Kind == "lookup,ok" && qd.Implies(notDot)
						case qd.Implies(c.M(false, found), dot):
							okQ = okQ && qt.Is("const", `""`)
						default:
							okQ = false
						}
					}
					r.Check(rule, FnKey(af)+":qualifier", c.Pos(af.Pos()), okQ && nq == 2, "the qualifier must answer imports[p.Path()] when present and not \".\" (dot import), and \"\" otherwise")
				}
			}
		}
	}
	for _, want := range []string{"pointer", "basic", "universe", "imported", "local", "composite"} {
		r.Check(rule, FnKey(fn)+":covers:"+want, c.Pos(fn.Pos()), seen[want], "TypeName has no branch for "+want+" types")
	}
	if ie := c.MustMethod(rule, "/pkg/util", "ImportNames", "IsExternal"); ie != nil {
		rc := c.Reach(ie)
		tr := rc.RetCond(0, true)
		okT := len(tr) > 0 && tr.Implies(c.M(true, func(x *core.Term) bool {
			return x.Kind == "extract" && x.Name == "1" && x.Args[0].Kind == "lookup,ok" && x.Args[0].Args[1].IsCallTo("(*go/types.Package).Path")
		}))
		// the lookup result may be returned directly: `_, ok := i[path]; return ok`
		if !okT {
			okT = true
			n := 0
			for _, ret := range core.Returns(ie) {
				t := c.O.Of(ret.Results[0])
				if t.Is("const", "false") {
					continue
				}
				n++
				if !(t.Kind == "extract" && t.Name == "1" && t.Args[0].Kind == "lookup,ok" && t.Args[0].Args[1].IsCallTo("(*go/types.Package).Path")) {
					okT = false
				}
			}
			okT = okT && n >= 1
		}
		r.Check(rule, FnKey(ie)+":true⇒path-in-table", c.Pos(ie.Pos()), okT, "IsExternal must answer whether the type's package path is in the import table")
		// … and `false` only for a type that is not named, has no package, or whose package path is not in the table – whatever
		// name it is imported under: a dot-imported type is as foreign as any (it cannot be a receiver: `func (p *Pet) …` for
		// a Pet of another package does not compile)
		okF := true
		nf := 0
		inTable := func(x *core.Term) bool {
			return x.Kind == "extract" && x.Name == "1" && x.Args[0].Kind == "lookup,ok" && x.Args[0].Args[1].IsCallTo("(*go/types.Package).Path")
		}
		for _, ret := range core.Returns(ie) {
			t := c.O.Of(ret.Results[0])
			d := c.ReachOf(ret)
			switch {
			case t.Is("const", "true"):
			case t.Is("const", "false"):
				nf++
				named := func(x *core.Term) bool {
					return x.Kind == "extract" && x.Name == "1" && x.Args[0].Kind == "typeassert,ok" && x.Args[0].Name == "*types.Named"
				}
				if !d.Implies(c.M(false, named), c.M(true, isNilCmp(func(x *core.Term) bool { return x.Kind == "call" && strings.HasSuffix(x.Name, ").Pkg") })), c.M(false, inTable)) {
					okF = false
				}
			case inTable(t):
				nf++ // the answer is the lookup's ok itself
			default:
				okF = false
			}
		}
		r.Check(rule, FnKey(ie)+":false⇒not-in-table", c.Pos(ie.Pos()), okF && nf >= 1, "IsExternal answers false for a type whose package path is in the import table (e.g. for the table name \".\": a dot-imported type would be accepted as a receiver)")
	}
}

// typeArgsRenderer: f(named) answers "" iff the type has no type arguments and otherwise "[" + the arguments, each rendered
// by TypeName, joined by ", " + "]".
func (c *Ctx) typeArgsRenderer(rule string, f *ssa.Function) bool {
	if c.typeArgsChecked == nil {
		c.typeArgsChecked = map[*ssa.Function]bool{}
	}
	if v, ok := c.typeArgsChecked[f]; ok {
		return v
	}
	r := c.R
	lenArgs := func(x *core.Term) bool {
		return x.Kind == "call" && strings.HasSuffix(x.Name, "TypeList).Len") && x.Contains(func(s *core.Term) bool { return s.IsCallTo("(*go/types.Named).TypeArgs") })
	}
	okEmpty, okList := false, false
	for _, ret := range core.Returns(f) {
		t := c.O.Of(ret.Results[0])
		d := c.ReachOf(ret)
		switch {
		case t.Is("const", `""`):
			okEmpty = d.Implies(c.exactly(lenArgs, 0))
		default:
			join := t.Find(func(s *core.Term) bool { return s.IsCallTo("strings.Join") })
			okList = t.Kind == "binop" && join != nil && join.Args[1].Is("const", `", "`) &&
				t.Contains(func(s *core.Term) bool { return s.Is("const", `"["`) }) && t.Contains(func(s *core.Term) bool { return s.Is("const", `"]"`) })
			// every element of the joined list is TypeName(args.At(n))
			elem := false
			for _, b := range f.Blocks {
				for _, in := range b.Instrs {
					if st, ok := in.(*ssa.Store); ok {
						v := c.O.Of(st.Val)
						if v.IsCallTo("("+pUtil+"ImportNames).TypeName") && v.Args[1].Kind == "call" && strings.HasSuffix(v.Args[1].Name, "TypeList).At") {
							elem = true
						}
					}
				}
			}
			okList = okList && elem
		}
	}
	r.Check(rule, FnKey(f)+":type-argument-list", c.Pos(f.Pos()), okEmpty && okList, "the type argument renderer must answer \"\" iff TypeArgs().Len() == 0 and otherwise \"[\" + TypeName of every argument joined by \", \" + \"]\"")
	c.typeArgsChecked[f] = okEmpty && okList
	return okEmpty && okList
}

// importTableRule: NewImportNames fills the table as documented.
func (c *Ctx) importTableRule(rule string) {
	r := c.R
	r.Rule(rule, "NewImportNames: every spec is entered under its path with the quotes stripped; the name is the spec's explicit name when present, otherwise the last path element")
	fn := c.MustFunc(rule, "/pkg/util", "NewImportNames")
	if fn == nil {
		return
	}
	n := 0
	for _, b := range fn.Blocks {
		for _, in := range b.Instrs {
			mu, ok := in.(*ssa.MapUpdate)
			if !ok {
				continue
			}
			lp := loopOf(b)
			if lp == nil {
				continue
			}
			key := c.O.Of(mu.Key)
			if !key.Contains(func(s *core.Term) bool { return s.IsField("ast.ImportSpec.Path") }) {
				continue // second pass over blank imports: keyed by a collected path
			}
			n++
			okKey := key.IsCallTo("strings.ReplaceAll") && key.Args[0].IsField("ast.BasicLit.Value") && key.Args[1].Is("const", `"\""`) && key.Args[2].Is("const", `""`)
			if !okKey {
				okKey = key.IsCallTo("strconv.Unquote") || (key.Kind == "extract" && key.Args[0].IsCallTo("strconv.Unquote")) || key.IsCallTo("strings.Trim")
			}
			r.Check(rule, FnKey(fn)+":key", c.InstrPos(mu), okKey, "the table key must be the import path without its quotes, got "+key.String())
			okVal := true
			explicit, derived := false, false
			for _, cs := range c.Reach(fn).Cases(mu.Value) {
				t := c.OfInl(cs.V) // a helper returning the last path element is read through
				hasName := func(x *core.Term) bool {
					return x.Kind == "binop" && x.Name == "==" && (x.Args[0].IsField("ast.ImportSpec.Name") || x.Args[1].IsField("ast.ImportSpec.Name"))
				}
				cond := cs.Cond
				if cond == nil {
					cond = c.ReachOf(mu)
				}
				switch {
				case t.IsField("ast.Ident.Name") && t.Args[0].IsField("ast.ImportSpec.Name"):
					explicit = true
					okVal = okVal && cond.Implies(c.M(false, hasName))
				case t.Kind == "slice" && t.Args[1].Kind == "binop" && t.Args[1].Name == "+" && t.Args[1].Args[0].IsCallTo("strings.LastIndex") && t.Args[1].Args[1].Is("const", "1"):
					derived = true
					okVal = okVal && cond.Implies(c.M(true, hasName)) && t.Args[1].Args[0].Args[1].Is("const", `"/"`)
				case t.IsCallTo("path.Base"):
					derived = true
				default:
					okVal = false
				}
			}
			r.Check(rule, FnKey(fn)+":name", c.InstrPos(mu), okVal && explicit && derived, "the entered name must be spec.Name.Name when the spec has a name and path[LastIndex(path, \"/\")+1:] otherwise")
		}
	}
	r.Floor(rule, "first-pass table updates", n, 1)
}

// matcherDelegationRule: the wrappers around IdentMatcher.Match hand their operands through unmodified.
func (c *Ctx) matcherDelegationRule(rule string) {
	r := c.R
	r.Rule(rule, "matcher wrappers: NameMatcher.Match = src.Match(src, ec) ∧ dst.Match(dst, ec); LiteralSetter.Match = dst.Match(dst, ec); FieldConverter.Match = m.Match(src, dst, true) – each operand and the case rule passed on unmodified to the component of the same role")
	type spec struct {
		typ    string
		fields map[string]int // matcher field → index of the parameter it must receive
	}
	for _, sp := range []spec{
		{"NameMatcher", map[string]int{"option.NameMatcher.src": 1, "option.NameMatcher.dst": 2}},
		{"LiteralSetter", map[string]int{"option.LiteralSetter.dst": 1}},
	} {
		fn := c.MustMethod(rule, "/pkg/option", sp.typ, "Match")
		if fn == nil {
			continue
		}
		ec := fn.Params[len(fn.Params)-1]
		seen := map[string]bool{}
		for _, s := range c.CallsIn(fn, fnIdentMatch, false) {
			recv := c.O.Of(s.Args()[0])
			want, known := sp.fields[recv.Name]
			if recv.Kind != "field" || !known {
				r.Check(rule, FnKey(fn)+":receiver", c.Pos(s.Pos()), false, "unexpected matcher component "+recv.String())
				continue
			}
			seen[recv.Name] = true
			ok := s.Args()[1] == ssa.Value(fn.Params[want]) && s.Args()[2] == ssa.Value(ec)
			r.Check(rule, FnKey(fn)+":"+recv.Name, c.Pos(s.Pos()), ok, "component "+recv.Name+" must be asked with parameter "+fn.Params[want].Name()+" and the unmodified case rule, got ("+c.O.Of(s.Args()[1]).String()+", "+c.O.Of(s.Args()[2]).String()+")")
		}
		for f := range sp.fields {
			r.Check(rule, FnKey(fn)+":asks:"+f, c.Pos(fn.Pos()), seen[f], "component "+f+" is never consulted")
		}
		// result true ⇒ every component matched
		tr := c.Reach(fn).RetCond(0, true)
		for f := range sp.fields {
			ff := f
			r.Check(rule, FnKey(fn)+":true⇒"+ff, c.Pos(fn.Pos()), len(tr) > 0 && tr.Implies(c.M(true, func(t *core.Term) bool {
				return t.IsCallTo(fnIdentMatch) && t.Args[0].IsField(ff)
			})), "Match can answer true without component "+ff+" having matched; true-condition: "+tr.Describe(c.O))
		}
	}
}

// indexAccessor describes a method that indexes a slice field of its receiver with one of its parameters and nothing
// else (m.paths[at]): the bound obligation moves to its call sites.
type indexAccessor struct {
	fn    *ssa.Function
	param int    // index of the index parameter in fn.Params
	field string // the receiver field indexed
}

// varIndexRule: s[i] with a variable index is dominated by i < len(s) on the same slice.
func (c *Ctx) varIndexRule(rule string) {
	r := c.R
	r.Rule(rule, "variable index s[i] into a slice (also through int(i) conversions): dominated by i < len(s) of that very slice (loop bound or explicit test, also via a tested equality len(t) == len(s)); s[len(s)-k] by len(s) ≥ k; an index into make([]T, len(x)) by the bound on x; an accessor that indexes a receiver field with its parameter (IdentMatcher.ExprAt/NameAt/ForGetter) hands the obligation to every call site (index < PathLen(), or index 0 of a field only ever assigned strings.Split results); the per-argument variables of the assignment builder are made with the length of the argument list given to build")
	n := 0
	strip := func(t *core.Term) *core.Term {
		for t.Kind == "convert" && len(t.Args) == 1 {
			t = t.Args[0]
		}
		return t
	}
	// below(idx, isLen) matches literals that establish idx < L for a term L accepted by isLen
	below := func(idxS string, isLen func(*core.Term) bool) core.LitMatcher {
		return func(l core.Lit) bool {
			t, pos := c.Canon(l)
			if t.Kind != "binop" || len(t.Args) != 2 {
				return false
			}
			a, bb := t.Args[0], t.Args[1]
			switch t.Name {
			case "<":
				return pos && strip(a).String() == idxS && isLen(strip(bb))
			case "<=":
				return !pos && isLen(strip(a)) && strip(bb).String() == idxS
			case ">":
				return pos && isLen(strip(a)) && strip(bb).String() == idxS
			case ">=":
				return !pos && strip(a).String() == idxS && isLen(strip(bb))
			}
			return false
		}
	}
	var accessors []indexAccessor
	for _, fn := range c.P.Funcs() {
		perFn := 0
		for _, b := range fn.Blocks {
			for _, in := range b.Instrs {
				ia, ok := in.(*ssa.IndexAddr)
				if !ok {
					continue
				}
				if _, isSlice := ia.X.Type().Underlying().(*types.Slice); !isSlice {
					continue
				}
				it := c.O.Of(ia.Index)
				if _, isK := constInt(it); isK {
					continue
				}
				n++
				perFn++
				base := c.O.Of(ia.X)
				idx := strip(it)
				idxS := idx.String()
				isLenOfBase := func(t *core.Term) bool {
					return t.IsCallTo("builtin:len") && (t.Args[0].V == ia.X || t.Args[0].String() == base.String())
				}
				d := c.ReachOf(ia)
				okB := d.Implies(below(idxS, isLenOfBase))
				why := ""
				if !okB {
					// i < len(t) ∧ len(t) == len(s), per conjunct
					okB = len(d) > 0
					for _, cj := range d {
						good := false
						for _, l1 := range cj {
							if below(idxS, isLenOfBase)(l1) {
								good = true
								break
							}
							var other *core.Term
							if below(idxS, func(t *core.Term) bool {
								if t.IsCallTo("builtin:len") {
									other = t
									return true
								}
								return false
							})(l1) && other != nil {
								for _, l2 := range cj {
									t2, pos2 := c.Canon(l2)
									if pos2 && t2.Kind == "binop" && t2.Name == "==" && len(t2.Args) == 2 {
										x, y := strip(t2.Args[0]), strip(t2.Args[1])
										if (x.String() == other.String() && isLenOfBase(y)) || (y.String() == other.String() && isLenOfBase(x)) {
											good = true
										}
									}
								}
							}
							if good {
								break
							}
						}
						if !good {
							okB = false
							break
						}
					}
				}
				if !okB && idx.Kind == "binop" && idx.Name == "-" && len(idx.Args) == 2 && isLenOfBase(strip(idx.Args[0])) {
					// s[len(s)-k]: needs len(s) ≥ k
					if k, isK := constInt(idx.Args[1]); isK && k >= 1 {
						okB = d.Implies(c.atLeast(isLenOfBase, k))
					}
				}
				if !okB && base.Kind == "make" && len(base.Args) >= 1 {
					// s := make([]T, len(x)) … for i := range x { s[i] = … }
					ln := strip(base.Args[0]).String()
					okB = d.Implies(below(idxS, func(t *core.Term) bool { return t.String() == ln }))
				}
				if !okB && idx.Kind == "param" && base.Kind == "field" && len(base.Args) == 1 && base.Args[0].Kind == "param" && len(fn.Blocks) == 1 {
					// accessor: the obligation is checked at the call sites below
					for pi, p := range fn.Params {
						if "param:"+p.Name() == idxS {
							accessors = append(accessors, indexAccessor{fn: fn, param: pi, field: base.Name})
							okB = true
							why = "accessor"
						}
					}
				}
				if !okB && base.IsField("builder.assignmentBuilder.additionalArgVars") {
					okB = c.argVarsInvariant(fn, idxS, below)
				}
				_ = why
				if okB && !c.nonNegative(idx, d) {
					r.Check(rule, sprintf("%s:index%d:non-negative", FnKey(fn), perFn), c.InstrPos(ia), false,
						"s[i] with variable index "+it.String()+" is not known to be ≥ 0 (no loop counter, no dominating i < 0 test); reach: "+d.Describe(c.O))
				}
				r.Check(rule, sprintf("%s:index%d", FnKey(fn), perFn), c.InstrPos(ia), okB,
					"s[i] with variable index "+it.String()+" is not dominated by i < len(s) on "+base.String()+" (an out-of-range value panics); reach: "+d.Describe(c.O))
			}
		}
	}
	r.Floor(rule, "variable slice indexes", n, 5)
	// call sites of index accessors
	na := 0
	for _, acc := range accessors {
		// the length method of the same receiver type: returns len(field)
		lenMethods := map[string]bool{}
		for _, fn := range c.P.Funcs() {
			if fn.Signature.Recv() == nil || acc.fn.Signature.Recv() == nil || !types.Identical(fn.Signature.Recv().Type(), acc.fn.Signature.Recv().Type()) {
				continue
			}
			rets := core.Returns(fn)
			if len(rets) == 1 && len(rets[0].Results) == 1 {
				if t := c.O.Of(rets[0].Results[0]); t.IsCallTo("builtin:len") && t.Args[0].Kind == "field" &&
					(t.Args[0].Name == acc.field || c.sameLenFields(t.Args[0].Name, acc.field)) {
					lenMethods[fn.String()] = true
				}
			}
		}
		sites, _ := c.callersOf(acc.fn)
		perFn := map[*ssa.Function]int{}
		for _, s := range sites {
			na++
			perFn[s.Fn]++
			args := s.Instr.Common().Args
			recv := c.O.Of(args[0]).String()
			it := strip(c.O.Of(args[acc.param]))
			isLen := func(t *core.Term) bool {
				if t.Kind == "call" && lenMethods[t.Name] && len(t.Args) == 1 && t.Args[0].String() == recv {
					return true
				}
				return t.IsCallTo("builtin:len") && t.Args[0].IsField(acc.field) && t.Args[0].Args[0].String() == recv
			}
			d := c.ReachOf(s.Instr)
			okB := false
			if k, isK := constInt(it); isK {
				okB = (k == 0 && (c.fieldOnlySplit(acc.field) || c.parallelToSplit(acc.field))) || d.Implies(c.atLeast(isLen, k+1))
			} else {
				okB = d.Implies(below(it.String(), isLen))
			}
			if !okB && s.Fn.Signature.Recv() != nil && it.Kind == "param" && types.Identical(s.Fn.Signature.Recv().Type(), acc.fn.Signature.Recv().Type()) && len(s.Fn.Blocks) == 1 {
				okB = false // an accessor built on an accessor is not followed further
			}
			r.Check(rule, sprintf("%s:call%d:%s", FnKey(s.Fn), perFn[s.Fn], acc.fn.Name()), c.Pos(s.Pos()), okB,
				acc.fn.Name()+"("+it.String()+") indexes "+acc.field+" without a dominating bound on the path length (index < PathLen()); reach: "+d.Describe(c.O))
		}
	}
	if len(accessors) > 0 {
		r.Floor(rule, "call sites of index accessors", na, 1)
	}
}

// nonNegative: the index term cannot be negative – a loop counter that starts at a constant ≥ 0 and only grows, a
// length, a parameter (checked at the callers of accessors), len(s)-k under len(s) ≥ k (checked by the caller of this
// function) – or the reaching condition excludes idx < 0.
func (c *Ctx) nonNegative(idx *core.Term, d core.DNF) bool {
	var structural func(t *core.Term, depth int) bool
	structural = func(t *core.Term, depth int) bool {
		if t == nil || depth > 6 {
			return false
		}
		switch t.Kind {
		case "const":
			k, isK := constInt(t)
			return isK && k >= 0
		case "param":
			return true
		case "opaque":
			return strings.HasPrefix(t.Name, "cycle:")
		case "convert":
			return len(t.Args) == 1 && structural(t.Args[0], depth+1)
		case "call":
			return t.IsCallTo("builtin:len") || t.IsCallTo("builtin:cap")
		case "phi":
			if strings.HasPrefix(t.Name, "rangeindex") {
				return true // -1 then +1 per iteration; used only as rangeindex+1
			}
			for _, a := range t.Args {
				if !structural(a, depth+1) {
					return false
				}
			}
			return len(t.Args) > 0
		case "binop":
			if len(t.Args) != 2 {
				return false
			}
			switch t.Name {
			case "+":
				if t.Args[0].Kind == "phi" && strings.HasPrefix(t.Args[0].Name, "rangeindex") && t.Args[1].Is("const", "1") {
					return true
				}
				return structural(t.Args[0], depth+1) && structural(t.Args[1], depth+1)
			case "-":
				return t.Args[0].IsCallTo("builtin:len") // len(s)-k: the bound len(s) ≥ k is required by the index rule itself
			case "*", "/", "%":
				return structural(t.Args[0], depth+1) && structural(t.Args[1], depth+1)
			}
		}
		return false
	}
	if structural(idx, 0) {
		return true
	}
	s := idx.String()
	strip := func(t *core.Term) *core.Term {
		for t.Kind == "convert" && len(t.Args) == 1 {
			t = t.Args[0]
		}
		return t
	}
	return d.Implies(func(l core.Lit) bool {
		t, pos := c.Canon(l)
		if t.Kind != "binop" || len(t.Args) != 2 {
			return false
		}
		a, b := strip(t.Args[0]), strip(t.Args[1])
		switch t.Name {
		case "<": // i < 0 false | -1 < i true
			return (!pos && a.String() == s && b.Is("const", "0")) || (pos && a.Is("const", "-1") && b.String() == s)
		case "<=": // 0 <= i true
			return pos && a.Is("const", "0") && b.String() == s
		case ">=": // i >= 0 true
			return pos && a.String() == s && b.Is("const", "0")
		case ">": // 0 > i false
			return !pos && a.Is("const", "0") && b.String() == s
		}
		return false
	})
}

// fieldStores lists, per base object, the values stored into the struct field named name (composite literals and
// plain assignments alike).
func (c *Ctx) fieldStores(name string) map[ssa.Value]ssa.Value {
	out := map[ssa.Value]ssa.Value{}
	for _, fn := range c.P.Funcs() {
		for _, b := range fn.Blocks {
			for _, in := range b.Instrs {
				st, ok := in.(*ssa.Store)
				if !ok {
					continue
				}
				fa, ok := st.Addr.(*ssa.FieldAddr)
				if !ok || core.FieldName(fa.X.Type(), fa.Field) != name {
					continue
				}
				if _, dup := out[fa.X]; dup {
					out[nil] = st.Val // a base written twice: not a plain constructor
				}
				out[fa.X] = st.Val
			}
		}
	}
	return out
}

// sameLenFields: field b is only ever set, next to field a in the same object, to make([]T, len(<the value given to a>))
// (parallel slices built by the constructor): len(b) == len(a) in every object.
func (c *Ctx) sameLenFields(a, b string) bool {
	sa, sb := c.fieldStores(a), c.fieldStores(b)
	if len(sb) == 0 || sb[nil] != nil || sa[nil] != nil {
		return false
	}
	for base, vb := range sb {
		va, ok := sa[base]
		if !ok {
			return false
		}
		tb := c.O.Of(vb)
		if tb.Kind != "make" || len(tb.Args) < 1 || !tb.Args[0].IsCallTo("builtin:len") || tb.Args[0].Args[0].String() != c.O.Of(va).String() {
			return false
		}
	}
	return true
}

// parallelToSplit: the field is a parallel slice (sameLenFields) of a field that only ever holds strings.Split results.
func (c *Ctx) parallelToSplit(field string) bool {
	i := strings.LastIndex(field, ".")
	if i < 0 {
		return false
	}
	for _, fn := range c.P.Funcs() {
		for _, b := range fn.Blocks {
			for _, in := range b.Instrs {
				if fa, ok := in.(*ssa.FieldAddr); ok {
					other := core.FieldName(fa.X.Type(), fa.Field)
					if other != field && strings.HasPrefix(other, field[:i+1]) && c.fieldOnlySplit(other) && c.sameLenFields(other, field) {
						return true
					}
				}
			}
		}
	}
	return false
}

// callersOf lists the static call sites of fn in module code.
func (c *Ctx) callersOf(fn *ssa.Function) ([]Site, bool) {
	c.UniqueCaller(fn) // builds the index
	return c.callers[fn], !c.valueUse[fn]
}

// argVarsInvariant: assignmentBuilder.additionalArgVars has one entry per additional argument. Checked where it is
// established: the field is written only by the constructor from its parameter, and every build call on a builder gets,
// as argument list, the slice whose length the constructor's variable slice was made with.
func (c *Ctx) argVarsInvariant(fn *ssa.Function, idxS string, below func(string, func(*core.Term) bool) core.LitMatcher) bool {
	nab := pBld + "newAssignmentBuilder"
	build := "(*" + pBld + "assignmentBuilder).build"
	if fn.String() != build {
		return false
	}
	// index bound in build: i < len(<the argument-list parameter>)
	var listParam string
	for _, p := range fn.Params {
		if sl, ok := p.Type().Underlying().(*types.Slice); ok && strings.HasSuffix(sl.Elem().String(), "types.Var") {
			listParam = "param:" + p.Name()
		}
	}
	if listParam == "" {
		return false
	}
	for _, b := range fn.Blocks {
		for _, in := range b.Instrs {
			ia, ok := in.(*ssa.IndexAddr)
			if !ok || !c.O.Of(ia.X).IsField("builder.assignmentBuilder.additionalArgVars") {
				continue
			}
			if !c.ReachOf(ia).Implies(below(idxS, func(t *core.Term) bool { return t.IsCallTo("builtin:len") && t.Args[0].String() == listParam })) {
				return false
			}
		}
	}
	// the field is stored only in the constructor, from a parameter
	var ctorParam int = -1
	for _, f := range c.P.Funcs() {
		for _, b := range f.Blocks {
			for _, in := range b.Instrs {
				st, ok := in.(*ssa.Store)
				if !ok {
					continue
				}
				fa, ok := st.Addr.(*ssa.FieldAddr)
				if !ok || core.FieldName(fa.X.Type(), fa.Field) != "builder.assignmentBuilder.additionalArgVars" {
					continue
				}
				if f.String() != nab {
					return false
				}
				p, isP := st.Val.(*ssa.Parameter)
				if !isP {
					return false
				}
				for i, q := range f.Params {
					if q == p {
						ctorParam = i
					}
				}
			}
		}
	}
	if ctorParam < 0 {
		return false
	}
	sites := c.CallsTo(build)
	if len(sites) == 0 {
		return false
	}
	for _, s := range sites {
		args := s.Instr.Common().Args
		recv := c.O.Of(args[0])
		if !recv.IsCallTo(nab) || ctorParam >= len(recv.Args) {
			return false
		}
		// a helper split off from the caller receives the two slices through its parameters: read them at the caller
		vars := c.Up(s.Fn, recv.Args[ctorParam])
		if vars.Kind != "make" && vars.V != nil {
			if u, isU := vars.V.(*ssa.UnOp); isU {
				vars = c.O.Of(u)
			}
		}
		var list *core.Term
		for i, p := range fn.Params {
			if "param:"+p.Name() == listParam {
				list = c.Up(s.Fn, c.O.Of(args[i]))
			}
		}
		if list == nil || vars.Kind != "make" || len(vars.Args) < 1 || !vars.Args[0].IsCallTo("builtin:len") || vars.Args[0].Args[0].String() != list.String() {
			return false
		}
	}
	return true
}

// typePredicateRule: the go/types classifiers everything else is phrased in judge what their names say.
func (c *Ctx) typePredicateRule(rule string) {
	r := c.R
	r.Rule(rule, "type classifiers of pkg/util: IsStructType/IsSliceType ⇔ comma-ok assertion of t.Underlying() (the parameter's own underlying type: no pointer dereference) to *types.Struct / *types.Slice; IsPtr/IsNamedType/IsBasicType ⇔ comma-ok assertion of t itself to *types.Pointer / *types.Named / *types.Basic; DerefPtr(t) = Elem() of that pointer when t is a pointer, else t; IsErrorType(t) ⇔ t.String() == \"error\"; PkgOf: Obj().Pkg() of a named type, through pointers, else nil; IsInvalidType ⇔ basic type of kind Invalid; ImportNames.LookupName = table[path] with its presence flag")
	type spec struct {
		name, asserted string
		underlying     bool
	}
	for _, sp := range []spec{
		{"IsStructType", "*types.Struct", true}, {"IsSliceType", "*types.Slice", true},
		{"IsPtr", "*types.Pointer", false}, {"IsNamedType", "*types.Named", false}, {"IsBasicType", "*types.Basic", false},
	} {
		fn := c.MustFunc(rule, "/pkg/util", sp.name)
		if fn == nil {
			continue
		}
		p0 := "param:" + fn.Params[0].Name()
		verdict := func(t *core.Term) bool {
			if t.Kind != "extract" || t.Name != "1" || t.Args[0].Kind != "typeassert,ok" || t.Args[0].Name != sp.asserted {
				return false
			}
			x := t.Args[0].Args[0]
			if sp.underlying {
				return x.Kind == "invoke" && x.Name == "(types.Type).Underlying" && x.Args[0].String() == p0
			}
			return x.String() == p0
		}
		rc := c.Reach(fn)
		tr, fl := rc.RetCond(0, true), rc.RetCond(0, false)
		what := "t"
		if sp.underlying {
			what = "t.Underlying()"
		}
		r.Check(rule, FnKey(fn)+":true", c.Pos(fn.Pos()), len(tr) > 0 && tr.Implies(c.M(true, verdict)), sp.name+" answers true without "+what+".("+sp.asserted+") succeeding on its own parameter; true-condition: "+tr.Describe(c.O))
		r.Check(rule, FnKey(fn)+":false", c.Pos(fn.Pos()), len(fl) > 0 && fl.Implies(c.M(false, verdict)), sp.name+" answers false although "+what+".("+sp.asserted+") succeeds; false-condition: "+fl.Describe(c.O))
	}
	if fn := c.MustFunc(rule, "/pkg/util", "DerefPtr"); fn != nil {
		p0 := "param:" + fn.Params[0].Name()
		isPtr := func(t *core.Term) bool {
			return t.Kind == "extract" && t.Name == "1" && t.Args[0].Kind == "typeassert,ok" && t.Args[0].Name == "*types.Pointer" && t.Args[0].Args[0].String() == p0
		}
		okAll := true
		n := 0
		for _, ret := range core.Returns(fn) {
			n++
			t := c.O.Of(ret.Results[0])
			d := c.ReachOf(ret)
			switch {
			case t.String() == p0:
				okAll = okAll && d.Implies(c.M(false, isPtr))
			case t.IsCallTo("(*go/types.Pointer).Elem") && t.Args[0].Kind == "extract" && t.Args[0].Name == "0" && t.Args[0].Args[0].Kind == "typeassert,ok" && t.Args[0].Args[0].Args[0].String() == p0:
				okAll = okAll && d.Implies(c.M(true, isPtr))
			default:
				okAll = false
			}
		}
		r.Check(rule, FnKey(fn)+":one-level", c.Pos(fn.Pos()), okAll && n >= 2, "DerefPtr must return the pointer's element type for a pointer and the type itself otherwise (exactly one level)")
	}
	if fn := c.MustFunc(rule, "/pkg/util", "PkgOf"); fn != nil {
		p0 := "param:" + fn.Params[0].Name()
		okAll, nNamed, nPtr := true, 0, 0
		isA := func(ty string) core.LitMatcher {
			return c.M(true, func(t *core.Term) bool {
				return t.Kind == "extract" && t.Name == "1" && t.Args[0].Kind == "typeassert,ok" && t.Args[0].Name == ty && t.Args[0].Args[0].String() == p0
			})
		}
		for _, ret := range core.Returns(fn) {
			t := c.O.Of(ret.Results[0])
			d := c.ReachOf(ret)
			switch {
			case t.Is("const", "nil"):
			case t.Kind == "call" && strings.HasSuffix(t.Name, ").Pkg") && t.Contains(func(s *core.Term) bool {
				return s.IsCallTo("(*go/types.Named).Obj") && s.Contains(func(q *core.Term) bool { return q.String() == p0 })
			}):
				nNamed++
				// the asserted value is the parameter itself, or the parameter with pointer levels stripped in a loop
				// (φ of the parameter and Elem() of a *types.Pointer assertion)
				subj := t.Find(func(s *core.Term) bool { return s.Kind == "typeassert,ok" && s.Name == "*types.Named" })
				switch {
				case subj != nil && subj.Args[0].String() == p0:
					okAll = okAll && d.Implies(isA("*types.Named"))
				case subj != nil && subj.Args[0].Kind == "phi":
					stripped := true
					for _, a := range subj.Args[0].Args {
						if a.String() == p0 || strings.HasPrefix(a.String(), "opaque:cycle") {
							continue
						}
						if a.IsCallTo("(*go/types.Pointer).Elem") && a.Contains(func(q *core.Term) bool { return q.Kind == "typeassert,ok" && q.Name == "*types.Pointer" }) {
							nPtr++
							continue
						}
						stripped = false
					}
					okAll = okAll && stripped
				default:
					okAll = false
				}
			case t.IsCallTo(pUtil+"PkgOf") && t.Args[0].IsCallTo("(*go/types.Pointer).Elem") && t.Args[0].Contains(func(q *core.Term) bool { return q.String() == p0 }):
				nPtr++
				okAll = okAll && d.Implies(isA("*types.Pointer"))
			default:
				okAll = false
			}
		}
		r.Check(rule, FnKey(fn)+":package-of", c.Pos(fn.Pos()), okAll && nNamed >= 1 && nPtr >= 1, "PkgOf must answer Obj().Pkg() for a named type, the package of the element for a pointer, and nil otherwise")
	}
	if fn := c.MustFunc(rule, "/pkg/util", "IsInvalidType"); fn != nil {
		p0 := "param:" + fn.Params[0].Name()
		tr := c.Reach(fn).RetCond(0, true)
		basic := c.M(true, func(t *core.Term) bool {
			return t.Kind == "extract" && t.Name == "1" && t.Args[0].Kind == "typeassert,ok" && t.Args[0].Name == "*types.Basic" && t.Contains(func(q *core.Term) bool { return q.String() == p0 })
		})
		invalid := c.M(true, eqConst(func(t *core.Term) bool { return t.IsCallTo("(*go/types.Basic).Kind") }, "0"))
		r.Check(rule, FnKey(fn)+":invalid", c.Pos(fn.Pos()), len(tr) > 0 && tr.Implies(basic) && tr.Implies(invalid), "IsInvalidType must answer true only for a basic type of kind types.Invalid; true-condition: "+tr.Describe(c.O))
	}
	if fn := c.P.LookupMethod("/pkg/util", "ImportNames", "LookupName"); fn != nil {
		okL := false
		for _, ret := range core.Returns(fn) {
			if len(ret.Results) == 2 {
				a, b := c.O.Of(ret.Results[0]), c.O.Of(ret.Results[1])
				okL = a.Kind == "extract" && a.Name == "0" && b.Kind == "extract" && b.Name == "1" && a.Args[0].Kind == "lookup,ok" && a.Args[0].V == b.Args[0].V &&
					a.Args[0].Args[0].Kind == "param" && a.Args[0].Args[1].Kind == "param"
			}
		}
		r.Check(rule, FnKey(fn)+":lookup", c.Pos(fn.Pos()), okL, "LookupName must answer the table entry of the given path with its presence flag")
	}
	if fn := c.MustFunc(rule, "/pkg/util", "StringType"); fn != nil {
		okS := false
		for _, ret := range core.Returns(fn) {
			t := c.O.Of(ret.Results[0])
			// types.Universe.Lookup("string").Type()  or  types.Typ[types.String]
			if t.Kind == "invoke" && t.Name == "(types.Object).Type" && t.Args[0].IsCallTo("(*go/types.Scope).Lookup") && t.Args[0].Args[0].Is("global", "types.Universe") && t.Args[0].Args[1].Is("const", `"string"`) {
				okS = true
			}
			if t.Kind == "index" && t.Args[0].Is("global", "types.Typ") && t.Args[1].Is("const", "17") {
				okS = true
			}
		}
		r.Check(rule, FnKey(fn)+":string", c.Pos(fn.Pos()), okS, "StringType must be the predeclared type string (an untyped string is assignable to every defined string type: the String() rung would then apply where only a conversion does)")
	}
	if fn := c.MustFunc(rule, "/pkg/util", "IsErrorType"); fn != nil {
		p0 := "param:" + fn.Params[0].Name()
		okE := false
		for _, ret := range core.Returns(fn) {
			t := c.O.Of(ret.Results[0])
			if eqConst(func(x *core.Term) bool {
				return x.Kind == "invoke" && x.Name == "(types.Type).String" && x.Args[0].String() == p0
			}, `"error"`)(t) {
				okE = true
			}
			if t.IsCallTo("go/types.Identical") {
				okE = true
			}
		}
		r.Check(rule, FnKey(fn)+":error", c.Pos(fn.Pos()), okE, "IsErrorType must compare the type with the predeclared error type")
	}
}

// getterShapeRule: ParseGetterReturnTypes accepts (T) and (T, error) only.
func (c *Ctx) getterShapeRule(rule string) {
	r := c.R
	r.Rule(rule, "getter return shape: util.ParseGetterReturnTypes answers ok only for 1 or 2 results, with 2 results only when IsErrorType(Results().At(1).Type()), and answers retError only for 2 results (StructMethodNode.ReturnsError equates two results with an error result)")
	fn := c.MustFunc(rule, "/pkg/util", "ParseGetterReturnTypes")
	if fn == nil {
		return
	}
	if fn.Signature.Results().Len() != 3 {
		r.Undecided(rule, FnKey(fn), "expected results (ret, retError, ok)")
		return
	}
	rc := c.Reach(fn)
	numRes := func(t *core.Term) bool {
		return t.IsCallTo("(*go/types.Tuple).Len") && t.Args[0].IsCallTo("(*go/types.Signature).Results")
	}
	isErr1 := func(t *core.Term) bool {
		if !t.IsCallTo(fnIsErrorType) {
			return false
		}
		a := t.Args[0]
		return a.Kind == "call" && strings.HasSuffix(a.Name, ").Type") && a.Contains(func(s *core.Term) bool {
			return s.IsCallTo("(*go/types.Tuple).At") && s.Args[1].Is("const", "1") && s.Args[0].IsCallTo("(*go/types.Signature).Results")
		})
	}
	okC := rc.RetCond(2, true)
	pos := c.Pos(fn.Pos())
	key := FnKey(fn)
	r.Check(rule, key+":ok⇒1..2", pos, len(okC) > 0 && okC.Implies(c.atLeast(numRes, 1)) && okC.Implies(c.atMost(numRes, 2)), "ok is answered for a method with no or more than two results; ok-condition: "+okC.Describe(c.O))
	r.Check(rule, key+":ok∧2⇒error", pos, okC.Implies(c.notExactly(numRes, 2), c.atMost(numRes, 1), c.M(true, isErr1)), "ok is answered for a two-result method whose second result is not error (v, ok := x.Get() would be rendered as `dst, err = x.Get()`); ok-condition: "+okC.Describe(c.O))
	// retError ⇒ two results; ok ∧ ¬retError ⇒ not two results
	reC := rc.RetCond(1, true)
	r.Check(rule, key+":retError⇒2", pos, reC.Implies(c.exactly(numRes, 2)), "retError is answered for a method that does not have exactly two results; condition: "+reC.Describe(c.O))
	okConv := true
	var bad core.DNF
	for _, ret := range core.Returns(fn) {
		joint := core.And(rc.RetCondAt(ret, 2, true), rc.RetCondAt(ret, 1, false))
		if !joint.Implies(c.notExactly(numRes, 2), c.atMost(numRes, 1)) {
			okConv = false
			bad = joint
		}
	}
	r.Check(rule, key+":ok∧¬retError⇒¬2", pos, okConv, "a two-result getter is accepted without retError (its call would be rendered in a single-value context); condition: "+bad.Describe(c.O))
}

// methodIterationRule: the getter pass offers every getter of the source type, in declaration order.
func (c *Ctx) methodIterationRule(rule string) {
	r := c.R
	r.Rule(rule, "getter iteration: util.IterateMethods hands Method(i), i = 0..NumMethods()-1, to its callback and stops early only when the callback says so; bmodel.IterateStructMethods calls cb(NewStructMethodNode(structNode, m)) exactly for the methods with CompliesGetter(m), skips the others without stopping (returns false), and stops only when cb returned true")
	c.iteratorRule(rule, "IterateMethods", "(*go/types.Named).Method", "(*go/types.Named).NumMethods")
	f2 := c.MustFunc(rule, "/pkg/builder/model", "IterateStructMethods")
	if f2 == nil {
		return
	}
	k2 := FnKey(f2)
	found := false
	for _, a := range f2.AnonFuncs {
		if len(a.Params) != 1 {
			continue
		}
		p0 := "param:" + a.Params[0].Name()
		var cbCall ssa.CallInstruction
		for _, b := range a.Blocks {
			for _, in := range b.Instrs {
				if ci, ok := in.(ssa.CallInstruction); ok && c.O.Of(ci.Common().Value).Kind == "fv" && ci.Common().StaticCallee() == nil {
					cbCall = ci
				}
			}
		}
		if cbCall == nil {
			continue
		}
		found = true
		complies := func(t *core.Term) bool { return t.IsCallTo(pUtil+"CompliesGetter") && t.Args[0].String() == p0 }
		arg := c.O.Of(cbCall.Common().Args[0])
		okArg := arg.IsCallTo(fnNewMethodNode) && arg.Args[0].Kind == "fv" && arg.Args[1].String() == p0
		r.Check(rule, k2+":node", c.Pos(cbCall.Pos()), okArg, "the callback must receive NewStructMethodNode(structNode, <the visited method>), got "+arg.String())
		d := c.ReachOf(cbCall)
		r.Check(rule, k2+":only-getters", c.Pos(cbCall.Pos()), d.Implies(c.M(true, complies)), "a method that does not comply with the getter shape is offered as a getter; reach: "+d.Describe(c.O))
		// no other filter
		extra := ""
		for _, cj := range d {
			for _, l := range cj {
				if t, _ := c.Canon(l); !complies(t) {
					extra = t.String()
				}
			}
		}
		r.Check(rule, k2+":no-other-filter", c.Pos(cbCall.Pos()), extra == "", "a further condition decides whether a getter is offered: "+extra)
		rc := c.Reach(a)
		stop := rc.RetCond(0, true)
		cbTrue := c.M(true, func(t *core.Term) bool { return t.V == cbCall.(ssa.Value) })
		r.Check(rule, k2+":stops-only-on-callback", c.Pos(a.Pos()), stop.Implies(cbTrue), "the getter pass can stop although the callback did not ask for it (later getters are never offered); stop-condition: "+stop.Describe(c.O))
		// every way of not calling cb is ¬CompliesGetter
		av := c.ReachAvoid(a, map[*ssa.BasicBlock]bool{cbCall.Block(): true})
		for i, ret := range core.Returns(a) {
			if ret.Block() == cbCall.Block() {
				continue
			}
			dd := av.At(ret.Block())
			if dd == nil {
				continue
			}
			r.Check(rule, sprintf("%s:return%d:skips-only-non-getters", k2, i+1), c.InstrPos(ret), dd.Implies(c.M(false, complies)), "a getter can be passed over without being offered; reach avoiding the callback: "+dd.Describe(c.O))
		}
	}
	r.Check(rule, k2+":callback-found", c.Pos(f2.Pos()), found, "no closure of IterateStructMethods calls the captured callback")
}

// docDetachRule: a comment-group link is set to nil only when that very group has no lines left.
func (c *Ctx) docDetachRule(rule string) {
	r := c.R
	r.Rule(rule, "detaching a doc comment: every store of nil into a *ast.CommentGroup location (n.Doc = nil, *doc = nil) is reached only under len(<the group at that same location>.List) == 0 (an emptied group left attached makes the printer/position lookup fail; a non-empty group detached loses its text)")
	n := 0
	for _, fn := range c.P.Funcs() {
		perFn := 0
		for _, b := range fn.Blocks {
			for _, in := range b.Instrs {
				st, ok := in.(*ssa.Store)
				if !ok {
					continue
				}
				k, isK := st.Val.(*ssa.Const)
				if !isK || !k.IsNil() {
					continue
				}
				pt, isPtr := st.Addr.Type().Underlying().(*types.Pointer)
				if !isPtr || pt.Elem().String() != "*go/ast.CommentGroup" {
					continue
				}
				if _, isAlloc := st.Addr.(*ssa.Alloc); isAlloc {
					continue // a local variable, not a link of the tree
				}
				n++
				perFn++
				// the term of "the group at that location": a load of the same address expression
				want := ""
				switch a := st.Addr.(type) {
				case *ssa.FieldAddr:
					want = (&core.Term{Kind: "field", Name: core.FieldName(a.X.Type(), a.Field), Args: []*core.Term{c.O.Of(a.X)}}).String()
					// loads through the same base give field:…(base) with the base described by baseOf; find one to be exact
					for _, bb := range fn.Blocks {
						for _, i2 := range bb.Instrs {
							if u, isU := i2.(*ssa.UnOp); isU {
								if fa, isFA := u.X.(*ssa.FieldAddr); isFA && fa.Field == a.Field && c.O.Of(fa.X).String() == c.O.Of(a.X).String() {
									want = c.O.Of(u).String()
								}
							}
						}
					}
				default:
					for _, bb := range fn.Blocks {
						for _, i2 := range bb.Instrs {
							if u, isU := i2.(*ssa.UnOp); isU && u.Op == token.MUL && (u.X == st.Addr || c.O.Of(u.X).String() == c.O.Of(st.Addr).String()) {
								if pt2, isP := u.X.Type().Underlying().(*types.Pointer); isP && pt2.Elem().String() == "*go/ast.CommentGroup" {
									want = c.O.Of(u).String()
								}
							}
						}
					}
				}
				d := c.ReachOf(st)
				empty := c.M(true, eqConst(func(t *core.Term) bool {
					return t.IsCallTo("builtin:len") && t.Args[0].IsField("ast.CommentGroup.List") && t.Args[0].Args[0].String() == want
				}, "0"))
				r.Check(rule, sprintf("%s:detach%d", FnKey(fn), perFn), c.InstrPos(st), want != "" && d.Implies(empty),
					"a doc link is set to nil without testing that this very group ("+want+") is empty; reach: "+d.Describe(c.O))
			}
		}
	}
	r.Floor(rule, "stores of nil into comment-group links", n, 1)
}

// patternWitnessRule: the constant line patterns accept / reject the documented witness lines. The pattern is a constant
// of the source, interpreted here in its own language (RE2) – no repository code runs.
func (c *Ctx) patternWitnessRule(rule string) {
	r := c.R
	r.Rule(rule, "line patterns (constants): reGoBuildGen accepts //go:generate lines and every spelling of a build line that mentions the convergen tag (//go:build convergen, two spaces, a tab, parentheses, X && convergen, // +build convergen, X,convergen) and rejects other constraints, `// go:generate …` prose and words that merely contain the tag; reConvergen accepts `// :convergen` (with or without spaces) and rejects `:convergence` and a marker mentioned inside a sentence; reNotation accepts `// :name args` with groups (name, args)")
	type w struct {
		line string
		want bool
	}
	table := map[string][]w{
		"parser.reGoBuildGen": {
			{"//go:build convergen", true}, {"// +build convergen", true}, {"//go:generate go run github.com/reedom/convergen@v0.7.0", true},
			{"//go:build convergen && !purego", true}, {"// +build convergen,!purego", true}, {"//go:generate convergen", true},
			{"//go:build  convergen", true}, {"//go:build\tconvergen", true}, {"//go:build (convergen)", true}, {"//go:build !ignore && convergen", true},
			{"// +build  convergen", true}, {"// +build !ignore,convergen", true},
			{"// go:generate is not involved here", false}, {"//go:build convergence", false},
			{"//go:build linux", false}, {"// +build linux", false}, {"// an ordinary comment", false}, {"// :convergen", false},
			{"// see //go:build convergen for details", false}, {"//go:generated by hand", false},
		},
		"parser.reConvergen": {
			{"// :convergen", true}, {"//:convergen", true}, {"//   :convergen", true},
			{"// :convergence", false}, {"// see :convergen", false}, {"// convergen", false}, {"// :conv", false},
		},
		"parser.reNotation": {
			{"// :skip Name", true}, {"//:map A B", true}, {"// :getter", true}, {"// plain text", false}, {"// text :skip Name", false},
		},
	}
	for _, g := range sortedKeys(table) {
		pat, ok := c.globalRegexpPattern(g)
		if !ok {
			r.Undecided(rule, g, "not a package-level regexp.MustCompile(<constant>)")
			continue
		}
		re, err := regexp.Compile(pat)
		if err != nil {
			r.Check(rule, g+":compiles", "-", false, "pattern "+strconv.Quote(pat)+" does not compile: "+err.Error())
			continue
		}
		for _, wt := range table[g] {
			got := re.MatchString(wt.line)
			verb := "reject"
			if wt.want {
				verb = "accept"
			}
			r.Check(rule, g+":"+verb+":"+wt.line, "-", got == wt.want, "pattern "+strconv.Quote(pat)+" must "+verb+" the line "+strconv.Quote(wt.line))
		}
	}
}

// lineSubjectRule: comment patterns are applied to one comment line at a time.
func (c *Ctx) lineSubjectRule(rule string) {
	r := c.R
	r.Rule(rule, "comment-line predicates: every MatchString / FindStringSubmatch in the comment helpers (util.MatchComments, util.ExtractMatchComments) and of parser.reNotation is applied to the Text of one ast.Comment of the examined group (the patterns are anchored to the line start: a joined text would only ever see the first line)")
	n := 0
	for _, s := range c.Calls(func(n string) bool {
		return n == "(*regexp.Regexp).MatchString" || n == "(*regexp.Regexp).FindStringSubmatch" || n == "(*regexp.Regexp).FindString" || n == "(*regexp.Regexp).FindStringIndex"
	}) {
		recv := c.O.Of(s.Args()[0])
		lineRe := recv.Is("global", "parser.reNotation") || recv.Is("global", "parser.reConvergen") || recv.Is("global", "parser.reGoBuildGen")
		if p := pkgOf(s.Fn); recv.Kind == "param" && p != nil && p.Path() == mod+"/pkg/util" {
			lineRe = true
		}
		if !lineRe {
			continue
		}
		n++
		subj := c.O.Of(s.Args()[1])
		ok := subj.IsField("ast.Comment.Text") && (subj.Args[0].Kind == "index" || subj.Args[0].Kind == "param" || subj.Args[0].Kind == "extract" || subj.Args[0].Kind == "next")
		r.Check(rule, sprintf("%s:%s", FnKey(s.Fn), shortCallee(s.Callee)), c.Pos(s.Pos()), ok, "a line pattern is applied to "+subj.String()+" instead of the text of a single comment line")
	}
	r.Floor(rule, "applications of comment-line patterns", n, 3)
}

// deferredResultRule: a closure may replace the error a function is returning only when there is none.
func (c *Ctx) deferredResultRule(rule string) {
	r := c.R
	r.Rule(rule, "a deferred closure (clean-up) that assigns to the error result variable of its enclosing function does so only under `that variable == nil` (otherwise the failure being returned is replaced, typically by the nil of a successful Close, and the run reports success)")
	n := 0
	for _, fn := range c.P.Funcs() {
		for _, b := range fn.Blocks {
			for _, in := range b.Instrs {
				a, ok := in.(*ssa.Alloc)
				if !ok || a.Referrers() == nil {
					continue
				}
				pt, isP := a.Type().Underlying().(*types.Pointer)
				if !isP || pt.Elem().String() != "error" {
					continue
				}
				// a result variable: one of its loads is returned
				isResult := false
				for _, rf := range *a.Referrers() {
					if u, isU := rf.(*ssa.UnOp); isU && u.Referrers() != nil {
						for _, r2 := range *u.Referrers() {
							if _, isRet := r2.(*ssa.Return); isRet {
								isResult = true
							}
						}
					}
				}
				if !isResult {
					continue
				}
				for _, rf := range *a.Referrers() {
					mc, isMC := rf.(*ssa.MakeClosure)
					if !isMC || !core.ClosureStores(mc, a) {
						continue
					}
					deferred := false
					if mc.Referrers() != nil {
						for _, r2 := range *mc.Referrers() {
							if d, isD := r2.(*ssa.Defer); isD && d.Call.Value == ssa.Value(mc) {
								deferred = true
							}
						}
					}
					if !deferred {
						continue // a callback that runs before the function reads the variable: its discipline is C05-2's matter
					}
					n++
					r.Check(rule, FnKey(mc.Fn.(*ssa.Function))+":writes:"+a.Comment, c.InstrPos(mc), c.guardedResultWrites(mc, a),
						"the closure assigns to the error result "+a.Comment+" of "+FnKey(fn)+" without testing that it is nil: an error on its way out is overwritten")
				}
			}
		}
	}
	r.Note(rule+"_closures_writing_error_results", n)
}

// namingRule: accessors return the field they are named after; constructors store a parameter into the field it is named after.
func (c *Ctx) namingRule(rule string, pkgSuffixes ...string) {
	r := c.R
	r.Rule(rule, "accessor/constructor agreement in "+strings.Join(pkgSuffixes, ", ")+": a method whose body is a single `return recv.f` and whose name equals (ignoring case) a field of its receiver returns that field; a value stored into field f of a composite literal directly from a parameter whose name equals (ignoring case) a field of the same struct goes into that field, also when wrapped by a New… constructor (Src()/Dst(), lhs/rhs, name/pkg are never cross-wired)")
	n := 0
	for _, fn := range c.P.Funcs() {
		p := pkgOf(fn)
		if p == nil || fn.Synthetic != "" {
			continue
		}
		in := false
		for _, s := range pkgSuffixes {
			if p.Path() == mod+s {
				in = true
			}
		}
		if !in {
			continue
		}
		// accessors
		if recv := fn.Signature.Recv(); recv != nil && len(fn.Blocks) == 1 && fn.Signature.Results().Len() == 1 && len(fn.Params) == 1 {
			if st := structOf(recv.Type()); st != nil {
				rets := core.Returns(fn)
				if len(rets) == 1 {
					t := c.O.Of(rets[0].Results[0])
					if t.Kind == "field" && len(t.Args) == 1 && (t.Args[0].Kind == "param" || t.Args[0].Kind == "deref" || t.Args[0].Kind == "field") {
						// the struct the returned field belongs to (the receiver itself or an inner struct field of it)
						if t.Args[0].Kind == "field" && t.Args[0].Type != nil {
							if inner := structOf(t.Args[0].Type); inner != nil {
								st = inner
							}
						}
						want := ""
						for i := 0; i < st.NumFields(); i++ {
							if strings.EqualFold(st.Field(i).Name(), fn.Name()) {
								want = st.Field(i).Name()
							}
						}
						if want != "" {
							n++
							got := t.Name[strings.LastIndex(t.Name, ".")+1:]
							r.Check(rule, FnKey(fn)+":returns-"+want, c.Pos(fn.Pos()), got == want, "accessor "+fn.Name()+" returns field "+got+" instead of "+want)
						}
					}
				}
			}
		}
		// literals: parameter → field
		for _, b := range fn.Blocks {
			for _, ins := range b.Instrs {
				st, ok := ins.(*ssa.Store)
				if !ok {
					continue
				}
				fa, ok := st.Addr.(*ssa.FieldAddr)
				if !ok {
					continue
				}
				// the value is a parameter, or is computed from exactly one parameter (src: NewIdentMatcher(src))
				var par *ssa.Parameter
				if pv, isP := st.Val.(*ssa.Parameter); isP {
					par = pv
				} else {
					seen := map[string]bool{}
					if vt := c.O.Of(st.Val); vt.Kind == "call" && strings.HasPrefix(vt.Name[strings.LastIndex(vt.Name, ".")+1:], "New") {
						for _, a := range vt.Args { // a wrapping constructor applied directly to the parameter
							if a.Kind == "param" {
								seen[a.Name] = true
							}
						}
					}
					if len(seen) == 1 {
						for _, q := range fn.Params {
							if seen[q.Name()] {
								par = q
							}
						}
					}
				}
				if par == nil {
					continue
				}
				sty := structOf(fa.X.Type())
				if sty == nil {
					continue
				}
				want := ""
				for i := 0; i < sty.NumFields(); i++ {
					if strings.EqualFold(sty.Field(i).Name(), par.Name()) {
						want = sty.Field(i).Name()
					}
				}
				if want == "" {
					continue
				}
				n++
				got := sty.Field(fa.Field).Name()
				r.Check(rule, FnKey(fn)+":"+par.Name()+"→"+want, c.InstrPos(st), got == want, "parameter "+par.Name()+" is stored into field "+got+" although the struct has a field "+want)
			}
		}
	}
	r.Floor(rule, "accessors and parameter-to-field stores examined", n, 1)
}

func structOf(t types.Type) *types.Struct {
	if p, ok := t.Underlying().(*types.Pointer); ok {
		t = p.Elem()
	}
	st, _ := t.Underlying().(*types.Struct)
	return st
}

// nodeAccessorRule: the implementers of bmodel.Node agree on what each accessor denotes.
func (c *Ctx) nodeAccessorRule(rule string) {
	r := c.R
	r.Rule(rule, "Node accessors: a wrapper node (converter, typecast, stringer) answers ObjName/Parent/ObjNullable/MatcherExpr/NullCheckExpr by asking the same accessor of its inner node; ExprType is the node's own type (field typ; field.Type(); Results().At(0).Type() of the method; the converter's RetType(); the conversion target; string for a String() call); ReturnsError is false except for a method node (two results) and a converter node (the converter's RetError()); ObjNullable is IsPtr of the node's own type")
	bm := c.P.Pkg("/pkg/builder/model")
	if bm == nil {
		r.Undecided(rule, "anchor", "builder/model not loaded")
		return
	}
	obj := bm.Types.Scope().Lookup("Node")
	if obj == nil {
		r.Undecided(rule, "anchor", "Node interface not found")
		return
	}
	iface := obj.Type().Underlying().(*types.Interface)
	n := 0
	for _, impl := range c.P.Implementers(iface) {
		tn := impl.Obj().Name()
		for i := 0; i < iface.NumMethods(); i++ {
			mname := iface.Method(i).Name()
			fn := c.P.LookupMethod("/pkg/builder/model", tn, mname)
			if fn == nil {
				continue
			}
			rets := core.Returns(fn)
			if len(rets) != 1 || len(rets[0].Results) != 1 {
				continue // rendering methods with branches are compared as templates (C02-4)
			}
			t := c.O.Of(rets[0].Results[0])
			key := "(" + tn + ")." + mname
			pos := c.Pos(fn.Pos())
			// delegation to an inner node: same accessor
			if t.Kind == "invoke" && strings.HasPrefix(t.Name, "(model.Node).") && len(t.Args) == 1 && t.Args[0].Kind == "field" {
				callee := strings.TrimPrefix(t.Name, "(model.Node).")
				exception := tn == "ConverterNode" && mname == "Parent" // documented: the converter's argument decides the parent
				_ = exception
				n++
				r.Check(rule, key+":delegates", pos, callee == mname, tn+"."+mname+" answers with the inner node's "+callee+"()")
				continue
			}
			isRecvField := func(x *core.Term, name string) bool {
				return x.Kind == "field" && strings.HasSuffix(x.Name, "."+name) && len(x.Args) == 1 && (x.Args[0].Kind == "param" || x.Args[0].Kind == "deref")
			}
			typeOfField := func(x *core.Term, fld string) bool { // n.<fld>.Type()
				return x.Kind == "call" && strings.HasSuffix(x.Name, ").Type") && len(x.Args) == 1 && x.Args[0].Contains(func(s *core.Term) bool { return isRecvField(s, fld) })
			}
			result0 := func(x *core.Term) bool { // n.method.Type().(*types.Signature).Results().At(0).Type()
				return x.Kind == "call" && strings.HasSuffix(x.Name, ").Type") && x.Contains(func(s *core.Term) bool {
					return s.IsCallTo("(*go/types.Tuple).At") && s.Args[1].Is("const", "0") && s.Args[0].IsCallTo("(*go/types.Signature).Results") && s.Contains(func(q *core.Term) bool { return isRecvField(q, "method") })
				})
			}
			var ok bool
			var want string
			switch mname {
			case "ExprType":
				switch tn {
				case "RootNode", "ScalarNode", "TypecastEntry":
					ok, want = isRecvField(t, "typ"), "the node's typ field"
				case "StructFieldNode":
					ok, want = typeOfField(t, "field"), "field.Type()"
				case "StructMethodNode":
					ok, want = result0(t), "Results().At(0).Type() of the method"
				case "ConverterNode":
					ok, want = t.IsCallTo("(*"+pOpt+"FieldConverter).RetType") && isRecvField(t.Args[0], "converter"), "converter.RetType()"
				case "StringerEntry":
					ok, want = t.Contains(func(s *core.Term) bool {
						return s.IsCallTo("(*go/types.Scope).Lookup") && s.Args[1].Is("const", `"string"`)
					}) || t.IsCallTo(fnStringType), "the predeclared string type"
				default:
					continue
				}
			case "ReturnsError":
				switch tn {
				case "StructMethodNode":
					ok = eqConst(func(x *core.Term) bool {
						return x.IsCallTo("(*go/types.Tuple).Len") && x.Args[0].IsCallTo("(*go/types.Signature).Results") && x.Contains(func(q *core.Term) bool { return isRecvField(q, "method") })
					}, "2")(t)
					want = "Results().Len() == 2 of the method"
				case "ConverterNode":
					ok, want = t.IsCallTo("(*"+pOpt+"FieldConverter).RetError") && isRecvField(t.Args[0], "converter"), "converter.RetError()"
				default:
					ok, want = t.Is("const", "false"), "false"
				}
			case "ObjNullable":
				if !t.IsCallTo(pUtil + "IsPtr") {
					ok, want = false, "util.IsPtr(<own type>)"
					break
				}
				a := t.Args[0]
				switch tn {
				case "RootNode", "ScalarNode":
					ok, want = isRecvField(a, "typ"), "IsPtr(typ)"
				case "StructFieldNode":
					ok, want = typeOfField(a, "field"), "IsPtr(field.Type())"
				case "StructMethodNode":
					ok, want = result0(a) || (a.Kind == "call" && strings.HasSuffix(a.Name, "StructMethodNode).ExprType")), "IsPtr(ExprType())"
				default:
					continue
				}
			case "Parent":
				switch tn {
				case "RootNode":
					ok, want = t.Is("const", "nil"), "nil"
				case "ScalarNode", "StructFieldNode":
					ok, want = isRecvField(t, "parent"), "the parent field"
				case "StructMethodNode":
					ok, want = isRecvField(t, "container"), "the container field"
				default:
					continue
				}
			case "ObjName":
				switch tn {
				case "RootNode", "ScalarNode":
					ok, want = isRecvField(t, "name"), "the name field"
				case "StructFieldNode":
					ok, want = t.Kind == "call" && strings.HasSuffix(t.Name, ").Name") && t.Contains(func(q *core.Term) bool { return isRecvField(q, "field") }), "field.Name()"
				case "StructMethodNode":
					ok, want = t.Kind == "call" && strings.HasSuffix(t.Name, ").Name") && t.Contains(func(q *core.Term) bool { return isRecvField(q, "method") }), "method.Name()"
				default:
					continue
				}
			default:
				continue
			}
			n++
			r.Check(rule, key, pos, ok, tn+"."+mname+" must be "+want+", got "+t.String())
		}
	}
	r.Floor(rule, "single-return Node accessors examined", n, 30)
}

// errorfRule: logger.Errorf builds the error from its own operands, prints it on the error logger and returns it.
func (c *Ctx) errorfRule(rule string) {
	r := c.R
	r.Rule(rule, "logger.Errorf(format, a...) returns fmt.Errorf(format, a...) of its own parameters and unconditionally prints that error's text on the error logger (elogger); logger.Printf (progress messages) never writes to elogger")
	if fn := c.MustFunc(rule, "/pkg/logger", "Errorf"); fn != nil {
		key := FnKey(fn)
		rets := core.Returns(fn)
		okRet := len(rets) == 1
		var errT *core.Term
		if okRet {
			errT = c.O.Of(rets[0].Results[0])
			okRet = errT.IsCallTo("fmt.Errorf") && len(errT.Args) == 2 && errT.Args[0].Kind == "param" && errT.Args[1].Kind == "param" && errT.Args[0].Name != errT.Args[1].Name
		}
		r.Check(rule, key+":returns", c.Pos(fn.Pos()), okRet, "Errorf must return fmt.Errorf(format, a...) of its own parameters")
		printed := false
		for _, name := range []string{"(*log.Logger).Println", "(*log.Logger).Print", "(*log.Logger).Printf"} {
			for _, s := range c.CallsIn(fn, name, false) {
				if !c.O.Of(s.Args()[0]).Is("global", "logger.elogger") {
					continue
				}
				d := c.ReachOf(s.Instr)
				uncond := len(d) == 1 && len(d[0]) == 0
				// the text printed: err.Error() of the returned error, or format+operands themselves
				var what *core.Term
				if name == "(*log.Logger).Printf" {
					what = c.O.Of(s.Args()[1])
					if uncond && what.Kind == "param" && c.O.Of(s.Args()[2]).Kind == "param" {
						printed = true
					}
					continue
				}
				if el := c.varargAt(s.Args()[1], 0); el != nil && uncond && errT != nil {
					if el.Kind == "invoke" && el.Name == "(error).Error" && el.Args[0].String() == errT.String() {
						printed = true
					}
					if el.String() == errT.String() {
						printed = true
					}
				}
			}
		}
		r.Check(rule, key+":prints-on-elogger", c.Pos(fn.Pos()), printed, "Errorf must unconditionally print the text of the error it returns on elogger (the diagnostic on stderr)")
	}
	if fn := c.MustFunc(rule, "/pkg/logger", "Printf"); fn != nil {
		clean := true
		for _, s := range c.Calls(func(n string) bool { return strings.HasPrefix(n, "(*log.Logger).") }) {
			if s.Fn == fn && c.O.Of(s.Args()[0]).Is("global", "logger.elogger") {
				clean = false
			}
		}
		r.Check(rule, FnKey(fn)+":not-on-elogger", c.Pos(fn.Pos()), clean, "progress messages (logger.Printf) must not be written to the error logger: they would appear on stderr as diagnostics")
	}
}

// defaultsRule: option.NewOptions yields the documented defaults and no shared slice storage.
func (c *Ctx) defaultsRule(rule string) {
	r := c.R
	r.Rule(rule, "documented defaults: option.NewOptions() = {Style: return, Rule: name, ExactCase: true, Getter/Stringer/Typecast/Reverse: false, Receiver: \"\"}, every list field nil (a pre-allocated list would be shared by every copy of the options), and the parser's default options are exactly NewOptions()")
	fn := c.MustFunc(rule, "/pkg/option", "NewOptions")
	ot := c.MustType(rule, "/pkg/option", "Options")
	if fn == nil || ot == nil {
		return
	}
	want := map[string]string{"Style": `"return"`, "Rule": `"name"`, "ExactCase": "true"}
	found := false
	for _, a := range c.Lits(ot) {
		if a.Parent() != fn {
			continue
		}
		found = true
		f := LitFields(a)
		st := ot.Underlying().(*types.Struct)
		for i := 0; i < st.NumFields(); i++ {
			name := st.Field(i).Name()
			v, set := f[name]
			key := FnKey(fn) + ":" + name
			if w, has := want[name]; has {
				r.Check(rule, key, c.InstrPos(a), set && c.O.Of(v).Is("const", w), "default of "+name+" must be "+w)
				continue
			}
			if !set {
				r.Check(rule, key, c.InstrPos(a), true, "")
				continue
			}
			t := c.O.Of(v)
			zero := t.Is("const", "false") || t.Is("const", `""`) || t.Is("const", "nil") || t.Is("const", "0")
			r.Check(rule, key, c.InstrPos(a), zero, "default of "+name+" must be the zero value (a pre-set toggle changes every method; a pre-allocated list is shared between all copies), got "+t.String())
		}
	}
	r.Check(rule, FnKey(fn)+":literal", c.Pos(fn.Pos()), found, "NewOptions does not build an Options literal")
	// the parser starts from NewOptions()
	if pt := c.MustType(rule, "/pkg/parser", "Parser"); pt != nil {
		n := 0
		for _, a := range c.Lits(pt) {
			f := LitFields(a)
			if v, ok := f["opts"]; ok {
				n++
				r.Check(rule, FnKey(a.Parent())+":Parser.opts", c.InstrPos(a), c.O.Of(v).IsCallTo(pOpt+"NewOptions"), "the parser's default options must be option.NewOptions(), got "+c.O.Of(v).String())
			}
		}
		r.Floor(rule, "Parser literals setting opts", n, 1)
	}
}

// loggerOptionRule: the functional options of the logger set the field they are named after.
func (c *Ctx) loggerOptionRule(rule string) {
	r := c.R
	r.Rule(rule, "logger options: Enable() sets option.enabled = true, Output(w) sets option.out = w, ForTest() sets option.forTest = true – each exactly that one field")
	want := map[string][2]string{"Enable": {"logger.option.enabled", "const:true"}, "Output": {"logger.option.out", "fv:out"}, "ForTest": {"logger.option.forTest", "const:true"}}
	for _, name := range sortedKeys(want) {
		fn := c.MustFunc(rule, "/pkg/logger", name)
		if fn == nil {
			continue
		}
		var stores []string
		for _, a := range fn.AnonFuncs {
			for _, b := range a.Blocks {
				for _, in := range b.Instrs {
					if st, ok := in.(*ssa.Store); ok {
						if fa, ok := st.Addr.(*ssa.FieldAddr); ok {
							stores = append(stores, core.FieldName(fa.X.Type(), fa.Field)+"="+c.O.Of(st.Val).String())
						}
					}
				}
			}
		}
		w := want[name]
		ok := len(stores) == 1 && stores[0] == w[0]+"="+w[1]
		if name == "Output" && len(stores) == 1 && strings.HasPrefix(stores[0], w[0]+"=") {
			ok = strings.HasPrefix(stores[0], w[0]+"=fv:") || strings.HasPrefix(stores[0], w[0]+"=param:")
		}
		r.Check(rule, FnKey(fn)+":sets", c.Pos(fn.Pos()), ok, name+" must set exactly "+w[0]+", found "+strings.Join(stores, ", "))
	}
}

// emptiedDocRule: the pass that strips directive lines from every comment group leaves no emptied group linked.
func (c *Ctx) emptiedDocRule(rule string) {
	r := c.R
	r.Rule(rule, "util.RemoveMatchComments strips lines from every group of File.Comments and afterwards walks the whole file (ast.Inspect, the callback never stops) dropping the Doc link of File, GenDecl, FuncDecl, TypeSpec, ValueSpec and Field – and the line-comment link of specs and fields – when the group lost all its lines (an empty group has no position: the next position lookup over the file panics); each drop is `link = nil` under len(link.List) == 0 (rule doc-detach)")
	fn := c.MustFunc(rule, "/pkg/util", "RemoveMatchComments")
	if fn == nil {
		return
	}
	// links whose address is taken anywhere in the function or its closures (handed to the unlink helper or tested in place)
	links := map[string]bool{}
	stops := false
	var visit func(f *ssa.Function)
	visit = func(f *ssa.Function) {
		for _, b := range f.Blocks {
			for _, in := range b.Instrs {
				if fa, ok := in.(*ssa.FieldAddr); ok {
					n := core.FieldName(fa.X.Type(), fa.Field)
					if strings.HasPrefix(n, "ast.") && (strings.HasSuffix(n, ".Doc") || strings.HasSuffix(n, ".Comment")) {
						links[n] = true
					}
				}
			}
		}
		for _, a := range f.AnonFuncs {
			visit(a)
		}
	}
	visit(fn)
	walked := false
	for _, s := range c.CallsIn(fn, "go/ast.Inspect", true) {
		walked = true
		if mc, ok := s.Args()[1].(*ssa.MakeClosure); ok {
			for _, ret := range core.Returns(mc.Fn.(*ssa.Function)) {
				if !c.O.Of(ret.Results[0]).Is("const", "true") {
					stops = true
				}
			}
		} else if f2, ok := s.Args()[1].(*ssa.Function); ok {
			for _, ret := range core.Returns(f2) {
				if !c.O.Of(ret.Results[0]).Is("const", "true") {
					stops = true
				}
			}
		}
	}
	for _, want := range []string{"ast.File.Doc", "ast.GenDecl.Doc", "ast.FuncDecl.Doc", "ast.TypeSpec.Doc", "ast.ValueSpec.Doc", "ast.Field.Doc", "ast.TypeSpec.Comment", "ast.Field.Comment"} {
		r.Check(rule, FnKey(fn)+":unlinks:"+want, c.Pos(fn.Pos()), links[want], "an emptied comment group can stay linked as "+want+": a directive line that is the whole comment of such a node (e.g. //go:generate above a `type ( … )` group) makes the next position lookup panic")
	}
	r.Check(rule, FnKey(fn)+":walks-whole-file", c.Pos(fn.Pos()), walked && !stops, "the links are not visited by a complete walk of the file (ast.Inspect with a callback that always returns true)")
}

// overlayRule: the loader never lets the go command read the file at the output path.
func (c *Ctx) overlayRule(rule string) {
	r := c.R
	r.Rule(rule, "the packages.Config given to packages.Load carries an Overlay computed from the output path: a map with an entry for every directory entry E of the setup file's directory (os.ReadDir(filepath.Dir(filepath.Abs(<setup path>)))) that is the same file as the output path (os.SameFile(os.Stat(<dir>/E), os.Stat(<output path>)) – identity, not spelling: the go command reads the directory as it is on disk, and the output path may be a link of another name, go through a linked directory or through `..`), keyed filepath.Join(<dir>, E.Name()) – the name the go command, which runs in that directory, gives the file – and whose value is \"package \" + <package name parsed from the setup file (PackageClauseOnly)> – the go command reads the package clause of every file in the directory, so the previous output (truncated inside its package name, or from before a rename) must be presented as an empty file of the setup file's package (finding F26)")
	n := 0
	for _, fn := range c.P.Funcs() {
		p := pkgOf(fn)
		if p == nil || p.Path() != mod+"/pkg/parser" {
			continue
		}
		for _, b := range fn.Blocks {
			for _, in := range b.Instrs {
				a, ok := in.(*ssa.Alloc)
				if !ok || !strings.HasSuffix(a.Type().String(), "go/packages.Config") {
					continue
				}
				n++
				f := LitFields(a)
				// build flags: exactly -tags <build tag>; any other flag changes what the go command does (-mod=mod lets it rewrite go.mod)
				okFlags := false
				if bf := f["BuildFlags"]; bf != nil {
					e0, e1, e2 := c.varargAt(bf, 0), c.varargAt(bf, 1), c.varargAt(bf, 2)
					okFlags = e0 != nil && e0.Is("const", `"-tags"`) && e1 != nil && e1.Is("const", `"convergen"`) && e2 == nil
				}
				r.Check(rule, FnKey(fn)+":BuildFlags", c.InstrPos(a), okFlags, "the loader's build flags must be exactly {\"-tags\", \"convergen\"}: any other flag is handed to the go command (e.g. -mod=mod makes `go list` rewrite go.mod)")
				ov := f["Overlay"]
				if ov == nil {
					r.Check(rule, FnKey(fn)+":Overlay", c.InstrPos(a), false, "the loader configuration has no Overlay: whatever is at the output path is read by the go command")
					continue
				}
				t := c.O.Of(ov)
				cv, isCall := t.V.(*ssa.Call)
				var helper *ssa.Function
				if isCall {
					helper = cv.Call.StaticCallee()
				}
				if helper == nil || helper.Blocks == nil {
					r.Check(rule, FnKey(fn)+":Overlay", c.InstrPos(a), false, "Overlay is not computed by a module function from the paths: "+t.String())
					continue
				}
				// the output path handed to the helper is the path whose os.Stat result the ParseFile hook compares (parameter of the constructor)
				dstArg := -1
				for i, arg := range t.Args {
					if arg.Kind == "param" && strings.Contains(strings.ToLower(arg.Name), "dst") {
						dstArg = i
					}
				}
				if dstArg < 0 || dstArg >= len(helper.Params) {
					r.Check(rule, FnKey(fn)+":Overlay", c.InstrPos(a), false, "the overlay helper does not receive the output path parameter: "+t.String())
					continue
				}
				dstP := "param:" + helper.Params[dstArg].Name()
				okKey, okVal, nUpd := false, false, 0
				for _, hb := range helper.Blocks {
					for _, hin := range hb.Instrs {
						mu, isMU := hin.(*ssa.MapUpdate)
						if !isMU {
							continue
						}
						nUpd++
						// every entry of the setup file's directory that IS the file at the output path (by identity, however either is
						// spelled or linked) is hidden under the name the go command – which lists that directory – gives it
						absOf := func(p string) func(*core.Term) bool {
							return func(s *core.Term) bool {
								return s.Kind == "extract" && s.Name == "0" && s.Args[0].IsCallTo("path/filepath.Abs") && s.Args[0].Args[0].String() == p
							}
						}
						dirOf := func(inner func(*core.Term) bool) func(*core.Term) bool {
							return func(s *core.Term) bool { return s.IsCallTo("path/filepath.Dir") && inner(s.Args[0]) }
						}
						srcP := ""
						for _, hp := range helper.Params {
							if "param:"+hp.Name() != dstP {
								srcP = "param:" + hp.Name()
							}
						}
						entryName := func(s *core.Term) bool {
							return (s.Kind == "invoke" || s.Kind == "call") && strings.HasSuffix(s.Name, "DirEntry).Name") && s.Contains(func(x *core.Term) bool {
								return x.IsCallTo("os.ReadDir") && dirOf(absOf(srcP))(x.Args[0])
							})
						}
						if kc, isKC := mu.Key.(*ssa.Call); isKC && core.CalleeName(&kc.Call) == "path/filepath.Join" && len(kc.Call.Args) == 1 {
							e0, e1, e2 := c.varargAt(kc.Call.Args[0], 0), c.varargAt(kc.Call.Args[0], 1), c.varargAt(kc.Call.Args[0], 2)
							okKey = e0 != nil && e1 != nil && e2 == nil && dirOf(absOf(srcP))(e0) && entryName(e1)
						}
						statOf := func(inner func(*core.Term) bool) func(*core.Term) bool {
							return func(s *core.Term) bool {
								return s.Kind == "extract" && s.Name == "0" && s.Args[0].IsCallTo("os.Stat") && inner(s.Args[0].Args[0])
							}
						}
						sameFile := c.M(true, func(t *core.Term) bool {
							if !t.IsCallTo("os.SameFile") {
								return false
							}
							isKey := func(x *core.Term) bool { return x.V == mu.Key }
							isDst := func(x *core.Term) bool { return x.String() == dstP }
							return (statOf(isKey)(t.Args[0]) && statOf(isDst)(t.Args[1])) || (statOf(isKey)(t.Args[1]) && statOf(isDst)(t.Args[0]))
						})
						okKey = okKey && c.ReachOf(mu).Implies(sameFile)
						// … and every entry is asked: an iteration of the loop over the entries that does not hide its entry has seen
						// os.Stat fail or os.SameFile say no – no other filter (entry kind, name, extension) stands before the identity
						// test: `if !entry.Type().IsRegular() { continue }` passes over a symbolic link to the previous output
						notSame := c.M(false, func(t *core.Term) bool { return t.IsCallTo("os.SameFile") })
						statErr := c.M(false, isNilCmp(func(x *core.Term) bool {
							return x.Kind == "extract" && x.Name == "1" && x.Args[0].IsCallTo("os.Stat")
						}))
						for head, body := range allLoops(helper) {
							if !body[mu.Block()] {
								continue
							}
							av := c.ReachAvoid(helper, map[*ssa.BasicBlock]bool{mu.Block(): true})
							for _, lp := range head.Preds {
								if !body[lp] || lp == mu.Block() {
									continue
								}
								be := av.BackEdgeCond(lp, head)
								r.Check(rule, FnKey(helper)+":every-entry-compared-by-identity", c.InstrPos(mu), be.Implies(notSame, statErr),
									"an entry of the setup file's directory can be passed over without having been compared with the output path by identity: "+c.failing(be, notSame, statErr))
							}
						}
						v := c.O.Of(mu.Value)
						okVal = v.Contains(func(s *core.Term) bool { return s.Is("const", `"package "`) }) &&
							v.Contains(func(s *core.Term) bool {
								return s.IsField("ast.Ident.Name") && s.Contains(func(q *core.Term) bool {
									return q.IsCallTo("go/parser.ParseFile") && len(q.Args) == 4 && q.Args[3].Is("const", "1")
								})
							})
					}
				}
				r.Check(rule, FnKey(fn)+":Overlay", c.InstrPos(a), nUpd == 1 && okKey && okVal,
					sprintf("the overlay must map every entry <directory of the setup file>/<entry name> of os.ReadDir(<that directory>) for which os.SameFile(os.Stat(<it>), os.Stat(<output path>)) holds to \"package <name of the setup file's package>\": comparing paths (as spelled, or with links resolved) misses an output path that is itself a link of another name or goes through `..` (updates %d, key ok %v, value ok %v)", nUpd, okKey, okVal))
			}
		}
	}
	r.Floor(rule, "packages.Config literals in the parser", n, 1)
}

// fsReadInventory: module code looks at the file system only at the confirmed sites.
func (c *Ctx) fsReadInventory(rule string) {
	r := c.R
	r.Rule(rule, "file-reading inventory: the calls from module code that read the file system are exactly os.Stat of the two paths and of each file offered to the ParseFile hook, the listing (os.ReadDir) and os.Stat of the entries of the setup file's directory for the loader overlay, packages.Load, the package-clause parse of the setup file for the loader overlay, and imports.Process; nothing opens, reads or lists anything else (in particular nothing reads the output path: whatever it holds cannot influence the run)")
	// per package, not per function: splitting a function into helpers moves a site without adding one
	table := map[string]int{
		"parser:os.Stat": 5, "parser:golang.org/x/tools/go/packages.Load": 1, "parser:go/parser.ParseFile": 1,
		// the entries of the setup file's directory, each stat'ed and compared by identity with the output path (F59, F63); opens nothing
		"parser:os.ReadDir":                            1,
		"generator:golang.org/x/tools/imports.Process": 1,
	}
	seen := map[string]int{}
	for _, e := range c.ExternalCalls() {
		isRead := e.Class == effFSRead
		if e.Callee == "go/parser.ParseFile" {
			// reads the named file when no source text is given
			if a := e.Site.Args(); len(a) >= 3 && c.O.Of(a[2]).Is("const", "nil") {
				isRead = true
			}
		}
		if !isRead {
			continue
		}
		pk := "?"
		if p := pkgOf(e.Site.Fn); p != nil {
			pk = p.Name()
		}
		key := pk + ":" + e.Callee
		seen[key]++
		r.Check(rule, sprintf("%s#%d", key, seen[key]), c.Pos(e.Site.Pos()), seen[key] <= table[key], "module code reads the file system at a site outside the confirmed table: "+e.Callee+" in "+FnKey(e.Site.Fn))
	}
	n := 0
	for _, v := range seen {
		n += v
	}
	r.Floor(rule, "file-reading call sites", n, 5)
}

// cutRangeRule: the range between the two markers of an interface is the hull of all field lists below its declaration.
func (c *Ctx) cutRangeRule(rule string) {
	r := c.R
	r.Rule(rule, "cut range of a converter interface: the ast.Inspect callback in GenerateBaseCode never stops the walk (every return is the constant true), writes the captured range variables only with a field list's Pos() / Closing, the lower bound only when it is the first or strictly smaller, the upper bound only when it is the first or strictly larger (the hull of all field lists: type-parameter lists, the method list, nested parameter lists)")
	fn := c.MustMethod(rule, "/pkg/parser", "Parser", "GenerateBaseCode")
	if fn == nil {
		return
	}
	n := 0
	// the walk may live in GenerateBaseCode itself or in a helper of the parser split off from it
	var sites []Site
	for _, s := range c.CallsTo("go/ast.Inspect") {
		if p := pkgOf(s.Fn); p != nil && p.Path() == mod+"/pkg/parser" {
			sites = append(sites, s)
		}
	}
	for _, s := range sites {
		mc, ok := s.Args()[1].(*ssa.MakeClosure)
		if !ok {
			r.Check(rule, FnKey(s.Fn)+":callback", c.Pos(s.Pos()), false, "the Inspect callback is not a literal closure")
			continue
		}
		cb := mc.Fn.(*ssa.Function)
		n++
		key := FnKey(cb)
		okRet := true
		for _, ret := range core.Returns(cb) {
			if !c.O.Of(ret.Results[0]).Is("const", "true") {
				okRet = false
			}
		}
		r.Check(rule, key+":never-stops", c.Pos(cb.Pos()), okRet, "the callback can return false: the walk stops before every field list below the declaration was seen (a type-parameter list comes before the method list)")
		isFL := func(t *core.Term) bool {
			return t.Kind == "extract" && t.Name == "0" && t.Args[0].Kind == "typeassert,ok" && t.Args[0].Name == "*ast.FieldList" && t.Args[0].Args[0].Kind == "param"
		}
		first := c.M(true, eqConst(func(t *core.Term) bool {
			return t.Kind == "fv" && t.Type != nil && strings.HasSuffix(t.Type.String(), "token.Pos")
		}, "0"))
		ns := 0
		for _, b := range cb.Blocks {
			for _, in := range b.Instrs {
				st, ok := in.(*ssa.Store)
				if !ok {
					continue
				}
				fv, ok := st.Addr.(*ssa.FreeVar)
				if !ok {
					continue
				}
				ns++
				v := c.O.Of(st.Val)
				cell := "fv:" + fv.Name()
				d := c.ReachOf(st)
				var okS bool
				switch {
				case v.IsCallTo("(*go/ast.FieldList).Pos") && isFL(v.Args[0]):
					smaller := c.M(true, func(t *core.Term) bool {
						return t.Kind == "binop" && ((t.Name == "<" && t.Args[0].String() == v.String() && t.Args[1].String() == cell) || (t.Name == ">" && t.Args[1].String() == v.String() && t.Args[0].String() == cell))
					})
					okS = d.Implies(first, smaller)
				case v.IsField("ast.FieldList.Closing") && isFL(v.Args[0]):
					larger := c.M(true, func(t *core.Term) bool {
						return t.Kind == "binop" && ((t.Name == "<" && t.Args[1].String() == v.String() && t.Args[0].String() == cell) || (t.Name == ">" && t.Args[0].String() == v.String() && t.Args[1].String() == cell))
					})
					okS = d.Implies(first, larger)
				}
				r.Check(rule, sprintf("%s:store%d:%s", key, ns, fv.Name()), c.InstrPos(st), okS, "range variable "+fv.Name()+" is set to "+v.String()+" outside the hull discipline (first field list, or strictly extending the range); reach: "+d.Describe(c.O))
			}
		}
		r.Check(rule, key+":updates", c.Pos(cb.Pos()), ns >= 3, sprintf("expected the callback to maintain both range bounds, found %d stores", ns))
	}
	r.Floor(rule, "ast.Inspect callbacks in the parser", n, 1)
}

// allLoops returns the natural loops of fn keyed by header.
func allLoops(fn *ssa.Function) map[*ssa.BasicBlock]map[*ssa.BasicBlock]bool {
	loops := map[*ssa.BasicBlock]map[*ssa.BasicBlock]bool{}
	for _, tail := range fn.Blocks {
		for _, head := range tail.Succs {
			if !head.Dominates(tail) {
				continue
			}
			body := loops[head]
			if body == nil {
				body = map[*ssa.BasicBlock]bool{head: true}
				loops[head] = body
			}
			var stack []*ssa.BasicBlock
			if !body[tail] {
				body[tail] = true
				stack = append(stack, tail)
			}
			for len(stack) > 0 {
				x := stack[len(stack)-1]
				stack = stack[:len(stack)-1]
				for _, p := range x.Preds {
					if !body[p] {
						body[p] = true
						stack = append(stack, p)
					}
				}
			}
		}
	}
	return loops
}

// searchFlagRule: the verdict of a per-element search is not carried from one element to the next.
func (c *Ctx) searchFlagRule(rule string) {
	r := c.R
	r.Rule(rule, "per-element search flags: a bool that is set to a constant inside an inner loop (the result of searching another collection for the current element) and tested in the body of the enclosing loop is initialised inside that enclosing loop – it is not a loop-carried value of the enclosing loop (a hit for one element would otherwise decide all later elements)")
	n := 0
	for _, fn := range c.P.Funcs() {
		loops := allLoops(fn)
		for head, body := range loops {
			// inner loops of this loop
			// inner loops of this loop, each represented by the entry blocks of its body: a block dominated by one of them
			// runs inside an iteration of the inner loop (this includes blocks that leave it by break)
			var inner []*ssa.BasicBlock
			for h2, b2 := range loops {
				if h2 != head && body[h2] && len(b2) < len(body) {
					for _, s2 := range h2.Succs {
						if b2[s2] && s2 != h2 {
							inner = append(inner, s2)
						}
					}
				}
			}
			if len(inner) == 0 {
				continue
			}
			n++
			for _, in := range head.Instrs {
				phi, ok := in.(*ssa.Phi)
				if !ok {
					continue
				}
				if bt, isB := phi.Type().Underlying().(*types.Basic); !isB || bt.Kind() != types.Bool {
					continue
				}
				// set to a constant inside an inner loop?
				setInner := false
				seen := map[ssa.Value]bool{}
				var walk func(v ssa.Value, at *ssa.BasicBlock, d int)
				walk = func(v ssa.Value, at *ssa.BasicBlock, d int) {
					if d > 6 || seen[v] {
						return
					}
					seen[v] = true
					if p2, isPhi := v.(*ssa.Phi); isPhi {
						for i, e := range p2.Edges {
							from := p2.Block().Preds[i]
							if _, isK := e.(*ssa.Const); isK {
								for _, entry := range inner {
									if entry.Dominates(from) {
										setInner = true
									}
								}
								continue
							}
							walk(e, from, d+1)
						}
					}
				}
				for i, e := range phi.Edges {
					if body[head.Preds[i]] {
						walk(e, head.Preds[i], 0)
					}
				}
				if !setInner {
					continue
				}
				// tested in the body of this loop (the φ itself or a φ fed by it)?
				tested := false
				var uses func(v ssa.Value, d int)
				visited := map[ssa.Value]bool{}
				uses = func(v ssa.Value, d int) {
					if d > 4 || visited[v] || v.Referrers() == nil {
						return
					}
					visited[v] = true
					for _, rf := range *v.Referrers() {
						switch x := rf.(type) {
						case *ssa.If:
							if body[x.Block()] {
								tested = true
							}
						case *ssa.UnOp:
							uses(x, d+1)
						case *ssa.Phi:
							if body[x.Block()] {
								uses(x, d+1)
							}
						}
					}
				}
				uses(phi, 0)
				r.Check(rule, sprintf("%s:%s", FnKey(fn), phi.Comment), c.InstrPos(phi), !tested, "the search flag "+phi.Comment+" is set inside an inner loop, tested in the enclosing loop and carried from one iteration of the enclosing loop to the next: declare it inside the loop")
			}
		}
	}
	r.Note(rule+"_nested_loops_examined", n)
}

// huntRules1: obligations added after the defect hunt on the unmodified tree (findings F27…): each states what the
// repaired code must keep doing and reports the original defect on the tree before its repair.
func (c *Ctx) handlerStopRule(rule string) {
	r := c.R
	r.Rule(rule, "candidate handler: the walk over same-named candidates stops (handler returns true) only when the candidate produced an assignment, an error, or a nested copy was made – a candidate of the right name but an unusable type does not end the search (under :case:off several members can bear the name)")
	n := 0
	for _, dm := range c.defaultMatchers() {
		seen := map[*ssa.Function]bool{}
		for _, s := range append(c.CallsIn(dm, fnIterMethods, false), c.CallsIn(dm, fnIterFields, false)...) {
			mc, ok := s.Args()[1].(*ssa.MakeClosure)
			if !ok || seen[mc.Fn.(*ssa.Function)] {
				continue
			}
			h := mc.Fn.(*ssa.Function)
			seen[h] = true
			n++
			stop := c.Reach(h).RetCond(0, true)
			produced := func(l core.Lit) bool {
				t, pos := c.Canon(l)
				if t.Kind == "fv" && pos { // the nested flag itself
					return t.Type != nil && strings.HasSuffix(t.Type.String(), "bool")
				}
				if t.Kind != "binop" || t.Name != "==" || pos {
					return t.Kind == "binop" && (t.Name == "<" || t.Name == ">") && pos && t.Contains(func(x *core.Term) bool { return x.IsField("model.NestStruct.Contents") })
				}
				// a != nil / err != nil on a captured result variable or on a value just produced
				return t.Args[1].Is("const", "nil") || t.Args[0].Is("const", "nil")
			}
			_ = stop
			okAll := true
			var bad core.DNF
			rc := c.Reach(h)
			for _, ret := range core.Returns(h) {
				t := c.O.Of(ret.Results[0])
				if t.Is("const", "false") {
					continue
				}
				// a result was stored just before returning (a = SimpleField{…}; return true)
				storedHere := false
				for _, in := range ret.Block().Instrs {
					if st, ok := in.(*ssa.Store); ok {
						if _, isFV := st.Addr.(*ssa.FreeVar); isFV {
							if k, isK := st.Val.(*ssa.Const); !isK || !k.IsNil() {
								if bt, isB := st.Val.Type().Underlying().(*types.Basic); !isB || bt.Kind() != types.Bool {
									storedHere = true
								}
							}
						}
					}
				}
				if storedHere {
					continue
				}
				d := rc.RetCondAt(ret, 0, true)
				if !d.Implies(produced) {
					okAll = false
					bad = d
				}
			}
			r.Check(rule, FnKey(h)+":stops-only-when-produced", c.Pos(h.Pos()), okAll,
				"the handler can end the search for a candidate that produced nothing (wrong type): the outcome then depends on the declaration order of same-named source members; stop-condition: "+bad.Describe(c.O))
		}
	}
	r.Floor(rule, "candidate handlers", n, 1)
}

// lookaheadVisibilityRule: the look-ahead asks ShouldSkip only about members the package can see.
func (c *Ctx) lookaheadVisibilityRule(rule string) {
	r := c.R
	r.Rule(rule, "look-ahead for nested notations: ShouldSkip is consulted only for members that pass isStructFieldAccessible(<the struct>, member.ObjName()) – a pattern that happens to match an unexported member of an imported type must not break up the copy of the enclosing field")
	n := 0
	for _, fn := range c.P.Funcs() {
		if fn.Parent() == nil || !strings.Contains(fn.Parent().Name(), "hasNotationUnder") {
			continue
		}
		for _, s := range c.CallsIn(fn, fnShouldSkip, false) {
			n++
			d := c.ReachOf(s.Instr)
			vis := c.M(true, func(t *core.Term) bool {
				return t.IsCallTo(fnAccessible) && len(t.Args) == 3 && t.Args[2].IsCallTo(invObjName) && t.Args[2].Args[0].Kind == "param"
			})
			r.Check(rule, FnKey(fn)+":visible-members-only", c.Pos(s.Pos()), d.Implies(vis), "the look-ahead asks ShouldSkip about a member without the visibility test; reach: "+d.Describe(c.O))
		}
	}
	r.Floor(rule, "ShouldSkip calls in the look-ahead", n, 1)
}

// typecastIdentityRule: a conversion target is local only if the scope's object is the type's own object.
func (c *Ctx) typecastIdentityRule(rule string) {
	r := c.R
	r.Rule(rule, "NewTypecast: the target is rendered without a qualifier only when it has no package, when scope.Lookup(name) is the type's own object (identity, not mere existence of the name), or when its package is dot-imported; the element conversion of a slice copy is parenthesized for pointer elements")
	fn := c.MustFunc(rule, "/pkg/builder/model", "NewTypecast")
	if fn == nil {
		return
	}
	// every comparison of scope.Lookup(…) in the function (and in the helpers of its package it calls) is against Obj(),
	// never against nil
	n := 0
	var blocks []*ssa.BasicBlock
	for f := range c.samePkgCallees(fn, 2) {
		blocks = append(blocks, f.Blocks...)
	}
	sort.Slice(blocks, func(i, j int) bool {
		if blocks[i].Parent() != blocks[j].Parent() {
			return blocks[i].Parent().String() < blocks[j].Parent().String()
		}
		return blocks[i].Index < blocks[j].Index
	})
	for _, b := range blocks {
		for _, in := range b.Instrs {
			bo, ok := in.(*ssa.BinOp)
			if !ok {
				continue
			}
			x, y := c.OfUpTo(bo.X, fn), c.OfUpTo(bo.Y, fn)
			if !x.IsCallTo("(*go/types.Scope).Lookup") && !y.IsCallTo("(*go/types.Scope).Lookup") {
				continue
			}
			n++
			other := y
			if y.IsCallTo("(*go/types.Scope).Lookup") {
				other = x
			}
			isObj := other.Contains(func(t *core.Term) bool { return t.IsCallTo("(*go/types.Named).Obj") })
			r.Check(rule, sprintf("%s:lookup-compare%d", FnKey(bo.Parent()), n), c.InstrPos(bo), isObj, "the conversion target is taken for a local type whenever the package scope has ANY object of that name (compared with "+other.String()+"): an imported type named like a local function or type loses its qualifier")
		}
	}
	r.Floor(rule, "comparisons of scope.Lookup in NewTypecast", n, 1)
	// slice element conversions
	if st := c.P.LookupType("/pkg/generator/model", "SliceTypecastAssignment"); st != nil {
		m := 0
		for _, a := range c.Lits(st) {
			f := LitFields(a)
			if f["Cast"] == nil {
				continue
			}
			m++
			okP := false
			for _, cs := range c.Reach(a.Parent()).Cases(f["Cast"]) {
				t := c.O.Of(cs.V)
				if t.Kind == "binop" && t.Contains(func(x *core.Term) bool { return x.Is("const", `"("`) }) && t.Contains(func(x *core.Term) bool { return x.Is("const", `")"`) }) {
					cond := cs.Cond
					if cond == nil {
						cond = c.ReachOf(a)
					}
					if cond.Implies(c.M(true, func(x *core.Term) bool { return x.IsCallTo(fnIsPtr) })) {
						okP = true
					}
				}
			}
			r.Check(rule, FnKey(a.Parent())+":slice-cast-parenthesized", c.InstrPos(a), okP, "the element conversion of a slice copy is never parenthesized: for pointer elements `*T(e)` does not compile, it must be `(*T)(e)`")
		}
		r.Floor(rule, "SliceTypecastAssignment literals with a Cast", m, 1)
	}
}

// samePkgCallees returns fn and the functions of its own package that it calls statically, up to the given depth.
func (c *Ctx) samePkgCallees(fn *ssa.Function, depth int) map[*ssa.Function]bool {
	out := map[*ssa.Function]bool{fn: true}
	frontier := []*ssa.Function{fn}
	for d := 0; d < depth; d++ {
		var next []*ssa.Function
		for _, f := range frontier {
			for _, b := range f.Blocks {
				for _, in := range b.Instrs {
					ci, ok := in.(ssa.CallInstruction)
					if !ok {
						continue
					}
					g := ci.Common().StaticCallee()
					if g == nil || out[g] || pkgOf(g) == nil || pkgOf(g) != pkgOf(fn) || len(g.Blocks) == 0 {
						continue
					}
					out[g] = true
					next = append(next, g)
				}
			}
		}
		frontier = next
	}
	return out
}

// converterArgRule: a converter is never applied to a source that also returns an error.
func (c *Ctx) converterArgRule(rule string) {
	r := c.R
	r.Rule(rule, "converter arguments: every NewConverterNode(arg, …) is reached only if the resolved source node's ReturnsError() is false (a two-value getter call cannot be an argument, and its error would have nowhere to go)")
	n := 0
	for _, s := range c.CallsTo(pBM + "NewConverterNode") {
		if p := pkgOf(s.Fn); p == nil || p.Path() != mod+"/pkg/builder" {
			continue
		}
		n++
		d := c.ReachOf(s.Instr)
		noErr := c.M(false, func(t *core.Term) bool {
			return t.Kind == "invoke" && t.Name == invRetErr && t.Args[0].Kind == "extract" && t.Args[0].Args[0].IsCallTo("(*"+pBld+"assignmentBuilder).resolveExpr")
		})
		r.Check(rule, sprintf("%s:NewConverterNode%d", FnKey(s.Fn), n), c.Pos(s.Pos()), d.Implies(noErr), "a converter node is built around a source whose ReturnsError() was not tested; reach: "+d.Describe(c.O))
	}
	r.Floor(rule, "NewConverterNode sites in the builder", n, 1)
}

// loaderConfigRule: the loader runs in the setup file's directory and the import table takes real package names.
func (c *Ctx) loaderConfigRule(rule string) {
	r := c.R
	r.Rule(rule, "loader configuration: packages.Config.Dir is filepath.Dir(filepath.Abs(<setup path>)) and the query is \"file=\"+<that absolute path> (the go command resolves module and imports relative to its directory: the result must not depend on where the process was started); for every import without an explicit name the import table entry is overwritten with the Name of the loaded package (not the last path element)")
	np := c.MustFunc(rule, "/pkg/parser", "NewParser")
	if np == nil {
		return
	}
	absSrc := func(t *core.Term) bool {
		return t.Kind == "extract" && t.Name == "0" && t.Args[0].IsCallTo("path/filepath.Abs") && t.Args[0].Args[0].Kind == "param"
	}
	for _, b := range np.Blocks {
		for _, in := range b.Instrs {
			a, ok := in.(*ssa.Alloc)
			if !ok || !strings.HasSuffix(a.Type().String(), "go/packages.Config") {
				continue
			}
			f := LitFields(a)
			okDir := f["Dir"] != nil && c.O.Of(f["Dir"]).IsCallTo("path/filepath.Dir") && absSrc(c.O.Of(f["Dir"]).Args[0])
			r.Check(rule, FnKey(np)+":Dir", c.InstrPos(a), okDir, "the loader runs in the process's working directory: started elsewhere, the package is loaded ad hoc and its imports resolve against another module or not at all")
		}
	}
	for _, s := range c.CallsIn(np, "golang.org/x/tools/go/packages.Load", false) {
		q := c.varargAt(s.Args()[1], 0)
		okQ := q != nil && q.Kind == "binop" && q.Name == "+" && q.Args[0].Is("const", `"file="`) && absSrc(q.Args[1])
		r.Check(rule, FnKey(np)+":query", c.Pos(s.Pos()), okQ, "the loader must be asked about \"file=\"+<absolute setup path>")
	}
	// real names
	okNames := false
	for _, b := range np.Blocks {
		for _, in := range b.Instrs {
			mu, ok := in.(*ssa.MapUpdate)
			if !ok {
				continue
			}
			v := c.O.Of(mu.Value)
			if v.IsField("packages.Package.Name") && v.Contains(func(t *core.Term) bool { return t.IsField("packages.Package.Imports") }) {
				d := c.ReachOf(mu)
				noExplicit := c.M(true, isNilCmp(func(t *core.Term) bool { return t.IsField("ast.ImportSpec.Name") }))
				okNames = d.Implies(noExplicit)
			}
		}
	}
	r.Check(rule, FnKey(np)+":declared-names", c.Pos(np.Pos()), okNames, "imports without an explicit name are known only by the last element of their path: `import \"example.com/model/v2\"` (package model) is rendered as v2.T and `model.F` in a notation is not found")
}

// logPathRule: the log never replaces the output.
func (c *Ctx) logPathRule(rule string) {
	r := c.R
	r.Rule(rule, "ParseArgs succeeds only if the log path is empty or differs from the output path (the log is opened with O_TRUNC before anything else, also in a dry or failing run: `-log -out x.log` would clobber the output path)")
	fn := c.MustMethod(rule, "/pkg/config", "Config", "ParseArgs")
	if fn == nil {
		return
	}
	differs := func(l core.Lit) bool {
		t, pos := c.Canon(l)
		if t.Kind != "binop" || t.Name != "==" {
			return false
		}
		a, b := t.Args[0], t.Args[1]
		isLog := func(x *core.Term) bool { return x.IsField("config.Config.Log") }
		isOut := func(x *core.Term) bool { return x.IsField("config.Config.Output") }
		if (isLog(a) && isOut(b)) || (isLog(b) && isOut(a)) {
			return !pos
		}
		if (isLog(a) && b.Is("const", `""`)) || (isLog(b) && a.Is("const", `""`)) {
			return pos
		}
		return false
	}
	noLog := c.M(false, func(t *core.Term) bool { return t.Kind == "deref" || strings.Contains(t.String(), `"log"`) })
	_ = noLog
	okAll, n := true, 0
	var bad core.DNF
	for _, ret := range c.successReturns(fn) {
		n++
		d := c.ReachOf(ret)
		if !d.Implies(differs) {
			okAll = false
			bad = d
		}
	}
	r.Check(rule, FnKey(fn)+":log≠output", c.Pos(fn.Pos()), okAll && n >= 1, "ParseArgs can succeed with Config.Log == Config.Output; reach: "+bad.Describe(c.O))
}

// identifierRule: a receiver name given by :recv is a Go identifier that is not a keyword.
func (c *Ctx) identifierRule(rule string) {
	r := c.R
	r.Rule(rule, "parser.isValidIdentifier(id) ⇒ go/token.IsIdentifier(id) (an identifier of the language that is not a keyword: `a_` is valid, `type` is not) ∧ id != \"_\"")
	fn := c.MustFunc(rule, "/pkg/parser", "isValidIdentifier")
	if fn == nil {
		return
	}
	p0 := "param:" + fn.Params[0].Name()
	tr := c.Reach(fn).RetCond(0, true)
	isIdent := c.M(true, func(t *core.Term) bool { return t.IsCallTo("go/token.IsIdentifier") && t.Args[0].String() == p0 })
	notBlank := c.M(false, eqConst(func(t *core.Term) bool { return t.String() == p0 }, `"_"`))
	r.Check(rule, FnKey(fn)+":identifier", c.Pos(fn.Pos()), len(tr) > 0 && tr.Implies(isIdent), "a name is accepted without token.IsIdentifier: keywords pass (`:recv type` fails much later with a misleading position) or legal names are rejected; true-condition: "+tr.Describe(c.O))
	r.Check(rule, FnKey(fn)+":not-blank", c.Pos(fn.Pos()), len(tr) > 0 && tr.Implies(notBlank), "the blank identifier is accepted as a receiver name")
}

// Rules that report defects of the current tree which were found by the hunt and NOT repaired (they need more than a
// small patch). Each reports one named construct; known_findings.json lists them, so the checks print KNOWN-FINDING
// and pass; a different violation of the same rule is still an alarm.

// atomicWriteRule (C15): a failed write must leave the previous output intact.
func (c *Ctx) atomicWriteRule(rule string) {
	r := c.R
	r.Rule(rule, "the output is replaced atomically: the bytes go to a temporary file in the output directory that is renamed onto the output path (os.WriteFile truncates the destination first: a write that fails half-way – disk full, file size limit – ends the run with an error and the previous output destroyed)")
	n := 0
	for _, s := range c.CallsTo("os.WriteFile") {
		n++
		arg := c.O.Of(s.Args()[0])
		// direct write to the designated path (a parameter / Config.Output) instead of a temporary name
		direct := arg.Kind == "param" || arg.IsField("config.Config.Output")
		r.Check(rule, FnKey(s.Fn)+":non-atomic-write", c.Pos(s.Pos()), !direct, "os.WriteFile writes straight to the output path "+arg.String()+": a failing write leaves a truncated file where the previous output was")
	}
	r.Note(rule+"_WriteFile_sites", n)
}

// nestedArgsRule (C06): the member-wise descent keeps the additional arguments.
func (c *Ctx) nestedArgsRule(rule string) {
	r := c.R
	r.Rule(rule, "member-wise descent: the nested struct copy started by the candidate handler passes the method's additional arguments on (with nil, `:map $2 In.W` on a nested destination field is reported `no match` and `$1.X` is resolved against the nested source instead of the first operand)")
	n := 0
	for _, dm := range c.defaultMatchers() {
		for _, af := range dm.AnonFuncs {
			for _, s := range c.CallsIn(af, "(*"+pBld+"assignmentBuilder).structToStruct", false) {
				n++
				a := c.O.Of(s.Args()[3])
				r.Check(rule, "candidate-handler-of-the-default-matcher:nested-copy-args", c.Pos(s.Pos()), a.Kind == "fv" || a.Kind == "param", "the nested copy is not started with the additional arguments the matcher itself received, but with "+a.String())
			}
		}
	}
	r.Floor(rule, "nested struct copies started by candidate handlers", n, 1)
}

// pointerDescentRule (C06): notations below a struct held by pointer.
func (c *Ctx) pointerDescentRule(rule string) {
	r := c.R
	r.Rule(rule, "notations below a struct held by pointer: the candidate handler decides member-wise descent on IsStructType(T), which is false for a pointer, so `Addr *Address` is assigned as a whole and a notation on one of its members (:skip Addr.Secret, :map … Addr.Zip, :literal Addr.Source …) could not be honoured. Either the descent test looks through the pointer (IsStructType(DerefPtr(T))), or the default matcher refuses the combination: its candidate search is reached only if ¬(IsPtr(T) ∧ IsStructType(DerefPtr(T)) ∧ hasNotationUnder(destination)) – the refusal being an error return")
	n := 0
	for _, dm := range c.defaultMatchers() {
		// the refusal in front of the candidate search
		lhs := ""
		if len(dm.Params) >= 2 {
			lhs = dm.Params[1].Name()
		}
		isLHS := func(t *core.Term) bool { return (t.Kind == "param" || t.Kind == "fv") && t.Name == lhs }
		typeOfLHS := func(t *core.Term) bool {
			return (t.IsCallTo(invExprType) || t.Kind == "invoke" && t.Name == invExprType) && isLHS(t.Args[0])
		}
		notPtr := c.M(false, func(t *core.Term) bool { return t.IsCallTo(fnIsPtr) && typeOfLHS(t.Args[0]) })
		notStructBelow := c.M(false, func(t *core.Term) bool {
			return t.IsCallTo(fnIsStruct) && t.Args[0].IsCallTo(fnDerefPtr) && typeOfLHS(t.Args[0].Args[0])
		})
		noNotation := c.M(false, func(t *core.Term) bool {
			return t.Kind == "call" && strings.HasSuffix(t.Name, "assignmentBuilder).hasNotationUnder") && isLHS(t.Args[len(t.Args)-1])
		})
		refused := true
		searches := 0
		for _, s := range append(c.CallsIn(dm, fnIterMethods, false), c.CallsIn(dm, fnIterFields, false)...) {
			searches++
			if d := c.ReachOf(s.Instr); !d.Implies(notPtr, notStructBelow, noNotation) {
				refused = false
			}
		}
		refused = refused && searches > 0
		if refused {
			// … and the refused combination ends in an error, not in a silent nothing
			hasNotation := c.M(true, func(t *core.Term) bool {
				return t.Kind == "call" && strings.HasSuffix(t.Name, "assignmentBuilder).hasNotationUnder") && isLHS(t.Args[len(t.Args)-1])
			})
			nr := 0
			for _, ret := range core.Returns(dm) {
				d := c.ReachOf(ret)
				if len(d) == 0 || !d.Implies(hasNotation) || len(ret.Results) != 2 {
					continue
				}
				if !d.Implies(c.M(true, func(t *core.Term) bool { return t.IsCallTo(fnIsPtr) && typeOfLHS(t.Args[0]) })) {
					continue
				}
				nr++
				if !c.O.Of(ret.Results[1]).IsCallTo(fnErrorf) {
					refused = false
				}
			}
			refused = refused && nr >= 1
		}
		for _, af := range dm.AnonFuncs {
			for _, s := range c.CallsIn(af, fnIsStruct, false) {
				a := c.O.Of(s.Args()[0])
				if !a.IsCallTo(invExprType) && !(a.Kind == "invoke" && a.Name == invExprType) {
					if !(a.IsCallTo(fnDerefPtr)) {
						continue
					}
				}
				n++
				if n > 1 {
					continue // one finding per handler: the first test stands for all
				}
				r.Check(rule, "candidate-handler-of-the-default-matcher:descent-sees-through-pointers", c.Pos(s.Pos()), a.IsCallTo(fnDerefPtr) || refused, "member-wise descent is decided on "+a.String()+" without DerefPtr, and the default matcher does not refuse notations below a pointer-held struct")
			}
		}
	}
	r.Floor(rule, "struct tests in candidate handlers", n, 1)
}

// addressOfRule (C01): & only in front of addressable operands.
func (c *Ctx) addressOfRule(rule string) {
	r := c.R
	r.Rule(rule, "ConverterNode.AssignExpr puts `&` in front of its argument whenever the converter takes a pointer and the argument is not one; the builder therefore creates such a converter node (the path that casts to the pointed-to type) only for an addressable argument – isAddressable: a root variable or a field selection, decided by the node's concrete type – never for a getter result, a conversion or a String() call (`f(&src.Price())` does not compile)")
	n := 0
	for _, s := range c.CallsTo(pBM + "NewConverterNode") {
		if p := pkgOf(s.Fn); p == nil || p.Path() != mod+"/pkg/builder" {
			continue
		}
		n++
		// the argument is a φ of the direct cast and of the cast to the pointed-to type; the latter edge needs addressability
		arg := s.Args()[0]
		okAll := true
		found := false
		for _, cs := range c.Reach(s.Fn).Cases(arg) {
			t := c.O.Of(cs.V)
			if !t.Contains(func(x *core.Term) bool { return x.IsCallTo(fnDerefPtr) }) {
				continue // direct cast: the argument already has the parameter's type
			}
			found = true
			cond := cs.Cond
			if cond == nil {
				cond = c.ReachOf(s.Instr)
			} else {
				cond = core.And(cond, c.ReachOf(s.Instr))
			}
			addr := c.M(true, func(x *core.Term) bool { return x.Kind == "call" && strings.HasSuffix(x.Name, "isAddressable") })
			if !cond.Implies(addr) {
				okAll = false
			}
		}
		r.Check(rule, sprintf("%s:NewConverterNode%d:address-of-addressable-only", FnKey(s.Fn), n), c.Pos(s.Pos()), found && okAll, "a converter node whose argument needs `&` is built without testing that the argument is addressable")
	}
	r.Floor(rule, "NewConverterNode sites in the builder", n, 1)
	if fn := c.MustFunc(rule, "/pkg/builder", "isAddressable"); fn != nil {
		// decided by the node's concrete type: root, scalar or field node
		kinds := map[string]bool{}
		for _, b := range fn.Blocks {
			for _, in := range b.Instrs {
				if ta, ok := in.(*ssa.TypeAssert); ok {
					kinds[core.ShortType(ta.AssertedType)] = true
				}
			}
		}
		okK := kinds["model.RootNode"] && kinds["model.StructFieldNode"] && !kinds["model.StructMethodNode"] && !kinds["model.TypecastEntry"] && !kinds["model.StringerEntry"] && !kinds["model.ConverterNode"]
		r.Check(rule, FnKey(fn)+":kinds", c.Pos(fn.Pos()), okK, sprintf("isAddressable must accept root and field nodes and no call-like node, tests %v", sortedKeys(kinds)))
	}
}

// foreignTypeRule (C01): a type of a package the setup file does not import is not rendered as if it were local.
func (c *Ctx) foreignTypeRule(rule string) {
	r := c.R
	r.Rule(rule, "ImportNames.TypeName knows the import table only: `not in the table` covers the setup file's own package and every package the setup file does not import alike (time.Time reached through a field of an imported struct would be written `Time`). Type text that the builder puts into emitted statements therefore comes from a renderer that knows the package being generated – types.TypeString with a qualifier that answers \"\" only under ¬isExternalPkg(p) or for the table name \".\", the table name when the path is in the table, and p.Name() otherwise (the import optimizer resolves it, as for conversions) – and ImportNames.TypeName is called in pkg/builder only for diagnostics (logger arguments) and for the types written in the method's own signature (createVar)")
	// own-package-aware renderers
	renderers := map[string]bool{}
	for _, fn := range c.P.Funcs() {
		if p := pkgOf(fn); p == nil || p.Path() != mod+"/pkg/builder" {
			continue
		}
		rets := core.Returns(fn)
		if len(rets) != 1 || len(rets[0].Results) != 1 {
			continue
		}
		t := c.O.Of(rets[0].Results[0])
		if !t.IsCallTo("go/types.TypeString") || t.Args[0].Kind != "param" || t.Args[1].Kind != "closure" {
			continue
		}
		for _, af := range fn.AnonFuncs {
			if !strings.HasSuffix(t.Args[1].Name, af.Name()) || len(af.Params) != 1 {
				continue
			}
			p := "param:" + af.Params[0].Name()
			external := func(x *core.Term) bool { return x.IsCallTo(fnIsExternalPkg) && x.Args[1].String() == p }
			lookup := func(x *core.Term) bool {
				return x.Kind == "call" && strings.HasSuffix(x.Name, "ImportNames).LookupName") && x.Args[1].IsCallTo("(*go/types.Package).Path") && x.Args[1].Args[0].String() == p
			}
			found := func(x *core.Term) bool { return x.Kind == "extract" && x.Name == "1" && lookup(x.Args[0]) }
			tableName := func(x *core.Term) bool { return x.Kind == "extract" && x.Name == "0" && lookup(x.Args[0]) }
			ok := true
			n := 0
			for _, qr := range core.Returns(af) {
				n++
				qt := c.O.Of(qr.Results[0])
				qd := c.ReachOf(qr)
				switch {
				case qt.Is("const", `""`):
					ok = ok && qd.Implies(c.M(false, external), c.M(true, eqConst(tableName, `"."`)))
				case tableName(qt):
					ok = ok && qd.Implies(c.M(true, found)) && qd.Implies(c.M(false, eqConst(tableName, `"."`))) && qd.Implies(c.M(true, external))
				case qt.IsCallTo("(*go/types.Package).Name") && qt.Args[0].String() == p:
					ok = ok && qd.Implies(c.M(false, found)) && qd.Implies(c.M(true, external))
				default:
					ok = false
				}
			}
			r.Check(rule, FnKey(af)+":qualifier", c.Pos(af.Pos()), ok && n >= 3, "the qualifier must answer \"\" only for the package being generated (¬isExternalPkg) or a dot import, the table name for an imported path, and the package's own name otherwise")
			if ok && n >= 3 {
				renderers[fn.String()] = true
			}
		}
	}
	r.Check(rule, "own-package-aware-renderer", "pkg/builder", len(renderers) > 0, "pkg/builder has no type renderer that knows the package being generated: type text in emitted statements comes from ImportNames.TypeName, for which `not in the import table` means `local` – a named type of a package the setup file does not import (slice elements `[]time.Time` of an imported struct) is rendered without qualifier (`make([]Time, …)`): exit 0, output does not compile")
	// uses of the table-only renderer in the builder
	n := 0
	for _, s := range c.CallsTo("(" + pUtil + "ImportNames).TypeName") {
		if p := pkgOf(s.Fn); p == nil || p.Path() != mod+"/pkg/builder" {
			continue
		}
		n++
		v, isV := s.Instr.(ssa.Value)
		ok := strings.HasSuffix(FnKey(s.Fn), ".createVar") || (isV && feedsOnlyLogger(v, 0))
		r.Check(rule, sprintf("%s:TypeName%d:diagnostics-or-signature", FnKey(s.Fn), n), c.Pos(s.Pos()), ok, "ImportNames.TypeName – which cannot tell the package being generated from a package that is not imported – feeds something other than a diagnostic or the method's own signature")
	}
	r.Floor(rule, "ImportNames.TypeName calls in the builder", n, 1)
}

// feedsOnlyLogger: every use of the value ends as an argument of a pkg/logger function.
func feedsOnlyLogger(v ssa.Value, depth int) bool {
	if depth > 6 || v.Referrers() == nil {
		return false
	}
	uses := 0
	for _, rf := range *v.Referrers() {
		switch x := rf.(type) {
		case *ssa.DebugRef:
		case *ssa.MakeInterface:
			uses++
			if !feedsOnlyLogger(x, depth+1) {
				return false
			}
		case *ssa.Store:
			uses++
			ia, ok := x.Addr.(*ssa.IndexAddr)
			if !ok || x.Val != v {
				return false
			}
			arr, ok := ia.X.(*ssa.Alloc)
			if !ok || arr.Referrers() == nil {
				return false
			}
			for _, ar := range *arr.Referrers() {
				if sl, isSlice := ar.(*ssa.Slice); isSlice && !feedsOnlyLogger(sl, depth+1) {
					return false
				}
			}
		case *ssa.Call:
			uses++
			if !strings.HasPrefix(core.CalleeName(&x.Call), pLog) {
				return false
			}
		default:
			return false
		}
	}
	return uses > 0
}
