package rules

// Shape rules for the type-name renderer and the matcher delegations (added while round 3 was running; evaluated
// blind against the round3-baseline checker first).

import (
	"strings"

	"cvcheck/internal/core"

	"golang.org/x/tools/go/ssa"
)

// typeNameRule: ImportNames.TypeName renders every type shape as documented.
func (c *Ctx) typeNameRule(rule string) {
	r := c.R
	r.Rule(rule, "ImportNames.TypeName(t): *T → \"*\"+TypeName(T); basic → its name; named without package (universe) → bare name; named whose package path is in the import table → <table name>.<Name>; other named → bare name; anything else → types.TypeString with a qualifier that answers the table name for imported paths and \"\" otherwise; IsExternal(t) ⇔ named ∧ package path in the table")
	fn := c.MustMethod(rule, "/pkg/util", "ImportNames", "TypeName")
	if fn == nil {
		return
	}
	tparam := "param:" + fn.Params[1].Name()
	assert := func(typ string) func(*core.Term) bool {
		return func(t *core.Term) bool {
			return t.Kind == "extract" && t.Name == "1" && t.Args[0].Kind == "typeassert,ok" && t.Args[0].Name == typ && t.Args[0].Args[0].String() == tparam
		}
	}
	objName := func(t *core.Term) bool {
		return t.Kind == "call" && strings.HasSuffix(t.Name, ").Name") && t.Contains(func(s *core.Term) bool { return s.IsCallTo("(*go/types.Named).Obj") })
	}
	pkgOfObj := func(t *core.Term) bool {
		return t.Kind == "call" && strings.HasSuffix(t.Name, ").Pkg") && t.Contains(func(s *core.Term) bool { return s.IsCallTo("(*go/types.Named).Obj") })
	}
	tableLookup := func(t *core.Term) bool { // imports[Obj().Pkg().Path()]
		return (t.Kind == "lookup,ok" || t.Kind == "lookup") && t.Args[1].IsCallTo("(*go/types.Package).Path") && pkgOfObj(t.Args[1].Args[0])
	}
	seen := map[string]bool{}
	for i, ret := range core.Returns(fn) {
		d := c.ReachOf(ret)
		t := c.O.Of(ret.Results[0])
		k := sprintf("%s:return%d", FnKey(fn), i+1)
		switch {
		case d.Implies(c.M(true, assert("*types.Pointer"))):
			seen["pointer"] = true
			ok := t.Kind == "binop" && t.Name == "+" && t.Args[0].Is("const", `"*"`) && t.Args[1].IsCallTo("("+pUtil+"ImportNames).TypeName") &&
				t.Args[1].Args[1].IsCallTo("(*go/types.Pointer).Elem")
			r.Check(rule, k+":pointer", c.InstrPos(ret), ok, "a pointer type must render as \"*\" + TypeName(elem), got "+t.String())
		case d.Implies(c.M(true, assert("*types.Basic"))):
			seen["basic"] = true
			r.Check(rule, k+":basic", c.InstrPos(ret), t.IsCallTo("(*go/types.Basic).Name"), "a basic type must render as its name, got "+t.String())
		case d.Implies(c.M(true, assert("*types.Named"))):
			switch {
			case d.Implies(c.M(true, isNilCmp(pkgOfObj))):
				seen["universe"] = true
				r.Check(rule, k+":universe", c.InstrPos(ret), objName(t), "a package-less named type must render as its bare name, got "+t.String())
			case d.Implies(c.M(true, func(x *core.Term) bool { return x.Kind == "extract" && x.Name == "1" && tableLookup(x.Args[0]) })):
				seen["imported"] = true
				ok := false
				if t.IsCallTo("fmt.Sprintf") && t.Args[0].Is("const", `"%v.%v"`) {
					a0 := c.varargAt(ret.Results[0].(*ssa.Call).Call.Args[1], 0)
					a1 := c.varargAt(ret.Results[0].(*ssa.Call).Call.Args[1], 1)
					ok = a0 != nil && a1 != nil && a0.Kind == "extract" && a0.Name == "0" && tableLookup(a0.Args[0]) && objName(a1)
				} else if t.Kind == "binop" {
					ok = t.Contains(func(s *core.Term) bool { return s.Kind == "extract" && s.Name == "0" && tableLookup(s.Args[0]) }) && t.Contains(objName) && t.Contains(func(s *core.Term) bool { return s.Is("const", `"."`) })
				}
				r.Check(rule, k+":imported", c.InstrPos(ret), ok, "a named type of an imported package must render as <name in the import table>.<type name>, got "+t.String())
			default:
				seen["local"] = true
				r.Check(rule, k+":local", c.InstrPos(ret), objName(t) && d.Implies(c.M(false, func(x *core.Term) bool { return x.Kind == "extract" && x.Name == "1" && tableLookup(x.Args[0]) })),
					"a named type whose package is not in the import table must render as its bare name (only on the not-found edge of the table lookup), got "+t.String())
			}
		default:
			seen["composite"] = true
			ok := t.IsCallTo("go/types.TypeString") && t.Args[0].String() == tparam && t.Args[1].Kind == "closure"
			r.Check(rule, k+":composite", c.InstrPos(ret), ok, "composite types must render through types.TypeString(t, <qualifier from the import table>), got "+t.String())
			if ok {
				for _, af := range fn.AnonFuncs {
					if !strings.HasSuffix(t.Args[1].Name, af.Name()) {
						continue
					}
					okQ := true
					nq := 0
					for _, qr := range core.Returns(af) {
						nq++
						qt := c.O.Of(qr.Results[0])
						qd := c.ReachOf(qr)
						found := func(x *core.Term) bool {
							return x.Kind == "extract" && x.Name == "1" && x.Args[0].Kind == "lookup,ok" && x.Args[0].Args[1].IsCallTo("(*go/types.Package).Path") && x.Args[0].Args[1].Args[0].Kind == "param"
						}
						switch {
						case qd.Implies(c.M(true, found)):
							okQ = okQ && qt.Kind == "extract" && qt.Name == "0" && qt.Args[0].Kind == "lookup,ok"
						case qd.Implies(c.M(false, found)):
							okQ = okQ && qt.Is("const", `""`)
						default:
							okQ = false
						}
					}
					r.Check(rule, FnKey(af)+":qualifier", c.Pos(af.Pos()), okQ && nq == 2, "the qualifier must answer imports[p.Path()] when present and \"\" otherwise")
				}
			}
		}
	}
	for _, want := range []string{"pointer", "basic", "universe", "imported", "local", "composite"} {
		r.Check(rule, FnKey(fn)+":covers:"+want, c.Pos(fn.Pos()), seen[want], "TypeName has no branch for "+want+" types")
	}
	if ie := c.MustMethod(rule, "/pkg/util", "ImportNames", "IsExternal"); ie != nil {
		rc := c.Reach(ie)
		tr := rc.RetCond(0, true)
		okT := len(tr) > 0 && tr.Implies(c.M(true, func(x *core.Term) bool {
			return x.Kind == "extract" && x.Name == "1" && x.Args[0].Kind == "lookup,ok" && x.Args[0].Args[1].IsCallTo("(*go/types.Package).Path")
		}))
		// the lookup result may be returned directly: `_, ok := i[path]; return ok`
		if !okT {
			okT = true
			n := 0
			for _, ret := range core.Returns(ie) {
				t := c.O.Of(ret.Results[0])
				if t.Is("const", "false") {
					continue
				}
				n++
				if !(t.Kind == "extract" && t.Name == "1" && t.Args[0].Kind == "lookup,ok" && t.Args[0].Args[1].IsCallTo("(*go/types.Package).Path")) {
					okT = false
				}
			}
			okT = okT && n >= 1
		}
		r.Check(rule, FnKey(ie)+":true⇒path-in-table", c.Pos(ie.Pos()), okT, "IsExternal must answer whether the type's package path is in the import table")
	}
}

// importTableRule: NewImportNames fills the table as documented.
func (c *Ctx) importTableRule(rule string) {
	r := c.R
	r.Rule(rule, "NewImportNames: every spec is entered under its path with the quotes stripped; the name is the spec's explicit name when present, otherwise the last path element")
	fn := c.MustFunc(rule, "/pkg/util", "NewImportNames")
	if fn == nil {
		return
	}
	n := 0
	for _, b := range fn.Blocks {
		for _, in := range b.Instrs {
			mu, ok := in.(*ssa.MapUpdate)
			if !ok {
				continue
			}
			lp := loopOf(b)
			if lp == nil {
				continue
			}
			key := c.O.Of(mu.Key)
			if !key.Contains(func(s *core.Term) bool { return s.IsField("ast.ImportSpec.Path") }) {
				continue // second pass over blank imports: keyed by a collected path
			}
			n++
			okKey := key.IsCallTo("strings.ReplaceAll") && key.Args[0].IsField("ast.BasicLit.Value") && key.Args[1].Is("const", `"\""`) && key.Args[2].Is("const", `""`)
			if !okKey {
				okKey = key.IsCallTo("strconv.Unquote") || (key.Kind == "extract" && key.Args[0].IsCallTo("strconv.Unquote")) || key.IsCallTo("strings.Trim")
			}
			r.Check(rule, FnKey(fn)+":key", c.InstrPos(mu), okKey, "the table key must be the import path without its quotes, got "+key.String())
			okVal := true
			explicit, derived := false, false
			for _, cs := range c.Reach(fn).Cases(mu.Value) {
				t := c.OfInl(cs.V) // a helper returning the last path element is read through
				hasName := func(x *core.Term) bool {
					return x.Kind == "binop" && x.Name == "==" && (x.Args[0].IsField("ast.ImportSpec.Name") || x.Args[1].IsField("ast.ImportSpec.Name"))
				}
				cond := cs.Cond
				if cond == nil {
					cond = c.ReachOf(mu)
				}
				switch {
				case t.IsField("ast.Ident.Name") && t.Args[0].IsField("ast.ImportSpec.Name"):
					explicit = true
					okVal = okVal && cond.Implies(c.M(false, hasName))
				case t.Kind == "slice" && t.Args[1].Kind == "binop" && t.Args[1].Name == "+" && t.Args[1].Args[0].IsCallTo("strings.LastIndex") && t.Args[1].Args[1].Is("const", "1"):
					derived = true
					okVal = okVal && cond.Implies(c.M(true, hasName)) && t.Args[1].Args[0].Args[1].Is("const", `"/"`)
				case t.IsCallTo("path.Base"):
					derived = true
				default:
					okVal = false
				}
			}
			r.Check(rule, FnKey(fn)+":name", c.InstrPos(mu), okVal && explicit && derived, "the entered name must be spec.Name.Name when the spec has a name and path[LastIndex(path, \"/\")+1:] otherwise")
		}
	}
	r.Floor(rule, "first-pass table updates", n, 1)
}

// matcherDelegationRule: the wrappers around IdentMatcher.Match hand their operands through unmodified.
func (c *Ctx) matcherDelegationRule(rule string) {
	r := c.R
	r.Rule(rule, "matcher wrappers: NameMatcher.Match = src.Match(src, ec) ∧ dst.Match(dst, ec); LiteralSetter.Match = dst.Match(dst, ec); FieldConverter.Match = m.Match(src, dst, true) – each operand and the case rule passed on unmodified to the component of the same role")
	type spec struct {
		typ    string
		fields map[string]int // matcher field → index of the parameter it must receive
	}
	for _, sp := range []spec{
		{"NameMatcher", map[string]int{"option.NameMatcher.src": 1, "option.NameMatcher.dst": 2}},
		{"LiteralSetter", map[string]int{"option.LiteralSetter.dst": 1}},
	} {
		fn := c.MustMethod(rule, "/pkg/option", sp.typ, "Match")
		if fn == nil {
			continue
		}
		ec := fn.Params[len(fn.Params)-1]
		seen := map[string]bool{}
		for _, s := range c.CallsIn(fn, fnIdentMatch, false) {
			recv := c.O.Of(s.Args()[0])
			want, known := sp.fields[recv.Name]
			if recv.Kind != "field" || !known {
				r.Check(rule, FnKey(fn)+":receiver", c.Pos(s.Pos()), false, "unexpected matcher component "+recv.String())
				continue
			}
			seen[recv.Name] = true
			ok := s.Args()[1] == ssa.Value(fn.Params[want]) && s.Args()[2] == ssa.Value(ec)
			r.Check(rule, FnKey(fn)+":"+recv.Name, c.Pos(s.Pos()), ok, "component "+recv.Name+" must be asked with parameter "+fn.Params[want].Name()+" and the unmodified case rule, got ("+c.O.Of(s.Args()[1]).String()+", "+c.O.Of(s.Args()[2]).String()+")")
		}
		for f := range sp.fields {
			r.Check(rule, FnKey(fn)+":asks:"+f, c.Pos(fn.Pos()), seen[f], "component "+f+" is never consulted")
		}
		// result true ⇒ every component matched
		tr := c.Reach(fn).RetCond(0, true)
		for f := range sp.fields {
			ff := f
			r.Check(rule, FnKey(fn)+":true⇒"+ff, c.Pos(fn.Pos()), len(tr) > 0 && tr.Implies(c.M(true, func(t *core.Term) bool {
				return t.IsCallTo(fnIdentMatch) && t.Args[0].IsField(ff)
			})), "Match can answer true without component "+ff+" having matched; true-condition: "+tr.Describe(c.O))
		}
	}
}
