package rules

import (
	"strings"

	"cvcheck/internal/core"

	"golang.org/x/tools/go/ssa"
)

func hasCaseMapping(t *core.Term) bool {
	return t.Contains(func(s *core.Term) bool {
		if s.Kind != "call" {
			return false
		}
		switch s.Name {
		case "strings.ToLower", "strings.ToUpper", "strings.Title", "strings.ToTitle", "strings.ToLowerSpecial", "strings.ToUpperSpecial",
			"unicode.ToLower", "unicode.ToUpper", "unicode.ToTitle", "unicode.SimpleFold", "bytes.ToLower", "bytes.ToUpper", "strings.Map":
			return true
		}
		return false
	})
}

// C19 — matchers implement equality, case folding and RE2 search.
func C19(c *Ctx) {
	r := c.R
	r.Explanation = "Decided for all (pattern, path, rule) triples as far as the shape of the code shows it: name comparison is `==` under the case rule and strings.EqualFold (Unicode simple folding) otherwise, on the unmodified operands; " +
		"the text given to regexp.Compile is never the result of a case-mapping function (which would change the meaning of \\S, \\W, \\pL …) and neither is the subject of MatchString; case-insensitivity is obtained only by the `(?i)` flag, chosen by the case rule; " +
		"a plain pattern is compiled as ^QuoteMeta(pattern)$ and a /re/ pattern as its inner text; the compiled expression cached in a PatternMatcher is always the one compiled for the case rule recorded next to it, and a query under another rule recompiles before matching."
	r.NotDecided = "agreement of Go's regexp with RE2 for every pattern; Unicode folding corner cases inside the regexp engine."

	r.Rule("C19-1", "IdentMatcher.Match(ident, exactCase) = (exactCase ? pattern == ident : strings.EqualFold(pattern, ident)); Options.CompareFieldName likewise on Options.ExactCase")
	if fn := c.MustMethod("C19-1", "/pkg/option", "IdentMatcher", "Match"); fn != nil {
		c.caseSplitEquality("C19-1", fn, "", "")
	}
	if fn := c.MustMethod("C19-1", "/pkg/option", "Options", "CompareFieldName"); fn != nil {
		c.caseSplitEquality("C19-1", fn, fldExactCase, "")
	}

	c.matcherDelegationRule("C19-5")

	r.Rule("C19-2", "no case-mapping function (strings.ToLower/ToUpper/Title, unicode.To*) feeds the text of regexp.Compile/MustCompile or the subject of Regexp.MatchString in pkg/option; the subject is the unmodified identifier parameter")
	n := 0
	for _, s := range c.Calls(func(n string) bool {
		return n == "regexp.Compile" || n == "regexp.MustCompile" || n == "regexp.CompilePOSIX" || n == "(*regexp.Regexp).MatchString" || n == "regexp.MatchString"
	}) {
		if s.Fn.Pkg == nil || s.Fn.Pkg.Pkg.Path() != mod+"/pkg/option" {
			continue
		}
		n++
		args := s.Args()
		text := args[0]
		if strings.HasSuffix(s.Callee, "MatchString") {
			text = args[len(args)-1]
		}
		t := c.O.Of(text)
		key := FnKey(s.Fn) + ":" + shortCallee(s.Callee)
		r.Check("C19-2", key+":no-case-mapping", c.Pos(s.Pos()), !hasCaseMapping(t), "a case-mapped string reaches "+s.Callee+": lower-casing a pattern turns \\S into \\s, \\W into \\w and \\pL into an invalid class; lower-casing the subject breaks folding of non-ASCII letters; got "+t.String())
		if s.Callee == "(*regexp.Regexp).MatchString" {
			r.Check("C19-2", key+":subject-unmodified", c.Pos(s.Pos()), t.Kind == "param", "the matched subject must be the identifier as given, got "+t.String())
		}
	}
	r.Floor("C19-2", "regexp compile/match sites in pkg/option", n, 2)

	r.Rule("C19-3", "the expression handed to regexp.Compile is chosen by the case rule: `(?i)`+X exactly when exactCase is false, X otherwise; X is pattern[1:len-1] for /…/ patterns and \"^\"+QuoteMeta(pattern)+\"$\" otherwise")
	for _, s := range c.CallsTo("regexp.Compile") {
		if s.Fn.Pkg == nil || s.Fn.Pkg.Pkg.Path() != mod+"/pkg/option" {
			continue
		}
		fn := s.Fn
		key := FnKey(fn)
		rc := c.Reach(fn)
		// the case-rule operand: a bool parameter
		var flag string
		for _, p := range fn.Params {
			if p.Type().String() == "bool" {
				flag = "param:" + p.Name()
			}
		}
		if flag == "" {
			r.Undecided("C19-3", key, "no bool case-rule parameter")
			continue
		}
		cases := rc.Cases(s.Args()[0])
		nI, nE := 0, 0
		for i, cs := range cases {
			t := c.O.Of(cs.V)
			k := sprintf("%s:case%d", key, i+1)
			insens := cs.Cond != nil && cs.Cond.Implies(c.M(false, termEq(flag)))
			exact := cs.Cond != nil && cs.Cond.Implies(c.M(true, termEq(flag)))
			var inner []core.ValueCase
			switch {
			case insens && !exact:
				nI++
				ok := t.Kind == "binop" && t.Name == "+" && t.Args[0].Is("const", `"(?i)"`)
				r.Check("C19-3", k+":insensitive-flag", c.Pos(s.Pos()), ok, "with the case rule off the expression must be \"(?i)\" + X, got "+t.String())
				if ok {
					inner = rc.Cases(cs.V.(*ssa.BinOp).Y)
				}
			case exact && !insens:
				nE++
				r.Check("C19-3", k+":exact-no-flag", c.Pos(s.Pos()), !t.Contains(func(x *core.Term) bool { return x.Kind == "const" && strings.Contains(x.Name, "(?i") }), "under the exact-case rule the expression must not carry (?i): "+t.String())
				inner = []core.ValueCase{{V: cs.V, Cond: cs.Cond}}
			default:
				r.Check("C19-3", k+":controlled", c.Pos(s.Pos()), false, "the compiled expression is not chosen by the case rule; condition: "+cs.Cond.Describe(c.O))
			}
			for j, ic := range inner {
				it := c.O.Of(ic.V)
				kk := sprintf("%s:x%d", k, j+1)
				slash := func(t *core.Term) bool {
					return t.IsCallTo("strings.HasPrefix") && t.Args[0].Kind == "param" && t.Args[1].Is("const", `"/"`)
				}
				cond := ic.Cond
				if cond == nil {
					cond = cs.Cond
				}
				isSlash := cond.Implies(c.M(true, slash))
				if isSlash {
					ok := it.Kind == "slice" && it.Args[0].Kind == "param" && it.Args[1].Is("const", "1") &&
						it.Args[2].Kind == "binop" && it.Args[2].Name == "-" && it.Args[2].Args[0].IsCallTo("builtin:len") && it.Args[2].Args[1].Is("const", "1")
					if !ok {
						// TrimSuffix(TrimPrefix(p, "/"), "/") (either nesting) strips exactly the two delimiters when len(p) ≥ 2
						trim := func(x *core.Term, a, b string) bool {
							return x.IsCallTo("strings."+a) && x.Args[1].Is("const", `"/"`) && x.Args[0].IsCallTo("strings."+b) && x.Args[0].Args[1].Is("const", `"/"`) && x.Args[0].Args[0].Kind == "param"
						}
						long := cond.Implies(c.atLeast(func(x *core.Term) bool { return x.IsCallTo("builtin:len") && x.Args[0].Kind == "param" }, 2))
						ok = (trim(it, "TrimSuffix", "TrimPrefix") || trim(it, "TrimPrefix", "TrimSuffix")) && long
					}
					suffix := cond.Implies(c.M(true, func(t *core.Term) bool { return t.IsCallTo("strings.HasSuffix") && t.Args[1].Is("const", `"/"`) }))
					r.Check("C19-3", kk+":regexp-form", c.Pos(s.Pos()), ok && suffix, "a /…/ pattern (prefix and suffix `/`) must compile its inner text pattern[1:len-1], got "+it.String())
				} else {
					ok := it.IsCallTo("fmt.Sprintf") && it.Args[0].Is("const", `"^%v$"`)
					if ok {
						a := c.varargAt(ic.V.(*ssa.Call).Call.Args[1], 0)
						ok = a != nil && a.IsCallTo("regexp.QuoteMeta") && a.Args[0].Kind == "param"
					}
					if !ok && it.Kind == "binop" {
						// "^" + QuoteMeta(p) + "$"
						ok = it.Contains(func(x *core.Term) bool { return x.IsCallTo("regexp.QuoteMeta") && x.Args[0].Kind == "param" }) &&
							it.Contains(func(x *core.Term) bool { return x.Is("const", `"^"`) }) && it.Contains(func(x *core.Term) bool { return x.Is("const", `"$"`) })
					}
					r.Check("C19-3", kk+":plain-form", c.Pos(s.Pos()), ok, "a plain pattern must compile to ^QuoteMeta(pattern)$ (anchored, metacharacters quoted), got "+it.String())
				}
			}
		}
		r.Check("C19-3", key+":both-rules", c.Pos(s.Pos()), nI >= 1 && nE >= 1, "expected one expression per case rule")
	}

	r.Rule("C19-4", "PatternMatcher cache: every value put into field re is compileRegexp(<the matcher's pattern>, X) and the same X is recorded in field exactCase next to it; MatchString on the cached expression is reached only if the recorded rule equals the queried rule or the cache was just refreshed for the queried rule")
	pm := c.MustType("C19-4", "/pkg/option", "PatternMatcher")
	if pm == nil {
		return
	}
	compiled := func(t *core.Term) (pattern, rule *core.Term, ok bool) {
		if t.Kind == "extract" && t.Name == "0" && t.Args[0].IsCallTo(pOpt+"compileRegexp") {
			return t.Args[0].Args[0], t.Args[0].Args[1], true
		}
		return nil, nil, false
	}
	nst := 0
	for _, a := range c.Lits(pm) {
		nst++
		f := LitFields(a)
		key := FnKey(a.Parent()) + ":literal"
		var reT, patT, ruleT *core.Term
		if v := f["re"]; v != nil {
			reT = c.O.Of(v)
		}
		if v := f["pattern"]; v != nil {
			patT = c.O.Of(v)
		}
		if v := f["exactCase"]; v != nil {
			ruleT = c.O.Of(v)
		}
		ok := false
		if reT != nil && patT != nil && ruleT != nil {
			if p, x, isC := compiled(reT); isC {
				ok = p.String() == patT.String() && x.String() == ruleT.String()
			}
		}
		r.Check("C19-4", key+":consistent", c.InstrPos(a), ok, "a new matcher must hold re = compileRegexp(pattern, exactCase) for the very pattern and rule it records")
	}
	goodRefresh := map[*ssa.BasicBlock]*core.Term{} // block -> rule term X for which re was refreshed
	for _, fn := range c.P.Funcs() {
		for _, b := range fn.Blocks {
			for _, in := range b.Instrs {
				st, ok := in.(*ssa.Store)
				if !ok {
					continue
				}
				fa, ok := st.Addr.(*ssa.FieldAddr)
				if !ok || isFreshBase(fa.X) || core.FieldName(fa.X.Type(), fa.Field) != "option.PatternMatcher.re" {
					continue
				}
				nst++
				key := FnKey(fn) + ":store-re"
				p, x, isC := compiled(c.O.Of(st.Val))
				if !isC {
					// value may come through a local: re, err := compileRegexp(...)
					r.Check("C19-4", key+":compiled", c.InstrPos(st), false, "field re is set to something other than compileRegexp(pattern, rule): "+c.O.Of(st.Val).String())
					continue
				}
				okP := p.IsField("option.PatternMatcher.pattern")
				r.Check("C19-4", key+":own-pattern", c.InstrPos(st), okP, "the cache is refreshed from a pattern other than the matcher's own: "+p.String())
				// paired store of exactCase in the same block with the same X
				paired := false
				for _, in2 := range b.Instrs {
					if st2, ok := in2.(*ssa.Store); ok {
						if fa2, ok := st2.Addr.(*ssa.FieldAddr); ok && core.FieldName(fa2.X.Type(), fa2.Field) == "option.PatternMatcher.exactCase" && fa2.X == fa.X {
							if c.O.Of(st2.Val).String() == x.String() {
								paired = true
							}
						}
					}
				}
				r.Check("C19-4", key+":rule-recorded", c.InstrPos(st), paired, "the expression is compiled for rule "+x.String()+" but that same rule is not recorded in exactCase next to it: later queries would trust a stale expression")
				if okP && paired {
					goodRefresh[b] = x
				}
			}
		}
	}
	// stores to exactCase without a refresh
	for _, fn := range c.P.Funcs() {
		for _, b := range fn.Blocks {
			for _, in := range b.Instrs {
				st, ok := in.(*ssa.Store)
				if !ok {
					continue
				}
				fa, ok := st.Addr.(*ssa.FieldAddr)
				if !ok || isFreshBase(fa.X) || core.FieldName(fa.X.Type(), fa.Field) != "option.PatternMatcher.exactCase" {
					continue
				}
				_, ok = goodRefresh[b]
				r.Check("C19-4", FnKey(fn)+":store-exactCase", c.InstrPos(st), ok, "the recorded case rule changes without the cached expression being recompiled for it in the same step")
			}
		}
	}
	r.Floor("C19-4", "constructions / refreshes of the cached expression", nst, 2)
	for _, s := range c.CallsTo("(*regexp.Regexp).MatchString") {
		recv := c.O.Of(s.Args()[0])
		if !recv.IsField("option.PatternMatcher.re") {
			continue
		}
		fn := s.Fn
		key := FnKey(fn) + ":use-cache"
		var q string
		for _, p := range fn.Params {
			if p.Type().String() == "bool" {
				q = "param:" + p.Name()
			}
		}
		if q == "" {
			r.Undecided("C19-4", key, "no queried case-rule parameter")
			continue
		}
		blocked := map[*ssa.BasicBlock]bool{}
		for b, x := range goodRefresh {
			if b.Parent() == fn && x.String() == q {
				blocked[b] = true
			}
		}
		av := c.ReachAvoid(fn, blocked)
		d := av.At(s.Instr.Block())
		same := func(l core.Lit) bool {
			t, pos := c.Canon(l)
			if !pos || t.Kind != "binop" || t.Name != "==" {
				return false
			}
			a, b := t.Args[0], t.Args[1]
			return (a.IsField("option.PatternMatcher.exactCase") && b.String() == q) || (b.IsField("option.PatternMatcher.exactCase") && a.String() == q)
		}
		r.Check("C19-4", key, c.Pos(s.Pos()), d.Implies(same), "the cached expression can be used for a query whose case rule differs from the recorded one without a refresh for the queried rule; reach avoiding a proper refresh: "+d.Describe(c.O))
	}
}
