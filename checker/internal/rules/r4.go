package rules

// Rules written after the second batch of repairs of round 5 (F47–F57): each states the obligation whose absence was
// the defect, reports it on the tree before the repair and holds after it.

import (
	"fmt"
	"go/types"
	"sort"
	"strings"

	"cvcheck/internal/core"

	"golang.org/x/tools/go/ssa"
)

// withLit keeps the conjuncts of d that carry a literal satisfying m.
func withLit(d core.DNF, m core.LitMatcher) core.DNF {
	var out core.DNF
	for _, cj := range d {
		for _, l := range cj {
			if m(l) {
				out = append(out, cj)
				break
			}
		}
	}
	return out
}

// failing describes the first conjunct of d in which no literal satisfies any of the matchers.
func (c *Ctx) failing(d core.DNF, ms ...core.LitMatcher) string {
	for _, cj := range d {
		hit := false
		for _, l := range cj {
			for _, m := range ms {
				if m(l) {
					hit = true
				}
			}
		}
		if !hit {
			return core.DNF{cj}.Describe(c.O)
		}
	}
	return ""
}

// assertOK matches the ok result of a comma-ok type assertion to typ.
func assertOK(typ string) func(*core.Term) bool {
	return func(t *core.Term) bool {
		return t.Kind == "extract" && t.Name == "1" && t.Args[0].Kind == "typeassert,ok" && t.Args[0].Name == typ
	}
}

// nameablePredicates: functions of pkg/builder with a bool result whose answer `true` for a *types.Named argument implies
// that the type has no package, belongs to the current package, or is exported – the test that a type can be written here.
func (c *Ctx) nameablePredicates() []*ssa.Function {
	var out []*ssa.Function
	for _, fn := range c.P.Funcs() {
		if p := pkgOf(fn); p == nil || p.Path() != mod+"/pkg/builder" || fn.Signature.Results().Len() != 1 || fn.Signature.Results().At(0).Type().String() != "bool" {
			continue
		}
		hasType := false
		for _, p := range fn.Params {
			if p.Type().String() == "go/types.Type" {
				hasType = true
			}
		}
		if !hasType || len(fn.Blocks) == 0 {
			continue
		}
		tr := withLit(c.Reach(fn).RetCond(0, true), c.M(true, assertOK("*types.Named")))
		if len(tr) == 0 {
			continue
		}
		objPkg := func(t *core.Term) bool {
			return t.Kind == "call" && strings.HasSuffix(t.Name, ").Pkg") && t.Contains(func(s *core.Term) bool { return s.IsCallTo("(*go/types.Named).Obj") })
		}
		noPkg := c.M(true, isNilCmp(objPkg))
		local := c.M(false, func(t *core.Term) bool { return t.IsCallTo(fnIsExternalPkg) && objPkg(t.Args[1]) })
		exported := c.M(true, func(t *core.Term) bool {
			return t.Kind == "call" && strings.HasSuffix(t.Name, ").Exported") && t.Contains(func(s *core.Term) bool { return s.IsCallTo("(*go/types.Named).Obj") })
		})
		if tr.Implies(noPkg, local, exported) {
			out = append(out, fn)
		}
	}
	return out
}

// nameableRule (C01): a type is spelled out in emitted code only if it can be named in the generated package.
func (c *Ctx) nameableRule(rule string) {
	r := c.R
	r.Rule(rule, "type names in emitted code: a conversion T(x) (NewTypecast) and the slice copies (make([]E, …), E(e)) spell a type out; each is built only after a nameability test on that type answered true – a function that for a *types.Named answers true only if the type has no package, belongs to the current package or is exported, that answers true for a package the setup file does not import only if that package's own name is not the name of another import, and that looks into pointer, slice, array, channel and map types, parameters and results of func types, fields of struct types and type arguments (an unexported type of an imported package, `[]model.tag`, `[]chan model.event`, cannot be written here)")
	preds := c.nameablePredicates()
	r.Check(rule, "nameability-test-exists", "pkg/builder", len(preds) > 0, "pkg/builder has no function that tells whether a type can be named in the generated package (true for *types.Named ⇒ no package ∨ current package ∨ exported): unexported types of imported packages are spelled out")
	if len(preds) == 0 {
		return
	}
	isPred := func(name string) bool {
		for _, p := range preds {
			if core.FuncName(p) == name || p.String() == name {
				return true
			}
		}
		return false
	}
	predCall := func(argOK func(*core.Term) bool) core.LitMatcher {
		return c.M(true, func(t *core.Term) bool {
			return t.Kind == "call" && isPred(t.Name) && argOK(t.Args[len(t.Args)-1])
		})
	}
	for _, p := range preds {
		// descent through composite types
		tr := c.Reach(p).RetCond(0, true)
		for _, shape := range []string{"*types.Pointer", "*types.Slice", "*types.Array"} {
			sub := withLit(tr, c.M(true, assertOK(shape)))
			elem := "(" + strings.Replace(shape, "*types.", "*go/types.", 1) + ").Elem"
			ok := len(sub) > 0 && sub.Implies(predCall(func(a *core.Term) bool { return a.IsCallTo(elem) }))
			r.Check(rule, FnKey(p)+":descends:"+shape, c.Pos(p.Pos()), ok, "the nameability test does not look at the element type of "+shape+" (a `[]*model.tag` would be called nameable)")
		}
	}
	for _, p := range preds {
		// … and through every other way a type can mention another: the answer false is reached when the test fails on
		// the channel's element, the map's key and element, a parameter or result (the tuple's members), a struct's field,
		// a type argument
		fails := func(argOK func(*core.Term) bool) bool {
			// the test's answer on that component decides a branch or is (part of) the answer
			for _, b := range p.Blocks {
				for _, in := range b.Instrs {
					call, isCall := in.(*ssa.Call)
					if !isCall || call.Referrers() == nil {
						continue
					}
					t := c.O.Of(call)
					if !(t.Kind == "call" && isPred(t.Name) && argOK(t.Args[len(t.Args)-1])) {
						continue
					}
					var decides func(v ssa.Value, depth int) bool
					decides = func(v ssa.Value, depth int) bool {
						if depth > 2 || v.Referrers() == nil {
							return false
						}
						for _, rf := range *v.Referrers() {
							switch x := rf.(type) {
							case *ssa.If, *ssa.Return, *ssa.Phi:
								return true
							case *ssa.UnOp:
								if decides(x, depth+1) {
									return true
								}
							}
						}
						return false
					}
					if decides(call, 0) {
						return true
					}
				}
			}
			for _, ret := range core.Returns(p) {
				t := c.O.Of(ret.Results[0])
				d := c.ReachOf(ret)
				inner := func(x *core.Term) bool {
					return x.Kind == "call" && isPred(x.Name) && argOK(x.Args[len(x.Args)-1])
				}
				if t.Is("const", "false") && len(d) > 0 && d.Implies(c.M(false, inner)) {
					return true
				}
				// `return pred(a) && pred(b)` / `return pred(a)`
				if t.Contains(inner) && (t.Kind == "call" || t.Kind == "phi") {
					return true
				}
			}
			return false
		}
		callOn := func(suffix string) func(*core.Term) bool {
			return func(a *core.Term) bool {
				return a.Contains(func(x *core.Term) bool { return x.Kind == "call" && strings.HasSuffix(x.Name, suffix) })
			}
		}
		for _, w := range []struct{ what, suffix string }{
			{"channel element", "go/types.Chan).Elem"}, {"map key", "go/types.Map).Key"}, {"map element", "go/types.Map).Elem"},
			{"parameters of a func type", "go/types.Signature).Params"}, {"results of a func type", "go/types.Signature).Results"},
			{"members of a tuple", "go/types.Tuple).At"}, {"fields of a struct type", "go/types.Struct).Field"}, {"type arguments", "go/types.TypeList).At"},
		} {
			r.Check(rule, FnKey(p)+":looks-into:"+w.what, c.Pos(p.Pos()), fails(callOn(w.suffix)), "the nameability test does not look into the "+w.what+": `[]chan model.event`, `[]func(model.event)`, `[]model.Opt[model.event]`, `[]struct{ e model.event }` would be called nameable and spelled out")
		}
		// a package that the setup file does not import is written with its own name, which must not be taken by an import
		tr := withLit(c.Reach(p).RetCond(0, true), c.M(true, assertOK("*types.Named")))
		objPkg := func(t *core.Term) bool {
			return t.Kind == "call" && strings.HasSuffix(t.Name, ").Pkg") && t.Contains(func(s *core.Term) bool { return s.IsCallTo("(*go/types.Named).Obj") })
		}
		noPkg := c.M(true, isNilCmp(objPkg))
		local := c.M(false, func(t *core.Term) bool { return t.IsCallTo(fnIsExternalPkg) && objPkg(t.Args[1]) })
		imported := c.M(true, func(t *core.Term) bool {
			return t.Kind == "extract" && t.Name == "1" && t.Args[0].Kind == "call" && strings.HasSuffix(t.Args[0].Name, "ImportNames).LookupName") && t.Args[0].Args[1].IsCallTo("(*go/types.Package).Path")
		})
		nameFree := c.M(false, func(t *core.Term) bool {
			return t.Kind == "extract" && t.Name == "1" && t.Args[0].Kind == "call" && strings.HasSuffix(t.Args[0].Name, "ImportNames).LookupPath") && t.Args[0].Args[1].IsCallTo("(*go/types.Package).Name")
		})
		r.Check(rule, FnKey(p)+":package-name-not-taken", c.Pos(p.Pos()), len(tr) > 0 && tr.Implies(noPkg, local, imported, nameFree), "a type of a package that the setup file does not import is called nameable although the package's own name – the qualifier that will be written – is the name of another import (`model.Tag` of play/storage/model next to an imported play/api/model): the import optimizer then binds it to the wrong package; true-condition for named types: "+c.failing(tr, noPkg, local, imported, nameFree))
	}
	n := 0
	for _, s := range c.CallsTo(fnNewTypecast) {
		if p := pkgOf(s.Fn); p == nil || p.Path() != mod+"/pkg/builder" || len(s.Args()) < 4 {
			continue
		}
		n++
		T := c.O.Of(s.Args()[2]).String()
		d := c.ReachOf(s.Instr)
		r.Check(rule, FnKey(s.Fn)+":NewTypecast:nameable", c.Pos(s.Pos()), d.Implies(predCall(termEq(T))), "a conversion is built without testing that its target type can be named in the generated package (`model.level(x)` for an unexported type of an imported package does not compile); reach: "+d.Describe(c.O))
	}
	r.Floor(rule, "NewTypecast sites in the builder", n, 1)
	// slice copies: the literal's own reach, or the reach of every call of the function that builds it
	m := 0
	for _, tn := range []string{"SliceAssignment", "SliceLoopAssignment", "SliceTypecastAssignment"} {
		named := c.P.LookupType("/pkg/generator/model", tn)
		if named == nil {
			continue
		}
		for _, a := range c.Lits(named) {
			fn := a.Parent()
			if p := pkgOf(fn); p == nil || p.Path() != mod+"/pkg/builder" {
				continue
			}
			m++
			elemOfLHS := func(lhs string) func(*core.Term) bool {
				return func(t *core.Term) bool {
					return t.IsCallTo(fnSliceElement) && t.Args[0].IsCallTo(invExprType) && t.Args[0].Args[0].String() == lhs
				}
			}
			ok := false
			why := ""
			if len(fn.Params) >= 2 {
				lhs := "param:" + fn.Params[1].Name()
				if len(fn.FreeVars) > 0 {
					lhs = ""
				}
				if lhs != "" && c.ReachOf(a).Implies(predCall(elemOfLHS(lhs))) {
					ok = true
				}
			}
			if !ok {
				callers := c.CallsTo(fn.String())
				ok = len(callers) > 0
				for _, cs := range callers {
					args := cs.Args()
					if len(args) < 2 {
						ok = false
						break
					}
					lhs := c.O.Of(args[1]).String()
					d := c.ReachOf(cs.Instr)
					if !d.Implies(predCall(elemOfLHS(lhs))) {
						ok = false
						why = "reach of the call at " + c.Pos(cs.Pos()) + ": " + d.Describe(c.O)
					}
				}
			}
			r.Check(rule, sprintf("%s:%s%d:nameable", FnKey(fn), tn, m), c.InstrPos(a), ok, "a slice copy that spells the destination's element type out is built without testing that the type can be named in the generated package (`make([]model.tag, …)`); "+why)
		}
	}
	r.Floor(rule, "slice copy literals in the builder", m, 3)
}

// callableGetterRule (C01): pointer receiver methods are chosen as getters only where they can be called.
func (c *Ctx) callableGetterRule(rule string) {
	r := c.R
	r.Rule(rule, "getters on values: a method with a pointer receiver can be called on x only if x is a pointer or addressable. (a) isAddressable answers true for a field selection only if its container is absent, a pointer or itself addressable (`f().X` is not addressable); (b) every types.LookupFieldOrMethod of the source-path resolvers passes isAddressable(<current node>) as its `addressable` argument, not a constant; (c) in the candidate handlers the cast ladder is reached for a method node only if ¬PtrRecv() ∨ IsPtr(container type) ∨ isAddressable(container); PtrRecv ⇔ the receiver's type is a pointer")
	addr := c.MustFunc(rule, "/pkg/builder", "isAddressable")
	if addr == nil {
		return
	}
	isAddrCall := func(t *core.Term) bool {
		return t.Kind == "call" && (t.Name == addr.String() || t.Name == core.FuncName(addr))
	}
	{
		tr := withLit(c.Reach(addr).RetCond(0, true), c.M(true, assertOK("model.StructFieldNode")))
		parent := func(t *core.Term) bool {
			return t.Kind == "call" && strings.HasSuffix(t.Name, "StructFieldNode).Parent") || t.Kind == "invoke" && t.Name == invParent
		}
		noParent := c.M(true, isNilCmp(parent))
		ptrParent := c.M(true, func(t *core.Term) bool {
			return t.IsCallTo(fnIsPtr) && t.Args[0].IsCallTo(invExprType) && parent(t.Args[0].Args[0])
		})
		addrParent := c.M(true, func(t *core.Term) bool { return isAddrCall(t) && parent(t.Args[0]) })
		r.Check(rule, FnKey(addr)+":field-of-addressable", c.Pos(addr.Pos()), len(tr) > 0 && tr.Implies(noParent, ptrParent, addrParent),
			"a field selection is called addressable whatever its container: `src.Get().Field` (Get returning a struct by value) is not, so `&src.Get().Field` and pointer receiver calls on it do not compile; true-condition for field nodes: "+tr.Describe(c.O))
	}
	n := 0
	for _, s := range c.CallsTo("go/types.LookupFieldOrMethod") {
		if p := pkgOf(s.Fn); p == nil || p.Path() != mod+"/pkg/builder" {
			continue
		}
		n++
		a := c.O.Of(s.Args()[1])
		// … of the node the member is about to be selected from: the value that becomes the container of the member node
		// (a test made once for the root says nothing about the getter results further down the path)
		if ac, isCall := s.Args()[1].(*ssa.Call); isCall && isAddrCall(a) && len(ac.Call.Args) == 1 {
			current := false
			nodes := 0
			for _, mk := range append(c.CallsIn(s.Fn, fnNewMethodNode, false), c.CallsIn(s.Fn, fnNewFieldNode, false)...) {
				nodes++
				if mk.Args()[0] == ac.Call.Args[0] {
					current = true
				}
			}
			r.Check(rule, sprintf("%s:lookup%d:addressable-argument:current-node", FnKey(s.Fn), n), c.Pos(s.Pos()), current || nodes == 0, "addressability is tested on "+c.O.Of(ac.Call.Args[0]).String()+", not on the node the member is selected from (the container handed to NewStructMethodNode / NewStructFieldNode): computed once for the root, it is true for every step of the path")
		}
		r.Check(rule, sprintf("%s:lookup%d:addressable-argument", FnKey(s.Fn), n), c.Pos(s.Pos()), isAddrCall(a),
			"the resolver looks methods up as if every receiver were addressable (got "+a.String()+"): a pointer receiver getter is then chosen for a getter result, `src.Inner().Name()` with `func (*Inner) Name()` does not compile")
	}
	r.Floor(rule, "LookupFieldOrMethod calls in the builder", n, 1) // the two resolvers may share one path walker
	if pr := c.MustMethod(rule, "/pkg/builder/model", "StructMethodNode", "PtrRecv"); pr != nil {
		tr := c.Reach(pr).RetCond(0, true)
		recvPtr := c.M(true, func(t *core.Term) bool {
			return t.IsCallTo(fnIsPtr) && t.Contains(func(s *core.Term) bool { return s.IsCallTo("(*go/types.Signature).Recv") })
		})
		r.Check(rule, FnKey(pr)+":true⇒receiver-is-pointer", c.Pos(pr.Pos()), len(tr) > 0 && tr.Implies(recvPtr), "PtrRecv must answer whether the method's receiver type is a pointer; true-condition: "+tr.Describe(c.O))
		fl := c.Reach(pr).RetCond(0, false)
		notPtr := c.M(false, func(t *core.Term) bool {
			return t.IsCallTo(fnIsPtr) && t.Contains(func(s *core.Term) bool { return s.IsCallTo("(*go/types.Signature).Recv") })
		})
		noRecv := c.M(true, isNilCmp(func(t *core.Term) bool { return t.IsCallTo("(*go/types.Signature).Recv") }))
		r.Check(rule, FnKey(pr)+":false⇒receiver-is-no-pointer", c.Pos(pr.Pos()), len(fl) > 0 && fl.Implies(notPtr, noRecv), "PtrRecv answers false for a pointer receiver; false-condition: "+fl.Describe(c.O))
	}
	cast := "(*" + pBld + "assignmentBuilder).castNode"
	nh := 0
	for _, dm := range c.defaultMatchers() {
		for _, s := range c.CallsIn(dm, fnIterMethods, false) {
			mc, ok := s.Args()[1].(*ssa.MakeClosure)
			if !ok {
				continue
			}
			h := mc.Fn.(*ssa.Function)
			container := c.O.Of(s.Args()[0])
			// inside the handler the container is a captured variable: match by the captured name
			isContainer := func(t *core.Term) bool {
				if t.String() == container.String() {
					return true
				}
				// a captured variable is spilled to a cell: inside the closure it is the free variable of the same name
				if t.Kind == "fv" && (container.Kind == "param" || container.Kind == "local") && t.Name == container.Name {
					for _, fv := range h.FreeVars {
						if fv.Name() == t.Name {
							return true
						}
					}
				}
				return false
			}
			notMethod := c.M(false, assertOK("model.StructMethodNode"))
			notPtrRecv := c.M(false, func(t *core.Term) bool {
				return t.Kind == "call" && strings.HasSuffix(t.Name, "StructMethodNode).PtrRecv")
			})
			ptrContainer := c.M(true, func(t *core.Term) bool {
				return t.IsCallTo(fnIsPtr) && t.Args[0].IsCallTo(invExprType) && isContainer(t.Args[0].Args[0])
			})
			addrContainer := c.M(true, func(t *core.Term) bool { return isAddrCall(t) && isContainer(t.Args[0]) })
			for i, cs := range c.CallsIn(h, cast, false) {
				nh++
				d := c.ReachOf(cs.Instr)
				r.Check(rule, sprintf("%s:castNode%d:callable-getter", FnKey(h), i+1), c.Pos(cs.Pos()), d.Implies(notMethod, notPtrRecv, ptrContainer, addrContainer),
					"a getter delivered by IterateStructMethods (which lists pointer receiver methods of the dereferenced type too) reaches the assignment ladder without the test ¬PtrRecv ∨ container is a pointer ∨ container is addressable; path: "+c.failing(d, notMethod, notPtrRecv, ptrContainer, addrContainer))
			}
		}
	}
	r.Floor(rule, "cast ladder calls in getter handlers", nh, 1)
}

// createFunctionShapeRule: CreateFunction refuses shapes that cannot be emitted faithfully.
func (c *Ctx) createFunctionShapeRule(rule string, which string) {
	r := c.R
	cf := c.MustMethod(rule, "/pkg/builder", "FunctionBuilder", "CreateFunction")
	if cf == nil {
		return
	}
	switch which {
	case "reverse-pointer":
		r.Rule(rule, "CreateFunction succeeds only if ¬Reverse ∨ IsPtr(type of the first operand): under :reverse the first operand is the one written to, by value the function would fill a copy and return nothing")
		c.rejects(rule, cf, "reverse-needs-pointer", ":reverse is accepted with a by-value first operand: the generated function assigns into its own copy and has no effect",
			c.M(false, isField(fldReverse)),
			c.M(true, func(t *core.Term) bool {
				return t.IsCallTo(fnIsPtr) && t.Contains(func(s *core.Term) bool { return s.IsCallTo("(*" + pBM + "MethodEntry).SrcVar") })
			}))
	case "variadic":
		r.Rule(rule, "CreateFunction succeeds only if the method's signature is not variadic (the function would be emitted with a slice parameter in place of `...T`: callers of the declared shape stop compiling)")
		c.rejects(rule, cf, "not-variadic", "a method with a variadic parameter is accepted and emitted with a slice parameter",
			c.M(false, func(t *core.Term) bool {
				return t.IsCallTo("(*go/types.Signature).Variadic") && t.Contains(func(s *core.Term) bool { return s.IsField("model.MethodEntry.Method") })
			}),
			c.M(false, func(t *core.Term) bool {
				return assertOK("*types.Signature")(t) && t.Contains(func(s *core.Term) bool { return s.IsField("model.MethodEntry.Method") })
			}))
	case "names":
		r.Rule(rule, "CreateFunction: before the Function is built a loop over the variables of the function (source, destination, additional arguments) consults and fills a set of names that starts with `err` ↦ RetError(): a name met twice – other than the blank identifier – ends in an error (`func F(dst *A) (dst *B)`, `func F(err *A) (dst *B, err error)` do not compile)")
		var fnLit *ssa.Alloc
		if named := c.P.LookupType("/pkg/generator/model", "Function"); named != nil {
			for _, a := range c.Lits(named) {
				if a.Parent() == cf {
					fnLit = a
				}
			}
		}
		if fnLit == nil {
			r.Undecided(rule, FnKey(cf)+":Function-literal", "not found")
			return
		}
		found := false
		why := "no loop with a name-set lookup in front of an error return"
		rc := c.Reach(cf)
		for head, body := range allLoops(cf) {
			var look *ssa.Lookup
			var upd *ssa.MapUpdate
			for b := range body {
				for _, in := range b.Instrs {
					switch x := in.(type) {
					case *ssa.Lookup:
						if strings.HasPrefix(x.X.Type().Underlying().String(), "map[string]bool") && c.O.Of(x.Index).IsField("model.Var.Name") {
							look = x
						}
					case *ssa.MapUpdate:
						if strings.HasPrefix(x.Map.Type().Underlying().String(), "map[string]bool") && c.O.Of(x.Key).IsField("model.Var.Name") && c.O.Of(x.Value).Is("const", "true") {
							upd = x
						}
					}
				}
			}
			if look == nil || upd == nil || look.X != upd.Map || c.O.Of(look.Index).String() != c.O.Of(upd.Key).String() {
				continue
			}
			if !head.Dominates(fnLit.Block()) || body[fnLit.Block()] {
				why = "the name check does not come before the Function is built"
				continue
			}
			// going round the loop means: the name was new, or blank
			seen := func(t *core.Term) bool { return t.V == ssa.Value(look) || t.String() == c.O.Of(look).String() }
			isNew := c.M(false, seen)
			blank := c.M(true, eqConst(func(t *core.Term) bool { return t.IsField("model.Var.Name") }, `"_"`))
			okBack := true
			for _, p := range head.Preds {
				if body[p] {
					be := rc.BackEdgeCond(p, head)
					if !be.Implies(isNew, blank) {
						okBack = false
						why = "the loop continues although the name was met before: " + be.Describe(c.O)
					}
				}
			}
			// the set knows `err` when the function declares an error result
			okErr := false
			for _, b := range cf.Blocks {
				for _, in := range b.Instrs {
					if mu, ok := in.(*ssa.MapUpdate); ok && mu.Map == upd.Map && c.O.Of(mu.Key).Is("const", `"err"`) {
						v := c.O.Of(mu.Value)
						okErr = v.IsCallTo(fnMethodRetError) || (v.Is("const", "true") && c.ReachOf(mu).Implies(c.M(true, isCall(fnMethodRetError))))
					}
				}
			}
			if !okErr {
				why = "the name set does not start with `err` ↦ RetError()"
			}
			// the ranged slice holds source, destination and the additional arguments
			okAll := false
			for b := range body {
				for _, in := range b.Instrs {
					if ix, ok := in.(*ssa.IndexAddr); ok {
						t := c.O.Of(ix.X)
						if t.Contains(func(s *core.Term) bool { return s.Kind == "alloc" && strings.Contains(s.Name, "[2]model.Var") }) &&
							t.Contains(func(s *core.Term) bool { return s.Kind == "make" || s.IsCallTo("builtin:append") }) {
							okAll = true
						}
					}
				}
			}
			if !okAll {
				why = "the loop does not range over source, destination and additional arguments together"
			}
			if okBack && okErr && okAll {
				found = true
				// … and no variable is called like an import of the setup file: going round the loop means LookupPath(name) found
				// nothing (`F(model *model.User) *model.UserDTO`: inside the function `model` is the parameter, and the qualified
				// types, converters and hooks the body needs cannot be written)
				// (asked of the file scope of the setup file – imports other than blank ones, declarations of the package, dot-imported
				// and predeclared names – through a same-package helper whose answer is result 1 of (*types.Scope).LookupParent for
				// its name parameter; the import table alone cannot tell a blank import, which hides nothing, from a named one)
				scopeLookup := func(x *core.Term) bool {
					if x.Kind != "call" || len(x.Args) < 2 || !x.Args[len(x.Args)-1].IsField("model.Var.Name") {
						return false
					}
					for _, h := range c.P.Funcs() {
						if (h.String() != x.Name && core.FuncName(h) != x.Name) || pkgOf(h) != pkgOf(cf) {
							continue
						}
						nLook := 0
						for _, ret := range core.Returns(h) {
							t := c.O.Of(ret.Results[0])
							if t.Is("const", "nil") {
								continue
							}
							if t.Kind == "extract" && t.Name == "1" && t.Args[0].IsCallTo("(*go/types.Scope).LookupParent") && t.Args[0].Args[1].Kind == "param" {
								nLook++
							} else {
								return false
							}
						}
						return nLook > 0
					}
					return false
				}
				notImport := func(l core.Lit) bool {
					t, pos := c.Canon(l)
					// (ImportNames.LookupPath – the first form of the F75 repair – is not accepted: the table gives a blank import the
					// last element of its path as a name, so `import _ "play/model"` made `F(model *A) *B` be refused although
					// nothing is hidden: F79)
					if pos && t.Kind == "binop" && t.Name == "==" {
						for i := 0; i < 2; i++ {
							if t.Args[1-i].Is("const", "nil") && scopeLookup(t.Args[i]) {
								return true
							}
						}
					}
					return false
				}
				okImp, whyImp := true, ""
				for _, p := range head.Preds {
					if body[p] {
						be := rc.BackEdgeCond(p, head)
						if !be.Implies(notImport) {
							okImp = false
							whyImp = c.failing(be, notImport)
						}
					}
				}
				r.Check(rule, FnKey(cf)+":no-import-names", c.Pos(cf.Pos()), okImp, "CreateFunction does not ask the file scope of the setup file whether a source, destination, receiver or additional argument hides an imported package, a declaration or a predeclared name the emitted function may need (exit 0, `model.UserDTO is not a type`; asking the import table instead refuses names of blank imports, which hide nothing); the loop continues under "+whyImp)
			}
		}
		r.Check(rule, FnKey(cf)+":distinct-names", c.Pos(cf.Pos()), found, "CreateFunction does not refuse variable names that would be declared twice in the emitted function: "+why)
	}
}

// trailingArgsRule: ParseArgs refuses command lines with anything after the input path.
func (c *Ctx) trailingArgsRule(rule string) {
	r := c.R
	r.Rule(rule, "ParseArgs returns nil only if flag.NArg() ≤ 1: the flag package stops parsing at the first non-flag argument, so `convergen setup.go -dry` would otherwise run with -dry ignored and write the file")
	fn := c.MustMethod(rule, "/pkg/config", "Config", "ParseArgs")
	if fn == nil {
		return
	}
	n := 0
	for i, ret := range core.Returns(fn) {
		if len(ret.Results) != 1 || !c.O.Of(ret.Results[0]).Is("const", "nil") {
			continue
		}
		n++
		d := c.ReachOf(ret)
		r.Check(rule, sprintf("%s:return%d:no-trailing-arguments", FnKey(fn), i+1), c.InstrPos(ret), d.Implies(c.atMost(func(t *core.Term) bool { return t.IsCallTo("flag.NArg") }, 1)),
			"the command line is accepted whatever follows the input path: flags written there are ignored without a word (a run asked to be dry writes the output); reach: "+d.Describe(c.O))
	}
	r.Floor(rule, "nil returns of ParseArgs", n, 1)
}

// stringerLookupRule: CompliesStringer judges the type as it is.
func (c *Ctx) stringerLookupRule(rule string) {
	r := c.R
	r.Rule(rule, "CompliesStringer(t) looks String up in t itself (types.LookupFieldOrMethod(t, false, …)), not in the pointed-to type: a pointer to an interface has no methods (`src.F.String()` for `F *fmt.Stringer` does not compile) and a pointer to a defined type has the pointer receiver methods too")
	fn := c.MustFunc(rule, "/pkg/util", "CompliesStringer")
	if fn == nil {
		return
	}
	n := 0
	for _, s := range c.CallsIn(fn, "go/types.LookupFieldOrMethod", false) {
		n++
		a0, a1 := c.O.Of(s.Args()[0]), c.O.Of(s.Args()[1])
		r.Check(rule, FnKey(fn)+":lookup-in-the-type-itself", c.Pos(s.Pos()), a0.Kind == "param", "String is looked up in "+a0.String()+" instead of the judged type: the answer holds for the pointed-to type only")
		r.Check(rule, FnKey(fn)+":not-addressable", c.Pos(s.Pos()), a1.Is("const", "false"), "String is looked up as if the value were addressable: a pointer receiver String() is then accepted for values that are not")
	}
	r.Floor(rule, "LookupFieldOrMethod calls in CompliesStringer", n, 1)
}

// reachUp is the reaching condition of an instruction conjoined with the reaching conditions of the call sites through
// which its function is reached from stop, as long as each function on the way has a single caller (a split-off helper).
func (c *Ctx) reachUp(in ssa.Instruction, stop *ssa.Function) core.DNF {
	d := c.ReachOf(in)
	fn := in.Parent()
	for lvl := 0; lvl < 3 && fn != nil && fn != stop; lvl++ {
		site, ok := c.UniqueCaller(fn)
		if !ok {
			break
		}
		d = core.And(d, c.ReachOf(site.Instr))
		fn = site.Fn
	}
	return d
}

// isObjNameOfNamed: the call is X.Name() where X, read through the unique caller of a helper, is Named.Obj().
func (c *Ctx) isObjNameOfNamed(call *ssa.Call, stop *ssa.Function) bool {
	t := c.O.Of(call)
	if t.Kind != "call" || !strings.HasSuffix(t.Name, ").Name") || !strings.Contains(t.Name, "go/types") {
		return false
	}
	up := c.UpTo(call.Parent(), t, stop)
	return up.Contains(func(s *core.Term) bool { return s.IsCallTo("(*go/types.Named).Obj") })
}

// typecastNameRule: NewTypecast renders what it cannot name itself through the import table, or declines.
func (c *Ctx) typecastNameRule(rule string) {
	r := c.R
	r.Rule(rule, "NewTypecast: a basic target type is rendered by ImportNames.TypeName (unsafe.Pointer is the one basic type that needs a qualifier), and a named target is rendered only if it has no type arguments (the bare name of an instantiated generic type does not denote it)")
	fn := c.MustFunc(rule, "/pkg/builder/model", "NewTypecast")
	te := c.MustType(rule, "/pkg/builder/model", "TypecastEntry")
	if fn == nil || te == nil {
		return
	}
	_ = te
	// NewTypecast and the helpers of its package it calls (the rendering may be split off)
	fns := c.samePkgCallees(fn, 2)
	var order []*ssa.Function
	for f := range fns {
		order = append(order, f)
	}
	sort.Slice(order, func(i, j int) bool { return order[i].String() < order[j].String() })
	noArgs := c.atMost(func(x *core.Term) bool {
		return x.Kind == "call" && strings.HasSuffix(x.Name, "TypeList).Len") && x.Contains(func(s *core.Term) bool { return s.IsCallTo("(*go/types.Named).TypeArgs") })
	}, 0)
	n := 0
	for _, f := range order {
		for _, b := range f.Blocks {
			for _, in := range b.Instrs {
				call, ok := in.(*ssa.Call)
				if !ok {
					continue
				}
				t := c.O.Of(call)
				switch {
				case t.IsCallTo("(*go/types.Basic).Name"):
					n++
					r.Check(rule, FnKey(f)+":basic-through-TypeName", c.InstrPos(call), false, "a basic target type is rendered as its bare name ("+t.String()+"): unsafe.Pointer becomes `Pointer`")
				case t.IsCallTo("("+pUtil+"ImportNames).TypeName") && c.reachUp(call, fn).Implies(c.M(true, assertOK("*types.Basic"))):
					n++
					r.Check(rule, FnKey(f)+":basic-through-TypeName", c.InstrPos(call), true, "")
				case t.Kind == "call" && strings.HasSuffix(t.Name, ").Name") && t.Contains(func(s *core.Term) bool { return s.IsCallTo("(*go/types.Named).Obj") }) || c.isObjNameOfNamed(call, fn):
					n++
					d := c.reachUp(call, fn)
					r.Check(rule, sprintf("%s:named:%d:no-type-arguments", FnKey(f), n), c.InstrPos(call), d.Implies(noArgs), "a named target type is rendered by its name alone although it may carry type arguments (`Box(x)` for Box[int]); path: "+c.failing(d, noArgs))
				}
			}
		}
	}
	r.Floor(rule, "rendered conversion targets in NewTypecast", n, 2)
}

// typeErrorMatchers: literals that tie a types.Error to the inside of a type declaration named at an object's position.
func (c *Ctx) typeErrorMatchers() (isPos func(*core.Term) bool, lower, upper, sameSpec core.LitMatcher) {
	isPos = func(t *core.Term) bool { return t.IsField("types.Error.Pos") }
	specPos := func(t *core.Term) bool { return t.IsCallTo("(*go/ast.TypeSpec).Pos") }
	specEnd := func(t *core.Term) bool { return t.IsCallTo("(*go/ast.TypeSpec).End") }
	cmp := func(op string, l, rr func(*core.Term) bool) func(*core.Term) bool {
		return func(t *core.Term) bool { return t.Kind == "binop" && t.Name == op && l(t.Args[0]) && rr(t.Args[1]) }
	}
	either := func(ps ...func(*core.Term) bool) func(*core.Term) bool {
		return func(t *core.Term) bool {
			for _, p := range ps {
				if p(t) {
					return true
				}
			}
			return false
		}
	}
	lower = c.M(true, either(cmp("<=", specPos, isPos), cmp(">=", isPos, specPos)))
	upper = c.M(true, either(cmp("<", isPos, specEnd), cmp(">", specEnd, isPos)))
	sameSpec = c.M(true, func(t *core.Term) bool {
		return t.Kind == "binop" && t.Name == "==" && t.Contains(func(s *core.Term) bool { return s.IsField("ast.TypeSpec.Name") }) && t.Contains(func(s *core.Term) bool {
			return s.Kind == "invoke" && strings.HasSuffix(s.Name, ".Pos") && s.Args[0].Kind == "param"
		})
	})
	return
}

// typeErrorsConfined: fn reads packages.Package.TypeErrors, and every answer of fn other than nil is given only for an error
// positioned inside a type declaration found in the setup file's own syntax tree (parser.Parser.file).
func (c *Ctx) typeErrorsConfined(fn *ssa.Function) bool {
	_, lower, upper, sameSpec := c.typeErrorMatchers()
	fromSetupFile := false
	for _, b := range fn.Blocks {
		for _, in := range b.Instrs {
			if v, ok := in.(ssa.Value); ok {
				if t := c.O.Of(v); t.IsField("ast.File.Decls") && t.Contains(func(s *core.Term) bool { return s.IsField("parser.Parser.file") }) {
					fromSetupFile = true
				}
			}
		}
	}
	if !fromSetupFile {
		return false
	}
	n := 0
	for _, ret := range core.Returns(fn) {
		for _, res := range ret.Results {
			rt := c.O.Of(res)
			if rt.Is("const", "nil") {
				continue
			}
			if rt.Kind == "call" && (rt.Name == fn.String() || rt.Name == core.FuncName(fn)) {
				continue // the answer of the same function about another declaration (an embedded interface): confined likewise
			}
			n++
			d := c.ReachOf(ret)
			if !(d.Implies(lower) && d.Implies(upper) && d.Implies(sameSpec)) {
				return false
			}
		}
	}
	return n > 0
}

// interfaceTypeErrorRule (C14): an ill-typed converter interface fails the run.
func (c *Ctx) interfaceTypeErrorRule(rule string) {
	r := c.R
	r.Rule(rule, "parseMethods reads the methods from the type-checked interface, and go/types keeps only the first of two methods of one name and nothing of an unresolved embedded interface: it succeeds only if a helper that walks packages.Package.TypeErrors found no error positioned inside the interface's own type declaration (TypeSpec.Pos() ≤ e.Pos < TypeSpec.End() of the spec whose name sits at the object's position); that helper answers such an error through logger.Errorf with the error's position")
	pm := c.MustMethod(rule, "/pkg/parser", "Parser", "parseMethods")
	if pm == nil {
		return
	}
	// the helper: a function of pkg/parser that returns an error built under an interval test on types.Error.Pos
	var helper *ssa.Function
	for _, fn := range c.P.Funcs() {
		if p := pkgOf(fn); p == nil || p.Path() != mod+"/pkg/parser" {
			continue
		}
		readsErrors := false
		for _, b := range fn.Blocks {
			for _, in := range b.Instrs {
				if fa, ok := in.(*ssa.FieldAddr); ok && core.FieldName(fa.X.Type(), fa.Field) == "packages.Package.TypeErrors" {
					readsErrors = true
				}
				if f, ok := in.(*ssa.Field); ok && strings.HasSuffix(core.FieldName(f.X.Type(), f.Field), "Package.TypeErrors") {
					readsErrors = true
				}
			}
		}
		if readsErrors {
			helper = fn
		}
	}
	r.Check(rule, FnKey(pm)+":type-error-helper", c.Pos(pm.Pos()), helper != nil, "no function of pkg/parser looks at packages.Package.TypeErrors: type errors inside a converter interface (duplicate method names, an unresolved embedded interface) go unnoticed and the methods they hide are dropped with exit 0")
	if helper == nil {
		return
	}
	isPos, lower, upper, sameSpec := c.typeErrorMatchers()
	n := 0
	okRet := false
	for _, ret := range core.Returns(helper) {
		t := c.O.Of(ret.Results[len(ret.Results)-1])
		if !t.IsCallTo(fnErrorf) {
			continue
		}
		n++
		d := c.ReachOf(ret)
		okRet = d.Implies(lower) && d.Implies(upper) && d.Implies(sameSpec)
		pos := c.varargAt(ret.Results[len(ret.Results)-1].(*ssa.Call).Call.Args[1], 0)
		okPos := pos != nil && pos.IsCallTo("(*go/token.FileSet).Position") && pos.Contains(isPos)
		r.Check(rule, FnKey(helper)+":error-inside-the-declaration", c.InstrPos(ret), okRet, "the helper's error is not tied to TypeSpec.Pos() ≤ e.Pos < TypeSpec.End() of the declaration whose name sits at the object's position; reach: "+d.Describe(c.O))
		r.Check(rule, FnKey(helper)+":error-position", c.InstrPos(ret), okPos, "the diagnostic does not start with the position of the type error")
	}
	r.Floor(rule, "error returns of the type-error helper", n, 1)
	// the interfaces it embeds hand their methods on, and their losses with them: the helper asks itself about each
	emb := false
	for _, s := range c.CallsIn(helper, helper.String(), false) {
		a := c.O.Of(s.Args()[len(s.Args())-1])
		if a.IsCallTo("(*go/types.Named).Obj") && a.Contains(func(t *core.Term) bool { return t.IsCallTo("(*go/types.Interface).EmbeddedType") }) {
			if v, isV := s.Instr.(ssa.Value); isV {
				for _, ret := range core.Returns(helper) {
					if ret.Results[len(ret.Results)-1] == v {
						emb = c.ReachOf(ret).Implies(c.M(false, isNilCmp(func(t *core.Term) bool { return t.V == v })))
					}
				}
			}
		}
	}
	r.Check(rule, FnKey(helper)+":embedded-interfaces", c.Pos(helper.Pos()), emb, "the helper does not look at the declarations of the interfaces the converter interface embeds (asking itself about (*types.Named).Obj() of each EmbeddedType(i) and returning a non-nil answer): a duplicate method or an unresolved name inside an embedded interface still drops methods with exit 0")
	// the scan is over all type errors and all declarations: no early success
	isHelperNil := c.M(true, isNilCmp(func(t *core.Term) bool {
		return t.Kind == "call" && (t.Name == helper.String() || t.Name == core.FuncName(helper)) && len(t.Args) >= 2 && t.Args[1].IsField("parser.intfEntry.intf")
	}))
	for i, ret := range core.Returns(pm) {
		if len(ret.Results) != 2 || !c.O.Of(ret.Results[1]).Is("const", "nil") {
			continue
		}
		if helper == pm {
			// the scan is written out in parseMethods itself: it must come before the success return
			okDom := false
			for _, hr := range core.Returns(pm) {
				if c.O.Of(hr.Results[len(hr.Results)-1]).IsCallTo(fnErrorf) && c.O.Of(hr.Results[len(hr.Results)-1]).Contains(isPos) {
					if lp := loopOf(hr.Block()); lp != nil {
						for h := range lp {
							if h.Dominates(ret.Block()) && !lp[ret.Block()] {
								okDom = true
							}
						}
					}
				}
			}
			r.Check(rule, sprintf("%s:return%d:well-typed-interface", FnKey(pm), i+1), c.InstrPos(ret), okDom, "parseMethods can succeed without having scanned the type errors of the interface's declaration")
			continue
		}
		d := c.ReachOf(ret)
		r.Check(rule, sprintf("%s:return%d:well-typed-interface", FnKey(pm), i+1), c.InstrPos(ret), d.Implies(isHelperNil), "parseMethods can succeed without having asked whether the interface's declaration carries a type error; reach: "+d.Describe(c.O))
	}
}

// derefRule: util.Deref tells pointer-ness and element type (feeds Var.Pointer / Var.Type of every emitted signature).
func (c *Ctx) derefRule(rule string) {
	r := c.R
	r.Rule(rule, "util.Deref(t): answers (t.Elem(), true) exactly under t.(*types.Pointer) and (t, false) otherwise – createVar takes the pointer flag and the type name of every operand of an emitted signature from it; MethodEntry.Name() is the method object's name")
	if fn := c.MustFunc(rule, "/pkg/util", "Deref"); fn != nil {
		n := 0
		isPtr := c.M(true, assertOK("*types.Pointer"))
		notPtr := c.M(false, assertOK("*types.Pointer"))
		for i, ret := range core.Returns(fn) {
			if len(ret.Results) != 2 {
				continue
			}
			n++
			d := c.ReachOf(ret)
			t0, t1 := c.O.Of(ret.Results[0]), c.O.Of(ret.Results[1])
			ok := false
			switch {
			case d.Implies(isPtr):
				ok = t0.IsCallTo("(*go/types.Pointer).Elem") && t1.Is("const", "true")
			case d.Implies(notPtr):
				ok = t0.Kind == "param" && t1.Is("const", "false")
			}
			r.Check(rule, sprintf("%s:return%d", FnKey(fn), i+1), c.InstrPos(ret), ok, "Deref must answer (Elem(), true) for a pointer and (t, false) otherwise, got ("+t0.String()+", "+t1.String()+") under "+d.Describe(c.O))
		}
		r.Floor(rule, "returns of util.Deref", n, 2)
	}
	if fn := c.MustMethod(rule, "/pkg/builder/model", "MethodEntry", "Name"); fn != nil {
		rets := core.Returns(fn)
		ok := len(rets) == 1
		if ok {
			t := c.O.Of(rets[0].Results[0])
			ok = (t.Kind == "invoke" || t.Kind == "call") && strings.HasSuffix(t.Name, ".Name") && t.Contains(func(s *core.Term) bool { return s.IsField("model.MethodEntry.Method") })
		}
		r.Check(rule, FnKey(fn), c.Pos(fn.Pos()), ok, "MethodEntry.Name must be Method.Name()")
	}
}

// pathLenRule: the path accessors of IdentMatcher agree on one field.
func (c *Ctx) pathLenRule(rule string) {
	r := c.R
	r.Rule(rule, "IdentMatcher.PathLen() is len of the very slice that ExprAt, NameAt and ForGetter index with their argument (the resolvers loop `for i < PathLen()` over NameAt(i)/ForGetter(i): a shorter length drops the last path component silently, a longer one panics)")
	pl := c.MustMethod(rule, "/pkg/option", "IdentMatcher", "PathLen")
	if pl == nil {
		return
	}
	rets := core.Returns(pl)
	field := ""
	if len(rets) == 1 {
		t := c.O.Of(rets[0].Results[0])
		if t.IsCallTo("builtin:len") && t.Args[0].Kind == "field" {
			field = t.Args[0].Name
		}
	}
	r.Check(rule, FnKey(pl)+":len-of-field", c.Pos(pl.Pos()), field != "", "PathLen must be len(<the path slice>)")
	n := 0
	for _, name := range []string{"ExprAt", "NameAt", "ForGetter"} {
		fn := c.MustMethod(rule, "/pkg/option", "IdentMatcher", name)
		if fn == nil {
			continue
		}
		for _, b := range fn.Blocks {
			for _, in := range b.Instrs {
				ia, ok := in.(*ssa.IndexAddr)
				if !ok {
					continue
				}
				n++
				x, idx := c.O.Of(ia.X), c.O.Of(ia.Index)
				// (or a slice made in parallel to it: make(…, len(<that slice>)) stored in every constructor)
				same := x.Kind == "field" && (x.Name == field || c.sameLenFields(field, x.Name) || c.sameLenFields(x.Name, field))
				r.Check(rule, FnKey(fn)+":indexes-the-same-slice", c.InstrPos(ia), same && idx.Kind == "param", name+" indexes "+x.String()+"["+idx.String()+"], PathLen is the length of "+field)
			}
		}
	}
	r.Floor(rule, "index expressions in the path accessors", n, 3)
}

// templatedArgsRule: `$n` sources are numbered from the source operand.
func (c *Ctx) templatedArgsRule(rule string) {
	r := c.R
	r.Rule(rule, "templated `$n` sources: every call of resolveTemplatedExpr receives Src() of the mapper at hand and the list [<root of the Parent() chain of the source node at hand>] ++ <additional argument nodes> (`$1` is the method's source operand – also inside a nested copy –, `$k+1` the k-th additional argument, as documented); the node that becomes the assignment's right-hand side is the first result of castNode(<destination>.ExprType(), <resolved node>) and nil when the path did not resolve")
	name := "(*" + pBld + "assignmentBuilder).resolveTemplatedExpr"
	n := 0
	for _, s := range c.CallsTo(name) {
		n++
		fn := s.Fn
		key := sprintf("%s:resolveTemplatedExpr%d", FnKey(fn), n)
		a := s.Args()
		m := c.O.Of(a[1])
		r.Check(rule, key+":matcher", c.Pos(s.Pos()), m.IsCallTo("(*"+pOpt+"NameMatcher).Src"), "the path resolved is not Src() of the mapper: "+m.String())
		// the list: append(<one-element literal holding the source>, additionalArgs...)
		okList := false
		why := c.O.Of(a[2]).String()
		if ap, ok := a[2].(*ssa.Call); ok && core.CalleeName(&ap.Call) == "builtin:append" && len(ap.Call.Args) == 2 {
			first := c.varargAt(ap.Call.Args[0], 0)
			second := c.varargAt(ap.Call.Args[0], 1)
			rest := c.O.Of(ap.Call.Args[1])
			// the source operand of the method: the root of the chain of containers of the node at hand (in a nested copy the
			// node at hand is the nested source, and `$1.X` must not be resolved against it)
			isSrc := false
			if first != nil && first.Kind == "phi" {
				start := first.Contains(func(x *core.Term) bool {
					return (x.Kind == "fv" || x.Kind == "param") && (x.Name == "rhs" || strings.Contains(strings.ToLower(x.Name), "src"))
				})
				climbs := first.Contains(func(x *core.Term) bool { return x.Kind == "invoke" && x.Name == invParent })
				atRoot := c.ReachOf(s.Instr).Implies(c.M(true, isNilCmp(func(x *core.Term) bool {
					return x.Kind == "invoke" && x.Name == invParent && x.Args[0].Kind == "phi"
				})))
				isSrc = start && climbs && atRoot
			}
			isExtra := (rest.Kind == "fv" || rest.Kind == "param") && strings.Contains(strings.ToLower(rest.Name), "arg")
			okList = isSrc && second == nil && isExtra
			if first != nil {
				why = "[" + first.String() + "] ++ " + rest.String()
			}
		}
		r.Check(rule, key+":argument-list", c.Pos(s.Pos()), okList, "the `$n` list must be [<root of the source chain: the method's source operand>] ++ additional arguments (with the node at hand as first element, `:map $1.X In.V` copies src.In.X instead of src.X when the struct In is copied member by member), got "+why)
		// the closure answers castNode(lhs.ExprType(), resolved)[0] / nil
		okRet := true
		nr := 0
		for _, ret := range core.Returns(fn) {
			if len(ret.Results) != 1 {
				continue
			}
			nr++
			t := c.O.Of(ret.Results[0])
			d := c.ReachOf(ret)
			resolved := func(x *core.Term) bool { return x.Kind == "extract" && x.Name == "1" && x.Args[0].IsCallTo(name) }
			switch {
			case t.Is("const", "nil"):
				okRet = okRet && d.Implies(c.M(false, resolved))
			default:
				okRet = okRet && d.Implies(c.M(true, resolved)) && t.Kind == "extract" && t.Name == "0" && t.Args[0].IsCallTo("(*"+pBld+"assignmentBuilder).castNode") &&
					t.Args[0].Args[1].IsCallTo(invExprType) && strings.Contains(t.Args[0].Args[1].Args[0].Name, "lhs") &&
					t.Args[0].Args[2].Kind == "extract" && t.Args[0].Args[2].Name == "0" && t.Args[0].Args[2].Args[0].IsCallTo(name)
			}
		}
		if len(fn.FreeVars) > 0 { // the closure form
			r.Check(rule, key+":answer", c.Pos(fn.Pos()), okRet && nr == 2, "the mapped node must be castNode(<destination>.ExprType(), <resolved node>)[0], and nil when the path did not resolve")
		}
	}
	r.Floor(rule, "resolveTemplatedExpr call sites", n, 1)
}

// genericShapesRule: type parameters and type arguments that the emitted functions could not declare are refused.
func (c *Ctx) genericShapesRule(rule string, which string) {
	r := c.R
	switch which {
	case "interface":
		r.Rule(rule, "parseMethods succeeds only if the converter interface has no type parameters (TypeParams().Len() == 0 for a *types.Named): the functions would mention type parameters that they do not declare (`func F(src *S[T]) …` – undefined: T)")
		pm := c.MustMethod(rule, "/pkg/parser", "Parser", "parseMethods")
		if pm == nil {
			return
		}
		noParams := c.atMost(func(t *core.Term) bool {
			return t.Kind == "call" && strings.HasSuffix(t.Name, "TypeParamList).Len") && t.Contains(func(s *core.Term) bool { return s.IsCallTo("(*go/types.Named).TypeParams") })
		}, 0)
		notNamed := c.M(false, assertOK("*types.Named"))
		n := 0
		for i, ret := range core.Returns(pm) {
			if len(ret.Results) != 2 || !c.O.Of(ret.Results[1]).Is("const", "nil") {
				continue
			}
			n++
			d := c.ReachOf(ret)
			r.Check(rule, sprintf("%s:return%d:no-type-parameters", FnKey(pm), i+1), c.InstrPos(ret), d.Implies(noParams, notNamed), "a generic converter interface is accepted: exit 0, and the functions refer to type parameters nobody declares; path: "+c.failing(d, noParams, notNamed))
		}
		r.Floor(rule, "success returns of parseMethods", n, 1)
	case "receiver":
		r.Rule(rule, "CreateFunction with a receiver (Opts.Receiver != \"\") succeeds only if the source operand, pointer removed, is a *types.Named without type arguments: a method is declared on a defined type, and on a generic one with its type parameters – `func (p *Page[int]) …` declares a type parameter called int")
		cf := c.MustMethod(rule, "/pkg/builder", "FunctionBuilder", "CreateFunction")
		if cf == nil {
			return
		}
		srcType := func(t *core.Term) bool {
			return t.Contains(func(s *core.Term) bool { return s.IsCallTo("(*" + pBM + "MethodEntry).SrcVar") })
		}
		isNamed := c.M(true, func(t *core.Term) bool { return assertOK("*types.Named")(t) && srcType(t) })
		noArgs := c.atMost(func(t *core.Term) bool {
			return t.Kind == "call" && strings.HasSuffix(t.Name, "TypeList).Len") && t.Contains(func(s *core.Term) bool { return s.IsCallTo("(*go/types.Named).TypeArgs") }) && srcType(t)
		}, 0)
		noRecv := c.M(true, eqConst(isField(fldReceiver), `""`))
		rets := c.successReturns(cf)
		for i, ret := range rets {
			d := c.ReachOf(ret)
			r.Check(rule, sprintf("%s:success%d:receiver-is-a-defined-type", FnKey(cf), i+1), c.InstrPos(ret), d.Implies(noRecv, isNamed), "a receiver that is not a defined type (an unnamed struct) is accepted; path: "+c.failing(d, noRecv, isNamed))
			r.Check(rule, sprintf("%s:success%d:receiver-without-type-arguments", FnKey(cf), i+1), c.InstrPos(ret), d.Implies(noRecv, noArgs), "a receiver with type arguments is accepted: `func (p *Page[int]) ToRow()` declares a type parameter named int; path: "+c.failing(d, noRecv, noArgs))
		}
		r.Floor(rule, "success returns of CreateFunction", len(rets), 1)
	}
}

// lateShapeRules: obligations for the repairs F68–F71.
func (c *Ctx) lateShapeRules(rule, which string) {
	r := c.R
	switch which {
	case "lookup-components":
		r.Rule(rule, "lookupType answers an object of an imported package only for a name of exactly two components (pkg.Name): with more, `:conv model.Conv.Extra ID` would resolve to model.Conv and the rest be ignored – exit 0 and a call that does not compile, or silently another function")
		fn := c.MustMethod(rule, "/pkg/parser", "Parser", "lookupType")
		if fn == nil {
			return
		}
		isSplit := func(t *core.Term) bool { return t.IsCallTo("strings.Split") }
		n := 0
		for i, ret := range core.Returns(fn) {
			if len(ret.Results) != 2 {
				continue
			}
			t := c.O.Of(ret.Results[1])
			if !t.Contains(func(s *core.Term) bool { return s.IsCallTo("(*go/types.Scope).Lookup") }) {
				continue
			}
			n++
			d := c.ReachOf(ret)
			r.Check(rule, sprintf("%s:return%d:two-components", FnKey(fn), i+1), c.InstrPos(ret), d.Implies(c.atMost(lenOf(isSplit), 2)), "an object of an imported package is answered whatever follows the second component of the name; reach: "+d.Describe(c.O))
		}
		r.Floor(rule, "package-scope lookups answered by lookupType", n, 1)
	case "loop-names":
		r.Rule(rule, "CreateFunction succeeds only if no variable of the function is called i or e, or no assignment – at any depth of nested struct copies – is a slice copy written as a loop (`for i, e := range …` would hide the operand: on a recursive type the output compiles, leaves the destination empty and overwrites the source)")
		cf := c.MustMethod(rule, "/pkg/builder", "FunctionBuilder", "CreateFunction")
		if cf == nil {
			return
		}
		var detector *ssa.Function
		for _, fn := range c.P.Funcs() {
			if p := pkgOf(fn); p == nil || p.Path() != mod+"/pkg/builder" || fn.Signature.Results().Len() != 1 || fn.Signature.Results().At(0).Type().String() != "bool" || len(fn.Params) != 1 {
				continue
			}
			if !strings.HasSuffix(fn.Params[0].Type().String(), "generator/model.Assignment") {
				continue
			}
			tr := c.Reach(fn).RetCond(0, true)
			loop := c.M(true, assertOK("model.SliceLoopAssignment"))
			cast := c.M(true, assertOK("model.SliceTypecastAssignment"))
			nested := c.M(true, func(t *core.Term) bool {
				return t.Kind == "call" && (t.Name == fn.String() || t.Name == core.FuncName(fn)) && t.Args[0].IsField("model.NestStruct.Contents")
			})
			hasLoop, hasCast, hasNest := false, false, false
			for _, cj := range tr {
				for _, l := range cj {
					hasLoop = hasLoop || loop(l)
					hasCast = hasCast || cast(l)
					hasNest = hasNest || nested(l)
				}
			}
			if len(tr) > 0 && tr.Implies(loop, cast, nested) && hasLoop && hasCast && hasNest {
				detector = fn
			}
		}
		r.Check(rule, FnKey(cf)+":loop-detector", c.Pos(cf.Pos()), detector != nil, "no function of pkg/builder tells whether a list of assignments contains, at any depth, a slice copy written as a loop (true ⇔ SliceLoopAssignment ∨ SliceTypecastAssignment ∨ the same below a NestStruct): the names i and e cannot be protected")
		if detector == nil {
			return
		}
		// the scan ends with `false` only when the list is exhausted: a return inside the loop over the list answers true
		// (`return hasSliceLoop(contents)` for a nested struct would stop at the first nested struct and never see a loop behind it)
		{
			// (a returning block is not part of the natural loop, so "inside the loop" is judged by the reaching condition: a
			// return that can answer false must lie behind the exhaustion of the range over the parameter)
			exhausted := c.M(false, func(x *core.Term) bool {
				return x.Kind == "binop" && x.Name == "<" && x.Args[1].IsCallTo("builtin:len") && x.Args[1].Args[0].Kind == "param"
			})
			okScan, whyScan := true, ""
			for _, ret := range core.Returns(detector) {
				if len(ret.Results) != 1 {
					continue
				}
				t := c.O.Of(ret.Results[0])
				if t.Is("const", "true") {
					continue
				}
				d := c.ReachOf(ret)
				isV := c.M(true, func(x *core.Term) bool { return x.String() == t.String() })
				if !d.Implies(exhausted, isV) {
					okScan = false
					whyScan = "return at " + c.InstrPos(ret) + " answers " + t.String() + " under " + c.failing(d, exhausted, isV)
				}
			}
			r.Check(rule, FnKey(detector)+":false-only-when-exhausted", c.Pos(detector.Pos()), okScan, "the loop detector can answer false before it has seen every assignment of the list: a slice loop behind the element at which it stops is not noticed and the names i and e are not protected; "+whyScan)
		}
		noLoop := c.M(false, func(t *core.Term) bool {
			return t.Kind == "call" && (t.Name == detector.String() || t.Name == core.FuncName(detector))
		})
		nameFree := func(name string) core.LitMatcher {
			return c.M(false, func(t *core.Term) bool {
				return (t.Kind == "lookup" || t.Kind == "lookup,ok" || t.Kind == "extract") && strings.Contains(t.String(), `const:"`+name+`"`) && strings.Contains(t.String(), "lookup")
			})
		}
		for i, ret := range c.successReturns(cf) {
			d := c.ReachOf(ret)
			for _, nm := range []string{"i", "e"} {
				r.Check(rule, sprintf("%s:success%d:name-%s-not-hidden", FnKey(cf), i+1, nm), c.InstrPos(ret), d.Implies(noLoop, nameFree(nm)), "a function with a variable called "+nm+" and a slice-copy loop is accepted; path: "+c.failing(d, noLoop, nameFree(nm)))
			}
		}
	case "results":
		r.Rule(rule, "parseMethod succeeds only if the method has at most two results and a second one is the error (Results().Len() ≤ 2 ∧ (Len() ≠ 2 ∨ IsErrorType(Results().At(1).Type()))): every other result would be dropped from the emitted function, which then differs from the declared signature")
		fn := c.MustMethod(rule, "/pkg/parser", "Parser", "parseMethod")
		if fn == nil {
			return
		}
		isLenRes := func(t *core.Term) bool {
			return t.IsCallTo("(*go/types.Tuple).Len") && t.Args[0].IsCallTo("(*go/types.Signature).Results")
		}
		secondErr := func(t *core.Term) bool {
			return t.IsCallTo(fnIsErrorType) && t.Contains(func(s *core.Term) bool {
				return s.IsCallTo("(*go/types.Tuple).At") && s.Args[1].Is("const", "1") && s.Args[0].IsCallTo("(*go/types.Signature).Results")
			})
		}
		c.rejects(rule, fn, "at-most-two-results", "a method with more than two results is accepted and the extra results dropped", c.atMost(isLenRes, 2))
		c.rejects(rule, fn, "second-result-is-error", "a method whose second result is not an error is accepted and that result dropped", c.notExactly(isLenRes, 2), c.M(true, secondErr))
	}
}

// docStopsAtFieldRule: a method's doc comment is its own.
func (c *Ctx) docStopsAtFieldRule(rule string) {
	r := c.R
	r.Rule(rule, "util.GetDocCommentOn walks outwards from the object's identifier; the walk does not continue past an *ast.Field (the loop's back edge is taken only for nodes that are no *ast.Field): a method or struct field without a doc comment has none – the comment above the declaration around it is about that declaration (a method taken from an embedded interface would otherwise consume that interface's doc comment: its notation-like lines applied to whichever method comes first and deleted from the output)")
	fn := c.MustFunc(rule, "/pkg/util", "GetDocCommentOn")
	if fn == nil {
		return
	}
	rc := c.Reach(fn)
	notField := c.M(false, assertOK("*ast.Field"))
	n := 0
	ok := true
	why := ""
	// `docField(node) == nil` where a same-package helper answers the address of the node's Doc member, and nil only for nodes
	// that are no *ast.Field (every way it returns nil has failed the assertion to *ast.Field on its parameter)
	helperSaysNoField := func(l core.Lit) bool {
		t, pos := c.Canon(l)
		// which result of which call, and which of its answers are meant
		var call *core.Term
		idx, wantNil := 0, false
		switch {
		case pos && t.Kind == "binop" && t.Name == "==":
			for i := 0; i < 2; i++ {
				x, k := t.Args[i], t.Args[1-i]
				if !k.Is("const", "nil") {
					continue
				}
				if x.Kind == "extract" && len(x.Args) == 1 && x.Args[0].Kind == "call" {
					fmt.Sscanf(x.Name, "%d", &idx)
					x = x.Args[0]
				}
				if x.Kind == "call" && len(x.Args) == 1 {
					call, wantNil = x, true
				}
			}
		case !pos && t.Kind == "extract" && len(t.Args) == 1 && t.Args[0].Kind == "call" && len(t.Args[0].Args) == 1:
			// a bool result of the helper that is false ("not a member")
			fmt.Sscanf(t.Name, "%d", &idx)
			call = t.Args[0]
		}
		if call == nil {
			return false
		}
		for _, h := range c.P.Funcs() {
			if (h.String() != call.Name && core.FuncName(h) != call.Name) || pkgOf(h) != pkgOf(fn) || len(h.Params) != 1 {
				continue
			}
			hr := c.Reach(h)
			paramNotField := c.M(false, func(x *core.Term) bool {
				return assertOK("*ast.Field")(x) && len(x.Args[0].Args) == 1 && x.Args[0].Args[0].Kind == "param"
			})
			paramOtherKind := c.M(true, func(x *core.Term) bool {
				return x.Kind == "extract" && x.Name == "1" && x.Args[0].Kind == "typeassert,ok" && strings.HasPrefix(x.Args[0].Name, "*ast.") && x.Args[0].Name != "*ast.Field" &&
					len(x.Args[0].Args) == 1 && x.Args[0].Args[0].Kind == "param"
			})
			nMeant, all := 0, true
			for _, ret := range core.Returns(h) {
				if len(ret.Results) <= idx {
					return false
				}
				for _, cs := range hr.Cases(ret.Results[idx]) {
					v := c.O.Of(cs.V)
					if wantNil && !v.Is("const", "nil") {
						continue
					}
					if !wantNil && v.Is("const", "true") {
						continue
					}
					nMeant++
					cond := c.ReachOf(ret)
					if cs.Cond != nil {
						cond = core.And(cs.Cond, cond)
					}
					if !cond.Implies(paramNotField, paramOtherKind) {
						all = false
					}
				}
			}
			return nMeant > 0 && all
		}
		return false
	}
	for head, body := range allLoops(fn) {
		for _, p := range head.Preds {
			if !body[p] {
				continue
			}
			n++
			be := rc.BackEdgeCond(p, head)
			// (a node that is positively another kind of node is no field either)
			other := c.M(true, func(t *core.Term) bool {
				return t.Kind == "extract" && t.Name == "1" && t.Args[0].Kind == "typeassert,ok" && strings.HasPrefix(t.Args[0].Name, "*ast.") && t.Args[0].Name != "*ast.Field"
			})
			if !be.Implies(notField, other, helperSaysNoField) {
				ok = false
				why = c.failing(be, notField, other, helperSaysNoField)
			}
		}
	}
	// a helper that answers the Doc address (or nil) for the node kinds moves the decision: then the caller must stop on a
	// field whose Doc is nil – not decided here
	if n == 0 {
		r.Undecided(rule, FnKey(fn)+":walk", "no loop over the enclosing nodes found")
		return
	}
	r.Check(rule, FnKey(fn)+":stops-at-field", c.Pos(fn.Pos()), ok, "the walk goes on past an *ast.Field without a doc comment and answers the doc comment of the enclosing declaration; back-edge path: "+why)
}

// iterationErrorRule (C14): an error captured by an iteration callback is not overwritten by the next invocation.
func (c *Ctx) iterationErrorRule(rule string) {
	r := c.R
	r.Rule(rule, "iteration callbacks and captured errors: a closure handed to IterateStructFields / IterateStructMethods that stores the error result of a call into a captured variable lets the iteration go on (answers false) only where that variable is known to be nil, or answers a value that is true whenever it is not (`… || err != nil`): the next invocation would overwrite the error, the caller would return nil, and the run end with exit 0 and the field missing from the output")
	n := 0
	for _, s := range append(c.CallsTo(fnIterFields), c.CallsTo(fnIterMethods)...) {
		if p := pkgOf(s.Fn); p == nil || p.Path() != mod+"/pkg/builder" {
			continue
		}
		mc, ok := s.Args()[1].(*ssa.MakeClosure)
		if !ok {
			continue
		}
		h := mc.Fn.(*ssa.Function)
		for _, fv := range h.FreeVars {
			pt, isPtr := fv.Type().Underlying().(*types.Pointer)
			if !isPtr || pt.Elem().String() != "error" || fv.Referrers() == nil {
				continue
			}
			var stores []*ssa.Store
			for _, rf := range *fv.Referrers() {
				if st, isSt := rf.(*ssa.Store); isSt && st.Addr == ssa.Value(fv) {
					if k, isK := st.Val.(*ssa.Const); isK && k.IsNil() {
						continue
					}
					stores = append(stores, st)
				}
			}
			if len(stores) == 0 {
				continue
			}
			n++
			rc := c.Reach(h)
			isErrCell := func(t *core.Term) bool { return t.Kind == "fv" && t.Name == fv.Name() }
			errNil := c.M(true, isNilCmp(isErrCell))
			okAll := true
			why := ""
			for _, st := range stores {
				for _, ret := range core.Returns(h) {
					if len(ret.Results) != 1 || !rc.CanReach(st.Block(), ret.Block()) {
						continue
					}
					t := c.O.Of(ret.Results[0])
					switch {
					case t.Is("const", "true"):
					case t.Contains(func(x *core.Term) bool {
						return x.Kind == "binop" && x.Name == "!=" && (isErrCell(x.Args[0]) && x.Args[1].Is("const", "nil") || isErrCell(x.Args[1]) && x.Args[0].Is("const", "nil"))
					}):
						// `a != nil || err != nil || …`: true whenever the error is set
					default:
						// every way the answer can be false knows the error to be nil (`a != nil || err != nil || nested` is a φ whose
						// last edge is taken under a == nil ∧ err == nil)
						d := c.ReachOf(ret)
						for _, cs := range rc.Cases(ret.Results[0]) {
							if c.O.Of(cs.V).Is("const", "true") {
								continue
							}
							cond := d
							if cs.Cond != nil {
								cond = core.And(cs.Cond, d)
							}
							if !cond.Implies(errNil) {
								okAll = false
								why = "return at " + c.InstrPos(ret) + " answers " + c.O.Of(cs.V).String() + " under " + c.failing(cond, errNil)
							}
						}
					}
				}
			}
			r.Check(rule, sprintf("%s:captured-%s-not-overwritten", FnKey(h), fv.Name()), c.Pos(h.Pos()), okAll, "the callback can let the iteration go on with the captured error set: the next field overwrites it (an error on any field but the last is lost – the diagnostic is printed, the tool exits 0 and the field disappears from the output); "+why)
		}
	}
	r.Floor(rule, "iteration callbacks that capture an error", n, 1)
}

// recursionRule (C14): every recursion of module code is well-founded.
//
// Call edges: static calls between module functions, and function → closure it creates (closures handed to the Iterate helpers
// are called back by them). For every call edge inside a strongly connected component:
//   - a descent into struct members (the edge's reaching condition tests util.IsStructType) must test the member's type itself,
//     never a pointer-stripped one: by-value nesting of structs is finite in Go, nesting through pointers is not
//     (`type Node struct{ Next *Node }` would be followed for ever);
//   - every other recursive function must be in the table below, with the reason why it terminates.
func (c *Ctx) recursionRule(rule string) {
	r := c.R
	r.Rule(rule, "recursion is well-founded: a recursive descent into struct members is guarded by IsStructType of the member's type as it is (no DerefPtr / Elem in the tested type: by-value struct nesting is finite, nesting through pointers is not); every other recursive cycle is one of the confirmed ones (finite IR / AST / type terms)")
	confirmed := map[string]string{
		"generator.AssignmentToString":                    "descends NestStruct.Contents: a finite IR tree built by the builder",
		"builder.hasSliceLoop":                            "descends NestStruct.Contents: a finite IR tree",
		"(model.NestStruct).String":                       "descends Contents: a finite IR tree",
		"(util.ImportNames).TypeName":                     "descends the element/underlying type of a go/types type term",
		"(util.ImportNames).typeArgs":                     "with TypeName: type arguments of a type term",
		"util.PkgOf":                                      "descends the element type of pointers/slices",
		"(*builder.assignmentBuilder).isNameable":         "descends the components of a go/types type term; named types end the descent",
		"(*builder.assignmentBuilder).qualifier":          "with typeName: a go/types callback",
		"(*parser.Parser).typeErrorIn":                    "descends embedded interfaces: a finite, acyclic declaration graph (go/types rejects cycles)",
		"(*parser.Parser).embeddedInterfaces":             "descends embedded interfaces of a declaration",
		"(*builder.assignmentBuilder).castNode":           "the second call's source is the string result of a Stringer node: no further ladder step applies",
		"builder.isAddressable":                           "climbs Parent() of a node: the node chain built by the path resolvers is finite",
		"parser.isValueExpr":                              "descends the parentheses of a parsed expression: a finite syntax tree",
		"(*builder.assignmentBuilder).looksInto":          "descends the components of a type term",
		"(*builder.assignmentBuilder).mentionsUnnameable": "descends the components of a type term",
	}
	// graph
	var fns []*ssa.Function
	idx := map[*ssa.Function]int{}
	for _, fn := range c.P.Funcs() {
		if pkgOf(fn) == nil || !core.InModule(pkgOf(fn)) {
			continue
		}
		idx[fn] = len(fns)
		fns = append(fns, fn)
	}
	type edge struct {
		to int
		in ssa.Instruction
	}
	adj := make([][]edge, len(fns))
	for i, fn := range fns {
		for _, b := range fn.Blocks {
			for _, in := range b.Instrs {
				switch x := in.(type) {
				case *ssa.MakeClosure:
					if j, ok := idx[x.Fn.(*ssa.Function)]; ok {
						adj[i] = append(adj[i], edge{j, in})
					}
				case ssa.CallInstruction:
					if callee := x.Common().StaticCallee(); callee != nil {
						if j, ok := idx[callee]; ok {
							adj[i] = append(adj[i], edge{j, in})
						}
					}
				}
			}
		}
	}
	// Tarjan
	comp := make([]int, len(fns))
	for i := range comp {
		comp[i] = -1
	}
	low := make([]int, len(fns))
	num := make([]int, len(fns))
	on := make([]bool, len(fns))
	var stack []int
	counter, ncomp := 0, 0
	for i := range num {
		num[i] = -1
	}
	var dfs func(v int)
	dfs = func(v int) {
		num[v], low[v] = counter, counter
		counter++
		stack = append(stack, v)
		on[v] = true
		for _, e := range adj[v] {
			if num[e.to] < 0 {
				dfs(e.to)
				if low[e.to] < low[v] {
					low[v] = low[e.to]
				}
			} else if on[e.to] && num[e.to] < low[v] {
				low[v] = num[e.to]
			}
		}
		if low[v] == num[v] {
			for {
				w := stack[len(stack)-1]
				stack = stack[:len(stack)-1]
				on[w] = false
				comp[w] = ncomp
				if w == v {
					break
				}
			}
			ncomp++
		}
	}
	for i := range fns {
		if num[i] < 0 {
			dfs(i)
		}
	}
	size := map[int]int{}
	for _, k := range comp {
		size[k]++
	}
	nEdges, nDescents := 0, 0
	structTest := c.M(true, func(t *core.Term) bool { return t.IsCallTo(fnIsStruct) })
	strips := func(x *core.Term) bool {
		return x.IsCallTo(pUtil+"DerefPtr") || x.IsCallTo(pUtil+"Deref") || (x.Kind == "call" && strings.HasSuffix(x.Name, ").Elem"))
	}
	inCycle := func(i int, e edge) bool { return comp[e.to] == comp[i] && (size[comp[i]] > 1 || e.to == i) }
	// pass 1: the guarded descents
	descent := map[ssa.Instruction]bool{}
	for i, fn := range fns {
		for _, e := range adj[i] {
			if !inCycle(i, e) {
				continue
			}
			if _, isMC := e.in.(*ssa.MakeClosure); isMC {
				continue
			}
			nEdges++
			d := c.ReachOf(e.in)
			if len(d) == 0 || !d.Implies(structTest) {
				continue
			}
			descent[e.in] = true
			nDescents++
			stripped := ""
			for _, cj := range d {
				asIs, bad := false, ""
				for _, l := range cj {
					t, pos := c.Canon(l)
					if !pos || !t.IsCallTo(fnIsStruct) {
						continue
					}
					if t.Args[0].Contains(strips) {
						bad = t.String()
					} else {
						asIs = true
					}
				}
				if !asIs && bad != "" {
					stripped = bad
				}
			}
			r.Check(rule, sprintf("%s→%s:by-value-descent", FnKey(fn), FnKey(fns[e.to])), c.InstrPos(e.in), stripped == "", "the recursive descent into struct members follows pointers ("+stripped+"): a type that refers to itself through a pointer (`type Node struct{ Next *Node }`) is descended for ever – the run hangs and ends in a stack overflow")
		}
	}
	// pass 2: what remains recursive once the guarded descents are cut must be a confirmed cycle
	reach := func(from, to int) bool {
		seen := map[int]bool{}
		var walk func(v int) bool
		walk = func(v int) bool {
			if v == to {
				return true
			}
			if seen[v] {
				return false
			}
			seen[v] = true
			for _, e := range adj[v] {
				if comp[e.to] == comp[from] && !descent[e.in] && walk(e.to) {
					return true
				}
			}
			return false
		}
		return walk(from)
	}
	for i, fn := range fns {
		for _, e := range adj[i] {
			if !inCycle(i, e) || descent[e.in] {
				continue
			}
			if _, isMC := e.in.(*ssa.MakeClosure); isMC {
				continue
			}
			if !reach(e.to, i) {
				continue // the cycle this edge was on goes through a guarded descent
			}
			_, okTable := confirmed[FnKey(fn)]
			if !okTable {
				if p := fn.Parent(); p != nil {
					_, okTable = confirmed[FnKey(p)]
				}
			}
			r.Check(rule, sprintf("%s→%s:confirmed-cycle", FnKey(fn), FnKey(fns[e.to])), c.InstrPos(e.in), okTable, "a recursive call that is neither behind a guarded by-value descent into struct members nor one of the confirmed cycles: its termination has not been argued")
		}
	}
	r.Floor(rule, "recursive call edges examined", nEdges, 5)
	r.Floor(rule, "by-value struct descents among them", nDescents, 2)
}

// literalExprRule (C14): the text of a :literal notation is an expression before it is accepted.
func (c *Ctx) literalExprRule(rule string) {
	r := c.R
	r.Rule(rule, "a :literal text becomes a LiteralSetter only on the nil-error edge of go/parser.ParseExpr of that very text: it is copied into the function as it is, and what is not an expression would otherwise be reported by the import optimizer – with a position in the output file, which is then never written (C14: the message for a notation error starts with the position of the notation)")
	n := 0
	for _, s := range c.CallsTo(pOpt + "NewLiteralSetter") {
		if p := pkgOf(s.Fn); p == nil || p.Path() != mod+"/pkg/parser" {
			continue
		}
		n++
		text := c.O.Of(s.Args()[1]).String()
		parsed := c.M(true, isNilCmp(func(x *core.Term) bool {
			return x.Kind == "extract" && x.Name == "1" && x.Args[0].IsCallTo("go/parser.ParseExpr") && x.Args[0].Args[0].String() == text
		}))
		d := c.ReachOf(s.Instr)
		r.Check(rule, sprintf("%s:literal%d:is-an-expression", FnKey(s.Fn), n), c.Pos(s.Pos()), d.Implies(parsed),
			"a :literal text is accepted without having been parsed as a Go expression: `:literal Name )(` fails later in goimports with a position in a file that is never written; reach: "+c.failing(d, parsed))
	}
	r.Floor(rule, "LiteralSetter constructions in the parser", n, 1)
	// … and what was parsed is a value, not a type: go/parser reads `[]int`, `map[string]int`, `struct{}` as expressions
	k := 0
	for _, s := range c.CallsTo(pOpt + "NewLiteralSetter") {
		if p := pkgOf(s.Fn); p == nil || p.Path() != mod+"/pkg/parser" {
			continue
		}
		k++
		text := c.O.Of(s.Args()[1]).String()
		var judge *ssa.Function
		isValue := c.M(true, func(x *core.Term) bool {
			if x.Kind != "call" || len(x.Args) != 1 {
				return false
			}
			a := x.Args[0]
			if !(a.Kind == "extract" && a.Name == "0" && a.Args[0].IsCallTo("go/parser.ParseExpr") && a.Args[0].Args[0].String() == text) {
				return false
			}
			if cv, isCall := x.V.(*ssa.Call); isCall {
				judge = cv.Call.StaticCallee()
			}
			return judge != nil
		})
		d := c.ReachOf(s.Instr)
		okCall := d.Implies(isValue)
		okKinds := false
		if okCall && judge != nil && judge.Blocks != nil {
			tr := c.Reach(judge).RetCond(0, true)
			okKinds = len(tr) > 0
			for _, kind := range []string{"*ast.ArrayType", "*ast.MapType", "*ast.StructType", "*ast.FuncType"} {
				if !tr.Implies(c.M(false, assertOK(kind))) {
					okKinds = false
				}
			}
		}
		r.Check(rule, sprintf("%s:literal%d:is-a-value", FnKey(s.Fn), k), c.Pos(s.Pos()), okCall && okKinds,
			"a :literal text that parses as a type (`[]int`, `map[string]int`, `struct{}`, `func()`) is accepted: `dst.X = []int` does not compile (exit 0)")
	}
}

// keptLinesMoveRule (C11): lines kept in a comment group that lost lines take the places of the group's last lines.
func (c *Ctx) keptLinesMoveRule(rule string) {
	r := c.R
	r.Rule(rule, "util.ExtractMatchComments re-places the lines it keeps: the Slash of a kept comment is assigned from the positions the group's own lines had (so that the kept lines end where the group ended) – go/printer goes by positions, and a doc comment that loses its last line (`//go:generate stringer -type=Kind` below the prose) would otherwise end one line above its declaration and be printed detached from it, as a comment of its own")
	fn := c.MustFunc(rule, "/pkg/util", "ExtractMatchComments")
	if fn == nil {
		return
	}
	group := "param:" + fn.Params[0].Name()
	ok := false
	got := "no store into ast.Comment.Slash"
	for _, b := range fn.Blocks {
		for _, in := range b.Instrs {
			st, isSt := in.(*ssa.Store)
			if !isSt {
				continue
			}
			fa, isFA := st.Addr.(*ssa.FieldAddr)
			if !isFA || core.FieldName(fa.X.Type(), fa.Field) != "ast.Comment.Slash" {
				continue
			}
			v := c.O.Of(st.Val)
			got = v.String()
			// the position comes from the group's own lines: directly, or through a local list filled from them
			fromGroup := v.Contains(func(x *core.Term) bool {
				return x.IsField("ast.Comment.Slash") && x.Contains(func(y *core.Term) bool { return y.String() == group })
			})
			if !fromGroup {
				// a local []token.Pos filled in a loop over the group
				for _, b2 := range fn.Blocks {
					for _, in2 := range b2.Instrs {
						if s2, isS2 := in2.(*ssa.Store); isS2 {
							if _, isIA := s2.Addr.(*ssa.IndexAddr); isIA {
								t2 := c.O.Of(s2.Val)
								if t2.IsField("ast.Comment.Slash") && t2.Contains(func(y *core.Term) bool { return y.String() == group }) {
									fromGroup = true
								}
							}
						}
					}
				}
			}
			if fromGroup {
				ok = true
			}
		}
	}
	r.Check(rule, FnKey(fn)+":kept-lines-end-where-the-group-ended", c.Pos(fn.Pos()), ok, "the kept lines of a comment group keep their places when lines are removed: a doc comment whose last line is a directive ends one line above its declaration afterwards and is printed detached from it ("+got+")")
}

// filterAfterLookupsRule (C11/C03): the directive filter moves comment lines, so it runs after the last lookup by position.
func (c *Ctx) filterAfterLookupsRule(rule string) {
	r := c.R
	r.Rule(rule, "GenerateBaseCode: nothing looks an AST node up by position (util.ToAstNode → astutil.PathEnclosingInterval, util.InsertComment) after util.RemoveMatchComments has run: the filter re-places the comment lines it keeps (C11-13), and a long kept line moved onto the place of a short directive line extends over the nodes behind it – a lookup by position then stops at the file node, the markers are planted at position 0 and a well-formed setup file is rejected (`expected 'package', found 'func'`)")
	fn := c.MustMethod(rule, "/pkg/parser", "Parser", "GenerateBaseCode")
	if fn == nil {
		return
	}
	strips := c.CallsIn(fn, pUtil+"RemoveMatchComments", false)
	if len(strips) == 0 {
		r.Undecided(rule, FnKey(fn)+":strip", "no call of util.RemoveMatchComments found")
		return
	}
	rc := c.Reach(fn)
	ok, why := true, ""
	n := 0
	for _, name := range []string{pUtil + "ToAstNode", pUtil + "InsertComment", "golang.org/x/tools/go/ast/astutil.PathEnclosingInterval"} {
		for _, lk := range c.CallsIn(fn, name, false) {
			n++
			for _, s := range strips {
				sb, lb := s.Instr.Block(), lk.Instr.Block()
				after := false
				if sb == lb {
					after = indexIn(sb, s.Instr) < indexIn(lb, lk.Instr)
				} else {
					after = rc.CanReach(sb, lb)
				}
				if after {
					ok = false
					why = shortCallee(name) + " at " + c.Pos(lk.Pos())
				}
			}
		}
	}
	r.Check(rule, FnKey(fn)+":filter-after-lookups", c.Pos(strips[0].Pos()), ok, "a lookup by position runs after the directive filter has moved comment lines: "+why)
	r.Floor(rule, "position lookups in GenerateBaseCode", n, 2)
}

// methodDocFilterRule (C11): the doc comment handed on for the generated function has been through the directive filter.
func (c *Ctx) methodDocFilterRule(rule string) {
	r := c.R
	r.Rule(rule, "parseMethod: the comment group stored as MethodEntry.DocComment (its remaining lines become the doc comment of the generated function) is, on every way to that literal, the operand of util.ExtractMatchComments with the directive pattern (reGoBuildGen) as well as with the notation pattern: a `//go:generate …` line in a method's doc comment would otherwise be copied into the output and run again from there – the file-wide filter of GenerateBaseCode runs after the functions have been built from the texts")
	me := c.MustType(rule, "/pkg/builder/model", "MethodEntry")
	if me == nil {
		return
	}
	n := 0
	for _, a := range c.Lits(me) {
		fn := a.Parent()
		if p := pkgOf(fn); p == nil || p.Path() != mod+"/pkg/parser" {
			continue
		}
		doc := LitFields(a)["DocComment"]
		if doc == nil {
			continue
		}
		n++
		dt := c.O.Of(doc).String()
		for _, pat := range []string{"parser.reGoBuildGen", "parser.reNotation"} {
			ok := false
			for _, s := range c.CallsIn(fn, pUtil+"ExtractMatchComments", false) {
				if c.O.Of(s.Args()[0]).String() == dt && c.O.Of(s.Args()[1]).Is("global", pat) && s.Instr.Block().Dominates(a.Block()) {
					ok = true
				}
			}
			r.Check(rule, sprintf("%s:MethodEntry%d:filtered:%s", FnKey(fn), n, pat), c.InstrPos(a), ok, "the doc comment handed on for the generated function has not been through ExtractMatchComments(_, "+pat+") on every way to the entry")
		}
	}
	r.Floor(rule, "MethodEntry literals with a DocComment in the parser", n, 1)
}
