package rules

import (
	"cvcheck/internal/core"
	"strings"

	"golang.org/x/tools/go/ssa"
)

// C18 — CLI contract.
func C18(c *Ctx) {
	r := c.R
	r.Explanation = "Decided for all flag combinations and path spellings (shape of the computation): Config.Output is the -out flag when non-empty and otherwise input[:len(input)-len(path.Ext(input))] + \".gen\" + path.Ext(input); Config.Input is flag.Arg(0) and the GOFILE variable only when that is empty; " +
		"Config.Log is derived from Config.Output with the extension replaced by .log only under -log; DryRun/Prints come from the flags dry/print read after flag.Parse; the flag and variable names are the documented constants; " +
		"the writing function's bool parameters are fed from Config.Prints / Config.DryRun in their roles; every success return of the writing function is reached only with print off or after printing string(<the returned and written bytes>) as an operand (never as a format) on stdout."
	r.NotDecided = "relative/absolute spellings as seen by the OS; that -log cannot change the exit status (opening the log file may fail); the extra newline fmt.Println appends."

	r.Rule("C18-1", "ParseArgs: stores to Config.{Input,Output,Log,DryRun,Prints} have the documented shape and flag names; all flag values are read after flag.Parse")
	fn := c.MustMethod("C18-1", "/pkg/config", "Config", "ParseArgs")
	if fn == nil {
		return
	}
	key := FnKey(fn)
	rc := c.Reach(fn)
	stores := map[string][]*ssa.Store{}
	for _, b := range fn.Blocks {
		for _, in := range b.Instrs {
			if st, ok := in.(*ssa.Store); ok {
				if fa, ok := st.Addr.(*ssa.FieldAddr); ok {
					n := core.FieldName(fa.X.Type(), fa.Field)
					stores[n] = append(stores[n], st)
				}
			}
		}
	}
	flagVal := func(kind, name string) func(*core.Term) bool {
		return func(t *core.Term) bool {
			return t.Kind == "deref" && t.Args[0].IsCallTo("flag."+kind) && t.Args[0].Args[0].Is("const", `"`+name+`"`)
		}
	}
	var parse ssa.Instruction
	for _, s := range c.CallsIn(fn, "flag.Parse", false) {
		parse = s.Instr
	}
	r.Check("C18-1", key+":parses-flags", c.Pos(fn.Pos()), parse != nil, "flag.Parse is not called")
	afterParse := func(st *ssa.Store) bool {
		if parse == nil {
			return false
		}
		// the loaded flag value (a *ssa.UnOp) must be evaluated after Parse
		var load ssa.Instruction
		var find func(v ssa.Value, d int)
		find = func(v ssa.Value, d int) {
			if d > 8 || load != nil {
				return
			}
			switch x := v.(type) {
			case *ssa.UnOp:
				if call, ok := x.X.(*ssa.Call); ok && (core.CalleeName(&call.Call) == "flag.String" || core.CalleeName(&call.Call) == "flag.Bool") {
					load = x
					return
				}
				find(x.X, d+1)
			case *ssa.BinOp:
				find(x.X, d+1)
				find(x.Y, d+1)
			case *ssa.Phi:
				for _, e := range x.Edges {
					find(e, d+1)
				}
			}
		}
		find(st.Val, 0)
		if load == nil {
			return true
		}
		pb, lb := parse.Block(), load.Block()
		return pb.Dominates(lb) && (pb != lb || indexIn(pb, parse) < indexIn(lb, load))
	}
	// Input
	var inTerm *core.Term
	if ss := stores["config.Config.Input"]; len(ss) == 1 {
		inTerm = c.O.Of(ss[0].Val)
		cases := rc.Cases(ss[0].Val)
		ok := len(cases) == 2
		argEmpty := eqConst(func(t *core.Term) bool { return t.IsCallTo("flag.Arg") && t.Args[0].Is("const", "0") }, `""`)
		for _, cs := range cases {
			t := c.O.Of(cs.V)
			switch {
			case t.IsCallTo("flag.Arg") && t.Args[0].Is("const", "0"):
				ok = ok && cs.Cond.Implies(c.M(false, argEmpty))
			case t.IsCallTo("os.Getenv") && t.Args[0].Is("const", `"GOFILE"`):
				ok = ok && cs.Cond.Implies(c.M(true, argEmpty))
			default:
				ok = false
			}
		}
		r.Check("C18-1", key+":Input", c.InstrPos(ss[0]), ok, "Config.Input must be flag.Arg(0), or os.Getenv(\"GOFILE\") only when flag.Arg(0) is empty; got "+inTerm.String())
	} else {
		r.Check("C18-1", key+":Input", c.Pos(fn.Pos()), false, sprintf("expected one store to Config.Input, found %d", len(stores["config.Config.Input"])))
	}
	// replaceExt matches base[0:len(base)-len(path.Ext(base))] + mid (+ ext)
	stem := func(t *core.Term, base string) bool {
		if t.Kind != "slice" || t.Args[0].String() != base || !t.Args[1].Is("const", "0") {
			return false
		}
		h := t.Args[2]
		return h.Kind == "binop" && h.Name == "-" && h.Args[0].IsCallTo("builtin:len") && h.Args[0].Args[0].String() == base &&
			h.Args[1].IsCallTo("builtin:len") && h.Args[1].Args[0].IsCallTo("path.Ext") && h.Args[1].Args[0].Args[0].String() == base
	}
	// Output
	outFlag := flagVal("String", "out")
	outSet := c.M(false, eqConst(outFlag, `""`))
	outUnset := c.M(true, eqConst(outFlag, `""`))
	nOut := 0
	for _, st := range stores["config.Config.Output"] {
		nOut++
		d := c.ReachOf(st)
		t := c.OfInl(st.Val)
		switch {
		case d.Implies(outSet) && len(d) > 0 && !d.Implies(outUnset):
			r.Check("C18-1", key+":Output:-out", c.InstrPos(st), outFlag(t) && afterParse(st), "with -out the output path must be the flag value read after flag.Parse, got "+t.String())
		case d.Implies(outUnset):
			ok := inTerm != nil && t.Kind == "binop" && t.Name == "+" && t.Args[1].IsCallTo("path.Ext") && t.Args[1].Args[0].String() == inTerm.String() &&
				t.Args[0].Kind == "binop" && t.Args[0].Name == "+" && t.Args[0].Args[1].Is("const", `".gen"`) && stem(t.Args[0].Args[0], inTerm.String())
			r.Check("C18-1", key+":Output:default", c.InstrPos(st), ok, "the default output path must be input[:len(input)-len(path.Ext(input))] + \".gen\" + path.Ext(input), got "+t.String())
		default:
			r.Check("C18-1", key+":Output:controlled", c.InstrPos(st), false, "a store to Config.Output is not controlled by the -out flag; reach: "+d.Describe(c.O))
		}
	}
	r.Check("C18-1", key+":Output:both", c.Pos(fn.Pos()), nOut == 2, sprintf("expected the -out branch and the default branch, found %d stores", nOut))
	// Log
	for _, st := range stores["config.Config.Log"] {
		d := c.ReachOf(st)
		t := c.OfInl(st.Val)
		out := "field:config.Config.Output(param:" + fn.Params[0].Name() + ")"
		ok := d.Implies(c.M(true, flagVal("Bool", "log"))) && t.Kind == "binop" && t.Name == "+" && t.Args[1].Is("const", `".log"`) && stem(t.Args[0], out)
		// the store must come after both Output stores
		for _, os := range stores["config.Config.Output"] {
			if !rc.CanReach(os.Block(), st.Block()) {
				ok = false
			}
		}
		r.Check("C18-1", key+":Log", c.InstrPos(st), ok, "Config.Log must be set only under -log, to output[:len-len(ext)] + \".log\" of the final Config.Output; got "+t.String()+" under "+d.Describe(c.O))
	}
	r.Check("C18-1", key+":Log:set", c.Pos(fn.Pos()), len(stores["config.Config.Log"]) == 1, "expected one store to Config.Log")
	for fld, name := range map[string]string{"DryRun": "dry", "Prints": "print"} {
		ss := stores["config.Config."+fld]
		ok := len(ss) == 1 && flagVal("Bool", name)(c.O.Of(ss[0].Val)) && afterParse(ss[0]) && len(c.ReachOf(ss[0])) == 1 && len(c.ReachOf(ss[0])[0]) == 0
		r.Check("C18-1", key+":"+fld, c.Pos(fn.Pos()), ok, "Config."+fld+" must be the value of flag -"+name+" read after flag.Parse, unconditionally")
	}

	c.stdoutInventoryRule("C18-5")

	g := c.generateFacts("C18-2")
	if g == nil {
		return
	}
	gk := FnKey(g.fn)
	r.Rule("C18-2", "roles: the writing function's parameter whose false edge dominates the write is fed from Config.DryRun, the one guarding the stdout print from Config.Prints, the path from Config.Output, at every call site")
	r.Check("C18-2", gk+":print-param", c.Pos(g.fn.Pos()), g.prtParam != nil, "no bool parameter guards a stdout print of the formatted code")
	r.Check("C18-2", gk+":dry-param", c.Pos(g.fn.Pos()), g.dryParam != nil, "no bool parameter guards the write")
	for _, cs := range g.callers {
		ck := FnKey(cs.Fn) + "→" + gk
		for _, role := range []struct {
			p     *ssa.Parameter
			field string
		}{{g.prtParam, "config.Config.Prints"}, {g.dryParam, "config.Config.DryRun"}, {g.pathParam, "config.Config.Output"}} {
			if role.p == nil {
				continue
			}
			a := c.O.Of(cs.Args()[paramIndex(g.fn, role.p)])
			r.Check("C18-2", ck+":"+role.field, c.Pos(cs.Pos()), a.IsField(role.field), "parameter "+role.p.Name()+" must be fed from "+role.field+", got "+a.String())
		}
	}

	r.Rule("C18-3", "every success return of the writing function is reached either with print == false or after fmt.Print/Println(string(<the returned bytes>)) on stdout")
	r.Rule("C18-4", "what is printed on success paths is string(X) passed as an operand (not as a format string) where X is the very value that is written and returned")
	if g.prtParam == nil {
		return
	}
	prt := "param:" + g.prtParam.Name()
	for i, ret := range core.Returns(g.fn) {
		last := c.O.Of(ret.Results[len(ret.Results)-1])
		if !last.Is("const", "nil") {
			continue
		}
		val := c.O.Of(ret.Results[0])
		k := sprintf("%s:return%d", gk, i+1)
		r.Check("C18-4", k+":returns-written-value", c.InstrPos(ret), val.String() == g.data.String(), "the returned bytes are not the written bytes: "+val.String())
		blocked := map[*ssa.BasicBlock]bool{}
		for _, ps := range g.prints {
			if ps.val.String() != val.String() {
				continue
			}
			if ps.inner != nil && ps.inner != g.prtParam {
				continue // printed under some other flag
			}
			blocked[ps.instr.Block()] = true
		}
		av := c.ReachAvoid(g.fn, blocked)
		d := av.At(ret.Block())
		if blocked[ret.Block()] {
			d = nil
		}
		r.Check("C18-3", k+":printed-or-print-off", c.InstrPos(ret), d.Implies(c.M(false, termEq(prt))), "success can be reported with -print on without the code having been printed on stdout; reach avoiding the print: "+d.Describe(c.O))
	}
	// every stdout print reachable after format.Source succeeded prints the formatted value as operand
	fmtOK := c.M(true, errNotNil("go/format.Source"))
	for _, s := range c.Calls(func(n string) bool {
		return classify(n) == effOut || n == "(*os.File).Write" || n == "(*os.File).WriteString"
	}) {
		if s.Fn != g.fn || (strings.HasPrefix(s.Callee, "(*os.File)") && !c.isStdStreamWrite(s)) {
			continue
		}
		d := c.ReachOf(s.Instr)
		if !d.Implies(fmtOK) || len(d) == 0 {
			continue
		}
		pv, exact, ok := c.stdoutPrint(s)
		ok = ok && pv.String() == g.data.String()
		r.Check("C18-4", gk+":success-print:"+shortCallee(s.Callee), c.Pos(s.Pos()), ok, "on a success path stdout must receive the written bytes themselves (os.Stdout.Write(data) or fmt.Print(string(data)); a Printf would interpret % in the code)")
		r.Check("C18-4", gk+":success-print-exact:"+shortCallee(s.Callee), c.Pos(s.Pos()), ok && exact, "stdout receives the written bytes plus something: fmt.Println appends a newline the file does not contain (-print output must be identical to the file)")
	}
	// prints through a local closure: on success paths the closure must be given the written bytes; the closure body itself
	// must print with Print/Println only
	for _, ps := range g.prints {
		if !ps.viaClose {
			continue
		}
		d := c.ReachOf(ps.instr)
		if d.Implies(fmtOK) && len(d) > 0 {
			r.Check("C18-4", gk+":success-print:closure", c.InstrPos(ps.instr), ps.val.String() == g.data.String(), "on a success path the print helper is given something other than the written bytes: "+ps.val.String())
		}
	}
	for _, af := range g.fn.AnonFuncs {
		for _, s := range c.Calls(func(n string) bool {
			return classify(n) == effOut || n == "(*os.File).Write" || n == "(*os.File).WriteString"
		}) {
			if s.Fn != af || (strings.HasPrefix(s.Callee, "(*os.File)") && !c.isStdStreamWrite(s)) {
				continue
			}
			pv, exact, ok := c.stdoutPrint(s)
			ok = ok && pv.Kind == "param"
			r.Check("C18-4", FnKey(af)+":print:"+shortCallee(s.Callee), c.Pos(s.Pos()), ok, "a print helper of the writing function must print its argument's bytes themselves")
			_ = exact
		}
	}
	c.loggerOptionRule("C18-6")
	c.trailingArgsRule("C18-7")
}
