package rules

import (
	"fmt"
	"go/ast"
	"go/types"
	"sort"
	"strings"

	"cvcheck/internal/core"
	"cvcheck/internal/tpl"

	"golang.org/x/tools/go/ssa"
)

// tokVal renders every string leaf as «path» unless listed as empty; bools from the map.
type tokVal struct {
	empty map[string]bool
	b     map[string]bool
}

func (v tokVal) Bool(p string) bool { return v.b[p] }
func (v tokVal) Str(p string) string {
	if v.empty[p] {
		return ""
	}
	return "«" + p + "»"
}
func (v tokVal) Len(string) int        { return 0 }
func (v tokVal) Nil(string) bool       { return true }
func (v tokVal) DynType(string) string { return "" }

// nodeExpect is the documented rendering of a node method as a function of the valuation.
type nodeExpect func(v tokVal) string

func tk(p string) string { return "«" + p + "»" }

var nodeRenderings = map[string]nodeExpect{
	"RootNode.AssignExpr":    func(v tokVal) string { return v.Str("n.name") },
	"RootNode.MatcherExpr":   func(v tokVal) string { return "" },
	"RootNode.NullCheckExpr": func(v tokVal) string { return v.Str("n.name") },
	"StructFieldNode.AssignExpr": func(v tokVal) string {
		return v.Str("n.parent.AssignExpr()") + "." + v.Str("n.field.Name()")
	},
	"StructFieldNode.MatcherExpr": func(v tokVal) string {
		if v.Str("n.parent.MatcherExpr()") == "" {
			return v.Str("n.field.Name()")
		}
		return v.Str("n.parent.MatcherExpr()") + "." + v.Str("n.field.Name()")
	},
	"StructFieldNode.NullCheckExpr": func(v tokVal) string {
		return v.Str("n.parent.AssignExpr()") + "." + v.Str("n.field.Name()")
	},
	"StructMethodNode.AssignExpr": func(v tokVal) string {
		return v.Str("n.container.AssignExpr()") + "." + v.Str("n.method.Name()") + "()"
	},
	"StructMethodNode.MatcherExpr": func(v tokVal) string {
		if v.Str("n.container.MatcherExpr()") == "" {
			return v.Str("n.method.Name()") + "()"
		}
		return v.Str("n.container.MatcherExpr()") + "." + v.Str("n.method.Name()") + "()"
	},
	"StructMethodNode.NullCheckExpr": func(v tokVal) string {
		return v.Str("n.container.AssignExpr()") + "." + v.Str("n.method.Name()") + "()"
	},
	"StringerEntry.AssignExpr":    func(v tokVal) string { return v.Str("n.inner.AssignExpr()") + ".String()" },
	"StringerEntry.MatcherExpr":   func(v tokVal) string { return v.Str("n.inner.MatcherExpr()") },
	"StringerEntry.NullCheckExpr": func(v tokVal) string { return v.Str("n.inner.NullCheckExpr()") },
	"TypecastEntry.AssignExpr": func(v tokVal) string {
		return v.Str("n.expr") + "(" + v.Str("n.inner.AssignExpr()") + ")"
	},
	"TypecastEntry.MatcherExpr":   func(v tokVal) string { return v.Str("n.inner.MatcherExpr()") },
	"TypecastEntry.NullCheckExpr": func(v tokVal) string { return v.Str("n.inner.NullCheckExpr()") },
	"ConverterNode.AssignExpr": func(v tokVal) string {
		ref := ""
		if !v.Bool("IsPtr(n.arg.ExprType())") && v.Bool("IsPtr(n.converter.ArgType())") {
			ref = "&"
		}
		return v.Str("n.converter.converter") + "(" + ref + v.Str("n.arg.AssignExpr()") + ")" // Converter() is inlined to its field
	},
	"ConverterNode.MatcherExpr": func(v tokVal) string { return v.Str("n.arg.MatcherExpr()") },
}

// C02 — copies exactly the matched values, touches nothing else (necessary conditions on what can be emitted).
func C02(c *Ctx) {
	r := c.R
	r.Explanation = "The behavioural statement (values after the call, for all run-time values) is not decidable statically. Decided – necessary conditions on what can be emitted, for all inputs: " +
		"`dst = &T{}` is emitted iff return style with a pointer destination, exactly once and first; each assignment template writes its LHS field on the left of `=` and reads its RHS field; " +
		"every node kind renders its expression as documented (field = parent.name, getter = parent.name(), stringer = inner.String(), typecast = T(inner), converter = f([&]arg) with & exactly when needed); " +
		"source paths of :conv/:map are resolved from the root of the source operand; the reverse swap pairs each variable with its own signature element; nested pointer structs get their nil guard from ObjNullable."
	r.NotDecided = "equality of values; absence of nil dereference on nested pointers (TODO.md lists it as open); non-modification of the source at run time."

	r.Rule("C02-1", "template: `dst = &T{}` is emitted iff return style ∧ pointer destination, exactly once, as the first statement")
	r.Rule("C02-2", "template: each simple assignment renders as `<LHS> [, err] = <RHS>` with the LHS field on the left and the RHS field on the right; slice templates assign/index LHS and read RHS")
	if s := c.tplReady("C02-1"); s != nil {
		t := c.asgMembers(s)
		c.reportTally(t, "assignments", []string{"alloc", "assign"}, nil)
		th := c.hookMembers(s)
		c.reportTally(th, "hooks", []string{"alloc"}, nil)
		r.Note("C02_members_judged", t.judged+th.judged)
	}

	r.Rule("C02-4", "node rendering (extracted with calls on inner nodes / go/types objects kept as opaque leaves, compared for every valuation of the guards): "+strings.Join(sortedKeys(nodeRenderings), ", "))
	c.nodeRenderingRule()

	r.Rule("C02-3", "CreateFunction: in both branches of the Reverse test the variable given to the assignment builder as left/right variable is createVar(<the signature element passed to build as left/right operand>); the branches are mirror images")
	c.c02Reverse()

	r.Rule("C02-5", "NestStruct.NullCheckExpr is set only under rhs.ObjNullable() and is rhs.NullCheckExpr(); InitExpr only under IsPtr(lhs.ExprType())")
	if ns := c.MustType("C02-5", "/pkg/generator/model", "NestStruct"); ns != nil {
		n := 0
		for _, fn := range c.P.Funcs() {
			for _, b := range fn.Blocks {
				for _, in := range b.Instrs {
					st, ok := in.(*ssa.Store)
					if !ok {
						continue
					}
					fa, ok := st.Addr.(*ssa.FieldAddr)
					if !ok {
						continue
					}
					fname := core.FieldName(fa.X.Type(), fa.Field)
					switch fname {
					case "model.NestStruct.NullCheckExpr":
						n++
						v := c.O.Of(st.Val)
						d := c.ReachOf(st)
						ok2 := v.IsCallTo(invNullCheck) && d.Implies(c.M(true, func(t *core.Term) bool { return t.IsCallTo(invNullable) && t.Args[0].String() == v.Args[0].String() }))
						r.Check("C02-5", FnKey(fn)+":NullCheckExpr", c.InstrPos(st), ok2, "the nil guard of a nested struct must be X.NullCheckExpr() under X.ObjNullable() for the same source node X; got "+v.String()+" under "+d.Describe(c.O))
					case "model.NestStruct.InitExpr":
						n++
						d := c.ReachOf(st)
						ok2 := d.Implies(c.M(true, func(t *core.Term) bool { return t.IsCallTo(fnIsPtr) && t.Args[0].IsCallTo(invExprType) }))
						r.Check("C02-5", FnKey(fn)+":InitExpr", c.InstrPos(st), ok2, "the allocation of a nested destination struct must be emitted only for pointer-typed destination fields")
					}
				}
			}
		}
		r.Floor("C02-5", "stores to NestStruct guard fields", n, 2)
	}

	c.rootRule("C02-7")
}

// rootRule: resolveExpr is always started at the root of the source tree (shared by C02 and C06).
func (c *Ctx) rootRule(rule string) {
	r := c.R
	r.Rule(rule, "source paths of explicit notations are resolved from the root of the source operand: every resolveExpr(path, root) call is reached only with root.Parent() == nil for that very root value")
	n := 0
	for _, s := range c.Calls(func(n string) bool { return n == "(*"+pBld+"assignmentBuilder).resolveExpr" }) {
		n++
		root := s.Args()[2]
		d := c.ReachOf(s.Instr)
		ok := d.Implies(c.M(true, isNilCmp(func(t *core.Term) bool { return t.IsCallTo(invParent) && t.Args[0].V == root })))
		r.Check(rule, FnKey(s.Fn)+":resolveExpr-root", c.Pos(s.Pos()), ok, "the node handed to resolveExpr as root is not known to be the root of the source tree (Parent() == nil): for nested destinations the path would be resolved relative to an inner struct; reach: "+d.Describe(c.O))
	}
	r.Floor(rule, "resolveExpr call sites", n, 2)
}

func (c *Ctx) nodeRenderingRule() {
	r := c.R
	bm := c.P.Pkg("/pkg/builder/model")
	if bm == nil {
		r.Undecided("C02-4", "builder/model", "package not found")
		return
	}
	x := tpl.NewExtractor(c.P.Pkgs, c.P.Implementers)
	x.Opaque = true
	x.MaxDepth = 2
	nodeObj := bm.Types.Scope().Lookup("Node")
	if nodeObj == nil {
		r.Undecided("C02-4", "Node", "interface not found")
		return
	}
	impls := c.P.Implementers(nodeObj.Type().Underlying().(*types.Interface))
	seen := map[string]bool{}
	judged := 0
	for _, named := range impls {
		for _, mname := range []string{"AssignExpr", "MatcherExpr", "NullCheckExpr"} {
			key := named.Obj().Name() + "." + mname
			exp, has := nodeRenderings[key]
			if !has {
				if named.Obj().Name() == "ScalarNode" || key == "ConverterNode.NullCheckExpr" {
					continue // ScalarNode is not constructed by non-test code; ConverterNode.NullCheckExpr delegates to AssignExpr
				}
				r.Undecided("C02-4", key, "no documented rendering for this node method (new node kind?)")
				continue
			}
			seen[key] = true
			ms := types.NewMethodSet(named)
			sel := ms.Lookup(bm.Types, mname)
			if sel == nil {
				ms = types.NewMethodSet(types.NewPointer(named))
				sel = ms.Lookup(bm.Types, mname)
			}
			if sel == nil {
				r.Undecided("C02-4", key, "method not found")
				continue
			}
			fn := sel.Obj().(*types.Func)
			recvName := ""
			for _, f := range bm.Syntax {
				for _, d := range f.Decls {
					if fd, ok := d.(*ast.FuncDecl); ok && bm.TypesInfo.Defs[fd.Name] == fn && fd.Recv != nil && len(fd.Recv.List[0].Names) == 1 {
						recvName = fd.Recv.List[0].Names[0].Name
					}
				}
			}
			t, err := x.ExtractFunc(fn, map[string]string{recvName: "n"})
			if err != nil {
				r.Undecided("C02-4", key, "rendering not extractable: "+err.Error())
				continue
			}
			l := tpl.CollectLeaves(t)
			var atoms []string
			for _, b := range sortedKeys(l.Bools) {
				atoms = append(atoms, "b:"+b)
			}
			for _, sg := range sortedKeys(l.StrGuards) {
				atoms = append(atoms, "s:"+sg)
			}
			sort.Strings(atoms)
			ok := true
			msg := ""
			for m := 0; m < 1<<len(atoms); m++ {
				v := tokVal{empty: map[string]bool{}, b: map[string]bool{}}
				for i, a := range atoms {
					on := m&(1<<i) != 0
					if strings.HasPrefix(a, "b:") {
						v.b[a[2:]] = on
					} else {
						v.empty[a[2:]] = on
					}
				}
				got, err := tpl.Render(t, v)
				judged++
				want := exp(v)
				if err != nil || got != want {
					ok = false
					msg = fmt.Sprintf("under %v the method renders %q, documented %q (template %s)", atoms, got, want, tpl.String(t))
					if err != nil {
						msg = err.Error()
					}
					break
				}
			}
			r.Check("C02-4", key, c.Pos(fn.Pos()), ok, msg)
		}
	}
	for _, k := range sortedKeys(nodeRenderings) {
		if !seen[k] {
			r.Undecided("C02-4", k, "documented node method not found in the code")
		}
	}
	r.Note("C02-4_valuations_judged", judged)
}

func (c *Ctx) c02Reverse() {
	r := c.R
	cf := c.MustMethod("C02-3", "/pkg/builder", "FunctionBuilder", "CreateFunction")
	if cf == nil {
		return
	}
	nab := "" + pBld + "newAssignmentBuilder"
	build := "(*" + pBld + "assignmentBuilder).build"
	ctors := c.CallsIn(cf, nab, false)
	builds := c.CallsIn(cf, build, false)
	r.Check("C02-3", FnKey(cf)+":two-branches", c.Pos(cf.Pos()), len(ctors) == 2 && len(builds) == 2, sprintf("expected a builder and a build call on each side of the Reverse test, found %d/%d", len(ctors), len(builds)))
	if len(ctors) != 2 || len(builds) != 2 {
		return
	}
	// origin of a Var cell: the createVar call stored into it
	cellOrigin := func(v ssa.Value) *core.Term {
		if u, ok := v.(*ssa.UnOp); ok {
			if al, ok := u.X.(*ssa.Alloc); ok && al.Referrers() != nil {
				for _, rf := range *al.Referrers() {
					if st, ok := rf.(*ssa.Store); ok && st.Addr == al {
						return c.O.Of(st.Val)
					}
				}
			}
		}
		return c.O.Of(v)
	}
	type side struct{ lvar, rvar, lop, rop string }
	var sides []side
	var revs []bool
	for i := range ctors {
		// pair builder and build in the same block
		var b Site
		found := false
		for _, bb := range builds {
			if bb.Instr.Block() == ctors[i].Instr.Block() {
				b, found = bb, true
			}
		}
		if !found {
			r.Check("C02-3", FnKey(cf)+":paired", c.Pos(ctors[i].Pos()), false, "builder creation and build call are not in the same branch")
			return
		}
		l := cellOrigin(ctors[i].Args()[2])
		rr := cellOrigin(ctors[i].Args()[3])
		elem := func(t *core.Term) string {
			if t.IsCallTo("(*"+pBld+"FunctionBuilder).createVar") {
				return t.Args[1].String()
			}
			return "?" + t.String()
		}
		sides = append(sides, side{elem(l), elem(rr), c.O.Of(b.Args()[1]).String(), c.O.Of(b.Args()[2]).String()})
		d := c.ReachOf(ctors[i].Instr)
		revs = append(revs, d.Implies(c.M(true, isField(fldReverse))))
		if !d.Implies(c.M(true, isField(fldReverse))) && !d.Implies(c.M(false, isField(fldReverse))) {
			r.Check("C02-3", FnKey(cf)+":controlled", c.Pos(ctors[i].Pos()), false, "the operand order is not chosen by Options.Reverse")
		}
	}
	for i, s := range sides {
		r.Check("C02-3", sprintf("%s:branch%d:left-pair", FnKey(cf), i+1), c.Pos(ctors[i].Pos()), s.lvar == s.lop, "left variable is createVar("+s.lvar+") but build's left operand is "+s.lop)
		r.Check("C02-3", sprintf("%s:branch%d:right-pair", FnKey(cf), i+1), c.Pos(ctors[i].Pos()), s.rvar == s.rop, "right variable is createVar("+s.rvar+") but build's right operand is "+s.rop)
	}
	mirror := sides[0].lop == sides[1].rop && sides[0].rop == sides[1].lop && revs[0] != revs[1]
	r.Check("C02-3", FnKey(cf)+":mirror", c.Pos(cf.Pos()), mirror, "the two sides of the Reverse test are not mirror images")
	// non-reverse side: left = DstVar, right = SrcVar
	for i, s := range sides {
		if !revs[i] {
			ok := strings.Contains(s.lop, "DstVar") && strings.Contains(s.rop, "SrcVar")
			r.Check("C02-3", sprintf("%s:branch%d:direction", FnKey(cf), i+1), c.Pos(ctors[i].Pos()), ok, "without :reverse the left operand must be the method's destination and the right its source; got left="+s.lop+" right="+s.rop)
		}
	}
}
