package rules

import (
	"fmt"
	"go/ast"
	"go/types"
	"sort"
	"strings"

	"cvcheck/internal/core"
	"cvcheck/internal/tpl"

	"golang.org/x/tools/go/ssa"
)

// tokVal renders every string leaf as «path» unless listed as empty; bools from the map.
type tokVal struct {
	empty map[string]bool
	b     map[string]bool
}

func (v tokVal) Bool(p string) bool { return v.b[p] }
func (v tokVal) Str(p string) string {
	if v.empty[p] {
		return ""
	}
	return "«" + p + "»"
}
func (v tokVal) Len(string) int        { return 0 }
func (v tokVal) Nil(string) bool       { return true }
func (v tokVal) DynType(string) string { return "" }

// nodeExpect is the documented rendering of a node method as a function of the valuation.
type nodeExpect func(v tokVal) string

func tk(p string) string { return "«" + p + "»" }

var nodeRenderings = map[string]nodeExpect{
	"RootNode.AssignExpr":    func(v tokVal) string { return v.Str("n.name") },
	"RootNode.MatcherExpr":   func(v tokVal) string { return "" },
	"RootNode.NullCheckExpr": func(v tokVal) string { return v.Str("n.name") },
	"StructFieldNode.AssignExpr": func(v tokVal) string {
		return v.Str("n.parent.AssignExpr()") + "." + v.Str("n.field.Name()")
	},
	"StructFieldNode.MatcherExpr": func(v tokVal) string {
		if v.Str("n.parent.MatcherExpr()") == "" {
			return v.Str("n.field.Name()")
		}
		return v.Str("n.parent.MatcherExpr()") + "." + v.Str("n.field.Name()")
	},
	"StructFieldNode.NullCheckExpr": func(v tokVal) string {
		return v.Str("n.parent.AssignExpr()") + "." + v.Str("n.field.Name()")
	},
	"StructMethodNode.AssignExpr": func(v tokVal) string {
		return v.Str("n.container.AssignExpr()") + "." + v.Str("n.method.Name()") + "()"
	},
	"StructMethodNode.MatcherExpr": func(v tokVal) string {
		if v.Str("n.container.MatcherExpr()") == "" {
			return v.Str("n.method.Name()") + "()"
		}
		return v.Str("n.container.MatcherExpr()") + "." + v.Str("n.method.Name()") + "()"
	},
	"StructMethodNode.NullCheckExpr": func(v tokVal) string {
		return v.Str("n.container.AssignExpr()") + "." + v.Str("n.method.Name()") + "()"
	},
	"StringerEntry.AssignExpr":    func(v tokVal) string { return v.Str("n.inner.AssignExpr()") + ".String()" },
	"StringerEntry.MatcherExpr":   func(v tokVal) string { return v.Str("n.inner.MatcherExpr()") },
	"StringerEntry.NullCheckExpr": func(v tokVal) string { return v.Str("n.inner.NullCheckExpr()") },
	"TypecastEntry.AssignExpr": func(v tokVal) string {
		return v.Str("n.expr") + "(" + v.Str("n.inner.AssignExpr()") + ")"
	},
	"TypecastEntry.MatcherExpr":   func(v tokVal) string { return v.Str("n.inner.MatcherExpr()") },
	"TypecastEntry.NullCheckExpr": func(v tokVal) string { return v.Str("n.inner.NullCheckExpr()") },
	"ConverterNode.AssignExpr": func(v tokVal) string {
		ref := ""
		if !v.Bool("IsPtr(n.arg.ExprType())") && v.Bool("IsPtr(n.converter.ArgType())") {
			ref = "&"
		}
		return v.Str("n.converter.converter") + "(" + ref + v.Str("n.arg.AssignExpr()") + ")" // Converter() is inlined to its field
	},
	"ConverterNode.MatcherExpr": func(v tokVal) string { return v.Str("n.arg.MatcherExpr()") },
}

// C02 — copies exactly the matched values, touches nothing else (necessary conditions on what can be emitted).
func C02(c *Ctx) {
	r := c.R
	r.Explanation = "The behavioural statement (values after the call, for all run-time values) is not decidable statically. Decided – necessary conditions on what can be emitted, for all inputs: " +
		"`dst = &T{}` is emitted iff return style with a pointer destination, exactly once and first; each assignment template writes its LHS field on the left of `=` and reads its RHS field; " +
		"every node kind renders its expression as documented (field = parent.name, getter = parent.name(), stringer = inner.String(), typecast = T(inner), converter = f([&]arg) with & exactly when needed); " +
		"source paths of :conv/:map are resolved from the root of the source operand; the reverse swap pairs each variable with its own signature element; nested pointer structs get their nil guard from ObjNullable."
	r.NotDecided = "equality of values; absence of nil dereference on nested pointers (TODO.md lists it as open); non-modification of the source at run time."

	r.Rule("C02-1", "template: `dst = &T{}` is emitted iff return style ∧ pointer destination, exactly once, as the first statement")
	r.Rule("C02-2", "template: each simple assignment renders as `<LHS> [, err] = <RHS>` with the LHS field on the left and the RHS field on the right; slice templates assign/index LHS and read RHS")
	if s := c.tplReady("C02-1"); s != nil {
		t := c.asgMembers(s)
		c.reportTally(t, "assignments", []string{"alloc", "assign"}, nil)
		th := c.hookMembers(s)
		c.reportTally(th, "hooks", []string{"alloc"}, nil)
		r.Note("C02_members_judged", t.judged+th.judged)
	}

	r.Rule("C02-4", "node rendering (extracted with calls on inner nodes / go/types objects kept as opaque leaves, compared for every valuation of the guards): "+strings.Join(sortedKeys(nodeRenderings), ", "))
	c.nodeRenderingRule()

	r.Rule("C02-3", "CreateFunction: in both branches of the Reverse test the variable given to the assignment builder as left/right variable is createVar(<the signature element passed to build as left/right operand>); the branches are mirror images")
	c.c02Reverse()

	r.Rule("C02-5", "NestStruct.NullCheckExpr is set only under rhs.ObjNullable() and is rhs.NullCheckExpr(); InitExpr only under IsPtr(lhs.ExprType())")
	if ns := c.MustType("C02-5", "/pkg/generator/model", "NestStruct"); ns != nil {
		n := 0
		for _, fn := range c.P.Funcs() {
			for _, b := range fn.Blocks {
				for _, in := range b.Instrs {
					st, ok := in.(*ssa.Store)
					if !ok {
						continue
					}
					fa, ok := st.Addr.(*ssa.FieldAddr)
					if !ok {
						continue
					}
					fname := core.FieldName(fa.X.Type(), fa.Field)
					switch fname {
					case "model.NestStruct.NullCheckExpr":
						n++
						v := c.O.Of(st.Val)
						d := c.ReachOf(st)
						ok2 := v.IsCallTo(invNullCheck) && d.Implies(c.M(true, func(t *core.Term) bool { return t.IsCallTo(invNullable) && t.Args[0].String() == v.Args[0].String() }))
						r.Check("C02-5", FnKey(fn)+":NullCheckExpr", c.InstrPos(st), ok2, "the nil guard of a nested struct must be X.NullCheckExpr() under X.ObjNullable() for the same source node X; got "+v.String()+" under "+d.Describe(c.O))
					case "model.NestStruct.InitExpr":
						n++
						d := c.ReachOf(st)
						ok2 := d.Implies(c.M(true, func(t *core.Term) bool { return t.IsCallTo(fnIsPtr) && t.Args[0].IsCallTo(invExprType) }))
						r.Check("C02-5", FnKey(fn)+":InitExpr", c.InstrPos(st), ok2, "the allocation of a nested destination struct must be emitted only for pointer-typed destination fields")
					}
				}
			}
		}
		r.Floor("C02-5", "stores to NestStruct guard fields", n, 2)
	}

	c.rootRule("C02-7")
	c.methodIterationRule("C02-8")
	c.nodeAccessorRule("C02-10")
	c.createFunctionShapeRule("C02-11", "reverse-pointer")
	c.lateShapeRules("C02-12", "loop-names")
	c.namingRule("C02-9", "/pkg/builder/model", "/pkg/builder", "/pkg/generator/model", "/pkg/generator")
}

// rootRule: resolveExpr is always started at the root of the source tree (shared by C02 and C06).
func (c *Ctx) rootRule(rule string) {
	r := c.R
	r.Rule(rule, "source paths of explicit notations are resolved from the root of the source operand: every resolveExpr(path, root) call is reached only with root.Parent() == nil for that very root value")
	n := 0
	for _, s := range c.Calls(func(n string) bool { return n == "(*"+pBld+"assignmentBuilder).resolveExpr" }) {
		n++
		root := s.Args()[2]
		d := c.ReachOf(s.Instr)
		ok := d.Implies(c.M(true, isNilCmp(func(t *core.Term) bool { return t.IsCallTo(invParent) && t.Args[0].V == root })))
		if !ok {
			// the root may be computed by a helper: every return of that helper must be reached only with Parent() == nil of the returned value
			if call, isCall := root.(*ssa.Call); isCall {
				if g := call.Call.StaticCallee(); g != nil && g.Blocks != nil && core.InModule(pkgOf(g)) {
					all := true
					rets := core.Returns(g)
					for _, ret := range rets {
						rv := ret.Results[0]
						gd := c.ReachOf(ret)
						if !gd.Implies(c.M(true, isNilCmp(func(t *core.Term) bool { return t.IsCallTo(invParent) && t.Args[0].V == rv }))) {
							all = false
						}
					}
					ok = all && len(rets) > 0
				}
			}
		}
		r.Check(rule, FnKey(s.Fn)+":resolveExpr-root", c.Pos(s.Pos()), ok, "the node handed to resolveExpr as root is not known to be the root of the source tree (Parent() == nil): for nested destinations the path would be resolved relative to an inner struct; reach: "+d.Describe(c.O))
	}
	r.Floor(rule, "resolveExpr call sites", n, 2)
}

func (c *Ctx) nodeRenderingRule() {
	r := c.R
	bm := c.P.Pkg("/pkg/builder/model")
	if bm == nil {
		r.Undecided("C02-4", "builder/model", "package not found")
		return
	}
	x := tpl.NewExtractor(c.P.Pkgs, c.P.Implementers)
	x.Opaque = true
	x.MaxDepth = 2
	nodeObj := bm.Types.Scope().Lookup("Node")
	if nodeObj == nil {
		r.Undecided("C02-4", "Node", "interface not found")
		return
	}
	impls := c.P.Implementers(nodeObj.Type().Underlying().(*types.Interface))
	seen := map[string]bool{}
	judged := 0
	for _, named := range impls {
		for _, mname := range []string{"AssignExpr", "MatcherExpr", "NullCheckExpr"} {
			key := named.Obj().Name() + "." + mname
			exp, has := nodeRenderings[key]
			if !has {
				if named.Obj().Name() == "ScalarNode" || key == "ConverterNode.NullCheckExpr" {
					continue // ScalarNode is not constructed by non-test code; ConverterNode.NullCheckExpr delegates to AssignExpr
				}
				r.Undecided("C02-4", key, "no documented rendering for this node method (new node kind?)")
				continue
			}
			seen[key] = true
			ms := types.NewMethodSet(named)
			sel := ms.Lookup(bm.Types, mname)
			if sel == nil {
				ms = types.NewMethodSet(types.NewPointer(named))
				sel = ms.Lookup(bm.Types, mname)
			}
			if sel == nil {
				r.Undecided("C02-4", key, "method not found")
				continue
			}
			fn := sel.Obj().(*types.Func)
			recvName := ""
			for _, f := range bm.Syntax {
				for _, d := range f.Decls {
					if fd, ok := d.(*ast.FuncDecl); ok && bm.TypesInfo.Defs[fd.Name] == fn && fd.Recv != nil && len(fd.Recv.List[0].Names) == 1 {
						recvName = fd.Recv.List[0].Names[0].Name
					}
				}
			}
			t, err := x.ExtractFunc(fn, map[string]string{recvName: "n"})
			if err != nil {
				r.Undecided("C02-4", key, "rendering not extractable: "+err.Error())
				continue
			}
			l := tpl.CollectLeaves(t)
			var atoms []string
			for _, b := range sortedKeys(l.Bools) {
				atoms = append(atoms, "b:"+b)
			}
			for _, sg := range sortedKeys(l.StrGuards) {
				atoms = append(atoms, "s:"+sg)
			}
			sort.Strings(atoms)
			ok := true
			msg := ""
			for m := 0; m < 1<<len(atoms); m++ {
				v := tokVal{empty: map[string]bool{}, b: map[string]bool{}}
				for i, a := range atoms {
					on := m&(1<<i) != 0
					if strings.HasPrefix(a, "b:") {
						v.b[a[2:]] = on
					} else {
						v.empty[a[2:]] = on
					}
				}
				got, err := tpl.Render(t, v)
				judged++
				want := exp(v)
				if err != nil || got != want {
					ok = false
					msg = fmt.Sprintf("under %v the method renders %q, documented %q (template %s)", atoms, got, want, tpl.String(t))
					if err != nil {
						msg = err.Error()
					}
					break
				}
			}
			r.Check("C02-4", key, c.Pos(fn.Pos()), ok, msg)
		}
	}
	for _, k := range sortedKeys(nodeRenderings) {
		if !seen[k] {
			r.Undecided("C02-4", k, "documented node method not found in the code")
		}
	}
	r.Note("C02-4_valuations_judged", judged)
}

func (c *Ctx) c02Reverse() {
	r := c.R
	cf := c.MustMethod("C02-3", "/pkg/builder", "FunctionBuilder", "CreateFunction")
	if cf == nil {
		return
	}
	nab := "" + pBld + "newAssignmentBuilder"
	build := "(*" + pBld + "assignmentBuilder).build"
	// the builders may sit in CreateFunction itself or in a helper split off from it (found through the constructor calls)
	ctors := c.CallsTo(nab)
	top := cf
	for _, ct := range ctors {
		if ct.Fn != ctors[0].Fn {
			r.Check("C02-3", FnKey(cf)+":has-builder", c.Pos(cf.Pos()), false, "assignment builders are created in more than one function: "+FnKey(ct.Fn)+", "+FnKey(ctors[0].Fn))
			return
		}
	}
	if len(ctors) > 0 && ctors[0].Fn != cf {
		up := ctors[0].Fn
		for i := 0; i < 3 && up != cf; i++ {
			site, ok := c.UniqueCaller(up)
			if !ok {
				break
			}
			up = site.Fn
		}
		if up != cf {
			r.Check("C02-3", FnKey(cf)+":has-builder", c.Pos(cf.Pos()), false, "the assignment builders are created in "+FnKey(ctors[0].Fn)+", which is not a helper called only from CreateFunction")
			return
		}
		cf = ctors[0].Fn
	}
	builds := c.CallsIn(cf, build, false)
	r.Check("C02-3", FnKey(cf)+":has-builder", c.Pos(cf.Pos()), len(ctors) >= 1 && len(ctors) == len(builds), sprintf("expected one build call per assignment builder, found %d builders / %d builds", len(ctors), len(builds)))
	if len(ctors) == 0 || len(ctors) != len(builds) {
		return
	}
	rc := c.Reach(cf)
	// origin of a Var value: the signature element given to createVar
	var elemOf func(v ssa.Value) string
	elemOf = func(v ssa.Value) string {
		t := c.OfUpTo(v, top)
		if t.V != nil && t.V != v && !t.IsCallTo("(*"+pBld+"FunctionBuilder).createVar") {
			return elemOf(t.V) // a field of a parameter struct, read through to the caller's variable
		}
		if u, ok := v.(*ssa.UnOp); ok {
			if al, ok := u.X.(*ssa.Alloc); ok && al.Referrers() != nil {
				for _, rf := range *al.Referrers() {
					if st, ok := rf.(*ssa.Store); ok && st.Addr == al {
						t = c.OfUpTo(st.Val, top)
					}
				}
			}
		}
		if t.IsCallTo("(*" + pBld + "FunctionBuilder).createVar") {
			return t.Args[1].String()
		}
		return "?" + t.String()
	}
	cases := func(v ssa.Value, at ssa.Instruction) []core.ValueCase {
		cs := rc.Cases(v)
		for i := range cs {
			if cs[i].Cond == nil {
				cs[i].Cond = c.ReachOf(at)
			} else {
				cs[i].Cond = core.And(cs[i].Cond, c.ReachOf(at))
			}
		}
		return cs
	}
	rev := c.M(true, isField(fldReverse))
	nrev := c.M(false, isField(fldReverse))
	seenRev, seenFwd := false, false
	for i, ct := range ctors {
		// the build call on this builder
		var b Site
		found := false
		for _, bb := range builds {
			if bb.Args()[0] == ct.Instr.(ssa.Value) {
				b, found = bb, true
			}
		}
		if !found {
			r.Check("C02-3", sprintf("%s:builder%d:paired", FnKey(cf), i+1), c.Pos(ct.Pos()), false, "no build call on this assignment builder")
			continue
		}
		for side, idx := range map[string][2]int{"left": {2, 1}, "right": {3, 2}} {
			vc := cases(ct.Args()[idx[0]], ct.Instr)
			oc := cases(b.Args()[idx[1]], b.Instr)
			ok := true
			why := ""
			for _, v := range vc {
				for _, o := range oc {
					both := core.And(v.Cond, o.Cond)
					if len(both) == 0 {
						continue
					}
					ve, oe := elemOf(v.V), c.OfUpTo(o.V, top).String()
					if ve != oe {
						ok = false
						why = "variable is createVar(" + ve + ") while the operand given to build is " + oe + " under " + both.Describe(c.O)
					}
					isRev, isFwd := both.Implies(rev), both.Implies(nrev)
					if !isRev && !isFwd {
						ok = false
						why = "the operand order is not chosen by Options.Reverse"
					}
					wantFwd := map[string]string{"left": "DstVar", "right": "SrcVar"}[side]
					wantRev := map[string]string{"left": "SrcVar", "right": "DstVar"}[side]
					if isFwd && !isRev {
						seenFwd = true
						if !strings.Contains(oe, wantFwd) {
							ok = false
							why = "without :reverse the " + side + " operand must be the method's " + wantFwd + ", got " + oe
						}
					}
					if isRev && !isFwd {
						seenRev = true
						if !strings.Contains(oe, wantRev) {
							ok = false
							why = "under :reverse the " + side + " operand must be the method's " + wantRev + ", got " + oe
						}
					}
				}
			}
			r.Check("C02-3", sprintf("%s:builder%d:%s-pair", FnKey(cf), i+1, side), c.Pos(ct.Pos()), ok, why)
		}
	}
	r.Check("C02-3", FnKey(cf)+":both-directions", c.Pos(cf.Pos()), seenRev && seenFwd, "expected the operand order to be decided for both values of Options.Reverse")
}
