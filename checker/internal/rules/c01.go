package rules

import (
	"strings"

	"cvcheck/internal/core"

	"golang.org/x/tools/go/ssa"
)

const (
	fnIsExternalPkg = "(*" + pBld + "assignmentBuilder).isExternalPkg"
	fnPkgOf         = pUtil + "PkgOf"
)

// C01 — generated file is valid Go that compiles.
func C01(c *Ctx) {
	r := c.R
	r.Explanation = "Decided for all inputs: the syntactic half (every member of the emitted-code grammar parses; the written bytes are the result of gofmt over goimports over the assembled text, reached only on the nil-error edges) and the type-level half for the skeleton of every emitted function " +
		"(headers, hook calls, error plumbing, slice templates, nesting type-check in a synthetic package for every valuation of the IR flags under the builder invariants I1–I3). " +
		"For the leaves: cross-package visibility is tested with the package of the very type whose member is used, on every resolver step; conversions/wrappers/copy() are emitted only under the go/types judgement that makes them legal and never around two-value calls; unqualified type printing reaches IR text only for basic types; pointer conversions are parenthesised."
	r.NotDecided = "that every rendered leaf expression or type name is correct for every Go type shape (package names that differ from the last path element, anonymous structs of imported types, generic types): these depend on go/types values, not on the shape of the generator."

	r.Rule("C01-1", "pipeline: the bytes given to os.WriteFile (and returned) are result 0 of format.Source applied to result 0 of imports.Process(outPath, <result 0 of generateContent>, nil), each taken on its nil-error edge")
	if g := c.generateFacts("C01-1"); g != nil {
		d := g.dataInl
		ok := d.Kind == "extract" && d.Name == "0" && d.Args[0].IsCallTo("go/format.Source")
		var imp *core.Term
		if ok {
			imp = d.Args[0].Args[0]
			ok = imp.Kind == "extract" && imp.Name == "0" && imp.Args[0].IsCallTo("golang.org/x/tools/imports.Process")
		}
		if ok {
			content := imp.Args[0].Args[1]
			// (the assembling function may have no error result: it only writes into in-memory buffers)
			ok = (content.Kind == "extract" && content.Name == "0" && content.Args[0].IsCallTo("(*"+pGen+"Generator).generateContent")) ||
				content.IsCallTo("(*"+pGen+"Generator).generateContent")
		}
		r.Check("C01-1", FnKey(g.fn)+":written-bytes", c.Pos(g.write.Pos()), ok, "the written bytes are not gofmt(goimports(assembled content)): "+d.String())
		dd := c.ReachOf(g.write.Instr)
		for _, callee := range []string{"(*" + pGen + "Generator).generateContent", "golang.org/x/tools/imports.Process", "go/format.Source"} {
			if gc := c.P.LookupMethod("/pkg/generator", "Generator", "generateContent"); gc != nil && strings.HasSuffix(callee, "generateContent") && gc.Signature.Results().Len() == 1 {
				continue // no error result: nothing to fail
			}
			r.Check("C01-1", FnKey(g.fn)+":nil-edge:"+shortCallee(callee), c.Pos(g.write.Pos()), dd.Implies(c.M(true, errNotNil(callee))), "the write is reachable although "+callee+" failed; reach: "+dd.Describe(c.O))
		}
		for i, ret := range c.successReturns(g.fn) {
			t := c.O.Of(ret.Results[0])
			r.Check("C01-1", sprintf("%s:success%d:returns-formatted", FnKey(g.fn), i+1), c.InstrPos(ret), t.String() == g.data.String(), "a success return hands back bytes other than the formatted ones: "+t.String())
		}
	}

	r.Rule("C01-2", "every member of the emitted grammar (headers × hooks × assignment sequences incl. two nesting levels) parses and type-checks in the synthetic package under I1 (error-capturing assignment ⇒ method error), I2 (error hook ⇒ method error), I3 (hook extras ⇒ same number of method extras)")
	if s := c.tplReady("C01-2"); s != nil {
		ta := c.asgMembers(s)
		c.reportTally(ta, "assignments", []string{"render", "parse", "type", "err-undeclared"}, map[string]string{"err-undeclared": "C01-7"})
		th := c.hookMembers(s)
		c.reportTally(th, "hooks", []string{"render", "parse", "type"}, nil)
		r.Note("C01_members_judged", ta.judged+th.judged)
		r.Floor("C01-2", "members judged", ta.judged+th.judged, 3000)
	}
	r.Rule("C01-7", "an `…, err =` assignment only in a function that declares err (template side; the builder side is C07-3)")

	c.unqualifiedTypeRule()
	c.visibilityRules("C01-4")

	r.Rule("C01-5", "go/types judgements in front of emitted conversions: the obligations of C04-2 (NewTypecast), C04-9 (identity return of the cast ladder) and C16-2 (copy() only for identical element types) – re-evaluated here")
	for _, s := range c.CallsTo(fnNewTypecast) {
		if len(s.Args()) < 4 {
			continue
		}
		T := c.O.Of(s.Args()[2]).String()
		x := c.O.Of(s.Args()[3]).String()
		d := c.ReachOf(s.Instr)
		r.Check("C01-5", FnKey(s.Fn)+":NewTypecast:convertible", c.Pos(s.Pos()), d.Implies(c.M(true, isCall(fnConvertible, exprTypeOf(x), termEq(T)))), "a conversion T(x) can be emitted without ConvertibleTo(x's type, T); reach: "+d.Describe(c.O))
	}
	if named := c.P.LookupType("/pkg/generator/model", "SliceAssignment"); named != nil {
		for _, a := range c.Lits(named) {
			d := c.ReachOf(a)
			ok := d.Implies(c.M(true, func(t *core.Term) bool { return t.IsCallTo(fnIdentical) }))
			r.Check("C01-5", FnKey(a.Parent())+":copy-needs-identical", c.InstrPos(a), ok, "copy() emitted for non-identical element types does not compile; reach: "+d.Describe(c.O))
		}
	}
	c.wrapperRule("C01-6")
	c.typecastPointerRule()
	c.importKeyRule("C01-9")
	c.typeNameRule("C01-10")
	c.importTableRule("C01-11")
	c.getterShapeRule("C01-12")
	c.typePredicateRule("C01-13")
	c.typecastIdentityRule("C01-14")
	c.loaderConfigRule("C01-15")
	c.addressOfRule("C01-16")
	c.foreignTypeRule("C01-17")
	c.nameableRule("C01-18")
	c.callableGetterRule("C01-19")
	c.createFunctionShapeRule("C01-20", "names")
	c.typecastNameRule("C01-21")
}

// wrapperRule: wrappers never surround nodes that may return (value, error).
func (c *Ctx) wrapperRule(rule string) {
	r := c.R
	r.Rule(rule, "wrapper nodes (String() call, conversion) are only built around a node X with X.ReturnsError() == false (a two-value call cannot be wrapped)")
	n := 0
	for _, s := range append(c.CallsTo(fnNewStringer), c.CallsTo(fnNewTypecast)...) {
		n++
		args := s.Args()
		x := c.O.Of(args[len(args)-1]).String()
		d := c.ReachOf(s.Instr)
		ok := d.Implies(c.M(false, func(t *core.Term) bool { return t.IsCallTo(invRetErr) && t.Args[0].String() == x }))
		r.Check(rule, FnKey(s.Fn)+":"+shortCallee(s.Callee), c.Pos(s.Pos()), ok, "a wrapper is put around a node that may return (value, error): the emitted conversion / String() call would not compile and the error flag is lost; reach: "+d.Describe(c.O))
	}
	r.Floor(rule, "wrapper construction sites", n, 2)
}

// unqualifiedTypeRule (C01-3): Type.String() / TypeString(_, nil) print import paths; their result may become IR text only for basic types.
func (c *Ctx) unqualifiedTypeRule() {
	r := c.R
	r.Rule("C01-3", "the result of (types.Type).String() / types.TypeString(t, nil) (which prints import paths) is only compared, logged, or – when it becomes emitted text – produced under a dominating test that the printed type is basic (IsBasicType / *types.Basic case)")
	n := 0
	for _, s := range c.Calls(func(n string) bool {
		return n == "(types.Type).String" || n == "go/types.TypeString" || strings.HasSuffix(n, "go/types.Basic).String")
	}) {
		if s.Callee == "go/types.TypeString" {
			q := c.O.Of(s.Args()[1])
			if !q.Is("const", "nil") {
				continue // qualified rendering
			}
		}
		v, ok := s.Instr.(ssa.Value)
		if !ok || v.Referrers() == nil {
			continue
		}
		textUse := false
		for _, rf := range *v.Referrers() {
			switch x := rf.(type) {
			case *ssa.DebugRef:
			case *ssa.BinOp:
				if x.Op.String() == "==" || x.Op.String() == "!=" {
					continue
				}
				textUse = true
			case *ssa.MakeInterface:
				// operand of a log / error message?
				onlyLog := true
				for _, u := range usesAsArgDeep(x) {
					nme := core.CalleeName(u.Common())
					if !(strings.HasPrefix(nme, pLog) || nme == "fmt.Errorf") {
						onlyLog = false
					}
				}
				if !onlyLog {
					textUse = true
				}
			default:
				textUse = true
			}
		}
		if !textUse {
			continue
		}
		n++
		recv := c.O.Of(s.Args()[0])
		d := c.ReachOf(s.Instr)
		basic := c.M(true, func(t *core.Term) bool {
			if t.IsCallTo(fnIsBasic) {
				return true
			}
			return t.Kind == "extract" && t.Name == "1" && t.Args[0].Kind == "typeassert,ok" && t.Args[0].Name == "*types.Basic"
		})
		r.Check("C01-3", FnKey(s.Fn)+":"+shortCallee(s.Callee)+":"+recv.Kind, c.Pos(s.Pos()), d.Implies(basic),
			"an unqualified type string ("+recv.String()+".String()) can become emitted text for a non-basic type: named types inside it are printed with their import path and do not compile; reach: "+d.Describe(c.O))
	}
	r.Floor("C01-3", "unqualified type strings that become text", n, 1)
}

// usesAsArgDeep follows a value through varargs arrays to the calls that receive it.
func usesAsArgDeep(v ssa.Value) []ssa.CallInstruction {
	var out []ssa.CallInstruction
	seen := map[ssa.Value]bool{}
	var walk func(x ssa.Value)
	walk = func(x ssa.Value) {
		if x == nil || seen[x] || x.Referrers() == nil {
			return
		}
		seen[x] = true
		for _, rf := range *x.Referrers() {
			switch y := rf.(type) {
			case ssa.CallInstruction:
				out = append(out, y)
			case *ssa.Store:
				if ia, ok := y.Addr.(*ssa.IndexAddr); ok {
					walk(ia.X)
				}
			case *ssa.Slice:
				walk(y)
			case *ssa.MakeInterface:
				walk(y)
			}
		}
	}
	walk(v)
	return out
}

// visibilityRules: cross-package visibility (shared by C01 and C05).
func (c *Ctx) visibilityRules(rule string) {
	r := c.R
	r.Rule(rule, "visibility: isExternalPkg(p) ⇔ p != nil ∧ thisPkg.PkgPath != p.Path(); isStructFieldAccessible(struct, name) ⇒ name is not the blank identifier ∧ struct type is a struct ∧ (¬external(package the member is written in – for a field (*types.Var).Pkg() of the field of that name) ∨ ast.IsExported(name)); in the source-path resolvers every field/method node is built only under ¬(external ∧ ¬IsExported(member name)) where external is computed from the package of the very type the member was looked up in")
	if fn := c.MustMethod(rule, "/pkg/builder", "assignmentBuilder", "isExternalPkg"); fn != nil {
		rc := c.Reach(fn)
		tr := rc.RetCond(0, true)
		fl := rc.RetCond(0, false)
		differs := func(l core.Lit) bool {
			t, pos := c.Canon(l)
			if t.Kind != "binop" || t.Name != "==" || pos {
				return false
			}
			a, b := t.Args[0], t.Args[1]
			isPath := func(x *core.Term) bool { return x.IsCallTo("(*go/types.Package).Path") && x.Args[0].Kind == "param" }
			isOwn := func(x *core.Term) bool { return x.IsField("packages.Package.PkgPath") }
			return (isPath(a) && isOwn(b)) || (isPath(b) && isOwn(a))
		}
		same := func(l core.Lit) bool { return differs(core.Lit{V: l.V, Neg: !l.Neg, T: l.T}) }
		isNil := c.M(true, isNilCmp(func(t *core.Term) bool { return t.Kind == "param" }))
		r.Check(rule, FnKey(fn)+":true⇒path-differs", c.Pos(fn.Pos()), len(tr) > 0 && tr.Implies(differs), "a package is called external although its import path was not compared with the current package's path (comparing names confuses packages that share a name); true-condition: "+tr.Describe(c.O))
		r.Check(rule, FnKey(fn)+":false⇒same-or-nil", c.Pos(fn.Pos()), len(fl) > 0 && fl.Implies(same, isNil), "a package with a different import path can be treated as the current package; false-condition: "+fl.Describe(c.O))
	}
	if fn := c.MustMethod(rule, "/pkg/builder", "assignmentBuilder", "isStructFieldAccessible"); fn != nil {
		rc := c.Reach(fn)
		tr := rc.RetCond(0, true)
		leaf := "param:" + fn.Params[len(fn.Params)-1].Name()
		structNode := "param:" + fn.Params[1].Name()
		isStruct := c.M(true, func(t *core.Term) bool {
			return t.IsCallTo(fnIsStruct) && t.Contains(func(s *core.Term) bool { return s.String() == structNode })
		})
		// the package that counts is the one the member is written in: for a field that is (*types.Var).Pkg() of the field
		// of that name – the struct type's own package says nothing for an unnamed struct type, and `type T ext.S` has
		// ext's fields
		fieldOfStruct := func(s *core.Term) bool {
			return s.IsCallTo("(*go/types.Struct).Field") && s.Args[0].Contains(func(x *core.Term) bool { return x.String() == structNode })
		}
		fieldPkg := func(s *core.Term) bool {
			return s.Kind == "call" && strings.HasSuffix(s.Name, ").Pkg") && s.Contains(fieldOfStruct) && !s.Contains(func(x *core.Term) bool { return x.IsCallTo("(*go/types.Named).Obj") })
		}
		local := c.M(false, func(t *core.Term) bool {
			return t.IsCallTo(fnIsExternalPkg) && t.Args[1].Contains(fieldPkg)
		})
		exported := c.M(true, func(t *core.Term) bool { return t.IsCallTo("go/ast.IsExported") && t.Args[0].String() == leaf })
		// … taken from the field whose name is the member's – in this function, or in a same-package helper it hands the struct
		// type to (`memberPkg(structType, name)`)
		okField := false
		namedExcluded := false
		whyExcluded := ""
		helperWithField := map[string]bool{}
		scanFns := []*ssa.Function{fn}
		for _, b := range fn.Blocks {
			for _, in := range b.Instrs {
				if ci, isCall := in.(ssa.CallInstruction); isCall {
					if h := ci.Common().StaticCallee(); h != nil && h != fn && h.Blocks != nil && pkgOf(h) == pkgOf(fn) {
						scanFns = append(scanFns, h)
					}
				}
			}
		}
		// a condition in front of the field scan that is about the struct type's having a name or a package confines the scan
		// to unnamed types (`pkg := util.PkgOf(t); if pkg == nil { scan }`, `if _, ok := t.(*types.Named); !ok { scan }`, a type
		// switch with the scan in the *types.Struct arm)
		confines := func(l core.Lit) string {
			t, pos := c.Canon(l)
			switch {
			case t.Kind == "extract" && t.Name == "1" && t.Args[0].Kind == "typeassert,ok" && t.Args[0].Name == "*types.Named" && !pos:
				return "the type is not a *types.Named"
			case t.Kind == "extract" && t.Name == "1" && t.Args[0].Kind == "typeassert,ok" && t.Args[0].Name == "*types.Struct" && pos &&
				!t.Args[0].Contains(func(x *core.Term) bool { return x.Kind == "invoke" && strings.HasSuffix(x.Name, ".Underlying") }):
				return "the type itself (not its underlying type) is a *types.Struct"
			case t.Kind == "typeswitch" || strings.HasPrefix(t.Kind, "typeassert") && t.Name == "*types.Struct" && pos &&
				!t.Contains(func(x *core.Term) bool { return x.Kind == "invoke" && strings.HasSuffix(x.Name, ".Underlying") }):
				return "the type itself is a *types.Struct"
			case t.Kind == "binop" && t.Name == "==" && pos:
				for i := 0; i < 2; i++ {
					x, k := t.Args[i], t.Args[1-i]
					if k.Is("const", "nil") && (x.IsCallTo(pUtil+"PkgOf") || (x.Kind == "call" && strings.HasSuffix(x.Name, ").Pkg")) || x.Kind == "local" || x.Kind == "phi") {
						if x.IsCallTo(pUtil+"PkgOf") || (x.Kind == "call" && strings.HasSuffix(x.Name, ").Pkg")) {
							return "the type has no package of its own (" + x.String() + " == nil)"
						}
					}
				}
			}
			return ""
		}
		for _, sf := range scanFns {
			sleaf, sstruct := leaf, structNode
			fos, fpk := fieldOfStruct, fieldPkg
			if sf != fn {
				// in a helper the struct type and the name are its own parameters
				sleaf = ""
				for _, p := range sf.Params {
					if p.Type().String() == "string" {
						sleaf = "param:" + p.Name()
					}
				}
				fos = func(s *core.Term) bool { return s.IsCallTo("(*go/types.Struct).Field") }
				fpk = func(s *core.Term) bool {
					return s.Kind == "call" && strings.HasSuffix(s.Name, ").Pkg") && s.Contains(fos) && !s.Contains(func(x *core.Term) bool { return x.IsCallTo("(*go/types.Named).Obj") })
				}
				_ = sstruct
			}
			for _, b := range sf.Blocks {
				for _, in := range b.Instrs {
					v, isV := in.(ssa.Value)
					if !isV || !fpk(c.O.Of(v)) {
						continue
					}
					if _, isCall := in.(*ssa.Call); !isCall {
						continue
					}
					d := c.ReachOf(in)
					for _, cj := range d {
						for _, l := range cj {
							if w := confines(l); w != "" {
								namedExcluded = true
								whyExcluded = w
							}
						}
					}
					okHere := len(d) > 0 && d.Implies(c.M(true, func(t *core.Term) bool {
						if t.Kind != "binop" || t.Name != "==" {
							return false
						}
						for i := 0; i < 2; i++ {
							a, b := t.Args[i], t.Args[1-i]
							if b.String() == sleaf && a.Kind == "call" && strings.HasSuffix(a.Name, ").Name") && a.Contains(fos) {
								return true
							}
						}
						return false
					}))
					if okHere {
						okField = true
						if sf != fn {
							helperWithField[sf.String()] = true
							helperWithField[core.FuncName(sf)] = true
							// the call of the helper must not be confined either
							for _, cs := range c.CallsIn(fn, sf.String(), false) {
								for _, cj := range c.ReachOf(cs.Instr) {
									for _, l := range cj {
										if w := confines(l); w != "" {
											namedExcluded = true
											whyExcluded = w
										}
									}
								}
							}
						}
					}
				}
			}
		}
		if len(helperWithField) > 0 {
			local = c.M(false, func(t *core.Term) bool {
				return t.IsCallTo(fnIsExternalPkg) && (t.Args[1].Contains(fieldPkg) || t.Args[1].Contains(func(x *core.Term) bool { return x.Kind == "call" && helperWithField[x.Name] }))
			})
		}
		r.Check(rule, FnKey(fn)+":package-of-the-field:named-types-too", c.Pos(fn.Pos()), okField && !namedExcluded, "the field's own package is consulted for unnamed struct types only ("+whyExcluded+"): a type defined in this package on top of an imported struct (`type Record ext.Account`) has ext's fields, whose unexported members this package cannot touch")
		r.Check(rule, FnKey(fn)+":package-of-the-field", c.Pos(fn.Pos()), okField, "the member's visibility is not judged by the package of the struct field of that name ((*types.Var).Pkg() taken under Field(i).Name() == name): the members of an unnamed struct type written in another package (`Limit struct{ max int }` inside an imported type) count as visible")
		notBlank := c.M(false, eqConst(func(t *core.Term) bool { return t.String() == leaf }, `"_"`))
		r.Check(rule, FnKey(fn)+":true⇒not-blank", c.Pos(fn.Pos()), len(tr) > 0 && tr.Implies(notBlank), "the blank field `_` is called accessible: it can neither be read nor assigned (`dst._ = src._` does not compile); true-condition: "+tr.Describe(c.O))
		r.Check(rule, FnKey(fn)+":true⇒struct", c.Pos(fn.Pos()), len(tr) > 0 && tr.Implies(isStruct), "true-condition: "+tr.Describe(c.O))
		r.Check(rule, FnKey(fn)+":true⇒visible", c.Pos(fn.Pos()), len(tr) > 0 && tr.Implies(local, exported), "a member can be called accessible although it is unexported and the package it is written in was not shown to be the current one (the struct type's being unnamed, or named in this package, does not show it); true-condition: "+tr.Describe(c.O))
	}
	// resolvers
	n := 0
	for _, s := range append(c.CallsTo(fnNewFieldNode), c.CallsTo(fnNewMethodNode)...) {
		if s.Fn.Pkg == nil || s.Fn.Pkg.Pkg.Path() != mod+"/pkg/builder" {
			continue // the Iterate helpers in builder/model: their callers filter (C05-1, C04-6)
		}
		n++
		obj := s.Args()[1] // *types.Var / *types.Func: result of a comma-ok assertion on LookupFieldOrMethod's object
		ot := c.O.Of(obj)
		key := sprintf("%s:%s%d", FnKey(s.Fn), shortCallee(s.Callee), n)
		var lookupCall *ssa.Call
		cur := obj
		for i := 0; i < 6 && cur != nil && lookupCall == nil; i++ {
			switch x := cur.(type) {
			case *ssa.Extract:
				cur = x.Tuple
			case *ssa.TypeAssert:
				cur = x.X
			case *ssa.Call:
				if core.CalleeName(&x.Call) == "go/types.LookupFieldOrMethod" {
					lookupCall = x
				}
				cur = nil
			default:
				cur = nil
			}
		}
		if lookupCall == nil {
			r.Undecided(rule, key, "the member object does not come from types.LookupFieldOrMethod")
			continue
		}
		typV := lookupCall.Call.Args[0]
		d := c.ReachOf(s.Instr)
		notExternal := c.M(false, func(t *core.Term) bool {
			// isExternalPkg(b, PkgOf(typ)) with the same typ value
			if !t.IsCallTo(fnIsExternalPkg) {
				return false
			}
			p := t.Args[1]
			return p.IsCallTo(fnPkgOf) && p.Args[0].V == typV
		})
		exported := c.M(true, func(t *core.Term) bool {
			if !t.IsCallTo("go/ast.IsExported") {
				return false
			}
			nme := t.Args[0]
			return nme.Kind == "call" && strings.HasSuffix(nme.Name, ").Name") && nme.Contains(func(s *core.Term) bool { return s.V == obj || s.String() == ot.String() })
		})
		r.Check(rule, key+":visible", c.Pos(s.Pos()), d.Implies(notExternal, exported),
			"a source-path step can use an unexported member of an imported type (external must be computed from the package of the type the member was looked up in, on every step); reach: "+d.Describe(c.O))
	}
	r.Floor(rule, "resolver node constructions", n, 2) // one getter and one field construction at least (the two resolvers may share one path walker)
}

// typecastPointerRule (C01-8): conversions to pointer types are rendered parenthesised.
func (c *Ctx) typecastPointerRule() {
	r := c.R
	r.Rule("C01-8", "NewTypecast: the rendered conversion target denotes the judged type T: when T is a pointer the text is \"(*\"+name+\")\", otherwise the bare (qualified) name – never the pointed-to type's name for a pointer T")
	fn := c.MustFunc("C01-8", "/pkg/builder/model", "NewTypecast")
	te := c.MustType("C01-8", "/pkg/builder/model", "TypecastEntry")
	if fn == nil || te == nil {
		return
	}
	var tParam string
	for _, p := range fn.Params {
		if p.Type().String() == "go/types.Type" {
			tParam = "param:" + p.Name()
		}
	}
	for _, a := range c.Lits(te) {
		if a.Parent() != fn {
			continue
		}
		ev := LitFields(a)["expr"]
		if ev == nil {
			r.Check("C01-8", FnKey(fn)+":expr", c.InstrPos(a), false, "TypecastEntry.expr unset")
			continue
		}
		isPtr := func(t *core.Term) bool { return t.IsCallTo(fnIsPtr) && t.Args[0].String() == tParam }
		okAll, nPtr, nVal := true, 0, 0
		why := ""
		for _, cs := range c.Reach(fn).Cases(ev) {
			t := c.O.Of(cs.V)
			paren := (t.IsCallTo("fmt.Sprintf") && t.Args[0].Is("const", `"(*%v)"`)) || (t.Kind == "binop" && t.Contains(func(s *core.Term) bool { return s.Is("const", `"(*"`) }))
			cond := cs.Cond
			switch {
			case cond != nil && cond.Implies(c.M(true, isPtr)):
				nPtr++
				if !paren {
					okAll = false
					why = "for a pointer target the text is " + t.String()
				}
			case cond != nil && cond.Implies(c.M(false, isPtr)):
				nVal++
				if paren {
					okAll = false
					why = "for a non-pointer target the text is parenthesised: " + t.String()
				}
			default:
				okAll = false
				why = "the rendering is not chosen by IsPtr(T); case " + t.String() + " under " + cond.Describe(c.O)
			}
		}
		r.Check("C01-8", FnKey(fn)+":expr", c.InstrPos(a), okAll && nPtr >= 1 && nVal >= 1, "conversion to a pointer type must be rendered (*T)(x): "+why)
		tv := LitFields(a)["typ"]
		r.Check("C01-8", FnKey(fn)+":typ", c.InstrPos(a), tv != nil && c.O.Of(tv).String() == tParam, "TypecastEntry.typ (the type the node claims to have) must be the judged type T")
	}
}
