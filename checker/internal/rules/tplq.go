package rules

import (
	"fmt"
	"go/ast"
	"go/parser"
	"go/token"
	"go/types"
	"sort"
	"strconv"
	"strings"

	"cvcheck/internal/tpl"
)

// tplState caches the extracted templates.
type tplState struct {
	x       *tpl.Extractor
	funcTpl tpl.T
	err     error
	leaves  *tpl.Leaves
}

func (c *Ctx) tplInit() *tplState {
	if c.tplS != nil {
		return c.tplS
	}
	s := &tplState{}
	c.tplS = s
	s.x = tpl.NewExtractor(c.P.Pkgs, c.P.Implementers)
	if c.Tier == "thorough" {
		s.x.MaxDepth = 4 // three nesting levels unfolded, the fourth cut
	}
	gen := c.P.Pkg("/pkg/generator")
	if gen == nil {
		s.err = fmt.Errorf("generator package not found")
		return s
	}
	obj := gen.Types.Scope().Lookup("Generator")
	if obj == nil {
		s.err = fmt.Errorf("generator.Generator not found")
		return s
	}
	ms := types.NewMethodSet(types.NewPointer(obj.Type()))
	sel := ms.Lookup(gen.Types, "FuncToString")
	if sel == nil {
		s.err = fmt.Errorf("(*Generator).FuncToString not found")
		return s
	}
	s.funcTpl, s.err = s.x.ExtractFunc(sel.Obj().(*types.Func), map[string]string{"f": "f", "g": "g"})
	if s.err == nil {
		s.leaves = tpl.CollectLeaves(s.funcTpl)
	}
	return s
}

// DumpTpl prints the extracted function template (debug aid).
func DumpTpl(c *Ctx) {
	s := c.tplInit()
	if s.err != nil {
		fmt.Println("ERROR:", s.err)
		return
	}
	fmt.Println(tpl.String(s.funcTpl))
	l := s.leaves
	fmt.Println("bools:", sortedKeys(l.Bools))
	fmt.Println("strs:", sortedKeys(l.Strs))
	fmt.Println("slices:", sortedKeys(l.Slices))
	fmt.Println("ptrs:", sortedKeys(l.Ptrs))
	fmt.Println("dyns:", sortedKeys(l.Dyns))
	fmt.Println("cuts:", l.Cuts)
	for _, p := range sortedKeys(l.Consts) {
		fmt.Println("strcmp:", p, sortedKeys(l.Consts[p]))
	}
}

// ---------- valuations ----------

type mapVal struct {
	b   map[string]bool
	s   map[string]string
	n   map[string]int
	nil map[string]bool // true = nil ; absent = nil
	d   map[string]string
}

func newVal() *mapVal {
	return &mapVal{b: map[string]bool{}, s: map[string]string{}, n: map[string]int{}, nil: map[string]bool{}, d: map[string]string{}}
}
func (v *mapVal) Bool(p string) bool  { return v.b[p] }
func (v *mapVal) Str(p string) string { return v.s[p] }
func (v *mapVal) Len(p string) int    { return v.n[p] }
func (v *mapVal) Nil(p string) bool {
	x, ok := v.nil[p]
	return !ok || x
}
func (v *mapVal) DynType(p string) string { return v.d[p] }

// header describes the header-group leaves.
type header struct {
	arg, recv, retErr, srcPtr, dstPtr bool
	argPtr                            []bool // additional args (pointer-ness)
}

func (h header) String() string {
	return fmt.Sprintf("style=%s recv=%v err=%v src*=%v dst*=%v args=%v", map[bool]string{true: "arg", false: "return"}[h.arg], h.recv, h.retErr, h.srcPtr, h.dstPtr, h.argPtr)
}

func (h header) apply(v *mapVal) {
	v.s["f.Name"] = "Fn"
	v.s["f.DstVarStyle"] = map[bool]string{true: "arg", false: "return"}[h.arg]
	v.s["f.Src.Name"] = "src"
	if h.recv {
		v.s["f.Receiver"] = "r"
		v.s["f.Src.Name"] = "r" // IR invariant (C08-3): the receiver name replaces the source name
	}
	v.s["f.Src.Type"] = "SrcT"
	v.s["f.Dst.Name"] = "dst"
	v.s["f.Dst.Type"] = "DstT"
	v.b["f.RetError"] = h.retErr
	v.b["f.Src.Pointer"] = h.srcPtr
	v.b["f.Dst.Pointer"] = h.dstPtr
	v.n["f.AdditionalArgs"] = len(h.argPtr)
	for i, p := range h.argPtr {
		v.s[fmt.Sprintf("f.AdditionalArgs[%d].Name", i)] = fmt.Sprintf("arg%d", i)
		v.s[fmt.Sprintf("f.AdditionalArgs[%d].Type", i)] = fmt.Sprintf("A%d", i)
		v.b[fmt.Sprintf("f.AdditionalArgs[%d].Pointer", i)] = p
	}
}

func (h header) srcName() string {
	if h.recv {
		return "r"
	}
	return "src"
}

// hook describes one hook's leaves.
type hook struct {
	present, dstPtr, srcPtr, extra, retErr, imported bool
}

func (k hook) apply(v *mapVal, field, name string) {
	if !k.present {
		return
	}
	p := "f." + field
	v.nil[p] = false
	v.s[p+".Name"] = name
	if k.imported {
		v.s[p+".Pkg"] = "hk"
		v.s[p+".Name"] = strings.ToUpper(name[:1]) + name[1:]
	}
	v.b[p+".IsDstPtr"] = k.dstPtr
	v.b[p+".IsSrcPtr"] = k.srcPtr
	v.b[p+".HasAdditionalArgs"] = k.extra
	v.b[p+".RetError"] = k.retErr
}

// asg describes one assignment of the IR.
type asg struct {
	kind     string // model.SkipField …
	err      bool   // SimpleField.Error
	null     bool   // NestStruct.NullCheckExpr set
	init     bool   // NestStruct.InitExpr set
	getter   bool   // the source is a getter call (src.GS0()) instead of a field
	contents []asg
}

func (a asg) String() string {
	s := strings.TrimPrefix(a.kind, "model.")
	if a.err {
		s += "!"
	}
	if a.getter {
		s += "()"
	}
	if a.kind == "model.NestStruct" {
		var cs []string
		for _, c := range a.contents {
			cs = append(cs, c.String())
		}
		s += fmt.Sprintf("(null=%v,init=%v){%s}", a.null, a.init, strings.Join(cs, ","))
	}
	return s
}

// apply fills the valuation for the assignment at path (e.g. f.Assignments[0]); dstExpr/srcExpr are the
// expressions of the enclosing operands, tag makes field names unique.
func (a asg) apply(v *mapVal, path, dstExpr, srcExpr, tag string) {
	v.d[path] = a.kind
	switch a.kind {
	case "model.SkipField", "model.NoMatchField":
		v.s[path+".LHS"] = dstExpr + ".F" + tag
	case "model.SimpleField":
		v.s[path+".LHS"] = dstExpr + ".F" + tag
		v.b[path+".Error"] = a.err
		switch {
		case a.err:
			v.s[path+".RHS"] = "conv(" + srcExpr + ".F" + tag + ")"
		case a.getter:
			v.s[path+".RHS"] = srcExpr + ".GF" + tag + "()"
		default:
			v.s[path+".RHS"] = srcExpr + ".F" + tag
		}
	case "model.SliceAssignment", "model.SliceLoopAssignment", "model.SliceTypecastAssignment":
		v.s[path+".LHS"] = dstExpr + ".S" + tag
		v.s[path+".RHS"] = a.sliceSrc(srcExpr, tag)
		v.s[path+".Typ"] = "[]int"
		v.s[path+".Cast"] = "int"
	case "model.NestStruct":
		d, s := dstExpr+".N"+tag, srcExpr+".N"+tag
		if a.null {
			v.s[path+".NullCheckExpr"] = s
		}
		if a.init {
			v.s[path+".InitExpr"] = d + " = &NT{}"
		}
		v.n[path+".Contents"] = len(a.contents)
		for i, c := range a.contents {
			c.apply(v, fmt.Sprintf("%s.Contents[%d]", path, i), d, s, fmt.Sprintf("%d", i))
		}
	}
}

// sliceSrc is the source expression of a slice copy: a field, or a getter call.
func (a asg) sliceSrc(srcExpr, tag string) string {
	if a.getter {
		return srcExpr + ".GS" + tag + "()"
	}
	return srcExpr + ".S" + tag
}

// ---------- synthetic package ----------

const synthTypes = `
type A0 int
type A1 string
type A2 struct{ X int }
type NT struct {
	F0, F1, F2 int
	S0, S1, S2 []int
	N0, N1, N2 *NT
}
type SrcT NT
type DstT NT
func (n NT) GF0() int     { return n.F0 }
func (n NT) GF1() int     { return n.F1 }
func (n NT) GF2() int     { return n.F2 }
func (n NT) GS0() []int   { return n.S0 }
func (n NT) GS1() []int   { return n.S1 }
func (n NT) GS2() []int   { return n.S2 }
func (n SrcT) GF0() int   { return n.F0 }
func (n SrcT) GF1() int   { return n.F1 }
func (n SrcT) GF2() int   { return n.F2 }
func (n SrcT) GS0() []int { return n.S0 }
func (n SrcT) GS1() []int { return n.S1 }
func (n SrcT) GS2() []int { return n.S2 }
func conv(x int) (int, error) { return x, nil }
`

func hookDecl(name string, k hook, h header, nExtra int) string {
	star := func(b bool) string {
		if b {
			return "*"
		}
		return ""
	}
	ps := []string{"d " + star(k.dstPtr) + "DstT", "s " + star(k.srcPtr) + "SrcT"}
	if k.extra {
		for i := 0; i < nExtra; i++ {
			ps = append(ps, fmt.Sprintf("a%d %sA%d", i, star(h.argPtr[i]), i))
		}
	}
	res := ""
	if k.retErr {
		res = " error"
	}
	body := "{}"
	if k.retErr {
		body = "{ return nil }"
	}
	return fmt.Sprintf("func %s(%s)%s %s\n", name, strings.Join(ps, ", "), res, body)
}

type synthImporter struct{ pkgs map[string]*types.Package }

func (s synthImporter) Import(path string) (*types.Package, error) {
	if p, ok := s.pkgs[path]; ok {
		return p, nil
	}
	return nil, fmt.Errorf("no package %s", path)
}

// checkMember parses and type-checks `package p; <decls>; <member>`; hkSrc (optional) is the source of the imported hook package.
func checkMember(member, decls, hkSrc string) (file *ast.File, info *types.Info, pkg *types.Package, perr error, terrs []error) {
	fset := token.NewFileSet()
	imp := synthImporter{pkgs: map[string]*types.Package{}}
	src := "package p\n"
	if hkSrc != "" {
		hf, err := parser.ParseFile(fset, "hk.go", "package hk\n"+hkSrc, 0)
		if err != nil {
			return nil, nil, nil, fmt.Errorf("hook package: %w", err), nil
		}
		hp, err := (&types.Config{}).Check("hk", fset, []*ast.File{hf}, nil)
		if err != nil {
			return nil, nil, nil, fmt.Errorf("hook package: %w", err), nil
		}
		imp.pkgs["hk"] = hp
		src += "import \"hk\"\n"
	}
	src += decls + "\n" + member
	f, err := parser.ParseFile(fset, "member.go", src, parser.ParseComments)
	if err != nil {
		return nil, nil, nil, err, nil
	}
	info = &types.Info{Defs: map[*ast.Ident]types.Object{}, Uses: map[*ast.Ident]types.Object{}, Types: map[ast.Expr]types.TypeAndValue{}}
	conf := &types.Config{Importer: imp, Error: func(e error) { terrs = append(terrs, e) }}
	pkg, _ = conf.Check("p", fset, []*ast.File{f}, info)
	return f, info, pkg, nil, terrs
}

func findFunc(f *ast.File, name string) *ast.FuncDecl {
	for _, d := range f.Decls {
		if fd, ok := d.(*ast.FuncDecl); ok && fd.Name.Name == name {
			return fd
		}
	}
	return nil
}

// expectedSig renders the documented signature for a header valuation.
func expectedSig(h header) string {
	star := func(b bool) string {
		if b {
			return "*"
		}
		return ""
	}
	var ps []string
	if h.arg {
		ps = append(ps, "dst *p.DstT")
	}
	if !h.recv {
		ps = append(ps, "src "+star(h.srcPtr)+"p.SrcT")
	}
	for i, p := range h.argPtr {
		ps = append(ps, fmt.Sprintf("arg%d %sp.A%d", i, star(p), i))
	}
	var rs []string
	if !h.arg {
		rs = append(rs, "dst "+star(h.dstPtr)+"p.DstT")
	}
	if h.retErr {
		rs = append(rs, "err error")
	}
	res := ""
	if len(rs) > 0 {
		res = " (" + strings.Join(rs, ", ") + ")"
	}
	recv := ""
	if h.recv {
		recv = "(r " + star(h.srcPtr) + "p.SrcT) "
	}
	return "func " + recv + "(" + strings.Join(ps, ", ") + ")" + res
}

func actualSig(fn *types.Func) string {
	sig := fn.Type().(*types.Signature)
	recv := ""
	if sig.Recv() != nil {
		recv = "(" + sig.Recv().Name() + " " + types.TypeString(sig.Recv().Type(), nil) + ") "
	}
	s := types.TypeString(sig, nil)
	return "func " + recv + strings.TrimPrefix(s, "func")
}

func allHeaders(maxArgs int) []header {
	var out []header
	for m := 0; m < 32; m++ {
		h := header{arg: m&1 != 0, recv: m&2 != 0, retErr: m&4 != 0, srcPtr: m&8 != 0, dstPtr: m&16 != 0}
		for n := 0; n <= maxArgs; n++ {
			for pm := 0; pm < 1<<n; pm++ {
				hh := h
				for i := 0; i < n; i++ {
					hh.argPtr = append(hh.argPtr, pm&(1<<i) != 0)
				}
				out = append(out, hh)
			}
		}
	}
	return out
}

func (c *Ctx) tplReady(rule string) *tplState {
	s := c.tplInit()
	if s.err != nil {
		c.R.Undecided(rule, "template-extraction", "the emitted-code grammar could not be extracted: "+s.err.Error())
		return nil
	}
	if s.leaves.Cuts == 0 {
		c.R.Undecided(rule, "template-extraction", "expected the NestStruct recursion to be cut at the unfolding bound")
		return nil
	}
	// inventory of text comparisons: the bounded enumeration varies only these; a branch on any other text (a special
	// case for one type or field name) would be a part of the emitted grammar that no member explores
	reported := map[string]bool{}
	for _, p0 := range sortedKeys(s.leaves.Consts) {
		p := strings.ReplaceAll(p0, ".Contents[]", "") // the same emitter at every nesting level
		for _, k := range sortedKeys(s.leaves.Consts[p0]) {
			if reported[p+"\x00"+k] {
				continue
			}
			reported[p+"\x00"+k] = true
			if strings.HasPrefix(p, "f.Assignments") && !map[string]bool{"C01": true, "C02": true, "C07": true, "C16": true}[strings.SplitN(rule, "-", 2)[0]] {
				continue // a special case inside an assignment's text concerns the properties about the function body
			}
			ok := false
			switch {
			case p == "f.DstVarStyle":
				ok = k == "arg" || k == "return"
			case p == "f.Receiver", strings.HasSuffix(p, ".InitExpr"), strings.HasSuffix(p, ".NullCheckExpr"), p == "f.PreProcess.Pkg", p == "f.PostProcess.Pkg":
				ok = k == ""
			}
			if !ok {
				c.R.Check(rule, "template-text-test:"+p+"=="+strconv.Quote(k), "pkg/generator (templates)", false,
					"the emitter branches on the text of "+p+" being "+strconv.Quote(k)+": a special case the documented shapes do not have and the bounded enumeration does not vary")
			}
		}
	}
	c.R.Note("tpl_text_tests", len(s.leaves.Consts))
	c.R.Note("tpl_functions_inlined", sortedKeys(s.x.Funcs))
	c.R.Note("tpl_leaves", map[string]any{"bools": sortedKeys(s.leaves.Bools), "strings": len(s.leaves.Strs), "slices": sortedKeys(s.leaves.Slices), "pointers": sortedKeys(s.leaves.Ptrs)})
	return s
}

// implementers of gmodel.Assignment as seen by go/types and by the template.
func (c *Ctx) assignmentKinds(rule string, s *tplState) []string {
	gm := c.P.Pkg("/pkg/generator/model")
	if gm == nil {
		return nil
	}
	obj := gm.Types.Scope().Lookup("Assignment")
	if obj == nil {
		c.R.Undecided(rule, "anchor:Assignment", "interface not found")
		return nil
	}
	var kinds []string
	for _, n := range c.P.Implementers(obj.Type().Underlying().(*types.Interface)) {
		kinds = append(kinds, "model."+n.Obj().Name())
	}
	sort.Strings(kinds)
	return kinds
}

// ---------- C08-1: headers ----------

func (c *Ctx) tplC08() {
	r := c.R
	r.Rule("C08-1", "for every valuation of (style, receiver, RetError, Src.Pointer, Dst.Pointer, 0..3 additional arguments × pointer-ness) the header rendered from the extracted grammar parses, type-checks, and its go/types signature equals the documented table")
	s := c.tplReady("C08-1")
	if s == nil {
		return
	}
	maxArgs := 3
	n, bad := 0, 0
	for _, h := range allHeaders(maxArgs) {
		v := newVal()
		h.apply(v)
		text, err := tpl.Render(s.funcTpl, v)
		n++
		key := "header:" + h.String()
		if err != nil {
			bad++
			if bad <= 3 {
				r.Check("C08-1", key, "pkg/generator/function.go", false, "cannot render: "+err.Error())
			}
			continue
		}
		f, _, pkg, perr, terrs := checkMember(text, synthTypes, "")
		if perr != nil {
			bad++
			if bad <= 3 {
				r.Check("C08-1", key, "pkg/generator/function.go", false, "emitted header does not parse: "+perr.Error()+"\n"+text)
			}
			continue
		}
		if len(terrs) > 0 {
			bad++
			if bad <= 3 {
				r.Check("C08-1", key, "pkg/generator/function.go", false, "emitted function does not type-check: "+terrs[0].Error()+"\n"+text)
			}
			continue
		}
		_ = f
		var fn *types.Func
		if h.recv {
			o, _, _ := types.LookupFieldOrMethod(types.NewPointer(pkg.Scope().Lookup("SrcT").Type()), true, pkg, "Fn")
			fn, _ = o.(*types.Func)
		} else {
			fn, _ = pkg.Scope().Lookup("Fn").(*types.Func)
		}
		if fn == nil {
			bad++
			if bad <= 3 {
				r.Check("C08-1", key, "pkg/generator/function.go", false, "no function named Fn emitted:\n"+text)
			}
			continue
		}
		want, got := expectedSig(h), actualSig(fn)
		if want != got {
			bad++
			if bad <= 3 {
				r.Check("C08-1", key, "pkg/generator/function.go", false, "signature differs from the documented shape: want "+want+", got "+got)
			}
			continue
		}
		if n%97 == 1 {
			r.Sample(map[string]string{"valuation": h.String(), "signature": got})
		}
	}
	r.Check("C08-1", "headers:all", "pkg/generator/function.go", bad == 0, sprintf("%d of %d header members deviate", bad, n))
	r.Note("C08-1_header_members_judged", n)
}
