package rules

import (
	"go/ast"
	"go/types"
	"strings"

	"cvcheck/internal/core"

	"golang.org/x/tools/go/ssa"
)

const fnParseNotation = "(*" + pPar + "Parser).parseNotationInComments"

var optionSliceFields = []string{"SkipFields", "NameMapper", "TemplatedNameMapper", "Converters", "Literals"}

// parseCalls returns the calls of the notation parser whose valid-ops argument is the named global.
func (c *Ctx) parseCalls(validOps string) []Site {
	var out []Site
	pfn := c.notationParser()
	if pfn == nil {
		return nil
	}
	for _, s := range c.Calls(nil) {
		if s.Instr.Common().StaticCallee() != pfn {
			continue
		}
		for _, a := range s.Args() {
			if c.O.Of(a).Is("global", "option."+validOps) {
				out = append(out, s)
			}
		}
	}
	return out
}

// optsPtrArg returns the *option.Options argument of a parse call.
func optsPtrArg(s Site) ssa.Value {
	for _, a := range s.Args() {
		if p, ok := a.Type().Underlying().(*types.Pointer); ok {
			if n, ok := p.Elem().(*types.Named); ok && n.Obj().Name() == "Options" {
				return a
			}
		}
	}
	return nil
}

// cellWriters describes who writes an options cell (an Alloc or a field address).
type cellInfo struct {
	cell    ssa.Value
	stores  []*ssa.Store // whole-value stores into the cell
	parseBy []Site       // notation-parser calls receiving the cell's address
	others  []ssa.Instruction
}

func (c *Ctx) cellInfoOf(cell ssa.Value) *cellInfo {
	ci := &cellInfo{cell: cell}
	if cell.Referrers() == nil {
		return ci
	}
	pfn := c.notationParser()
	for _, rf := range *cell.Referrers() {
		switch x := rf.(type) {
		case *ssa.Store:
			if x.Addr == cell {
				ci.stores = append(ci.stores, x)
			} else {
				ci.others = append(ci.others, x) // address stored somewhere: escapes
			}
		case ssa.CallInstruction:
			if x.Common().StaticCallee() == pfn && pfn != nil {
				ci.parseBy = append(ci.parseBy, Site{Fn: x.Parent(), Instr: x, Callee: fnParseNotation})
			} else {
				ci.others = append(ci.others, x)
			}
		case *ssa.UnOp, *ssa.FieldAddr, *ssa.DebugRef:
		default:
			ci.others = append(ci.others, rf)
		}
	}
	return ci
}

// loopOf returns the set of blocks forming the innermost natural loop containing b (nil if none).
// Back edges with the same header are merged into one loop.
func loopOf(b *ssa.BasicBlock) map[*ssa.BasicBlock]bool {
	fn := b.Parent()
	loops := map[*ssa.BasicBlock]map[*ssa.BasicBlock]bool{}
	for _, tail := range fn.Blocks {
		for _, head := range tail.Succs {
			if !head.Dominates(tail) {
				continue
			}
			body := loops[head]
			if body == nil {
				body = map[*ssa.BasicBlock]bool{head: true}
				loops[head] = body
			}
			var stack []*ssa.BasicBlock
			if !body[tail] {
				body[tail] = true
				stack = append(stack, tail)
			}
			for len(stack) > 0 {
				x := stack[len(stack)-1]
				stack = stack[:len(stack)-1]
				for _, p := range x.Preds {
					if !body[p] {
						body[p] = true
						stack = append(stack, p)
					}
				}
			}
		}
	}
	var best map[*ssa.BasicBlock]bool
	for _, body := range loops {
		if body[b] && (best == nil || len(body) < len(best)) {
			best = body
		}
	}
	return best
}

// C09 — notation scoping.
func C09(c *Ctx) {
	r := c.R
	r.Explanation = "Decided for all inputs (non-interference shape): the options stored on an interface entry are the very cell the interface-level notation parse wrote to, freshly copied from the parser defaults for each interface; " +
		"each method parses its notations into a cell that is local to the per-method function and initialised from the interface entry's options; no interface-level keyword can append to a shared slice and no code creates option slices with spare capacity; " +
		"the only state written while parsing/building is the parser's entry list, the loggers and per-function builders."
	r.NotDecided = "equality of a method's output with its single-method run (needs running the tool); aliasing through the pointers inside Options (matchers are shared but only PatternMatcher is stateful, see C19-4)."

	r.Rule("C09-1", "location intfEntry.opts: its value is (a load of) the cell that the interface-level parse call (valid ops = ValidOpsIntf) receives by address; that cell is re-initialised from the parser's defaults inside the same loop iteration before the parse")
	intfCalls := c.parseCalls("ValidOpsIntf")
	r.Floor("C09-1", "interface-level parse calls", len(intfCalls), 1)
	intfCells := map[ssa.Value]bool{}
	for _, s := range intfCalls {
		cell := optsPtrArg(s)
		key := FnKey(s.Fn) + ":intf-parse"
		if cell == nil {
			r.Undecided("C09-1", key, "no *Options argument")
			continue
		}
		intfCells[cell] = true
		ci := c.cellInfoOf(cell)
		r.Check("C09-1", key+":cell-private", c.Pos(s.Pos()), len(ci.others) == 0, sprintf("the options cell handed to the interface-level parse escapes (%d other uses)", len(ci.others)))
		// initialising store(s): from Parser.opts (defaults), in the same loop as the call, dominating it
		lp := loopOf(s.Instr.Block())
		okInit := false
		for _, st := range ci.stores {
			v := c.O.Of(st.Val)
			fromDefaults := v.IsField("parser.Parser.opts") || v.IsCallTo(pOpt+"NewOptions")
			sameLoop := lp == nil || lp[st.Block()]
			dom := st.Block().Dominates(s.Instr.Block()) && (st.Block() != s.Instr.Block() || indexIn(st.Block(), st) < indexIn(st.Block(), s.Instr))
			if fromDefaults && sameLoop && dom {
				okInit = true
			}
		}
		if _, isAlloc := cell.(*ssa.Alloc); isAlloc {
			r.Check("C09-1", key+":fresh-per-interface", c.Pos(s.Pos()), okInit, "the cell is not re-initialised from the parser defaults inside the loop iteration that parses this interface: options of one interface leak into the next")
		} else if fa, ok := cell.(*ssa.FieldAddr); ok {
			// parse writes through &entry.opts: the entry must be a fresh literal of this iteration initialised from defaults
			a, isLit := fa.X.(*ssa.Alloc)
			okF := false
			if isLit {
				if v, has := LitFields(a)["opts"]; has {
					t := c.O.Of(v)
					okF = (t.IsField("parser.Parser.opts") || t.IsCallTo(pOpt+"NewOptions")) && (lp == nil || lp[a.Block()])
				}
			}
			r.Check("C09-1", key+":fresh-per-interface", c.Pos(s.Pos()), okF, "the entry whose options the parse writes is not a fresh literal initialised from the parser defaults")
		}
	}
	if entry := c.MustType("C09-1", "/pkg/parser", "intfEntry"); entry != nil {
		lits := c.Lits(entry)
		r.Floor("C09-1", "intfEntry literals", len(lits), 1)
		for _, a := range lits {
			key := FnKey(a.Parent()) + ":intfEntry.opts"
			ok := false
			why := "intfEntry.opts is not written by the interface-level notation parse: interface-level notations are parsed and then dropped"
			if v, has := LitFields(a)["opts"]; has {
				if u, isLoad := v.(*ssa.UnOp); isLoad && intfCells[u.X] {
					// the load must come after the parse call
					for _, s := range intfCalls {
						if optsPtrArg(s) == u.X && (s.Instr.Block().Dominates(u.Block())) {
							ok = true
						}
					}
				} else {
					why += "; stored value: " + c.O.Of(v).String()
				}
			}
			// variant: the parse call receives &entry.opts
			if !ok && a.Referrers() != nil {
				for _, rf := range *a.Referrers() {
					if fa, isFA := rf.(*ssa.FieldAddr); isFA && intfCells[fa] {
						ok = true
					}
				}
			}
			r.Check("C09-1", key, c.InstrPos(a), ok, why)
		}
	}

	r.Rule("C09-2", "the per-method function receives the interface entry's options by value; MethodEntry.Opts is (a load of) the cell the method-level parse call (valid ops = ValidOpsMethod) wrote to, and that cell is initialised from that parameter")
	r.Rule("C09-3", "the cell handed to the method-level parse call is a variable of the per-method function (fresh for every method), never memory reachable from the entry, the parser or another method")
	methCalls := c.parseCalls("ValidOpsMethod")
	r.Floor("C09-2", "method-level parse calls", len(methCalls), 1)
	methCells := map[ssa.Value]*ssa.Function{}
	for _, s := range methCalls {
		cell := optsPtrArg(s)
		key := FnKey(s.Fn) + ":method-parse"
		al, isAlloc := cell.(*ssa.Alloc)
		r.Check("C09-3", key+":local-cell", c.Pos(s.Pos()), isAlloc, "the method-level parse writes through a pointer that is not a local variable of the per-method function: "+c.O.Of(cell).String())
		if !isAlloc {
			continue
		}
		methCells[cell] = s.Fn
		ci := c.cellInfoOf(al)
		r.Check("C09-3", key+":cell-private", c.Pos(s.Pos()), len(ci.others) == 0, sprintf("the per-method options cell escapes (%d other uses)", len(ci.others)))
		// initialised from a by-value Options parameter (or, inside a loop, re-initialised in the loop)
		lp := loopOf(s.Instr.Block())
		okInit := false
		var initParam *ssa.Parameter
		for _, st := range ci.stores {
			sameLoop := lp == nil || lp[st.Block()]
			dom := st.Block().Dominates(s.Instr.Block())
			if p, ok := st.Val.(*ssa.Parameter); ok && sameLoop && dom {
				if _, isPtr := p.Type().Underlying().(*types.Pointer); !isPtr {
					okInit = true
					initParam = p
				}
			}
			if t := c.O.Of(st.Val); t.IsField("parser.intfEntry.opts") && sameLoop && dom {
				okInit = true
			}
		}
		r.Check("C09-3", key+":fresh-per-method", c.Pos(s.Pos()), okInit, "the per-method options cell is not initialised from a by-value copy of the interface options for each method")
		if initParam != nil {
			// call sites of the per-method function pass the entry's opts
			n := 0
			for _, cs := range c.Calls(nil) {
				if cs.Instr.Common().StaticCallee() != s.Fn {
					continue
				}
				n++
				a := c.O.Of(cs.Args()[paramIndex(s.Fn, initParam)])
				r.Check("C09-2", FnKey(cs.Fn)+"→"+FnKey(s.Fn)+":opts-arg", c.Pos(cs.Pos()), a.IsField("parser.intfEntry.opts"), "the per-method function must receive the interface entry's options, got "+a.String())
			}
			r.Check("C09-2", FnKey(s.Fn)+":called", c.Pos(s.Fn.Pos()), n >= 1, "per-method function has no call site")
		}
	}
	if me := c.MustType("C09-2", "/pkg/builder/model", "MethodEntry"); me != nil {
		n := 0
		for _, a := range c.Lits(me) {
			if a.Parent().Pkg == nil || a.Parent().Pkg.Pkg.Path() != mod+"/pkg/parser" {
				continue
			}
			n++
			ok := false
			if v, has := LitFields(a)["Opts"]; has {
				if u, isLoad := v.(*ssa.UnOp); isLoad {
					if fn, isCell := methCells[u.X]; isCell && fn == a.Parent() {
						for _, s := range methCalls {
							if optsPtrArg(s) == u.X && s.Instr.Block().Dominates(u.Block()) {
								ok = true
							}
						}
					}
				}
			}
			r.Check("C09-2", FnKey(a.Parent())+":MethodEntry.Opts", c.InstrPos(a), ok, "MethodEntry.Opts is not the cell written by this method's notation parse")
		}
		r.Floor("C09-2", "MethodEntry literals in the parser", n, 1)
	}

	c.c09Keywords()
	c.c09Writes()
	c.toggleCasesRule("C09-7")
	c.defaultsRule("C09-8")

	r.Rule("C09-6", "every assignment builder is created inside CreateFunction from that method's own entry: its opts field is MethodEntry.Opts of the constructor's parameter, and CreateFunction passes its own parameter")
	if ab := c.MustType("C09-6", "/pkg/builder", "assignmentBuilder"); ab != nil {
		lits := c.Lits(ab)
		r.Floor("C09-6", "assignmentBuilder literals", len(lits), 1)
		for _, a := range lits {
			v := LitFields(a)["opts"]
			ok := v != nil && c.O.Of(v).IsField("model.MethodEntry.Opts") && c.O.Of(v).Args[0].Kind == "param"
			r.Check("C09-6", FnKey(a.Parent())+":opts", c.InstrPos(a), ok, "assignmentBuilder.opts must be the method entry's own options")
			if !ok {
				continue
			}
			ctor := a.Parent()
			pname := c.O.Of(v).Args[0].Name
			for _, cs := range c.Calls(nil) {
				if cs.Instr.Common().StaticCallee() != ctor {
					continue
				}
				for i, p := range ctor.Params {
					if p.Name() == pname {
						arg := c.O.Of(cs.Args()[i])
						r.Check("C09-6", FnKey(cs.Fn)+"→"+FnKey(ctor)+":entry-arg", c.Pos(cs.Pos()), arg.Kind == "param", "the builder must be created from the method entry being converted, got "+arg.String())
					}
				}
			}
		}
	}
}

func (c *Ctx) c09Keywords() {
	r := c.R
	r.Rule("C09-4", "ValidOpsIntf ∖ {convergen} ⊆ ValidOpsMethod; no interface-level keyword has a switch case that appends to a slice field of Options; every store to a slice field of Options anywhere is append(<same field>, x) inside the notation parser (no literal, no make with capacity)")
	meth, pos := c.mapKeys("/pkg/option", "ValidOpsMethod")
	intf, _ := c.mapKeys("/pkg/option", "ValidOpsIntf")
	cases, _, info := c.notationSwitch()
	if meth == nil || intf == nil || cases == nil {
		r.Undecided("C09-4", "tables", "valid-ops tables or notation switch not found")
		return
	}
	for _, k := range sortedKeys(intf) {
		if k == "convergen" {
			continue
		}
		r.Check("C09-4", "intf-keyword:"+k+":method-too", c.Pos(pos), meth[k], "`:"+k+"` is accepted on an interface but not on a method: it could not be overridden per method")
		cc := cases[k]
		if cc == nil {
			continue
		}
		appends := false
		ast.Inspect(cc, func(n ast.Node) bool {
			call, ok := n.(*ast.CallExpr)
			if !ok {
				return true
			}
			if id, ok := call.Fun.(*ast.Ident); ok && id.Name == "append" && len(call.Args) > 0 {
				if tv, ok := info.Types[call.Args[0]]; ok {
					if _, isSlice := tv.Type.Underlying().(*types.Slice); isSlice {
						if sel, ok := call.Args[0].(*ast.SelectorExpr); ok {
							for _, f := range optionSliceFields {
								if sel.Sel.Name == f {
									appends = true
								}
							}
						}
					}
				}
			}
			return true
		})
		r.Check("C09-4", "intf-keyword:"+k+":no-append", c.Pos(cc.Pos()), !appends, "interface-level `:"+k+"` appends to a slice of Options: methods copy the struct by value and would share (and overwrite) its backing array")
	}
	pfn := c.notationParser()
	n := 0
	for _, fn := range c.P.Funcs() {
		for _, b := range fn.Blocks {
			for _, in := range b.Instrs {
				st, ok := in.(*ssa.Store)
				if !ok {
					continue
				}
				fa, ok := st.Addr.(*ssa.FieldAddr)
				if !ok {
					continue
				}
				fname := core.FieldName(fa.X.Type(), fa.Field)
				if !strings.HasPrefix(fname, "option.Options.") {
					continue
				}
				isList := false
				for _, f := range optionSliceFields {
					if fname == "option.Options."+f {
						isList = true
					}
				}
				if !isList {
					continue
				}
				n++
				v := c.O.Of(st.Val)
				ok2 := fn == pfn && v.IsCallTo("builtin:append") && v.Args[0].IsField(fname)
				r.Check("C09-4", sprintf("%s:store:%s", FnKey(fn), strings.TrimPrefix(fname, "option.Options.")), c.InstrPos(st), ok2,
					"a slice of Options is set other than by append(<same field>, x) in the notation parser (a pre-sized or shared slice aliases across the per-method copies): "+v.String())
			}
		}
	}
	r.Floor("C09-4", "stores to Options slice fields", n, 5)
}

// c09Writes: who may write shared state while parsing / building.
func (c *Ctx) c09Writes() {
	r := c.R
	r.Rule("C09-5", "state written by module code outside fresh literals: package-level variables only in logger.SetupLogger / initialisers; fields of parser.Parser, builder.FunctionBuilder, builder.assignmentBuilder, option.Options (through a pointer) and the option matchers only at the confirmed sites; no map held in a field of a module object or in a package-level variable is updated (caches shared across methods)")
	allowed := map[string]string{
		"parser.Parser.intfEntries@(*parser.Parser).Parse":                     "entry list kept for GenerateBaseCode, written once",
		"builder.assignmentBuilder.copiers@(*builder.assignmentBuilder).build": "per-function builder, fresh for each method",
		"option.PatternMatcher.re@(*option.PatternMatcher).Match":              "cache re-derived from (pattern, case rule); invariant checked by C19-4",
		"option.PatternMatcher.exactCase@(*option.PatternMatcher).Match":       "see above",
		"option.FieldConverter.argType@(*option.FieldConverter).Set":           "resolved once per converter in Parse",
		"option.FieldConverter.retType@(*option.FieldConverter).Set":           "resolved once per converter in Parse",
		"option.FieldConverter.retError@(*option.FieldConverter).Set":          "resolved once per converter in Parse",
		"model.Copier.HandleCount@(*builder/model.Copier).MarkHandle":          "unused helper (not reachable from main)",
		"model.Copier.IsRoot@(*builder.assignmentBuilder).build":               "fresh copier of this build",
		"model.Copier.Name@(*builder.assignmentBuilder).build":                 "fresh copier of this build",
		"config.Config.Input@(*config.Config).ParseArgs":                       "CLI parsing",
		"config.Config.Output@(*config.Config).ParseArgs":                      "CLI parsing",
		"config.Config.Log@(*config.Config).ParseArgs":                         "CLI parsing",
		"config.Config.DryRun@(*config.Config).ParseArgs":                      "CLI parsing",
		"config.Config.Prints@(*config.Config).ParseArgs":                      "CLI parsing",
		"logger.option.enabled@logger.Enable$1":                                "logger option closure",
		"logger.option.out@logger.Output$1":                                    "logger option closure",
		"logger.option.forTest@logger.ForTest$1":                               "logger option closure",
	}
	n := 0
	for _, fn := range c.P.Funcs() {
		for _, b := range fn.Blocks {
			for _, in := range b.Instrs {
				if mu, isMU := in.(*ssa.MapUpdate); isMU {
					// a map that lives in a field of a module object or in a package-level variable is state that outlives
					// one method (a memo / cache): entries written for one method are seen by the next
					mt := c.O.Of(mu.Map)
					if (mt.Kind == "field" || mt.Kind == "global") && !strings.HasPrefix(mt.Name, "ast.") && !strings.HasPrefix(mt.Name, "types.") && !strings.HasPrefix(mt.Name, "packages.") {
						n++
						_, okA := allowed[mt.Name+"@"+FnKey(fn)]
						r.Check("C09-5", FnKey(fn)+":map:"+mt.Name, c.InstrPos(mu), okA, "map "+mt.Name+" held by a shared object is updated in "+FnKey(fn)+": a cache shared across methods (its key would have to contain every option the cached answer depends on); not in the table of confirmed writers")
					}
					continue
				}
				st, ok := in.(*ssa.Store)
				if !ok {
					continue
				}
				switch a := st.Addr.(type) {
				case *ssa.Global:
					if !core.InModule(a.Pkg.Pkg) {
						continue // e.g. flag.Usage: CLI set-up, not conversion state
					}
					n++
					okG := a.Pkg.Pkg.Path() == mod+"/pkg/logger" && (fn.Name() == "SetupLogger" || fn.Name() == "init")
					if fn.Name() == "init" {
						okG = true // package initialisers
					}
					r.Check("C09-5", FnKey(fn)+":global:"+a.Name(), c.InstrPos(st), okG, "package-level variable "+a.Name()+" written outside initialisers / SetupLogger: state shared across methods and interfaces")
				case *ssa.FieldAddr:
					if isFreshBase(a.X) {
						continue
					}
					fname := core.FieldName(a.X.Type(), a.Field)
					if !strings.HasPrefix(fname, "parser.") && !strings.HasPrefix(fname, "builder.") && !strings.HasPrefix(fname, "option.") && !strings.HasPrefix(fname, "model.") &&
						!strings.HasPrefix(fname, "config.") && !strings.HasPrefix(fname, "logger.") && !strings.HasPrefix(fname, "generator.") && !strings.HasPrefix(fname, "util.") {
						continue // go/ast nodes etc.: C11
					}
					if strings.HasPrefix(fname, "option.Options.") {
						// written through the *Options parameter of the notation parser: the cells are checked by C09-1..3
						if fn == c.notationParser() {
							continue
						}
					}
					n++
					_, okA := allowed[fname+"@"+FnKey(fn)]
					r.Check("C09-5", FnKey(fn)+":field:"+fname, c.InstrPos(st), okA, "field "+fname+" of a shared object is written in "+FnKey(fn)+" (not in the table of confirmed writers)")
				}
			}
		}
	}
	r.Floor("C09-5", "stores to shared state examined", n, 10)
}

// isFreshBase: the struct being written is a composite literal / new() of this function (not yet shared).
func isFreshBase(v ssa.Value) bool {
	switch x := v.(type) {
	case *ssa.Alloc:
		return true
	case *ssa.FieldAddr:
		return isFreshBase(x.X)
	case *ssa.IndexAddr:
		return isFreshBase(x.X)
	}
	return false
}
