package rules

import (
	"go/ast"
	"go/constant"
	"go/token"
	"go/types"
	"sort"
	"strconv"
	"strings"

	"cvcheck/internal/core"

	"golang.org/x/tools/go/ssa"
)

const (
	fnShouldSkip   = "(" + pOpt + "Options).ShouldSkip"
	fnIdentMatch   = "(*" + pOpt + "IdentMatcher).Match"
	fnNameMatch    = "(*" + pOpt + "NameMatcher).Match"
	fnLiteralMatch = "(*" + pOpt + "LiteralSetter).Match"
	fnPatternMatch = "(*" + pOpt + "PatternMatcher).Match"
	fnPartialMatch = "(*" + pOpt + "IdentMatcher).PartialMatch"
)

var explicitLists = []string{"Converters", "NameMapper", "TemplatedNameMapper", "Literals"}

// perFieldMatchers: builder functions that consult Options.ShouldSkip (the per-destination-field precedence chain).
func (c *Ctx) perFieldMatchers() []*ssa.Function {
	var out []*ssa.Function
	seen := map[*ssa.Function]bool{}
	for _, s := range c.CallsTo(fnShouldSkip) {
		// the chain answers with an assignment: (gmodel.Assignment, error)
		res := s.Fn.Signature.Results()
		if res.Len() != 2 || !strings.HasSuffix(res.At(0).Type().String(), "generator/model.Assignment") {
			continue
		}
		if s.Fn.Pkg != nil && s.Fn.Pkg.Pkg.Path() == mod+"/pkg/builder" && !seen[s.Fn] {
			seen[s.Fn] = true
			out = append(out, s.Fn)
		}
	}
	return out
}

func isMatcherExprOf(node string) func(*core.Term) bool {
	return func(t *core.Term) bool {
		return t.IsCallTo(invMatcher) && len(t.Args) == 1 && t.Args[0].String() == node
	}
}

// listExhausted matches the loop-exit literal of `for … range opts.<list>`: ¬(i < len(Options.<list>)).
func listExhausted(list string) func(*core.Term) bool {
	return func(t *core.Term) bool {
		if t.Kind != "binop" || t.Name != "<" {
			return false
		}
		l := t.Args[1]
		return l.IsCallTo("builtin:len") && l.Args[0].IsField("option.Options."+list)
	}
}

// collectorLists: for a pkg/builder function that gathers one element per entry of explicit-notation lists into a slice
// (`for _, x := range opts.<L> { out = append(out, …) }`, every iteration appends, the slice is returned after all the loops),
// the set of lists it gathers. A loop over the result of such a function searches all those lists.
func (c *Ctx) collectorLists(fn *ssa.Function) map[string]bool {
	out := map[string]bool{}
	if fn == nil || fn.Blocks == nil || pkgOf(fn) == nil || pkgOf(fn).Path() != mod+"/pkg/builder" || fn.Signature.Results().Len() != 1 {
		return out
	}
	if _, isSlice := fn.Signature.Results().At(0).Type().Underlying().(*types.Slice); !isSlice {
		return out
	}
	rets := core.Returns(fn)
	if len(rets) != 1 {
		return out
	}
	d := c.ReachOf(rets[0])
	for head, body := range allLoops(fn) {
		ifi, ok := head.Instrs[len(head.Instrs)-1].(*ssa.If)
		if !ok {
			continue
		}
		cond := c.O.Of(ifi.Cond)
		list := ""
		for _, l := range explicitLists {
			if listExhausted(l)(cond) {
				list = l
			}
		}
		if list == "" {
			continue
		}
		// some block of the body appends and dominates every back edge
		appends := false
		for b := range body {
			has := false
			for _, in := range b.Instrs {
				if cv, isCall := in.(*ssa.Call); isCall {
					if bi, isB := cv.Call.Value.(*ssa.Builtin); isB && bi.Name() == "append" {
						has = true
					}
				}
			}
			if !has {
				continue
			}
			all := true
			for _, p := range head.Preds {
				if body[p] && !b.Dominates(p) {
					all = false
				}
			}
			if all {
				appends = true
			}
		}
		if appends && len(d) > 0 && d.Implies(c.M(false, listExhausted(list))) {
			out[list] = true
		}
	}
	return out
}

// listSearched: the loop-exit literal of a range over Options.<list> itself, or over the result of a collector of that list.
func (c *Ctx) listSearched(list string) core.LitMatcher {
	direct := c.M(false, listExhausted(list))
	return func(l core.Lit) bool {
		if direct(l) {
			return true
		}
		t, pos := c.Canon(l)
		if pos || t.Kind != "binop" || t.Name != "<" || !t.Args[1].IsCallTo("builtin:len") {
			return false
		}
		cv, ok := t.Args[1].Args[0].V.(*ssa.Call)
		if !ok {
			return false
		}
		return c.collectorLists(cv.Call.StaticCallee())[list]
	}
}

// isRefusal: v is the result of a call of a pkg/builder function that answers an error built by logger.Errorf only under a
// positive look-ahead (hasNotationUnder) on a struct-typed destination, and nil otherwise.
func (c *Ctx) isRefusal(v ssa.Value) bool {
	cv, ok := v.(*ssa.Call)
	if !ok {
		return false
	}
	fn := cv.Call.StaticCallee()
	if fn == nil || fn.Blocks == nil || pkgOf(fn) == nil || pkgOf(fn).Path() != mod+"/pkg/builder" || fn.Signature.Results().Len() != 1 || fn.Signature.Results().At(0).Type().String() != "error" {
		return false
	}
	nErr, nNil := 0, 0
	for _, ret := range core.Returns(fn) {
		t := c.O.Of(ret.Results[0])
		d := c.ReachOf(ret)
		switch {
		case t.Is("const", "nil"):
			nNil++
		case t.IsCallTo(fnErrorf):
			nErr++
			below := c.M(true, func(x *core.Term) bool {
				return x.Kind == "call" && strings.HasSuffix(x.Name, "assignmentBuilder).hasNotationUnder")
			})
			isStruct := c.M(true, func(x *core.Term) bool { return x.IsCallTo(fnIsStruct) })
			if !d.Implies(below) || !d.Implies(isStruct) {
				return false
			}
		default:
			return false
		}
	}
	return nErr >= 1 && nNil >= 1
}

// C06 — explicit notations honoured as written.
func C06(c *Ctx) {
	r := c.R
	r.Explanation = "Decided for all inputs: in the per-field precedence chain nothing but the skip verdict can be produced for a destination path that a :skip pattern matches; " +
		"the default name match is reachable only after all four explicit-notation lists were searched without a hit, and a hit returns the assignment built from exactly that list element; " +
		"explicit destination paths are compared case-sensitively against the unmodified destination path; every notation keyword accepted for methods has a parser case and vice versa; " +
		":map routes by the `$` prefix; ShouldSkip hands each pattern the unmodified path and case rule."
	r.NotDecided = "semantics of the regexps (see C19); results of source-path resolution; value stored at run time."

	c.namingRule("C06-10", "/pkg/option")
	c.lookaheadVisibilityRule("C06-11")
	c.nestedArgsRule("C06-12")
	c.pointerDescentRule("C06-13")
	c.pathLenRule("C06-14")
	c.templatedArgsRule("C06-15")
	pfms := c.perFieldMatchers()
	r.Rule("C06-1", "per-field matcher: every return is decided by ShouldSkip(dst.MatcherExpr()): on the true side it returns a SkipField for that node, every other return is on the false side")
	r.Rule("C06-2", "per-field matcher: the default-matcher call is reached only after the loops over Converters, NameMapper, TemplatedNameMapper and Literals are exhausted; inside each loop a hit returns the assignment built from that element")
	r.Rule("C06-3", "explicit destination paths: every IdentMatcher/NameMatcher/LiteralSetter.Match call in the builder (and FieldConverter.Match) compares dst.MatcherExpr() unmodified with exactCase = constant true")
	r.Floor("C06-1", "per-field matcher functions (builder functions calling Options.ShouldSkip)", len(pfms), 1)
	dms := map[*ssa.Function]bool{}
	for _, f := range c.defaultMatchers() {
		dms[f] = true
	}
	skipNamed := c.MustType("C06-1", "/pkg/generator/model", "SkipField")
	for _, fn := range pfms {
		key := FnKey(fn)
		ss := c.CallsIn(fn, fnShouldSkip, false)
		if len(ss) != 1 {
			r.Undecided("C06-1", key, "expected exactly one ShouldSkip call")
			continue
		}
		arg := c.O.Of(ss[0].Args()[1])
		if !(arg.IsCallTo(invMatcher) && len(arg.Args) == 1 && arg.Args[0].Kind == "param") {
			r.Check("C06-1", key+":path", c.Pos(ss[0].Pos()), false, "ShouldSkip must receive the unmodified MatcherExpr() of the destination node parameter, got "+arg.String())
			continue
		}
		node := arg.Args[0].String()
		r.Check("C06-1", key+":path", c.Pos(ss[0].Pos()), true, "")
		skipTrue := c.M(true, isCall(fnShouldSkip, nil, isMatcherExprOf(node)))
		skipFalse := c.M(false, isCall(fnShouldSkip, nil, isMatcherExprOf(node)))
		nTrue, nFalse := 0, 0
		for i, ret := range core.Returns(fn) {
			d := c.ReachOf(ret)
			k := sprintf("%s:return%d", key, i+1)
			switch {
			case d.Implies(skipTrue):
				nTrue++
				// result 0 must be a SkipField literal for this node
				ok := false
				if skipNamed != nil && len(ret.Results) > 0 {
					if a := allocOfIface(ret.Results[0]); a != nil && isLitOf(a, skipNamed) {
						f := LitFields(a)
						if v := f["LHS"]; v != nil {
							t := c.O.Of(v)
							ok = t.IsCallTo(invAssignExpr) && t.Args[0].String() == node
						}
					}
				}
				r.Check("C06-1", k+":skip-verdict", c.InstrPos(ret), ok, "on the ShouldSkip==true side the result must be gmodel.SkipField{LHS: dst.AssignExpr()}")
			case d.Implies(skipFalse):
				nFalse++
				r.Check("C06-1", k+":after-skip-test", c.InstrPos(ret), true, "")
			default:
				r.Check("C06-1", k+":after-skip-test", c.InstrPos(ret), false, "a result can be produced without consulting :skip first; reach: "+d.Describe(c.O))
			}
		}
		r.Check("C06-1", key+":both-sides", c.Pos(fn.Pos()), nTrue >= 1 && nFalse >= 1, "expected a skip verdict and at least one other return")

		// C06-2: default matcher call after exhaustion of the four lists
		ndm := 0
		for _, b := range fn.Blocks {
			for _, in := range b.Instrs {
				ci, ok := in.(ssa.CallInstruction)
				if !ok {
					continue
				}
				callee := ci.Common().StaticCallee()
				if callee == nil || !dms[callee] {
					continue
				}
				ndm++
				d := c.ReachOf(ci)
				for _, l := range explicitLists {
					r.Check("C06-2", key+":default-after:"+l, c.Pos(ci.Pos()), d.Implies(c.M(false, listExhausted(l))),
						"default name match reachable before the "+l+" list was searched to the end; reach: "+d.Describe(c.O))
				}
			}
		}
		if ndm == 0 {
			r.Undecided("C06-2", key+":default-call", "no call of the default matcher found in the per-field matcher")
		}
		// hits inside the loops
		for _, l := range explicitLists {
			elemOf := func(t *core.Term) bool {
				return t.Kind == "index" && t.Args[0].IsField("option.Options."+l)
			}
			hit := c.M(true, func(t *core.Term) bool {
				if !(t.IsCallTo(fnIdentMatch) || t.IsCallTo(fnNameMatch) || t.IsCallTo(fnLiteralMatch)) {
					return false
				}
				return t.Args[0].Contains(elemOf)
			})
			n := 0
			for _, ret := range core.Returns(fn) {
				d := c.ReachOf(ret)
				if !d.Implies(hit) || len(d) == 0 {
					continue
				}
				n++
				// result built from the element
				res := c.O.Of(ret.Results[0])
				// … or the refusal: the field would be assigned as a whole although a notation names one of its members
				if res.Is("const", "nil") && len(ret.Results) == 2 && c.isRefusal(ret.Results[1]) {
					continue
				}
				if len(ret.Results) == 2 {
					refusedFirst := d.Implies(c.M(true, isNilCmp(func(t *core.Term) bool { return t.V != nil && c.isRefusal(t.V) })))
					r.Check("C06-16", key+":hit:"+l+":no-notation-below", c.InstrPos(ret), refusedFirst, "a field that takes its value from an explicit notation is assigned as a whole without asking whether another notation names one of its members (`:map Backup Profile` with `:skip Profile.Password` copies the password): the refusal helper was not consulted; reach: "+d.Describe(c.O))
				}
				ok := res.Contains(elemOf)
				if !ok {
					if a := allocOfIface(ret.Results[0]); a != nil {
						for _, v := range LitFields(a) {
							if c.O.Of(v).Contains(elemOf) {
								ok = true
							}
						}
					}
				}
				r.Check("C06-2", key+":hit:"+l, c.InstrPos(ret), ok, "a hit in "+l+" must return the assignment built from that very element, got "+res.String())
			}
			r.Check("C06-2", key+":hit-returns:"+l, c.Pos(fn.Pos()), n >= 1, "no return found that is taken on a hit in Options."+l)
		}
	}

	r.Rule("C06-16", "explicit notations and nested notations: in the per-field matcher a hit in Converters, NameMapper, TemplatedNameMapper or Literals produces its assignment only if the refusal helper – a function that answers an error exactly when the destination is a struct (possibly behind a pointer) and the look-ahead finds a notation on one of its members – answered nil; otherwise that error is returned (a field assigned as a whole cannot honour `:skip`/`:map`/`:literal` on its members, and ignoring them silently breaks C06)")
	r.Check("C06-16", "registered", "pkg/builder", true, "")

	// C06-3
	n3 := 0
	for _, s := range c.Calls(func(n string) bool { return n == fnIdentMatch || n == fnNameMatch || n == fnLiteralMatch }) {
		inBuilder := s.Fn.Pkg != nil && s.Fn.Pkg.Pkg.Path() == mod+"/pkg/builder"
		inConv := strings.Contains(FnKey(s.Fn), "FieldConverter")
		if !inBuilder && !inConv {
			continue
		}
		n3++
		args := s.Args()
		last := c.O.Of(args[len(args)-1])
		key := FnKey(s.Fn) + ":" + shortCallee(s.Callee)
		r.Check("C06-3", key+":exact", c.Pos(s.Pos()), last.Is("const", "true"), "explicit :map/:conv/:literal paths must be compared case-sensitively (exactCase = true), got "+last.String())
		if inBuilder {
			id := c.O.Of(args[1])
			r.Check("C06-3", key+":path", c.Pos(s.Pos()), id.IsCallTo(invMatcher) && id.Args[0].Kind == "param", "the destination path handed to the matcher must be the unmodified MatcherExpr() of the destination node, got "+id.String())
		}
	}
	r.Floor("C06-3", "explicit-path Match call sites", n3, 5)

	c.c06Keywords()
	c.c06ShouldSkip()
	c.rootRule("C06-8")
	c.converterResolutionRule("C06-6")
	c.toggleCasesRule("C06-9")

	r.Rule("C06-4", "nested-path notations: in the candidate handler a struct-typed destination field is assigned as a whole only if the look-ahead predicate (a bool function that prefix-tests the destination path against every explicit-notation list and asks ShouldSkip for the members) answered false; that predicate answers false only after all four lists were searched")
	// prefix tests: functions calling strings.HasPrefix on IdentMatcher.pattern, or PartialMatch
	prefixFns := map[*ssa.Function]bool{}
	for _, s := range c.Calls(func(n string) bool { return n == "strings.HasPrefix" }) {
		for _, a := range s.Args() {
			if c.O.Of(a).Contains(func(t *core.Term) bool {
				return t.IsField("option.IdentMatcher.pattern") || t.IsField("option.IdentMatcher.paths")
			}) {
				prefixFns[s.Fn] = true
			}
		}
		// the path test is on whole path components: HasPrefix(<notation path>, <destination path> + ".")
		if subj := c.O.Of(s.Args()[0]); subj.IsField("option.IdentMatcher.pattern") && s.Fn.Name() != "PartialMatch" {
			pre := c.O.Of(s.Args()[1])
			okSep := pre.Kind == "binop" && pre.Name == "+" && pre.Args[0].Kind == "param" && pre.Args[1].Is("const", `"."`)
			r.Check("C06-4", FnKey(s.Fn)+":component-prefix", c.Pos(s.Pos()), okSep, "a notation path is \"under\" a destination path only at a component boundary (prefix path + \".\"), got prefix "+pre.String()+": `UserName` would count as a member of `User`")
		}
	}
	callsAny := func(fn *ssa.Function, pred func(*ssa.Function, string) bool) bool {
		found := false
		var visit func(f *ssa.Function, d int)
		seen := map[*ssa.Function]bool{}
		visit = func(f *ssa.Function, d int) {
			if f == nil || seen[f] || d > 3 || found {
				return
			}
			seen[f] = true
			for _, b := range f.Blocks {
				for _, in := range b.Instrs {
					if mc, ok := in.(*ssa.MakeClosure); ok {
						visit(mc.Fn.(*ssa.Function), d+1)
					}
					if ci, ok := in.(ssa.CallInstruction); ok {
						callee := ci.Common().StaticCallee()
						if pred(callee, core.CalleeName(ci.Common())) {
							found = true
						}
						if callee != nil && core.InModule(pkgOf(callee)) && callee != fn {
							visit(callee, d+1)
						}
					}
				}
			}
		}
		visit(fn, 0)
		return found
	}
	var lookaheads []*ssa.Function
	for _, fn := range c.P.Funcs() {
		p := pkgOf(fn)
		if p == nil || p.Path() != mod+"/pkg/builder" || fn.Parent() != nil || fn.Signature.Results().Len() != 1 || fn.Signature.Results().At(0).Type().String() != "bool" {
			continue
		}
		if callsAny(fn, func(f *ssa.Function, _ string) bool { return f != nil && prefixFns[f] }) && callsAny(fn, func(_ *ssa.Function, n string) bool { return n == fnShouldSkip }) {
			lookaheads = append(lookaheads, fn)
		}
	}
	r.Check("C06-4", "lookahead-predicate", "pkg/builder", len(lookaheads) >= 1,
		"notations naming a nested destination path (e.g. `:skip In.A`) are never looked at when the enclosing struct field `In` is assignable as a whole: no function prefix-tests the destination path against the explicit-notation lists")
	for _, la := range lookaheads {
		fl := c.Reach(la).RetCond(0, false)
		for _, l := range explicitLists {
			r.Check("C06-4", FnKey(la)+":false⇒searched:"+l, c.Pos(la.Pos()), len(fl) > 0 && fl.Implies(c.listSearched(l)), "the look-ahead can answer `no notation below` without having searched Options."+l+"; false-condition: "+fl.Describe(c.O))
		}
	}
	// every visible member is tried against :skip, whatever its type: the member callback of the look-ahead lets the search go on
	// (answers false) only if ShouldSkip(member path) said no, or the member is one the package cannot see. (`:skip Meta.Audit`
	// names a struct-typed member; testing only the scalar members and merely looking *into* the struct-typed ones loses it.)
	nCb := 0
	for _, la := range lookaheads {
		for _, s := range c.CallsIn(la, fnIterFields, false) {
			mc, ok := s.Args()[1].(*ssa.MakeClosure)
			if !ok {
				continue
			}
			h := mc.Fn.(*ssa.Function)
			nCb++
			hr := c.Reach(h)
			notSkipped := c.M(false, func(t *core.Term) bool { return t.IsCallTo(fnShouldSkip) })
			invisible := c.M(false, func(t *core.Term) bool {
				return t.Kind == "call" && strings.HasSuffix(t.Name, "assignmentBuilder).isStructFieldAccessible")
			})
			okAll, why := true, ""
			for _, ret := range core.Returns(h) {
				if len(ret.Results) != 1 {
					continue
				}
				type answer struct {
					v ssa.Value
					d core.DNF
				}
				answers := []answer{{ret.Results[0], c.ReachOf(ret)}}
				// the answer is kept in a captured variable: read the value stored just before (same block, or at the end of
				// each predecessor block; no call between)
				if u, isLoad := ret.Results[0].(*ssa.UnOp); isLoad && u.Op == token.MUL {
					if fv, isFV := u.X.(*ssa.FreeVar); isFV {
						lastStore := func(instrs []ssa.Instruction) ssa.Value {
							var stored ssa.Value
							for _, in := range instrs {
								if in == ssa.Instruction(u) {
									break
								}
								switch x := in.(type) {
								case *ssa.Store:
									if x.Addr == ssa.Value(fv) {
										stored = x.Val
									}
								case ssa.CallInstruction:
									stored = nil
								}
							}
							return stored
						}
						if sv := lastStore(u.Block().Instrs); sv != nil {
							answers = []answer{{sv, c.ReachOf(ret)}}
						} else {
							var fromPreds []answer
							for _, p := range u.Block().Preds {
								if sv := lastStore(p.Instrs); sv != nil {
									fromPreds = append(fromPreds, answer{sv, hr.At(p)})
								} else {
									fromPreds = nil
									break
								}
							}
							if len(fromPreds) > 0 {
								answers = fromPreds
							}
						}
					}
				}
				for _, an := range answers {
					for _, cs := range hr.Cases(an.v) {
						t := c.O.Of(cs.V)
						if t.Is("const", "true") || t.IsCallTo(fnShouldSkip) {
							continue // true ends the search; the verdict of ShouldSkip itself is false only if it said no
						}
						cond := an.d
						if cs.Cond != nil {
							cond = core.And(cs.Cond, an.d)
						}
						if !cond.Implies(notSkipped, invisible) {
							okAll = false
							why = "answer " + t.String() + " under " + c.failing(cond, notSkipped, invisible)
						}
					}
				}
			}
			r.Check("C06-4", FnKey(h)+":every-member-tried-against-skip", c.Pos(h.Pos()), okAll,
				"the look-ahead passes over a visible member without asking ShouldSkip about its path: a :skip that names a struct-typed member below an assignable struct is lost; "+why)
		}
	}
	if len(lookaheads) >= 1 {
		r.Floor("C06-4", "member callbacks of the look-ahead", nCb, 1)
	}
	if len(lookaheads) >= 1 {
		isLA := func(t *core.Term) bool {
			for _, la := range lookaheads {
				if cv, ok := t.V.(*ssa.Call); ok && cv.Call.StaticCallee() == la {
					return true
				}
			}
			return false
		}
		nw := 0
		if sf := c.P.LookupType("/pkg/generator/model", "SimpleField"); sf != nil {
			for _, dm := range c.defaultMatchers() {
				for _, a := range c.Lits(sf) {
					if a.Parent().Parent() != dm {
						continue
					}
					rhs := LitFields(a)["RHS"]
					if rhs == nil || !c.O.Of(rhs).Contains(func(t *core.Term) bool { return t.IsCallTo("(*" + pBld + "assignmentBuilder).castNode") }) {
						continue
					}
					nw++
					d := c.ReachOf(a)
					notStruct := c.M(false, func(t *core.Term) bool { return t.IsCallTo(fnIsStruct) && t.Args[0].IsCallTo(invExprType) })
					noNotation := c.M(false, isLA)
					r.Check("C06-4", FnKey(a.Parent())+":wholesale-only-without-nested-notations", c.InstrPos(a), d.Implies(notStruct, noNotation),
						"a struct-typed destination field can be assigned as a whole although a notation addresses one of its members; reach: "+d.Describe(c.O))
				}
			}
		}
		r.Floor("C06-4", "wholesale assignment sites in candidate handlers", nw, 1)
	}
}

func pkgOf(f *ssa.Function) *types.Package {
	if f.Pkg != nil {
		return f.Pkg.Pkg
	}
	if f.Parent() != nil {
		return pkgOf(f.Parent())
	}
	if f.Object() != nil {
		return f.Object().Pkg()
	}
	return nil
}

func shortCallee(s string) string {
	i := strings.LastIndex(s, "/")
	return s[i+1:]
}

// allocOfIface returns the composite-literal Alloc whose content is converted to the interface value v.
func allocOfIface(v ssa.Value) *ssa.Alloc {
	for i := 0; i < 4; i++ {
		switch x := v.(type) {
		case *ssa.MakeInterface:
			v = x.X
		case *ssa.UnOp:
			if x.Op == token.MUL {
				if a, ok := x.X.(*ssa.Alloc); ok {
					return a
				}
			}
			return nil
		case *ssa.Alloc:
			return x
		default:
			return nil
		}
	}
	return nil
}

func isLitOf(a *ssa.Alloc, named *types.Named) bool {
	pt, ok := a.Type().Underlying().(*types.Pointer)
	return ok && types.Identical(pt.Elem(), named)
}

// mapKeys extracts the string keys of a package-level map[string]struct{} composite literal.
func (c *Ctx) mapKeys(suffix, varName string) (map[string]bool, token.Pos) {
	pkg := c.P.Pkg(suffix)
	if pkg == nil {
		return nil, token.NoPos
	}
	for _, f := range pkg.Syntax {
		for _, d := range f.Decls {
			gd, ok := d.(*ast.GenDecl)
			if !ok || gd.Tok != token.VAR {
				continue
			}
			for _, sp := range gd.Specs {
				vs := sp.(*ast.ValueSpec)
				for i, n := range vs.Names {
					if n.Name != varName || i >= len(vs.Values) {
						continue
					}
					cl, ok := vs.Values[i].(*ast.CompositeLit)
					if !ok {
						return nil, n.Pos()
					}
					out := map[string]bool{}
					for _, e := range cl.Elts {
						kv, ok := e.(*ast.KeyValueExpr)
						if !ok {
							return nil, n.Pos()
						}
						tv, ok := pkg.TypesInfo.Types[kv.Key]
						if !ok || tv.Value == nil || tv.Value.Kind() != constant.String {
							return nil, n.Pos()
						}
						out[constant.StringVal(tv.Value)] = true
					}
					return out, n.Pos()
				}
			}
		}
	}
	return nil, token.NoPos
}

// notationSwitch finds the switch statement of the notation parser (the switch that has a case "skip")
// and returns its string case constants.
func (c *Ctx) notationSwitch() (cases map[string]*ast.CaseClause, fn *ast.FuncDecl, info *types.Info) {
	pkg := c.P.Pkg("/pkg/parser")
	if pkg == nil {
		return nil, nil, nil
	}
	for _, f := range pkg.Syntax {
		for _, d := range f.Decls {
			fd, ok := d.(*ast.FuncDecl)
			if !ok || fd.Body == nil {
				continue
			}
			var found map[string]*ast.CaseClause
			ast.Inspect(fd.Body, func(n ast.Node) bool {
				sw, ok := n.(*ast.SwitchStmt)
				if !ok || sw.Tag == nil {
					return true
				}
				m := map[string]*ast.CaseClause{}
				for _, s := range sw.Body.List {
					cc := s.(*ast.CaseClause)
					for _, e := range cc.List {
						if tv, ok := pkg.TypesInfo.Types[e]; ok && tv.Value != nil && tv.Value.Kind() == constant.String {
							m[constant.StringVal(tv.Value)] = cc
						}
					}
				}
				if _, ok := m["skip"]; ok {
					found = m
					return false
				}
				return true
			})
			if found != nil {
				// cases moved into a helper of the package that the function calls (`applyToggle(opts, notation)`): a tagged
				// switch over string constants in a callee declared in the same package continues the notation switch
				ast.Inspect(fd.Body, func(n ast.Node) bool {
					call, ok := n.(*ast.CallExpr)
					if !ok {
						return true
					}
					var obj types.Object
					switch fx := call.Fun.(type) {
					case *ast.Ident:
						obj = pkg.TypesInfo.Uses[fx]
					case *ast.SelectorExpr:
						obj = pkg.TypesInfo.Uses[fx.Sel]
					}
					fo, isFunc := obj.(*types.Func)
					if !isFunc || fo.Pkg() == nil || fo.Pkg().Path() != pkg.PkgPath {
						return true
					}
					for _, f2 := range pkg.Syntax {
						for _, d2 := range f2.Decls {
							hd, ok := d2.(*ast.FuncDecl)
							if !ok || hd.Body == nil || pkg.TypesInfo.Defs[hd.Name] != types.Object(fo) || hd == fd {
								continue
							}
							ast.Inspect(hd.Body, func(n2 ast.Node) bool {
								sw, ok := n2.(*ast.SwitchStmt)
								if !ok || sw.Tag == nil {
									return true
								}
								for _, st := range sw.Body.List {
									cc := st.(*ast.CaseClause)
									for _, e := range cc.List {
										if tv, ok := pkg.TypesInfo.Types[e]; ok && tv.Value != nil && tv.Value.Kind() == constant.String {
											if _, dup := found[constant.StringVal(tv.Value)]; !dup {
												found[constant.StringVal(tv.Value)] = cc
											}
										}
									}
								}
								return true
							})
						}
					}
					return true
				})
				return found, fd, pkg.TypesInfo
			}
		}
	}
	return nil, nil, nil
}

// documentedUnimplemented are accepted by the method-level table but documented (TODO.md) as not implemented.
var documentedUnimplemented = map[string]bool{"tag": true, "conv:type": true, "conv:with": true}

func (c *Ctx) c06Keywords() {
	r := c.R
	r.Rule("C06-5", "notation keywords: ValidOpsMethod ∖ {tag, conv:type, conv:with} ⊆ cases of the notation switch ⊆ ValidOpsMethod ∪ ValidOpsIntf; `:map` appends to the templated list iff the source starts with `$`; each explicit list is only ever extended by append(list, New…(…)) with the documented argument positions")
	meth, pos := c.mapKeys("/pkg/option", "ValidOpsMethod")
	intf, _ := c.mapKeys("/pkg/option", "ValidOpsIntf")
	cases, fd, _ := c.notationSwitch()
	if meth == nil || intf == nil {
		r.Undecided("C06-5", "ValidOps", "ValidOpsMethod/ValidOpsIntf are not map literals with constant string keys")
		return
	}
	if cases == nil {
		r.Undecided("C06-5", "notation-switch", "no switch with a `skip` case found in pkg/parser")
		return
	}
	r.Note("notation_switch_cases", sortedKeys(boolMap(cases)))
	r.Note("ValidOpsMethod", sortedKeys(meth))
	r.Note("ValidOpsIntf", sortedKeys(intf))
	for _, k := range sortedKeys(meth) {
		if documentedUnimplemented[k] {
			continue
		}
		_, ok := cases[k]
		r.Check("C06-5", "keyword:"+k+":has-case", c.Pos(pos), ok, "notation `:"+k+"` is accepted for methods but the notation switch has no case for it: it would be silently ignored")
	}
	for _, k := range sortedKeys(boolMap(cases)) {
		r.Check("C06-5", "case:"+k+":accepted", c.Pos(cases[k].Pos()), meth[k] || intf[k], "the notation switch handles `:"+k+"` but neither valid-ops table accepts it: the notation would be dropped as unknown before reaching its case")
	}
	for _, k := range []string{"skip", "map", "conv", "literal", "preprocess", "postprocess", "recv", "reverse", "style", "match", "case", "case:off", "getter", "getter:off", "stringer", "stringer:off", "typecast", "typecast:off"} {
		r.Check("C06-5", "documented:"+k, c.Pos(pos), meth[k], "documented method-level notation `:"+k+"` is missing from ValidOpsMethod")
	}
	_ = fd

	// list extension discipline (SSA): stores to Options.<list>
	pfn := c.notationParser()
	if pfn == nil {
		r.Undecided("C06-5", "notation-parser", "function containing the notation switch not found in SSA")
		return
	}
	type ctor struct {
		name string
		// argument index in the constructor -> required args[] index of the notation (or -1 for free)
		args map[int]int
	}
	ctors := map[string]string{
		"SkipFields":          pOpt + "NewPatternMatcher",
		"NameMapper":          pOpt + "NewNameMatcher",
		"TemplatedNameMapper": pOpt + "NewNameMatcher",
		"Converters":          pOpt + "NewFieldConverter",
		"Literals":            pOpt + "NewLiteralSetter",
	}
	found := map[string]int{}
	for _, b := range pfn.Blocks {
		for _, in := range b.Instrs {
			st, ok := in.(*ssa.Store)
			if !ok {
				continue
			}
			fa, ok := st.Addr.(*ssa.FieldAddr)
			if !ok {
				continue
			}
			fname := core.FieldName(fa.X.Type(), fa.Field)
			if !strings.HasPrefix(fname, "option.Options.") {
				continue
			}
			list := strings.TrimPrefix(fname, "option.Options.")
			want, isList := ctors[list]
			if !isList {
				continue
			}
			found[list]++
			v := c.O.Of(st.Val)
			key := FnKey(pfn) + ":extend:" + list
			okShape := v.IsCallTo("builtin:append") && len(v.Args) == 2 && v.Args[0].IsField(fname)
			var elem *core.Term
			if okShape {
				// appended element: slice(alloc varargs) – find the store into the varargs array
				elem = c.varargElem(st.Val)
				okShape = elem != nil && (elem.IsCallTo(want) || (elem.Kind == "extract" && elem.Args[0].IsCallTo(want)))
			}
			r.Check("C06-5", key+":append-ctor", c.InstrPos(st), okShape, "Options."+list+" must only be extended by append(opts."+list+", "+shortCallee(want)+"(…)), got "+v.String())
			if !okShape {
				continue
			}
			call := elem
			if call.Kind == "extract" {
				call = call.Args[0]
			}
			argIdx := func(t *core.Term) int { // args[k] of strings.Fields(...)
				if t.Kind == "index" && t.Args[0].Contains(func(s *core.Term) bool { return s.IsCallTo("strings.Fields") }) && t.Args[1].Kind == "const" {
					k, err := strconv.Atoi(t.Args[1].Name)
					if err == nil {
						return k
					}
				}
				return -1
			}
			d := c.ReachOf(st)
			switch list {
			case "SkipFields":
				r.Check("C06-5", key+":args", c.InstrPos(st), argIdx(call.Args[0]) == 0 && call.Args[1].IsField(fldExactCase), ":skip <pattern>: pattern = args[0], case rule = the options' ExactCase; got "+call.String())
			case "NameMapper", "TemplatedNameMapper":
				r.Check("C06-5", key+":args", c.InstrPos(st), argIdx(call.Args[0]) == 0 && argIdx(call.Args[1]) == 1, ":map <src> <dst>: src = args[0], dst = args[1]; got "+call.String())
				hasPrefix := func(t *core.Term) bool {
					return t.IsCallTo("strings.HasPrefix") && argIdx(t.Args[0]) == 0 && t.Args[1].Is("const", `"$"`)
				}
				r.Check("C06-5", key+":route", c.InstrPos(st), d.Implies(c.M(list == "TemplatedNameMapper", hasPrefix)), ":map must go to the templated list iff its source starts with `$`; reach: "+d.Describe(c.O))
			case "Converters":
				a2 := call.Args[2]
				dstOK := argIdx(a2) == 2 || argIdx(a2) == 1 || (a2.Kind == "phi" && len(a2.Args) == 2 && ((argIdx(a2.Args[0]) == 1 && argIdx(a2.Args[1]) == 2) || (argIdx(a2.Args[0]) == 2 && argIdx(a2.Args[1]) == 1)))
				r.Check("C06-5", key+":args", c.InstrPos(st), argIdx(call.Args[0]) == 0 && argIdx(call.Args[1]) == 1 && dstOK, ":conv <func> <src> [dst]: func = args[0], src = args[1], dst = args[2] or src; got "+call.String())
			case "Literals":
				r.Check("C06-5", key+":args", c.InstrPos(st), argIdx(call.Args[0]) == 0, ":literal <dst> <literal>: dst = args[0]; got "+call.String())
			}
		}
	}
	for _, l := range sortedKeys(ctors) {
		r.Check("C06-5", FnKey(pfn)+":extends:"+l, c.Pos(pfn.Pos()), found[l] >= 1, "the notation parser never extends Options."+l)
	}
}

func boolMap[V any](m map[string]V) map[string]bool {
	out := map[string]bool{}
	for k := range m {
		out[k] = true
	}
	return out
}

// notationParser returns the SSA function holding the notation switch.
func (c *Ctx) notationParser() *ssa.Function {
	_, fd, _ := c.notationSwitch()
	if fd == nil {
		return nil
	}
	for _, fn := range c.P.Funcs() {
		if fn.Syntax() == fd {
			return fn
		}
	}
	return nil
}

// varargElem: for v = append(x, slice(varargs-array)) returns the term of the single stored element.
func (c *Ctx) varargElem(v ssa.Value) *core.Term {
	call, ok := v.(*ssa.Call)
	if !ok || len(call.Call.Args) != 2 {
		return nil
	}
	sl, ok := call.Call.Args[1].(*ssa.Slice)
	if !ok {
		return nil
	}
	al, ok := sl.X.(*ssa.Alloc)
	if !ok || al.Referrers() == nil {
		return nil
	}
	var elems []*core.Term
	for _, rf := range *al.Referrers() {
		ia, ok := rf.(*ssa.IndexAddr)
		if !ok || ia.Referrers() == nil {
			continue
		}
		for _, rr := range *ia.Referrers() {
			if st, ok := rr.(*ssa.Store); ok && st.Addr == ia {
				elems = append(elems, c.O.Of(st.Val))
			}
		}
	}
	if len(elems) != 1 {
		return nil
	}
	return elems[0]
}

func (c *Ctx) c06ShouldSkip() {
	r := c.R
	r.Rule("C06-7", "Options.ShouldSkip(path): true ⇒ some SkipFields[i].Match(path, o.ExactCase) returned true (path and case rule unmodified); false ⇒ the list was searched to the end")
	fn := c.MustMethod("C06-7", "/pkg/option", "Options", "ShouldSkip")
	if fn == nil {
		return
	}
	rc := c.Reach(fn)
	key := FnKey(fn)
	if len(fn.Params) != 2 {
		r.Undecided("C06-7", key, "unexpected signature")
		return
	}
	path := "param:" + fn.Params[1].Name()
	match := func(t *core.Term) bool {
		return t.IsCallTo(fnPatternMatch) && len(t.Args) == 3 &&
			t.Args[0].Kind == "index" && t.Args[0].Args[0].IsField("option.Options.SkipFields") &&
			t.Args[1].String() == path && t.Args[2].IsField(fldExactCase)
	}
	tr := rc.RetCond(0, true)
	fl := rc.RetCond(0, false)
	r.Check("C06-7", key+":true⇒matched", c.Pos(fn.Pos()), len(tr) > 0 && tr.Implies(c.M(true, match)), "returns true without SkipFields[i].Match(path, o.ExactCase) == true (unmodified operands); true-condition: "+tr.Describe(c.O))
	r.Check("C06-7", key+":false⇒exhausted", c.Pos(fn.Pos()), len(fl) > 0 && fl.Implies(c.M(false, listExhausted("SkipFields"))), "returns false before all skip patterns were tried; false-condition: "+fl.Describe(c.O))
	// no return of true skipped: each Match==true edge leads to return true
	n := 0
	for _, s := range c.CallsIn(fn, fnPatternMatch, false) {
		n++
		_ = s
	}
	r.Check("C06-7", key+":one-match-call", c.Pos(fn.Pos()), n == 1, "expected exactly one PatternMatcher.Match call in ShouldSkip")
	var names []string
	for _, ret := range core.Returns(fn) {
		names = append(names, c.O.Of(ret.Results[0]).String())
	}
	sort.Strings(names)
	r.Note("ShouldSkip_returns", names)
}
