package rules

import (
	"go/types"
	"strings"

	"cvcheck/internal/core"

	"golang.org/x/tools/go/ssa"
)

// genFacts describes the function that writes the output file (found semantically: it calls os.WriteFile).
type genFacts struct {
	fn        *ssa.Function
	write     Site
	data      *core.Term // data argument of WriteFile
	dataInl   *core.Term // the same, read through split-off helpers
	pathParam *ssa.Parameter
	dryParam  *ssa.Parameter // param whose false edge dominates the write
	prtParam  *ssa.Parameter // param guarding the stdout print of the formatted code
	callers   []Site
	prints    []printSite
}

// printSite is an instruction of the writing function that prints string(val) on stdout as an operand: either a
// direct fmt.Print/Println or a call of a local closure whose body does that with its parameter.
type printSite struct {
	instr    ssa.Instruction
	val      *core.Term     // the printed bytes
	inner    *ssa.Parameter // closure form: the bool parameter of the writing function that guards the print inside the closure (nil = unguarded)
	viaClose bool
}

// closurePrint: if fn (an anonymous function) prints string(<its parameter k>) with fmt.Print/Println, returns k and
// the free variable (if any) whose truth guards that print.
func (c *Ctx) closurePrint(fn *ssa.Function) (k int, guard *ssa.FreeVar, ok bool) {
	for _, s := range c.Calls(isStdoutPrintCallee) {
		if s.Fn != fn {
			continue
		}
		pv, _, isP := c.stdoutPrint(s)
		if !isP || pv.Kind != "param" {
			continue
		}
		for i, p := range fn.Params {
			if p.Name() == pv.Name {
				k = i
				ok = true
			}
		}
		d := c.ReachOf(s.Instr)
		for _, fv := range fn.FreeVars {
			if d.Implies(c.M(true, termEq("fv:"+fv.Name()))) && len(d) > 0 {
				guard = fv
			}
		}
		if ok {
			return
		}
	}
	return 0, nil, false
}

func (c *Ctx) generateFacts(rule string) *genFacts {
	ws := c.CallsTo("os.WriteFile")
	if len(ws) != 1 {
		c.R.Undecided(rule, "anchor:os.WriteFile", sprintf("expected exactly one os.WriteFile call in module code, found %d", len(ws)))
		return nil
	}
	g := &genFacts{fn: ws[0].Fn, write: ws[0]}
	g.data = c.O.Of(ws[0].Args()[1])
	g.dataInl = c.Inline(g.data, 2) // the pipeline may be split off into a helper
	if p, ok := ws[0].Args()[0].(*ssa.Parameter); ok {
		g.pathParam = p
	}
	d := c.ReachOf(ws[0].Instr)
	for _, p := range g.fn.Params {
		if b, ok := p.Type().Underlying().(*types.Basic); !ok || b.Kind() != types.Bool {
			continue
		}
		name := "param:" + p.Name()
		if len(d) > 0 && d.Implies(c.M(false, termEq(name))) {
			g.dryParam = p
		}
	}
	// print sites
	for _, s := range c.Calls(isStdoutPrintCallee) {
		if s.Fn != g.fn {
			continue
		}
		pv, _, isP := c.stdoutPrint(s)
		if !isP {
			continue
		}
		g.prints = append(g.prints, printSite{instr: s.Instr, val: pv})
	}
	for _, b := range g.fn.Blocks {
		for _, in := range b.Instrs {
			ci, ok := in.(ssa.CallInstruction)
			if !ok || ci.Common().IsInvoke() {
				continue
			}
			mc, ok := ci.Common().Value.(*ssa.MakeClosure)
			var af *ssa.Function
			if ok {
				af, _ = mc.Fn.(*ssa.Function)
			} else if f, isF := ci.Common().Value.(*ssa.Function); isF && f.Parent() == g.fn {
				af = f
			}
			if af == nil {
				continue
			}
			k, guard, isPrint := c.closurePrint(af)
			if !isPrint || k >= len(ci.Common().Args) {
				continue
			}
			ps := printSite{instr: in, val: c.O.Of(ci.Common().Args[k]), viaClose: true}
			if guard != nil && mc != nil {
				for i, fv := range af.FreeVars {
					if fv == guard && i < len(mc.Bindings) {
						// binding is the parameter itself or the cell holding it
						switch bv := mc.Bindings[i].(type) {
						case *ssa.Parameter:
							ps.inner = bv
						case *ssa.Alloc:
							if bv.Referrers() != nil {
								for _, rf := range *bv.Referrers() {
									if st, ok := rf.(*ssa.Store); ok && st.Addr == bv {
										if p, ok := st.Val.(*ssa.Parameter); ok {
											ps.inner = p
										}
									}
								}
							}
						}
					}
				}
				if ps.inner == nil {
					continue // guarded by something we cannot name: not a recognised print site
				}
			}
			g.prints = append(g.prints, ps)
		}
	}
	// print param: guards a print of string(<data>)
	for _, ps := range g.prints {
		if ps.val.String() != g.data.String() {
			continue
		}
		if ps.inner != nil {
			g.prtParam = ps.inner
			continue
		}
		dd := c.ReachOf(ps.instr)
		for _, p := range g.fn.Params {
			if b, ok := p.Type().Underlying().(*types.Basic); !ok || b.Kind() != types.Bool || p == g.dryParam {
				continue
			}
			if dd.Implies(c.M(true, termEq("param:"+p.Name()))) {
				g.prtParam = p
			}
		}
	}
	for _, s := range c.Calls(nil) {
		if s.Instr.Common().StaticCallee() == g.fn {
			g.callers = append(g.callers, s)
		}
	}
	return g
}

func paramIndex(fn *ssa.Function, p *ssa.Parameter) int {
	for i, q := range fn.Params {
		if q == p {
			return i
		}
	}
	return -1
}

func errNotNil(call string) func(*core.Term) bool {
	// "<call result error> != nil" canonicalised to == : we match the == form and use polarity
	return func(t *core.Term) bool {
		if t.Kind != "binop" || t.Name != "==" {
			return false
		}
		for i := 0; i < 2; i++ {
			a, b := t.Args[i], t.Args[1-i]
			if !b.Is("const", "nil") {
				continue
			}
			if a.IsCallTo(call) || (a.Kind == "extract" && a.Args[0].IsCallTo(call)) {
				return true
			}
		}
		return false
	}
}

// C15 — a run writes only its output (and log); dry or failed runs write nothing there.
func C15(c *Ctx) {
	r := c.R
	r.Explanation = "Decided for all inputs and flag combinations: the complete inventory of calls from convergen's own code into file-mutating APIs is {one os.WriteFile(outputPath), one os.OpenFile(logPath)}; " +
		"the write is dominated by dryRun == false (the parameter fed from Config.DryRun) and by the nil-error edges of content assembly, goimports and gofmt; after the write succeeded no error exit exists; the written path is the unmodified Config.Output."
	r.NotDecided = "what `go list` / goimports (external code) touch outside the module, e.g. the build cache; that Config.Output differs from the input path (a string computation)."

	r.Rule("C15-1", "effect inventory: every call from module code to non-module code is classified; the file-mutating ones are exactly the output write and the log open; nothing is unclassified")
	ext := c.ExternalCalls()
	classes := map[string]int{}
	perCallee := map[string]string{}
	for _, e := range ext {
		classes[e.Class]++
		perCallee[e.Callee] = e.Class
	}
	r.Note("external_calls_by_class", classes)
	r.Note("external_callees", perCallee)
	r.Floor("C15-1", "external call sites inventoried", len(ext), 400)
	g := c.generateFacts("C15-1")
	for _, e := range ext {
		key := FnKey(e.Site.Fn) + ":" + shortCallee(e.Callee)
		switch e.Class {
		case effUnk:
			r.Undecided("C15-1", key, "external callee "+e.Callee+" is not in the effect table (new dependency?): classify it before trusting the inventory")
		case effFSWrit:
			ok := false
			why := "unexpected file-mutating call " + e.Callee
			switch e.Callee {
			case "os.WriteFile":
				ok = g != nil && e.Site.Instr == g.write.Instr
			case "os.OpenFile":
				name := c.O.Of(e.Site.Args()[0])
				d := c.ReachOf(e.Site.Instr)
				logSet := c.M(false, eqConst(isField("config.Config.Log"), `""`))
				ok = name.IsField("config.Config.Log") && d.Implies(logSet) && e.Site.Fn.Pkg.Pkg.Path() == mod+"/pkg/runner"
				why = "os.OpenFile must open Config.Log, only when Config.Log != \"\"; got " + name.String() + " under " + d.Describe(c.O)
			}
			r.Check("C15-1", key, c.Pos(e.Site.Pos()), ok, why)
		}
	}
	if g == nil {
		return
	}
	key := FnKey(g.fn)
	pos := c.Pos(g.write.Pos())

	r.Rule("C15-2", "the output write is dominated by dryRun == false (a bool parameter fed from Config.DryRun at every call site) and by the nil-error edges of generateContent, imports.Process and format.Source")
	d := c.ReachOf(g.write.Instr)
	r.Check("C15-2", key+":dry-guard", pos, g.dryParam != nil, "os.WriteFile is not dominated by the false edge of a bool parameter (the dry-run flag); reach: "+d.Describe(c.O))
	for _, callee := range []string{"golang.org/x/tools/imports.Process", "go/format.Source"} {
		r.Check("C15-2", key+":after-ok:"+shortCallee(callee), pos, d.Implies(c.M(true, errNotNil(callee))), "the write is not dominated by the nil-error edge of "+callee+"; reach: "+d.Describe(c.O))
	}
	r.Check("C15-2", key+":not-in-loop", pos, !inLoop(g.write.Instr.Block()), "the output write sits in a loop")
	r.Floor("C15-2", "call sites of the writing function", len(g.callers), 1)
	for _, cs := range g.callers {
		ck := FnKey(cs.Fn) + "→" + key
		if g.dryParam != nil {
			a := c.O.Of(cs.Args()[paramIndex(g.fn, g.dryParam)])
			r.Check("C15-2", ck+":dry-arg", c.Pos(cs.Pos()), a.IsField("config.Config.DryRun"), "the dry-run parameter must be fed from Config.DryRun, got "+a.String())
		}
	}

	r.Rule("C15-3", "after os.WriteFile returned nil every path returns a nil error, and after the writing function returned nil its caller has no error exit")
	rc := c.Reach(g.fn)
	wOK := c.M(true, errNotNil("os.WriteFile"))
	n := 0
	for i, ret := range core.Returns(g.fn) {
		if !rc.CanReach(g.write.Instr.Block(), ret.Block()) {
			continue
		}
		// the ways of reaching this return on which the write succeeded
		var dd core.DNF
		for _, cj := range c.ReachOf(ret) {
			if (core.DNF{cj}).Implies(wOK) {
				dd = append(dd, cj)
			}
		}
		if len(dd) == 0 {
			continue // failure side of the write, or a path that did not write
		}
		n++
		last := c.O.Of(ret.Results[len(ret.Results)-1])
		r.Check("C15-3", sprintf("%s:return%d:nil-after-write", key, i+1), c.InstrPos(ret), last.Is("const", "nil"), "error returned although the output file was already written: "+last.String())
	}
	r.Check("C15-3", key+":has-success-return", pos, n >= 1, "no return found after a successful write")
	for _, cs := range g.callers {
		crc := c.Reach(cs.Fn)
		ck := FnKey(cs.Fn) + "→" + key
		okc := c.M(true, errNotNil(core.CalleeName(cs.Instr.Common())))
		m := 0
		for i, ret := range core.Returns(cs.Fn) {
			if !crc.CanReach(cs.Instr.Block(), ret.Block()) {
				continue
			}
			dd := c.ReachOf(ret)
			last := c.O.Of(ret.Results[len(ret.Results)-1])
			// `return err` with err the writing function's own error: nil exactly when the write succeeded
			ownErr := last.Kind == "extract" && len(last.Args) == 1 && last.Args[0].V == cs.Instr.(ssa.Value)
			if !dd.Implies(okc) && !ownErr {
				continue
			}
			m++
			r.Check("C15-3", sprintf("%s:return%d:nil-after-generate", ck, i+1), c.InstrPos(ret), last.Is("const", "nil") || ownErr, "the run can end in an error after the output was written: "+last.String())
		}
		r.Check("C15-3", ck+":has-success-return", c.Pos(cs.Pos()), m >= 1, "no success return after the writing function")
		// a deferred function that can set the error result runs after the write: it could fail the run with the output already replaced
		for _, b := range cs.Fn.Blocks {
			for _, in := range b.Instrs {
				df, ok := in.(*ssa.Defer)
				if !ok {
					continue
				}
				mc, isMC := df.Call.Value.(*ssa.MakeClosure)
				if !isMC {
					continue
				}
				for _, bnd := range mc.Bindings {
					if a, isA := bnd.(*ssa.Alloc); isA && core.ClosureStores(mc, a) {
						if pt, isP := a.Type().Underlying().(*types.Pointer); isP && pt.Elem().String() == "error" {
							r.Check("C15-3", ck+":deferred-error:"+a.Comment, c.InstrPos(df), false, "a deferred function can assign the error result "+a.Comment+" after the output was written: the run would end in an error with the output path already replaced")
						}
					}
				}
			}
		}
		// no other effectful call after it
		for _, b := range cs.Fn.Blocks {
			for _, in := range b.Instrs {
				ci, ok := in.(ssa.CallInstruction)
				if !ok || ci == cs.Instr {
					continue
				}
				if crc.CanReach(cs.Instr.Block(), b) && (b != cs.Instr.Block() || indexIn(b, in) > indexIn(b, cs.Instr)) {
					n := core.CalleeName(ci.Common())
					r.Check("C15-3", ck+":nothing-after:"+shortCallee(n), c.Pos(ci.Pos()), classify(n) == effPure && !isModuleCallee(n), "a call follows the output write in the run: "+n)
				}
			}
		}
	}

	r.Rule("C15-4", "the written path is an unmodified parameter of the writing function, fed from Config.Output at every call site; the written data is a whole []byte value (single write)")
	r.Check("C15-4", key+":path-param", pos, g.pathParam != nil, "the file name given to os.WriteFile is not an unmodified parameter: "+c.O.Of(g.write.Args()[0]).String())
	if g.pathParam != nil {
		for _, cs := range g.callers {
			a := c.O.Of(cs.Args()[paramIndex(g.fn, g.pathParam)])
			r.Check("C15-4", FnKey(cs.Fn)+"→"+key+":path-arg", c.Pos(cs.Pos()), a.IsField("config.Config.Output"), "the output path must be Config.Output unmodified, got "+a.String())
		}
	}
	c.overlayRule("C15-6") // the loader flags: nothing that lets the go command write (BuildFlags)
	c.logPathRule("C15-7")
	c.atomicWriteRule("C15-8")
	c.trailingArgsRule("C15-9")
}

// inLoop reports whether block b lies on a cycle of its function's CFG.
func inLoop(b *ssa.BasicBlock) bool {
	seen := map[*ssa.BasicBlock]bool{}
	var dfs func(x *ssa.BasicBlock) bool
	dfs = func(x *ssa.BasicBlock) bool {
		for _, s := range x.Succs {
			if s == b {
				return true
			}
			if !seen[s] {
				seen[s] = true
				if dfs(s) {
					return true
				}
			}
		}
		return false
	}
	return dfs(b)
}

// C12 — regeneration ignores whatever is already at the output path.
func C12(c *Ctx) {
	r := c.R
	r.Explanation = "Decided for all histories (necessary structural conditions): inside the package loader's ParseFile hook no file is parsed unless os.SameFile(stat(file), stat(outputPath)) is false, so the previous output never enters the type-checked package; " +
		"the output path flows only into os.Stat, goimports' file-name argument and os.WriteFile's name – it is never opened or read by convergen's own code; load/type errors of the package are never consulted; the output is written by one whole-file write."
	r.NotDecided = "what `go list` (an external process started by go/packages) does with a truncated or broken file at that path; goimports reading sibling files of the output directory."

	r.Rule("C12-1", "ParseFile hook: every go/parser.ParseFile call is dominated by os.SameFile(os.Stat(filename), dstStat) == false where dstStat is the result of os.Stat(<output path parameter>); on the true edge the hook returns (nil, nil)")
	var hooks []*ssa.Function
	for _, fn := range c.P.Funcs() {
		for _, b := range fn.Blocks {
			for _, in := range b.Instrs {
				st, ok := in.(*ssa.Store)
				if !ok {
					continue
				}
				if fa, ok := st.Addr.(*ssa.FieldAddr); ok && core.FieldName(fa.X.Type(), fa.Field) == "packages.Config.ParseFile" {
					if mc, ok := st.Val.(*ssa.MakeClosure); ok {
						hooks = append(hooks, mc.Fn.(*ssa.Function))
					} else if f, ok := st.Val.(*ssa.Function); ok {
						hooks = append(hooks, f)
					}
				}
			}
		}
	}
	r.Floor("C12-1", "ParseFile hooks installed in packages.Config", len(hooks), 1)
	var dstParam string
	for _, h := range hooks {
		key := FnKey(h)
		// identify the captured stat of the output path
		var dstFV *ssa.FreeVar
		for _, fv := range h.FreeVars {
			for _, v := range capturedStores(h, fv) {
				t := c.O.Of(v)
				if t.Kind == "extract" && t.Name == "0" && t.Args[0].IsCallTo("os.Stat") && t.Args[0].Args[0].Kind == "param" {
					// which parameter? the output path is the one that is not also used in "file="+… of packages.Load
					pname := t.Args[0].Args[0].Name
					if !c.paramReachesLoadPattern(h.Parent(), pname) {
						dstFV = fv
						dstParam = pname
					}
				}
			}
		}
		if dstFV == nil {
			r.Check("C12-1", key+":dst-stat", c.Pos(h.Pos()), false, "the hook captures no variable holding os.Stat(<output path>)")
			continue
		}
		if len(capturedStores(h, dstFV)) != 1 {
			r.Check("C12-1", key+":dst-stat", c.Pos(h.Pos()), false, "the captured output stat is assigned more than once")
			continue
		}
		r.Check("C12-1", key+":dst-stat", c.Pos(h.Pos()), true, "")
		same := func(t *core.Term) bool {
			if !t.IsCallTo("os.SameFile") {
				return false
			}
			for i := 0; i < 2; i++ {
				a, b := t.Args[i], t.Args[1-i]
				if b.Is("fv", dstFV.Name()) && a.Kind == "extract" && a.Args[0].IsCallTo("os.Stat") && a.Args[0].Args[0].Kind == "param" {
					return true
				}
			}
			return false
		}
		ps := c.CallsIn(h, "go/parser.ParseFile", false)
		r.Check("C12-1", key+":parses", c.Pos(h.Pos()), len(ps) >= 1, "hook never parses")
		for i, p := range ps {
			d := c.ReachOf(p.Instr)
			r.Check("C12-1", sprintf("%s:parse%d:not-output", key, i+1), c.Pos(p.Pos()), d.Implies(c.M(false, same)), "a file can be parsed without having been compared with the output path (the previous output would be loaded); reach: "+d.Describe(c.O))
			// the parsed file is the hook's filename/src parameters
			fnm := c.O.Of(p.Args()[1])
			src := c.O.Of(p.Args()[2])
			r.Check("C12-1", sprintf("%s:parse%d:operands", key, i+1), c.Pos(p.Pos()), fnm.Kind == "param" && src.Kind == "param", "ParseFile must parse the hook's own filename/src operands")
		}
		n := 0
		for i, ret := range core.Returns(h) {
			d := c.ReachOf(ret)
			if d.Implies(c.M(true, same)) && len(d) > 0 {
				n++
				ok := c.O.Of(ret.Results[0]).Is("const", "nil") && c.O.Of(ret.Results[1]).Is("const", "nil")
				r.Check("C12-1", sprintf("%s:return%d:withheld", key, i+1), c.InstrPos(ret), ok, "for the output file the hook must return (nil, nil) (file withheld, no error)")
			}
		}
		r.Check("C12-1", key+":withholds", c.Pos(h.Pos()), n >= 1, "no return on the SameFile(output) == true edge")
		// hook installed before Load, in the config given to Load
	}

	r.Rule("C12-2", "the output path is never opened or read by module code: as a parameter it flows only into os.Stat (parser), imports.Process' file name and os.WriteFile's name (generator), and from Config.Output only into those two parameters")
	type use struct {
		fn    *ssa.Function
		param string
		allow map[string]int // callee -> arg index
	}
	g := c.generateFacts("C12-2")
	var uses []use
	if np := c.MustFunc("C12-2", "/pkg/parser", "NewParser"); np != nil && dstParam != "" {
		uses = append(uses, use{np, dstParam, map[string]int{"os.Stat": 0}})
	} else if dstParam == "" {
		r.Undecided("C12-2", "parser:output-path-param", "output path parameter of the parser not identified")
	}
	if g != nil && g.pathParam != nil {
		uses = append(uses, use{g.fn, g.pathParam.Name(), map[string]int{"os.WriteFile": 0, "golang.org/x/tools/imports.Process": 0}})
	}
	for _, u := range uses {
		var p *ssa.Parameter
		for _, q := range u.fn.Params {
			if q.Name() == u.param {
				p = q
			}
		}
		if p == nil || p.Referrers() == nil {
			r.Undecided("C12-2", FnKey(u.fn)+":"+u.param, "parameter not found")
			continue
		}
		n := 0
		for _, rf := range *p.Referrers() {
			if _, ok := rf.(*ssa.DebugRef); ok {
				continue
			}
			n++
			ok := false
			desc := sprintf("%T", rf)
			if ci, isCall := rf.(ssa.CallInstruction); isCall {
				name := core.CalleeName(ci.Common())
				desc = name
				if idx, allowed := u.allow[name]; allowed && ci.Common().Args[idx] == ssa.Value(p) {
					ok = true
				}
				// a helper of the same package that only takes the path's absolute form, stats it, compares its directory
				// and uses it as the key of the loader overlay (rule C12-6) – never opens or reads it
				if callee := ci.Common().StaticCallee(); !ok && callee != nil && callee.Blocks != nil && callee.Pkg == u.fn.Pkg {
					for i, a := range ci.Common().Args {
						if a == ssa.Value(p) && i < len(callee.Params) && pathOnlyAddressed(callee.Params[i], 0) {
							ok = true
						}
						// … or a split-off part of the same function, in which the path goes where it may go here
						if a == ssa.Value(p) && i < len(callee.Params) && onlyInto(callee.Params[i], u.allow) {
							ok = true
						}
					}
				}
			}
			r.Check("C12-2", sprintf("%s:%s:use%d", FnKey(u.fn), u.param, n), c.InstrPos(rf), ok, "the output path flows into "+desc+" (only "+strings.Join(sortedKeys(u.allow), ", ")+" may receive it)")
		}
		r.Check("C12-2", FnKey(u.fn)+":"+u.param+":used", c.Pos(u.fn.Pos()), n >= 1, "output path parameter unused")
	}
	// Config.Output loads
	nOut := 0
	for _, fn := range c.P.Funcs() {
		if fn.Pkg == nil || fn.Pkg.Pkg.Path() == mod+"/pkg/config" {
			continue
		}
		for _, b := range fn.Blocks {
			for _, in := range b.Instrs {
				var v ssa.Value
				switch x := in.(type) {
				case *ssa.Field:
					if core.FieldName(x.X.Type(), x.Field) == "config.Config.Output" {
						v = x
					}
				case *ssa.UnOp:
					if fa, ok := x.X.(*ssa.FieldAddr); ok && core.FieldName(fa.X.Type(), fa.Field) == "config.Config.Output" {
						v = x
					}
				}
				if v == nil || v.Referrers() == nil {
					continue
				}
				for _, rf := range *v.Referrers() {
					if _, ok := rf.(*ssa.DebugRef); ok {
						continue
					}
					nOut++
					ok := false
					desc := sprintf("%T", rf)
					if ci, isCall := rf.(ssa.CallInstruction); isCall {
						callee := ci.Common().StaticCallee()
						desc = core.CalleeName(ci.Common())
						if callee != nil {
							for i, a := range ci.Common().Args {
								if a != v {
									continue
								}
								if g != nil && callee == g.fn && i == paramIndex(g.fn, g.pathParam) {
									ok = true
								}
								if callee.Pkg != nil && callee.Pkg.Pkg.Path() == mod+"/pkg/parser" && callee.Name() == "NewParser" && i < len(callee.Params) && callee.Params[i].Name() == dstParam {
									ok = true
								}
							}
						}
					}
					r.Check("C12-2", sprintf("%s:Config.Output:use%d", FnKey(fn), nOut), c.InstrPos(rf), ok, "Config.Output flows into "+desc)
				}
			}
		}
	}
	r.Floor("C12-2", "uses of Config.Output outside pkg/config", nOut, 2)

	r.Rule("C12-3", "no read of packages.Package.{Errors, IllTyped} and no packages.PrintErrors anywhere in module code, and TypeErrors is read only by a function whose every non-nil answer is given for an error positioned inside a type declaration of the setup file's own syntax tree (type errors caused by stale output must not matter: they sit at the stale file's declarations and at redeclared names, and the output path is hidden from the loader, C12-6); positive control: other fields of packages.Package are seen being read")
	other := 0
	for _, fn := range c.P.Funcs() {
		for _, b := range fn.Blocks {
			for _, in := range b.Instrs {
				var fname string
				switch x := in.(type) {
				case *ssa.FieldAddr:
					fname = core.FieldName(x.X.Type(), x.Field)
				case *ssa.Field:
					fname = core.FieldName(x.X.Type(), x.Field)
				case ssa.CallInstruction:
					if core.CalleeName(x.Common()) == "golang.org/x/tools/go/packages.PrintErrors" {
						r.Check("C12-3", FnKey(fn)+":PrintErrors", c.Pos(x.Pos()), false, "package load errors are consulted")
					}
				}
				if !strings.HasPrefix(fname, "packages.Package.") {
					continue
				}
				switch strings.TrimPrefix(fname, "packages.Package.") {
				case "TypeErrors":
					// one confined use: errors positioned inside a type declaration of the setup file (C14-18). What the file at the
					// output path declares, or fails to parse, yields errors at its own declarations and at redeclared names – never
					// inside the method list of an interface of the setup file – and that file is hidden from the loader anyway (C12-6)
					r.Check("C12-3", FnKey(fn)+":"+fname, c.InstrPos(in), c.typeErrorsConfined(fn), "type errors are consulted without being confined to errors positioned inside a type declaration of the setup file: a broken file at the output path could change the run")
				case "Errors", "IllTyped":
					r.Check("C12-3", FnKey(fn)+":"+fname, c.InstrPos(in), false, "package load/type errors are consulted: a broken file at the output path could change the run")
				default:
					other++
				}
			}
		}
	}
	r.Floor("C12-3", "reads of other packages.Package fields (positive control for the matcher)", other, 3)
	r.Check("C12-3", "no-error-field-read", "-", true, "")

	c.pkgImportsIndexRule("C12-5")
	c.overlayRule("C12-6")
	c.fsReadInventory("C12-7")

	r.Rule("C12-4", "exactly one os.WriteFile in module code, outside any loop, writing the whole formatted content")
	if g != nil {
		r.Check("C12-4", FnKey(g.fn)+":single-write", c.Pos(g.write.Pos()), !inLoop(g.write.Instr.Block()), "the output write sits in a loop")
		r.Check("C12-4", FnKey(g.fn)+":whole-content", c.Pos(g.write.Pos()), g.dataInl.Kind == "extract" && g.dataInl.Args[0].IsCallTo("go/format.Source"), "the written data must be the complete result of format.Source, got "+g.dataInl.String())
	}
}

// paramReachesLoadPattern: does parameter pname of fn flow into the pattern argument of packages.Load ("file="+p)?
func (c *Ctx) paramReachesLoadPattern(fn *ssa.Function, pname string) bool {
	if fn == nil {
		return false
	}
	for _, s := range c.CallsIn(fn, "golang.org/x/tools/go/packages.Load", false) {
		a := c.varargAt(s.Args()[1], 0)
		if a != nil && a.Contains(func(t *core.Term) bool { return t.Is("param", pname) }) {
			return true
		}
	}
	return false
}

// onlyInto: every use of the parameter is the designated argument of one of the allowed callees.
func onlyInto(p *ssa.Parameter, allow map[string]int) bool {
	if p.Referrers() == nil {
		return false
	}
	n := 0
	for _, rf := range *p.Referrers() {
		if _, ok := rf.(*ssa.DebugRef); ok {
			continue
		}
		ci, isCall := rf.(ssa.CallInstruction)
		if !isCall {
			return false
		}
		idx, allowed := allow[core.CalleeName(ci.Common())]
		if !allowed || idx >= len(ci.Common().Args) || ci.Common().Args[idx] != ssa.Value(p) {
			return false
		}
		n++
	}
	return n > 0
}

// pathOnlyAddressed: the path value flows only into os.Stat, filepath.Abs / EvalSymlinks / Dir / Base / Join (whose results are
// again only addressed), comparisons and the key of a map update; it is never opened, read or printed.
func pathOnlyAddressed(v ssa.Value, depth int) bool {
	if depth > 9 || v.Referrers() == nil {
		return depth <= 9
	}
	for _, rf := range *v.Referrers() {
		switch x := rf.(type) {
		case *ssa.DebugRef:
		case *ssa.Extract:
			if x.Index == 0 && !pathOnlyAddressed(x, depth+1) {
				return false
			}
		case *ssa.MapUpdate:
			if x.Key != v {
				return false
			}
		case *ssa.BinOp:
			// comparison of directories
		case *ssa.Store:
			// an element of filepath.Join(…), whose result is again only addressed
			ia, isIA := x.Addr.(*ssa.IndexAddr)
			if x.Val != v || !isIA {
				return false
			}
			arr, isAlloc := ia.X.(*ssa.Alloc)
			if !isAlloc || arr.Referrers() == nil {
				return false
			}
			for _, ar := range *arr.Referrers() {
				sl, isSlice := ar.(*ssa.Slice)
				if !isSlice || sl.Referrers() == nil {
					continue
				}
				for _, sr := range *sl.Referrers() {
					jc, isCall := sr.(*ssa.Call)
					if !isCall || core.CalleeName(&jc.Call) != "path/filepath.Join" || !pathOnlyAddressed(jc, depth+1) {
						return false
					}
				}
			}
		case *ssa.Call:
			switch core.CalleeName(&x.Call) {
			case "os.Stat":
				if x.Call.Args[0] != v {
					return false
				}
			case "path/filepath.Abs", "path/filepath.EvalSymlinks", "path/filepath.Base":
				// EvalSymlinks reads link targets on the way to the path, never the file's content
				if x.Call.Args[0] != v || !pathOnlyAddressed(x, depth+1) {
					return false
				}
			case "path/filepath.Dir":
				// compared, resolved, or joined with a base name
				if !pathOnlyAddressed(x, depth+1) {
					return false
				}
			default:
				return false
			}
		default:
			return false
		}
	}
	return true
}
