// Package rules holds the per-property rule sets. Every rule inspects /repo's current source through
// the type-checked AST / SSA held by core.Prog and records obligations in a report.Run.
package rules

import (
	"fmt"
	"go/ast"
	"go/token"
	"go/types"
	"sort"
	"strings"

	"cvcheck/internal/core"
	"cvcheck/internal/report"

	"golang.org/x/tools/go/ssa"
)

// Ctx bundles the loaded program, the report and memoised analyses.
type Ctx struct {
	P                   *core.Prog
	R                   *report.Run
	O                   *core.Origins
	Tier                string
	reach               map[*ssa.Function]*core.Reach
	sums                map[sumKey]core.DNF
	sumBad              map[sumKey]bool
	sumBusy             map[*ssa.Function]bool
	callers             map[*ssa.Function][]Site
	valueUse            map[*ssa.Function]bool
	typeArgsChecked     map[*ssa.Function]bool
	posProg             *core.Prog
	posCtx              *Ctx
	posErr              error
	tplS                *tplState
	hookTally, asgTally *tally
}

// NewCtx creates a rule context.
func NewCtx(p *core.Prog, r *report.Run, tier string) *Ctx {
	c := &Ctx{P: p, R: r, O: core.NewOrigins(), Tier: tier, reach: map[*ssa.Function]*core.Reach{},
		sums: map[sumKey]core.DNF{}, sumBad: map[sumKey]bool{}, sumBusy: map[*ssa.Function]bool{}}
	core.Expander = c.summaryOf
	core.SpillGuardOK = c.guardedResultWrites
	return c
}

// Reach returns (memoised) reaching conditions of fn.
func (c *Ctx) Reach(fn *ssa.Function) *core.Reach {
	if r, ok := c.reach[fn]; ok {
		return r
	}
	r := core.NewReachKeyed(fn, nil, c.atomKey(fn))
	c.reach[fn] = r
	return r
}

// ReachAvoid computes reaching conditions over paths that avoid the blocked blocks, with the same atoms as Reach.
func (c *Ctx) ReachAvoid(fn *ssa.Function, blocked map[*ssa.BasicBlock]bool) *core.Reach {
	return core.NewReachKeyed(fn, blocked, c.atomKey(fn))
}

// pureCallees may be evaluated twice with equal operands and give the same answer.
var pureCallees = map[string]bool{
	"go/types.AssignableTo": true, "go/types.ConvertibleTo": true, "go/types.Identical": true,
	"builtin:len": true, "strings.HasPrefix": true, "strings.HasSuffix": true, "strings.EqualFold": true,
	"(*go/types.Tuple).Len": true, "(*go/types.Signature).Params": true, "(*go/types.Signature).Results": true,
	"(*go/types.Tuple).At": true, "(*go/types.object).Type": true, "(*go/types.object).Name": true, "(*go/types.object).Pkg": true,
	"go/ast.IsExported": true,
}

// atomKey names propositional atoms: two condition values with the same *stable* origin term are the same
// atom. A term is stable when it is built from constants, parameters, free variables, globals, pure calls
// (go/types judgements, util predicates, Node accessors) and loads of struct fields that the function (and its
// closures) never stores to. Anything else is one atom per SSA value.
func (c *Ctx) atomKey(fn *ssa.Function) func(ssa.Value) string {
	stored := map[string]bool{}
	var collect func(f *ssa.Function)
	collect = func(f *ssa.Function) {
		for _, b := range f.Blocks {
			for _, in := range b.Instrs {
				if st, ok := in.(*ssa.Store); ok {
					if fa, ok := st.Addr.(*ssa.FieldAddr); ok {
						stored[core.FieldName(fa.X.Type(), fa.Field)] = true
					}
				}
			}
		}
		for _, a := range f.AnonFuncs {
			collect(a)
		}
	}
	root := fn
	for root.Parent() != nil {
		root = root.Parent()
	}
	collect(root)
	var stable func(t *core.Term, d int) bool
	stable = func(t *core.Term, d int) bool {
		if t == nil || d > 30 {
			return false
		}
		switch t.Kind {
		case "const", "param", "global":
			return true
		case "fv":
			// a captured variable is stable only if it is a pointer to a struct used through field loads; plain loads of it are not
			return false
		case "local":
			return !strings.Contains(t.Name, "@")
		case "field":
			if stored[t.Name] {
				return false
			}
			if len(t.Args) == 1 && t.Args[0].Kind == "fv" {
				return true
			}
		case "call":
			if !(pureCallees[t.Name] || strings.HasPrefix(t.Name, pUtil+"Is") || strings.HasPrefix(t.Name, pUtil+"Complies") ||
				t.Name == fnDerefPtr || t.Name == fnSliceElement || t.Name == fnStringType) {
				return false
			}
		case "invoke":
			switch t.Name {
			case invExprType, invObjName, invMatcher, invAssignExpr, invRetErr, invNullable, invNullCheck:
			default:
				return false
			}
		case "binop", "unop", "convert", "index", "extract":
		default:
			return false
		}
		for _, a := range t.Args {
			if !stable(a, d+1) {
				return false
			}
		}
		return true
	}
	return func(v ssa.Value) string {
		t := c.O.Of(v)
		if stable(t, 0) {
			s := t.String()
			// canonicalise != to == is done by matchers; here only identity matters
			return "T:" + s
		}
		return ""
	}
}

// ReachOf returns the reaching condition of the instruction's block.
func (c *Ctx) ReachOf(in ssa.Instruction) core.DNF {
	r := c.Reach(in.Parent())
	return r.At(in.Block())
}

// Site is one call site in module code.
type Site struct {
	Fn     *ssa.Function
	Instr  ssa.CallInstruction
	Callee string
}

// Args returns the call arguments (for invokes: receiver first).
func (s Site) Args() []ssa.Value {
	cc := s.Instr.Common()
	if cc.IsInvoke() {
		return append([]ssa.Value{cc.Value}, cc.Args...)
	}
	return cc.Args
}

// Pos returns the call position.
func (s Site) Pos() token.Pos { return s.Instr.Pos() }

// Calls lists all call sites in module functions, optionally filtered by callee name.
func (c *Ctx) Calls(filter func(callee string) bool) []Site {
	var out []Site
	for _, fn := range c.P.Funcs() {
		for _, b := range fn.Blocks {
			for _, in := range b.Instrs {
				ci, ok := in.(ssa.CallInstruction)
				if !ok {
					continue
				}
				name := core.CalleeName(ci.Common())
				if filter == nil || filter(name) {
					out = append(out, Site{Fn: fn, Instr: ci, Callee: name})
				}
			}
		}
	}
	return out
}

// CallsTo lists call sites whose callee has exactly the given name.
func (c *Ctx) CallsTo(name string) []Site {
	return c.Calls(func(s string) bool { return s == name })
}

// CallsIn lists call sites to name inside fn (and optionally its anonymous functions).
func (c *Ctx) CallsIn(fn *ssa.Function, name string, withAnon bool) []Site {
	var out []Site
	var visit func(f *ssa.Function)
	visit = func(f *ssa.Function) {
		for _, b := range f.Blocks {
			for _, in := range b.Instrs {
				if ci, ok := in.(ssa.CallInstruction); ok && core.CalleeName(ci.Common()) == name {
					out = append(out, Site{Fn: f, Instr: ci, Callee: name})
				}
			}
		}
		if withAnon {
			for _, a := range f.AnonFuncs {
				visit(a)
			}
		}
	}
	visit(fn)
	return out
}

// Lits finds composite-literal allocations of the named struct type in module code.
func (c *Ctx) Lits(named *types.Named) []*ssa.Alloc {
	var out []*ssa.Alloc
	for _, fn := range c.P.Funcs() {
		for _, b := range fn.Blocks {
			for _, in := range b.Instrs {
				a, ok := in.(*ssa.Alloc)
				if !ok {
					continue
				}
				pt, ok := a.Type().Underlying().(*types.Pointer)
				if !ok {
					continue
				}
				if types.Identical(pt.Elem(), named) && a.Comment == "complit" {
					out = append(out, a)
				}
			}
		}
	}
	return out
}

// LitFields returns, for a composite-literal Alloc, the value stored into each field (by name).
// Fields not mentioned are absent (zero value).
func LitFields(a *ssa.Alloc) map[string]ssa.Value {
	out := map[string]ssa.Value{}
	if a.Referrers() == nil {
		return out
	}
	for _, r := range *a.Referrers() {
		fa, ok := r.(*ssa.FieldAddr)
		if !ok || fa.Referrers() == nil {
			continue
		}
		st := fa.X.Type().Underlying().(*types.Pointer).Elem().Underlying().(*types.Struct)
		for _, rr := range *fa.Referrers() {
			if s, ok := rr.(*ssa.Store); ok && s.Addr == fa {
				out[st.Field(fa.Field).Name()] = s.Val
			}
		}
	}
	return out
}

// Canon canonicalises a literal: returns the origin term and whether it is asserted true.
// "x != y" true is rewritten to "x == y" false; "!x" is unwrapped.
func (c *Ctx) Canon(l core.Lit) (*core.Term, bool) {
	t := l.TermOf(c.O)
	pos := !l.Neg
	for {
		if t.Kind == "unop" && t.Name == "!" {
			t = t.Args[0]
			pos = !pos
			continue
		}
		if t.Kind == "binop" && t.Name == "!=" {
			t = &core.Term{Kind: "binop", Name: "==", Args: t.Args, V: t.V, Type: t.Type}
			pos = !pos
			continue
		}
		break
	}
	return t, pos
}

// M builds a literal matcher: the literal's canonical term must satisfy pred with the given polarity.
func (c *Ctx) M(want bool, pred func(t *core.Term) bool) core.LitMatcher {
	return func(l core.Lit) bool {
		t, pos := c.Canon(l)
		return pos == want && pred(t)
	}
}

// FnKey is the stable short name of a function used in obligation keys.
func FnKey(f *ssa.Function) string { return core.FuncName(f) }

// Pos renders an instruction position.
func (c *Ctx) Pos(p token.Pos) string { return c.P.Pos(p) }

// InstrPos finds a usable position for an instruction (falls back to the function position).
func (c *Ctx) InstrPos(in ssa.Instruction) string {
	if in.Pos().IsValid() {
		return c.P.Pos(in.Pos())
	}
	if v, ok := in.(ssa.Value); ok && v.Referrers() != nil {
		for _, r := range *v.Referrers() {
			if r.Pos().IsValid() {
				return c.P.Pos(r.Pos())
			}
		}
	}
	return c.P.Pos(in.Parent().Pos())
}

// MustFunc returns a function or records UNDECIDED.
func (c *Ctx) MustFunc(rule, suffix, name string) *ssa.Function {
	f := c.P.LookupFunc(suffix, name)
	if f == nil {
		c.R.Undecided(rule, "anchor:"+suffix+"."+name, "anchor function not found")
	}
	return f
}

// MustMethod returns a method or records UNDECIDED.
func (c *Ctx) MustMethod(rule, suffix, typ, name string) *ssa.Function {
	f := c.P.LookupMethod(suffix, typ, name)
	if f == nil {
		c.R.Undecided(rule, "anchor:"+suffix+"."+typ+"."+name, "anchor method not found")
	}
	return f
}

// MustType returns a named type or records UNDECIDED.
func (c *Ctx) MustType(rule, suffix, name string) *types.Named {
	t := c.P.LookupType(suffix, name)
	if t == nil {
		c.R.Undecided(rule, "anchor:"+suffix+"."+name, "anchor type not found")
	}
	return t
}

// isCall is a Term predicate factory.
func isCall(name string, argPreds ...func(*core.Term) bool) func(*core.Term) bool {
	return func(t *core.Term) bool {
		if !t.IsCallTo(name) {
			return false
		}
		for i, p := range argPreds {
			if p == nil {
				continue
			}
			if i >= len(t.Args) || !p(t.Args[i]) {
				return false
			}
		}
		return true
	}
}

func isField(name string) func(*core.Term) bool {
	return func(t *core.Term) bool { return t.IsField(name) }
}

func termEq(s string) func(*core.Term) bool {
	return func(t *core.Term) bool { return t.String() == s }
}

func anyTerm(*core.Term) bool { return true }

// eqConst matches "X == const" (either order) where X satisfies pred and const has the given rendering.
func eqConst(pred func(*core.Term) bool, konst string) func(*core.Term) bool {
	return func(t *core.Term) bool {
		if t.Kind != "binop" || t.Name != "==" || len(t.Args) != 2 {
			return false
		}
		a, b := t.Args[0], t.Args[1]
		if a.Is("const", konst) && pred(b) {
			return true
		}
		return b.Is("const", konst) && pred(a)
	}
}

// closureSites returns the instructions in parent functions where the anonymous function fn is
// created (MakeClosure or direct function value).
func closureSites(fn *ssa.Function) []ssa.Instruction {
	var out []ssa.Instruction
	p := fn.Parent()
	if p == nil {
		return nil
	}
	for _, b := range p.Blocks {
		for _, in := range b.Instrs {
			if mc, ok := in.(*ssa.MakeClosure); ok && mc.Fn == fn {
				out = append(out, in)
			}
		}
	}
	return out
}

// usesOfValue returns call instructions (in the value's function) that receive v (possibly via
// interface/ChangeType conversions or a single-store local) as an argument.
func usesAsArg(v ssa.Value) []ssa.CallInstruction {
	var out []ssa.CallInstruction
	seen := map[ssa.Value]bool{}
	var walk func(x ssa.Value)
	walk = func(x ssa.Value) {
		if seen[x] || x.Referrers() == nil {
			return
		}
		seen[x] = true
		for _, r := range *x.Referrers() {
			switch r := r.(type) {
			case ssa.CallInstruction:
				for _, a := range r.Common().Args {
					if a == x {
						out = append(out, r)
					}
				}
			case *ssa.ChangeType:
				walk(r)
			case *ssa.MakeInterface:
				walk(r)
			case *ssa.Phi:
				walk(r)
			case *ssa.Store:
				if al, ok := r.Addr.(*ssa.Alloc); ok && r.Val == x && al.Referrers() != nil {
					for _, rr := range *al.Referrers() {
						if u, ok := rr.(*ssa.UnOp); ok && u.Op == token.MUL {
							walk(u)
						}
					}
				}
			}
		}
	}
	walk(v)
	return out
}

// sortedKeys returns sorted map keys.
func sortedKeys[V any](m map[string]V) []string {
	var ks []string
	for k := range m {
		ks = append(ks, k)
	}
	sort.Strings(ks)
	return ks
}

// funcDecl returns the FuncDecl of a module function found by package suffix and name
// (Recv.Name for methods).
func (c *Ctx) funcDecl(suffix, name string) (*ast.FuncDecl, *types.Info) {
	pkg := c.P.Pkg(suffix)
	if pkg == nil {
		return nil, nil
	}
	for _, f := range pkg.Syntax {
		for _, d := range f.Decls {
			fd, ok := d.(*ast.FuncDecl)
			if !ok {
				continue
			}
			n := fd.Name.Name
			if fd.Recv != nil && len(fd.Recv.List) == 1 {
				t := fd.Recv.List[0].Type
				if s, ok := t.(*ast.StarExpr); ok {
					t = s.X
				}
				if id, ok := t.(*ast.Ident); ok {
					n = id.Name + "." + n
				}
			}
			if n == name {
				return fd, pkg.TypesInfo
			}
		}
	}
	return nil, nil
}

func short(s string) string {
	s = strings.ReplaceAll(s, core.ModPath+"/pkg/", "")
	return strings.ReplaceAll(s, core.ModPath, "main")
}

func sprintf(f string, a ...any) string { return fmt.Sprintf(f, a...) }

// inlineAnchors: functions the rules name as stages of a pipeline; they are never read through.
var inlineAnchors = map[string]bool{"(*generator.Generator).generateContent": true}

// Inline expands, inside term t, calls of module helper functions that consist of a single return statement
// (the typical product of an "extract helper" refactoring) by the returned expression with the arguments substituted.
// extract:i(call:f(args)) becomes result i, call:f(args) the single result.
func (c *Ctx) Inline(t *core.Term, depth int) *core.Term {
	if t == nil || depth == 0 {
		return t
	}
	var rec func(x *core.Term, d int) *core.Term
	seen := map[*core.Term]*core.Term{}
	rec = func(x *core.Term, d int) *core.Term {
		if x == nil || d > 40 {
			return x
		}
		if r, ok := seen[x]; ok {
			return r
		}
		idx := -1
		call := x
		if x.Kind == "extract" && len(x.Args) == 1 && x.Args[0].Kind == "call" {
			call = x.Args[0]
			fmt.Sscanf(x.Name, "%d", &idx)
		}
		if call.Kind == "call" && isModuleCallee(call.Name) {
			if cv, ok := call.V.(*ssa.Call); ok {
				if fn := cv.Call.StaticCallee(); fn != nil && fn.Blocks != nil && (!strings.Contains(call.Name, "logger.") || fn.Parent() != nil) { // logger.Errorf & co. stay named; local closures are read through
					rets := core.Returns(fn)
					if len(rets) > 1 && len(fn.Blocks) <= 16 && idx >= 0 && !inlineAnchors[core.FuncName(fn)] {
						// a pipeline helper: every return but one answers nil (with an error) at this position; the value is only
						// looked at by callers on the nil-error edge, which the rules that use it demand separately
						var only []*ssa.Return
						for _, rt := range rets {
							if idx < len(rt.Results) && !c.O.Of(rt.Results[idx]).Is("const", "nil") {
								only = append(only, rt)
							}
						}
						if len(only) == 1 {
							rets = only
						}
					}
					if len(rets) == 1 && !inlineAnchors[core.FuncName(fn)] && (len(fn.Blocks) <= 3 || idx >= 0 && len(fn.Blocks) <= 16) {
						k := idx
						if k < 0 && len(rets[0].Results) == 1 {
							k = 0
						}
						if k >= 0 && k < len(rets[0].Results) {
							sub := map[string]*core.Term{}
							for i, p := range fn.Params {
								if i < len(call.Args) {
									sub[p.Name()] = rec(call.Args[i], d+1)
								}
							}
							body := c.O.Of(rets[0].Results[k])
							out := core.Subst(body, sub)
							if mc, isMC := cv.Call.Value.(*ssa.MakeClosure); isMC {
								fvs := map[string]*core.Term{}
								for i, fv := range fn.FreeVars {
									if i < len(mc.Bindings) {
										if cvl := c.O.CellValue(mc.Bindings[i]); cvl != nil {
											fvs[fv.Name()] = cvl
										}
									}
								}
								out = substFV(out, fvs)
							}
							res := c.Inline(out, depth-1)
							seen[x] = res
							return res
						}
					}
				}
			}
		}
		n := &core.Term{Kind: x.Kind, Name: x.Name, V: x.V, Type: x.Type}
		seen[x] = n
		for _, a := range x.Args {
			n.Args = append(n.Args, rec(a, d+1))
		}
		return n
	}
	return rec(t, 0)
}

// OfInl is Origins.Of followed by Inline (depth 2).
func (c *Ctx) OfInl(v ssa.Value) *core.Term { return c.Inline(c.O.Of(v), 2) }
