package rules

import (
	"fmt"
	"sort"
	"strings"

	"cvcheck/internal/core"

	"golang.org/x/tools/go/ssa"
)

// Dump prints reaching conditions of every block of the functions whose name contains pat (debug aid).
func Dump(p *core.Prog, pat string) {
	o := core.NewOrigins()
	for _, fn := range p.Funcs() {
		if !strings.Contains(core.FuncName(fn), pat) {
			continue
		}
		fmt.Printf("== %s\n", core.FuncName(fn))
		r := core.NewReach(fn)
		for _, b := range fn.Blocks {
			fmt.Printf(" block %d (%s): %s\n", b.Index, b.Comment, r.At(b).Describe(o))
			for _, in := range b.Instrs {
				switch x := in.(type) {
				case ssa.CallInstruction:
					fmt.Printf("    call %s\n", core.CalleeName(x.Common()))
				case *ssa.Return:
					var rs []string
					for _, v := range x.Results {
						rs = append(rs, o.Of(v).String())
					}
					fmt.Printf("    return %s\n", strings.Join(rs, " | "))
				case *ssa.Store:
					fmt.Printf("    store %s <- %s\n", o.Of(x.Addr), o.Of(x.Val))
				}
			}
		}
	}
}

// DumpExternal prints the external callees of module code (debug aid for the effect table).
func DumpExternal(p *core.Prog) {
	seen := map[string]int{}
	for _, fn := range p.Funcs() {
		for _, b := range fn.Blocks {
			for _, in := range b.Instrs {
				if ci, ok := in.(ssa.CallInstruction); ok {
					n := core.CalleeName(ci.Common())
					if n == "" {
						n = "<dynamic>"
					}
					if !strings.HasPrefix(n, core.ModPath) && !strings.HasPrefix(n, "("+core.ModPath) && !strings.HasPrefix(n, "(*"+core.ModPath) {
						seen[n]++
					}
				}
			}
		}
	}
	var ks []string
	for k := range seen {
		ks = append(ks, k)
	}
	sort.Strings(ks)
	for _, k := range ks {
		fmt.Printf("%4d %s\n", seen[k], k)
	}
}

// DumpCalls prints every call site whose callee name contains pat with the origin terms of its arguments (debug aid).
func DumpCalls(p *core.Prog, pat string) {
	o := core.NewOrigins()
	for _, fn := range p.Funcs() {
		for _, b := range fn.Blocks {
			for _, in := range b.Instrs {
				ci, ok := in.(ssa.CallInstruction)
				if !ok || !strings.Contains(core.CalleeName(ci.Common()), pat) {
					continue
				}
				var as []string
				for _, a := range ci.Common().Args {
					as = append(as, o.Of(a).String())
				}
				fmt.Printf("%s %s: %s(%s)\n", p.Pos(in.Pos()), core.FuncName(fn), core.CalleeName(ci.Common()), strings.Join(as, " | "))
			}
		}
	}
}

// DumpFuncs prints every module function that has syntax as "file:startline-endline name" (for the rule-coverage report).
func DumpFuncs(p *core.Prog) {
	for _, fn := range p.Funcs() {
		syn := fn.Syntax()
		if syn == nil {
			continue
		}
		a, b := p.Fset.Position(syn.Pos()), p.Fset.Position(syn.End())
		fmt.Printf("%s:%d-%d %s\n", strings.TrimPrefix(a.Filename, p.Repo+"/"), a.Line, b.Line, core.FuncName(fn))
	}
}
