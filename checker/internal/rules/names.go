package rules

import "cvcheck/internal/core"

// Fully qualified callee names used by the rules (types.Func.FullName form).
const (
	mod   = core.ModPath
	pBM   = mod + "/pkg/builder/model."
	pGM   = mod + "/pkg/generator/model."
	pUtil = mod + "/pkg/util."
	pOpt  = mod + "/pkg/option."
	pLog  = mod + "/pkg/logger."
	pBld  = mod + "/pkg/builder."
	pPar  = mod + "/pkg/parser."
	pGen  = mod + "/pkg/generator."

	fnAssignable  = "go/types.AssignableTo"
	fnConvertible = "go/types.ConvertibleTo"
	fnIdentical   = "go/types.Identical"

	fnNewStringer   = pBM + "NewStringer"
	fnNewTypecast   = pBM + "NewTypecast"
	fnNewConverter  = pBM + "NewConverterNode"
	fnNewFieldNode  = pBM + "NewStructFieldNode"
	fnNewMethodNode = pBM + "NewStructMethodNode"
	fnNewRootNode   = pBM + "NewRootNode"
	fnIterFields    = pBM + "IterateStructFields"
	fnIterMethods   = pBM + "IterateStructMethods"

	invExprType   = "(model.Node).ExprType"
	invAssignExpr = "(model.Node).AssignExpr"
	invObjName    = "(model.Node).ObjName"
	invMatcher    = "(model.Node).MatcherExpr"
	invRetErr     = "(model.Node).ReturnsError"
	invNullable   = "(model.Node).ObjNullable"
	invNullCheck  = "(model.Node).NullCheckExpr"
	invParent     = "(model.Node).Parent"

	fnCompliesStringer = pUtil + "CompliesStringer"
	fnCompliesGetter   = pUtil + "CompliesGetter"
	fnStringType       = pUtil + "StringType"
	fnSliceElement     = pUtil + "SliceElement"
	fnIsBasic          = pUtil + "IsBasicType"
	fnIsSlice          = pUtil + "IsSliceType"
	fnIsStruct         = pUtil + "IsStructType"
	fnIsPtr            = pUtil + "IsPtr"
	fnIsErrorType      = pUtil + "IsErrorType"
	fnDerefPtr         = pUtil + "DerefPtr"

	fldStringer  = "option.Options.Stringer"
	fldTypecast  = "option.Options.Typecast"
	fldGetter    = "option.Options.Getter"
	fldRule      = "option.Options.Rule"
	fldExactCase = "option.Options.ExactCase"
	fldStyle     = "option.Options.Style"
	fldReverse   = "option.Options.Reverse"
	fldReceiver  = "option.Options.Receiver"

	fnWarnf  = pLog + "Warnf"
	fnErrorf = pLog + "Errorf"
	fnPrintf = pLog + "Printf"
)
