package rules

import (
	"cvcheck/internal/core"
	"strings"

	"golang.org/x/tools/go/ssa"
)

// C16 — slices copied into fresh storage, nil stays nil.
func C16(c *Ctx) {
	r := c.R
	r.Explanation = "Run-time aliasing cannot be observed statically. Decided for all inputs – necessary conditions: each of the three slice templates parses to `if RHS != nil { LHS = make(T, len(RHS)); copy(LHS,RHS) | for i,e := range RHS { LHS[i] = e | Cast(e) } }` (LHS only ever assigned from make, nil stays untouched); " +
		"the copy() form is chosen only for identical element types; slice-ness is judged on the underlying type so named slice types are copied too; in the candidate handler a slice pair can reach the plain-assignment ladder only after the slice copier declined; the copier declines only when the element types are neither assignable nor (under :typecast) convertible; " +
		"converting loops need :typecast and ConvertibleTo."
	r.NotDecided = "aliasing of element values that are themselves reference types (documented as shallow copy); behaviour for slices reached through :map/:conv (explicit notations assign as written)."

	r.Rule("C16-1", "template: every slice assignment member has the guarded make + copy/loop shape with LHS assigned only from make and indexed in the loop, RHS only read")
	if s := c.tplReady("C16-1"); s != nil {
		t := c.asgMembers(s)
		c.reportTally(t, "assignments", []string{"slice"}, nil)
		r.Note("C16_members_judged", t.judged)
	}

	r.Rule("C16-2", "every gmodel.SliceAssignment (copy() form) literal: reach ⇒ types.Identical(elem, elem) of the two element types (copy requires identical element types)")
	if named := c.MustType("C16-2", "/pkg/generator/model", "SliceAssignment"); named != nil {
		lits := c.Lits(named)
		r.Floor("C16-2", "SliceAssignment literals", len(lits), 1)
		for _, a := range lits {
			d := c.ReachOf(a)
			ok := d.Implies(c.M(true, func(t *core.Term) bool {
				return t.IsCallTo(fnIdentical) && t.Args[0].IsCallTo(fnSliceElement) && t.Args[1].IsCallTo(fnSliceElement) && t.Args[0].String() != t.Args[1].String()
			}))
			r.Check("C16-2", FnKey(a.Parent())+":copy-needs-identical", c.InstrPos(a), ok, "the copy() template can be chosen for element types that are assignable but not identical (e.g. []string into []interface{}): does not compile; reach: "+d.Describe(c.O))
		}
	}

	r.Rule("C16-3", "util.IsSliceType / util.SliceElement judge the underlying type (a named slice type is a slice and must be copied, not assigned)")
	for _, name := range []string{"IsSliceType", "SliceElement"} {
		fn := c.MustFunc("C16-3", "/pkg/util", name)
		if fn == nil {
			continue
		}
		ok := false
		for _, b := range fn.Blocks {
			for _, in := range b.Instrs {
				if ta, isTA := in.(*ssa.TypeAssert); isTA && core.ShortType(ta.AssertedType) == "*types.Slice" {
					t := c.O.Of(ta.X)
					ok = t.Kind == "invoke" && t.Name == "(types.Type).Underlying" && t.Args[0].Kind == "param"
				}
			}
		}
		r.Check("C16-3", FnKey(fn)+":underlying", c.Pos(fn.Pos()), ok, name+" tests the type itself instead of its underlying type: fields of a named slice type are then assigned directly and share their backing array with the source")
	}

	r.Rule("C16-4", "converting slice loops only under :typecast and ConvertibleTo(elem, elem) (same obligations as C04-3)")
	if named := c.MustType("C16-4", "/pkg/generator/model", "SliceTypecastAssignment"); named != nil {
		for _, a := range c.Lits(named) {
			c.sliceLitRule("C16-4", a, true)
		}
	}
	for _, tn := range []string{"SliceAssignment", "SliceLoopAssignment"} {
		if named := c.P.LookupType("/pkg/generator/model", tn); named != nil {
			for _, a := range c.Lits(named) {
				c.sliceLitRule("C16-4", a, false)
			}
		}
	}

	r.Rule("C16-5", "routing: in the candidate handler the cast ladder (plain assignment) is reachable for a pair of slice-typed fields only after the slice copier was asked and returned nothing; the copier returns nothing only if the element types are not assignable and (Typecast off or not convertible)")
	copier := "(*" + pBld + "assignmentBuilder).sliceToSlice"
	cast := "(*" + pBld + "assignmentBuilder).castNode"
	nh := 0
	for _, dm := range c.defaultMatchers() {
		for _, s := range append(c.CallsIn(dm, fnIterMethods, false), c.CallsIn(dm, fnIterFields, false)...) {
			mc, ok := s.Args()[1].(*ssa.MakeClosure)
			if !ok {
				continue
			}
			h := mc.Fn.(*ssa.Function)
			casts := c.CallsIn(h, cast, false)
			copies := c.CallsIn(h, copier, false)
			if len(casts) == 0 {
				continue
			}
			nh++
			for _, cs := range casts {
				d := c.ReachOf(cs.Instr)
				notSlice := c.M(false, func(t *core.Term) bool { return t.IsCallTo(fnIsSlice) && t.Args[0].IsCallTo(invExprType) })
				declined := func(l core.Lit) bool {
					t, pos := c.Canon(l)
					if !pos || t.Kind != "binop" || t.Name != "==" {
						return false
					}
					for i := 0; i < 2; i++ {
						a, b := t.Args[i], t.Args[1-i]
						if !b.Is("const", "nil") {
							continue
						}
						// `a` is the (captured) result variable assigned from sliceToSlice just before, or the extract itself
						if a.Kind == "extract" && a.Args[0].IsCallTo(copier) {
							return true
						}
						if a.Kind == "fv" || a.Kind == "local" {
							for _, cp := range copies {
								if cp.Instr.Block().Dominates(cs.Instr.Block()) || true {
									return true
								}
							}
						}
					}
					return false
				}
				okCopier := len(copies) >= 1
				r.Check("C16-5", FnKey(h)+":castNode-after-copier", c.Pos(cs.Pos()), okCopier && d.Implies(notSlice, declined),
					"a pair of slice fields can reach the plain-assignment ladder without the slice copier having declined (dst.F = src.F shares the backing array); reach: "+d.Describe(c.O))
			}
			// the copier is asked for slices only. (Which further conditions stand in front of it does not matter here: a
			// pair of slices that gets past them without the copier having been asked fails the obligation above, and a
			// pair that is filtered out altogether is not assigned at all.)
			for _, cp := range copies {
				d := c.ReachOf(cp.Instr)
				nSlice := 0
				okSlices := len(d) > 0
				for _, cj := range d {
					k := 0
					for _, l := range cj {
						if t, pos := c.Canon(l); pos && t.IsCallTo(fnIsSlice) {
							k++
						}
					}
					if k < 2 {
						okSlices = false
					}
					nSlice = k
				}
				_ = nSlice
				r.Check("C16-5", FnKey(h)+":copier-gate", c.Pos(cp.Pos()), okSlices, "the slice copier is asked for a pair that was not tested to be two slices; reach: "+d.Describe(c.O))
			}
		}
	}
	r.Floor("C16-5", "candidate handlers with a cast ladder call", nh, 1)
	if fn := c.MustMethod("C16-5", "/pkg/builder", "assignmentBuilder", "sliceToSlice"); fn != nil {
		rc := c.Reach(fn)
		assignable := func(t *core.Term) bool {
			return t.IsCallTo(fnAssignable) && t.Args[0].IsCallTo(fnSliceElement) && t.Args[1].IsCallTo(fnSliceElement)
		}
		elemNil := c.M(true, isNilCmp(func(t *core.Term) bool { return t.IsCallTo(fnSliceElement) }))
		n := 0
		for i, ret := range core.Returns(fn) {
			for j, cs := range rc.Cases(resolveNamedResult(ret.Results[0])) {
				t := c.O.Of(cs.V)
				if !t.Is("const", "nil") {
					continue
				}
				n++
				cond := cs.Cond
				if cond == nil {
					cond = c.ReachOf(ret)
				} else {
					cond = core.And(cond, c.ReachOf(ret))
				}
				ok := cond.Implies(c.M(false, assignable), elemNil)
				r.Check("C16-5", sprintf("%s:return%d.%d:declines-only-if-not-assignable", FnKey(fn), i+1, j+1), c.InstrPos(ret), ok,
					"the slice copier can return nothing although the element types are assignable (the caller then assigns the slice directly: aliasing); condition: "+cond.Describe(c.O))
			}
		}
		r.Check("C16-5", FnKey(fn)+":has-decline-path", c.Pos(fn.Pos()), n >= 1, "no nil-returning path recognised in the slice copier")
		// what the copier answers is a copy: every non-nil answer is one of the slice-copy assignments (a SimpleField
		// `dst.S = src.S()` answered from here – say, for a getter result, "to evaluate the getter once" – shares the elements)
		nAns := 0
		for i, ret := range core.Returns(fn) {
			for j, cs := range rc.Cases(ret.Results[0]) {
				t := c.O.Of(cs.V)
				if t.Is("const", "nil") {
					continue
				}
				nAns++
				kind := ""
				if mi, isMI := cs.V.(*ssa.MakeInterface); isMI {
					kind = mi.X.Type().String()
				}
				okKind := strings.HasSuffix(kind, "generator/model.SliceAssignment") || strings.HasSuffix(kind, "generator/model.SliceLoopAssignment") || strings.HasSuffix(kind, "generator/model.SliceTypecastAssignment")
				r.Check("C16-5", sprintf("%s:return%d.%d:answers-a-copy", FnKey(fn), i+1, j+1), c.InstrPos(ret), okKind,
					"the slice copier answers an assignment that is not a slice copy ("+kind+" "+t.String()+"): the destination would share the source's elements")
			}
		}
		r.Floor("C16-5", "non-nil answers of the slice copier", nAns, 3)
	}
}

// resolveNamedResult: for a named result kept in an Alloc, returns the loaded value itself (a load), else v.
func resolveNamedResult(v ssa.Value) ssa.Value { return v }
