package rules

import (
	"fmt"
	"go/ast"
	"strings"

	"cvcheck/internal/core"
	"cvcheck/internal/tpl"

	"golang.org/x/tools/go/ssa"
)

// C03 — well-formed setup files are accepted.
func C03(c *Ctx) {
	r := c.R
	r.Explanation = "Acceptance over all layouts is a liveness statement about go/printer, a regexp and byte positions and is not decidable in general. Decided for all inputs – necessary conditions: no member of the emitted grammar can make gofmt fail (a template that does not parse rejects every input that reaches it); " +
		"a marker comment always gets its own comment group (never merged into a neighbour by position arithmetic on synthesized comments) and the comment list is only modified on the way out of the scan; no per-element loop can drop a method or interface; " +
		"notation function names are looked up from the innermost scope at the notation (file scope, so dot-imports and local declarations resolve)."
	r.NotDecided = "everything else about the marker cut and the re-parse: that go/printer places the markers where the regexp expects them for every layout."

	r.Rule("C03-1", "no member of the emitted grammar fails to parse (it would make format.Source reject a well-formed input)")
	if s := c.tplReady("C03-1"); s != nil {
		ta := c.asgMembers(s)
		c.reportTally(ta, "assignments", []string{"render", "parse"}, map[string]string{"render": "C03-1", "parse": "C03-1"})
		th := c.hookMembers(s)
		c.reportTally(th, "hooks", []string{"render", "parse"}, map[string]string{"render": "C03-1", "parse": "C03-1"})
		// headers
		bad := 0
		n := 0
		first := ""
		for _, h := range allHeaders(3) {
			v := newVal()
			h.apply(v)
			text, err := tpl.Render(s.funcTpl, v)
			n++
			if err == nil {
				_, _, _, perr, _ := checkMember(text, synthTypes, "")
				err = perr
			}
			if err != nil {
				bad++
				if first == "" {
					first = h.String() + ": " + err.Error() + "\n" + text
				}
			}
		}
		r.Check("C03-1", "headers:parse", genPos, bad == 0, sprintf("%d of %d headers do not parse; first: %s", bad, n, first))
	}

	r.Rule("C03-2", "util.InsertComment: the synthesized marker comment is always wrapped in a fresh *ast.CommentGroup; no existing group's List is extended and no decision uses CommentGroup.End() (End() of a synthesized comment is Slash+len(Text), not a source extent)")
	r.Rule("C03-4", "util.InsertComment: file.Comments is modified only on a path that leaves the scan loop (a modification followed by `continue` skips or revisits groups)")
	if fn := c.MustFunc("C03-2", "/pkg/util", "InsertComment"); fn != nil {
		key := FnKey(fn)
		ends := c.CallsIn(fn, "(*go/ast.CommentGroup).End", false)
		r.Check("C03-2", key+":no-End", c.Pos(fn.Pos()), len(ends) == 0, "the insertion point is decided with CommentGroup.End(): two markers closer than the marker length merge and the cut regexp fails (short interfaces are rejected)")
		nStore, nList := 0, 0
		for _, b := range fn.Blocks {
			for _, in := range b.Instrs {
				st, ok := in.(*ssa.Store)
				if !ok {
					continue
				}
				fa, ok := st.Addr.(*ssa.FieldAddr)
				if !ok {
					continue
				}
				switch core.FieldName(fa.X.Type(), fa.Field) {
				case "ast.CommentGroup.List":
					if !isFreshBase(fa.X) {
						nList++
						r.Check("C03-2", key+":no-merge", c.InstrPos(st), false, "the marker is appended to an existing comment group")
					}
				case "ast.File.Comments":
					nStore++
					r.Check("C03-4", sprintf("%s:store%d:leaves-loop", key, nStore), c.InstrPos(st), loopOf(b) == nil, "file.Comments is modified inside the scan loop without leaving it")
				}
			}
		}
		r.Check("C03-2", key+":no-merge:none", c.Pos(fn.Pos()), nList == 0, "")
		r.Floor("C03-4", "stores to file.Comments in InsertComment", nStore, 2)
		// every path stores a group containing the new comment: all returns are preceded by a store
		blocked := map[*ssa.BasicBlock]bool{}
		for _, b := range fn.Blocks {
			for _, in := range b.Instrs {
				if st, ok := in.(*ssa.Store); ok {
					if fa, ok := st.Addr.(*ssa.FieldAddr); ok && core.FieldName(fa.X.Type(), fa.Field) == "ast.File.Comments" {
						blocked[b] = true
					}
				}
			}
		}
		av := c.ReachAvoid(fn, blocked)
		for i, ret := range core.Returns(fn) {
			if blocked[ret.Block()] {
				continue
			}
			d := av.At(ret.Block())
			r.Check("C03-2", sprintf("%s:return%d:inserted", key, i+1), c.InstrPos(ret), len(d) == 0, "InsertComment can return without having inserted the marker; reach avoiding the insertion: "+d.Describe(c.O))
		}
	}

	c.noDropRules("C03-3")
	c.perIterationStateRule("C03-6", "/pkg/parser", "Parser", "GenerateBaseCode")
	c.docDetachRule("C03-8")
	c.emptiedDocRule("C03-9")
	c.cutRangeRule("C03-10")
	c.searchFlagRule("C03-11")
	c.identifierRule("C03-12")

	r.Rule("C03-5", "lookupType: an unqualified function name of a notation is resolved with Scope().Innermost(pos).LookupParent(name, pos) of the package scope (so file-scope names from dot-imports resolve); a qualified one through the import table")
	if fn := c.MustMethod("C03-5", "/pkg/parser", "Parser", "lookupType"); fn != nil {
		ok := false
		for _, ret := range core.Returns(fn) {
			for _, res := range ret.Results {
				t := c.O.Of(res)
				if t.Kind == "extract" && t.Args[0].IsCallTo("(*go/types.Scope).LookupParent") {
					lp := t.Args[0]
					inner := lp.Args[0]
					if inner.IsCallTo("(*go/types.Scope).Innermost") && inner.Args[0].IsCallTo("(*go/types.Package).Scope") && inner.Args[1].Kind == "param" && lp.Args[2].Kind == "param" {
						d := c.ReachOf(ret)
						if d.Implies(c.exactly(func(x *core.Term) bool { return x.IsCallTo("builtin:len") && x.Args[0].IsCallTo("strings.Split") }, 1)) {
							ok = true
						}
					}
				}
			}
		}
		r.Check("C03-5", FnKey(fn)+":unqualified", c.Pos(fn.Pos()), ok, "unqualified notation names are not resolved from the innermost scope at the notation's position (names visible only in the file scope, e.g. through a dot-import, would be reported as not found)")
	}
}

// C11 — the rest of the setup file carried over.
func C11(c *Ctx) {
	r := c.R
	r.Explanation = "That declarations and comments survive go/printer and the regexp cut unchanged is not decidable from the generator's shape. Decided for all inputs – necessary conditions: method doc lines are emitted, in order, directly before `func`; the doc group forwarded for a method is the very group its notation lines were extracted from, and extraction visits every line (no early exit) keeping all non-matching lines in order; " +
		"the doc group of a selected interface is emptied; convergen's own code writes only comment lists / Doc links / the file's comment table of the AST – never declarations, imports or specs; directives are stripped before printing; ToTextList copies every line."
	r.NotDecided = "survival of declarations/comments through print-and-cut; the directive regexp is unanchored (reGoBuildGen also deletes an ordinary comment line that merely contains `//go:generate`) – a regexp-semantics matter outside this family."

	r.Rule("C11-1", "template: for every number of doc lines (0..3) the emitted function's Doc comment consists of exactly the forwarded lines, in order, directly before `func`")
	if s := c.tplReady("C11-1"); s != nil {
		bad := ""
		n := 0
		for k := 0; k <= 3; k++ {
			for _, h := range []header{{}, {arg: true, recv: true, retErr: true}} {
				v := newVal()
				h.apply(v)
				v.n["f.Comments"] = k
				var want []string
				for i := 0; i < k; i++ {
					line := fmt.Sprintf("// doc line %d", i)
					v.s[fmt.Sprintf("f.Comments[%d]", i)] = line
					want = append(want, line)
				}
				text, err := tpl.Render(s.funcTpl, v)
				n++
				if err != nil {
					bad = err.Error()
					continue
				}
				f, _, _, perr, _ := checkMember(text, synthTypes, "")
				if perr != nil {
					bad = perr.Error()
					continue
				}
				fd := findFunc(f, "Fn")
				var got []string
				if fd != nil && fd.Doc != nil {
					for _, cm := range fd.Doc.List {
						got = append(got, cm.Text)
					}
				}
				if strings.Join(got, "\n") != strings.Join(want, "\n") {
					bad = fmt.Sprintf("with %d doc lines the function's Doc is %q, want %q", k, got, want)
				}
			}
		}
		r.Check("C11-1", "doc-lines", genPos, bad == "", bad)
		r.Note("C11-1_members_judged", n)
	}

	r.Rule("C11-2", "MethodEntry.DocComment is the comment group returned by GetDocCommentOn(file, method) and the method's notations are ExtractMatchComments(<that same group>, reNotation), executed before the entry is built")
	if me := c.MustType("C11-2", "/pkg/builder/model", "MethodEntry"); me != nil {
		n := 0
		for _, a := range c.Lits(me) {
			if a.Parent().Pkg == nil || a.Parent().Pkg.Pkg.Path() != mod+"/pkg/parser" {
				continue
			}
			n++
			f := LitFields(a)
			doc := f["DocComment"]
			ok := false
			why := "DocComment unset"
			if doc != nil {
				dt := c.O.Of(doc)
				isDoc := dt.Kind == "extract" && dt.Name == "0" && dt.Args[0].IsCallTo(pUtil+"GetDocCommentOn") && dt.Args[0].Args[0].IsField("parser.Parser.file")
				sameMethod := isDoc && f["Method"] != nil && dt.Args[0].Args[1].String() == c.O.Of(f["Method"]).String()
				extracted := false
				for _, s := range c.CallsIn(a.Parent(), pUtil+"ExtractMatchComments", false) {
					if c.O.Of(s.Args()[0]).String() == dt.String() && c.O.Of(s.Args()[1]).Is("global", "parser.reNotation") && s.Instr.Block().Dominates(a.Block()) {
						extracted = true
					}
				}
				ok = isDoc && sameMethod && extracted
				why = sprintf("doc-of-file=%v same-method=%v notation-lines-extracted-from-it=%v (%s)", isDoc, sameMethod, extracted, dt.String())
			}
			r.Check("C11-2", FnKey(a.Parent())+":MethodEntry.DocComment", c.InstrPos(a), ok, why)
		}
		r.Floor("C11-2", "MethodEntry literals in the parser", n, 1)
	}

	r.Rule("C11-3", "for a selected interface the doc group's List is set to nil (under doc != nil), on the path that creates the entry")
	if fn := c.MustMethod("C11-3", "/pkg/parser", "Parser", "findConvergenEntries"); fn != nil {
		ok := false
		for _, b := range fn.Blocks {
			for _, in := range b.Instrs {
				st, isSt := in.(*ssa.Store)
				if !isSt {
					continue
				}
				fa, isFA := st.Addr.(*ssa.FieldAddr)
				if !isFA || core.FieldName(fa.X.Type(), fa.Field) != "ast.CommentGroup.List" {
					continue
				}
				base := c.O.Of(fa.X)
				v := c.O.Of(st.Val)
				if v.Is("const", "nil") && base.Kind == "extract" && base.Args[0].IsCallTo(pUtil+"GetDocCommentOn") {
					// the entry literal is reachable after it
					if entry := c.P.LookupType("/pkg/parser", "intfEntry"); entry != nil {
						for _, a := range c.Lits(entry) {
							if a.Parent() == fn && c.Reach(fn).CanReach(b, a.Block()) {
								ok = true
							}
						}
					}
				}
			}
		}
		r.Check("C11-3", FnKey(fn)+":doc-cleared", c.Pos(fn.Pos()), ok, "the doc comment of a converter interface is not emptied: its notation lines and description would be printed above the generated functions")
	}

	r.Rule("C11-4", "who-may-write the AST: code reachable from main stores only to CommentGroup.List, Doc links and File.Comments of go/ast nodes – never to Decls, Imports, Specs, Names or Types; File.Comments is written only by util.InsertComment")
	reach := c.reachableFrom(c.mainFunc())
	allowed := map[string]bool{"ast.CommentGroup.List": true, "ast.File.Comments": true, "ast.GenDecl.Doc": true, "ast.FuncDecl.Doc": true, "ast.TypeSpec.Doc": true, "ast.Field.Doc": true, "ast.File.Doc": true, "ast.Comment.Slash": true, "ast.Comment.Text": true}
	n := 0
	for _, fn := range c.P.Funcs() {
		root := fn
		for root.Parent() != nil {
			root = root.Parent()
		}
		if !reach[fn] && !reach[root] {
			continue
		}
		for _, b := range fn.Blocks {
			for _, in := range b.Instrs {
				st, ok := in.(*ssa.Store)
				if !ok {
					continue
				}
				fa, ok := st.Addr.(*ssa.FieldAddr)
				if !ok {
					continue
				}
				fname := core.FieldName(fa.X.Type(), fa.Field)
				if !strings.HasPrefix(fname, "ast.") {
					continue
				}
				n++
				okW := allowed[fname]
				msg := "module code modifies " + fname + " of the setup file's AST: declarations/imports would not be carried over intact"
				if fname == "ast.File.Comments" && fn.Name() != "InsertComment" {
					// the list of comment groups has one writer, the marker insertion (which only adds a group, C03-2/4);
					// nothing removes or replaces groups: every comment of the setup file stays attached for the printer
					okW = false
					msg = "File.Comments is replaced in " + FnKey(fn) + ": only util.InsertComment (adding the marker group) may write the list of comment groups – a filtered copy can lose comments of the setup file"
				}
				r.Check("C11-4", FnKey(fn)+":"+fname, c.InstrPos(st), okW, msg)
			}
		}
	}
	r.Floor("C11-4", "stores to go/ast node fields reachable from main", n, 5)
	r.Note("functions_reachable_from_main", len(reach))

	r.Rule("C11-5", "GenerateBaseCode strips the build/generate directives (RemoveMatchComments(file, reGoBuildGen)) before printer.Fprint, on the same file")
	if fn := c.MustMethod("C11-5", "/pkg/parser", "Parser", "GenerateBaseCode"); fn != nil {
		prints := c.CallsIn(fn, "go/printer.Fprint", false)
		strips := c.CallsIn(fn, pUtil+"RemoveMatchComments", false)
		ok := len(prints) == 1 && len(strips) >= 1
		if ok {
			ok = false
			for _, s := range strips {
				if c.O.Of(s.Args()[1]).Is("global", "parser.reGoBuildGen") && c.O.Of(s.Args()[0]).String() == c.O.Of(prints[0].Args()[2]).String() &&
					s.Instr.Block().Dominates(prints[0].Instr.Block()) &&
					// must-pass-through: no way to the print avoids the strip (it may stand behind the loop that plants the markers: the
					// filter moves comment lines, and the markers are placed by looking nodes up by position)
					(s.Instr.Block() == prints[0].Instr.Block() || len(c.ReachAvoid(fn, map[*ssa.BasicBlock]bool{s.Instr.Block(): true}).At(prints[0].Instr.Block())) == 0) {
					ok = true
				}
			}
		}
		r.Check("C11-5", FnKey(fn)+":strip-before-print", c.Pos(fn.Pos()), ok, "the `convergen` build constraint / go:generate directives are not removed from the printed file unconditionally before printing")
	}

	c.anchoredRegexpRule("C11-8", "parser.reGoBuildGen", "parser.reNotation")
	c.docDetachRule("C11-9")
	c.positive("C11-9", "detach-without-test", func(pc *Ctx) { pc.docDetachRule("C11-9") }, []string{"util.Detach"}, nil)
	c.patternWitnessRule("C11-10")
	c.lineSubjectRule("C11-11")
	c.emptiedDocRule("C11-12")
	c.keptLinesMoveRule("C11-13")
	c.filterAfterLookupsRule("C11-14")
	c.methodDocFilterRule("C11-15")

	r.Rule("C11-6", "util.ExtractMatchComments visits every comment of the group (the loop has no exit other than exhaustion), appends every matching comment to the removed list and every non-matching one after the first match to the kept list")
	if fn := c.MustFunc("C11-6", "/pkg/util", "ExtractMatchComments"); fn != nil {
		key := FnKey(fn)
		// loops: exits only from the header
		heads := map[*ssa.BasicBlock]bool{}
		for _, b := range fn.Blocks {
			for _, s := range b.Succs {
				if s.Dominates(b) {
					heads[s] = true
				}
			}
		}
		// the scan loop is the one that tests the lines against the pattern (further loops – say, over the kept lines, to move
		// them next to what follows the group – are not scans)
		for h := range heads {
			scans := false
			if body := loopOf(h.Preds[len(h.Preds)-1]); body != nil {
				for b := range body {
					for _, in := range b.Instrs {
						if ci, isCall := in.(ssa.CallInstruction); isCall && core.CalleeName(ci.Common()) == "(*regexp.Regexp).MatchString" {
							scans = true
						}
					}
				}
			}
			if !scans {
				delete(heads, h)
			}
		}
		r.Check("C11-6", key+":one-loop", c.Pos(fn.Pos()), len(heads) == 1, sprintf("expected one scan loop (a loop that tests the lines against the pattern), found %d", len(heads)))
		for h := range heads {
			body := loopOf(h.Preds[len(h.Preds)-1])
			if body == nil {
				continue
			}
			early := false
			for b := range body {
				if b == h {
					continue
				}
				for _, s := range b.Succs {
					if !body[s] {
						early = true
					}
				}
				if len(b.Instrs) > 0 {
					if _, isRet := b.Instrs[len(b.Instrs)-1].(*ssa.Return); isRet {
						early = true
					}
				}
			}
			r.Check("C11-6", key+":no-early-exit", c.Pos(fn.Pos()), !early, "the scan over the comment lines can stop before the last line (break/return inside the loop): later notation lines would stay in the output and not be applied")
		}
		match := func(t *core.Term) bool { return t.IsCallTo("(*regexp.Regexp).MatchString") }
		// appends
		nMatch, nKeep := 0, 0
		for _, b := range fn.Blocks {
			for _, in := range b.Instrs {
				ca, ok := in.(*ssa.Call)
				if !ok || core.CalleeName(&ca.Call) != "builtin:append" {
					continue
				}
				d := c.ReachOf(ca)
				if d.Implies(c.M(true, match)) {
					nMatch++
				} else if d.Implies(c.M(false, match)) {
					nKeep++
				}
			}
		}
		// the first match initialises `removed` with a one-element literal instead of append
		r.Check("C11-6", key+":collects", c.Pos(fn.Pos()), nMatch >= 1 && nKeep >= 1, sprintf("matching lines appended at %d sites, kept lines at %d sites", nMatch, nKeep))
		// a kept line is skipped only before the first match (modified == nil): non-match path without append ⇒ modified==nil
		rc := c.Reach(fn)
		_ = rc
	}

	r.Rule("C11-7", "util.ToTextList copies every comment line: make(len(doc.List)) and list[i] = doc.List[i].Text for the loop index i, with no filter")
	if fn := c.MustFunc("C11-7", "/pkg/util", "ToTextList"); fn != nil {
		ok := false
		filter := ""
		for _, b := range fn.Blocks {
			for _, in := range b.Instrs {
				st, isSt := in.(*ssa.Store)
				if !isSt {
					continue
				}
				ia, isIA := st.Addr.(*ssa.IndexAddr)
				if !isIA {
					continue
				}
				ms, isMS := ia.X.(*ssa.MakeSlice)
				if !isMS {
					continue
				}
				lt := c.O.Of(ms.Len)
				v := c.O.Of(st.Val)
				idx := c.O.Of(ia.Index).String()
				okLen := lt.IsCallTo("builtin:len") && lt.Args[0].IsField("ast.CommentGroup.List")
				okVal := v.IsField("ast.Comment.Text") && v.Args[0].Kind == "index" && v.Args[0].Args[0].IsField("ast.CommentGroup.List") && v.Args[0].Args[1].String() == idx
				ok = okLen && okVal
				for _, cj := range c.ReachOf(st) {
					for _, l := range cj {
						t, _ := c.Canon(l)
						if t.Kind == "binop" && (t.Name == "<" || t.Name == "==") {
							continue // loop bound / nil-empty test
						}
						filter = t.String()
					}
				}
			}
		}
		r.Check("C11-7", FnKey(fn)+":copies-all", c.Pos(fn.Pos()), ok && filter == "", "ToTextList must copy every line of the doc group unfiltered; filter: "+filter)
	}
}

var _ ast.Node
