package core

import (
	"fmt"
	"go/constant"
	"go/token"
	"go/types"
	"strings"

	"golang.org/x/tools/go/ssa"
)

// Term is a structural description of where an SSA value comes from ("origin"): loads, interface
// conversions, type changes are stripped; calls, fields, parameters, constants remain.
type Term struct {
	Kind string // const param fv global call invoke field local extract typeassert binop unop phi index lookup slice convert alloc closure make opaque builtin next range
	Name string
	Args []*Term
	V    ssa.Value // the SSA value this term describes (after stripping), may be nil
	Type types.Type
}

func (t *Term) String() string {
	if t == nil {
		return "<nil>"
	}
	var sb strings.Builder
	t.write(&sb, 0)
	return sb.String()
}

func (t *Term) write(sb *strings.Builder, depth int) {
	if depth > 12 {
		sb.WriteString("…")
		return
	}
	switch t.Kind {
	case "const", "param", "fv", "global", "local", "opaque", "closure":
		sb.WriteString(t.Kind + ":" + t.Name)
		return
	}
	sb.WriteString(t.Kind)
	if t.Name != "" {
		sb.WriteString(":" + t.Name)
	}
	sb.WriteString("(")
	for i, a := range t.Args {
		if i > 0 {
			sb.WriteString(", ")
		}
		a.write(sb, depth+1)
	}
	sb.WriteString(")")
}

// Is reports kind and (optional) name equality.
func (t *Term) Is(kind string, name ...string) bool {
	if t == nil || t.Kind != kind {
		return false
	}
	return len(name) == 0 || t.Name == name[0]
}

// Arg returns the i-th argument or nil.
func (t *Term) Arg(i int) *Term {
	if t == nil || i >= len(t.Args) {
		return nil
	}
	return t.Args[i]
}

// Find returns the first sub-term (pre-order, including t) satisfying pred.
func (t *Term) Find(pred func(*Term) bool) *Term {
	seen := map[*Term]bool{}
	var rec func(x *Term, d int) *Term
	rec = func(x *Term, d int) *Term {
		if x == nil || seen[x] || d > 40 {
			return nil
		}
		seen[x] = true
		if pred(x) {
			return x
		}
		for _, a := range x.Args {
			if r := rec(a, d+1); r != nil {
				return r
			}
		}
		return nil
	}
	return rec(t, 0)
}

// Contains reports whether some sub-term satisfies pred.
func (t *Term) Contains(pred func(*Term) bool) bool { return t.Find(pred) != nil }

// IsCallTo reports whether t is a static call to the function with the given full name
// (types.Func.FullName form, e.g. "go/types.AssignableTo" or "(*regexp.Regexp).MatchString") or an
// interface invoke named "(pkg.Iface).Method".
func (t *Term) IsCallTo(full string) bool {
	return t != nil && (t.Kind == "call" || t.Kind == "invoke") && t.Name == full
}

// IsField reports whether t is a load of field "T.f" where T is the short qualified struct name
// (e.g. "option.Options.Typecast").
func (t *Term) IsField(name string) bool { return t != nil && t.Kind == "field" && t.Name == name }

// Origins computes Terms for SSA values with memoisation and cycle cutting.
type Origins struct {
	memo  map[ssa.Value]*Term
	stack map[ssa.Value]bool
	// singleStore caches, per Alloc, the only stored value (nil if several or escaped).
	single map[*ssa.Alloc]ssa.Value
}

// NewOrigins creates an origin computer.
func NewOrigins() *Origins {
	return &Origins{memo: map[ssa.Value]*Term{}, stack: map[ssa.Value]bool{}, single: map[*ssa.Alloc]ssa.Value{}}
}

// ShortType renders a named type as pkgname.Type.
func ShortType(t types.Type) string {
	return types.TypeString(t, func(p *types.Package) string { return p.Name() })
}

// FieldName gives "pkg.T.f" for field index i of struct type behind typ (pointer or struct).
func FieldName(typ types.Type, i int) string {
	t := typ
	if p, ok := t.Underlying().(*types.Pointer); ok {
		t = p.Elem()
	}
	st, ok := t.Underlying().(*types.Struct)
	if !ok || i >= st.NumFields() {
		return "?"
	}
	name := "struct"
	if n, ok := t.(*types.Named); ok {
		name = ShortType(n)
	}
	return name + "." + st.Field(i).Name()
}

// CalleeName returns a stable name for the callee of a call: the FullName of a static callee, an
// "(iface).Method" form for invokes, "builtin:<name>" for builtins, or "" for dynamic calls.
func CalleeName(c *ssa.CallCommon) string {
	if c.IsInvoke() {
		return "(" + ShortType(c.Value.Type()) + ")." + c.Method.Name()
	}
	switch f := c.Value.(type) {
	case *ssa.Function:
		if f.Object() != nil {
			return f.Object().(*types.Func).FullName()
		}
		return f.String()
	case *ssa.Builtin:
		return "builtin:" + f.Name()
	case *ssa.MakeClosure:
		return f.Fn.(*ssa.Function).String()
	}
	return ""
}

func (o *Origins) onlyStore(a *ssa.Alloc) ssa.Value {
	if v, ok := o.single[a]; ok {
		return v
	}
	var stored ssa.Value
	n := 0
	escaped := false
	if a.Referrers() != nil {
		for _, r := range *a.Referrers() {
			switch r := r.(type) {
			case *ssa.Store:
				if r.Addr == a {
					n++
					stored = r.Val
				} else {
					escaped = true
				}
			case *ssa.UnOp, *ssa.DebugRef:
			case *ssa.FieldAddr, *ssa.IndexAddr:
				// partial writes possible
				if r.(ssa.Value).Referrers() != nil {
					for _, rr := range *r.(ssa.Value).Referrers() {
						if st, ok := rr.(*ssa.Store); ok && st.Addr == r.(ssa.Value) {
							escaped = true
						} else if _, ok := rr.(*ssa.UnOp); !ok {
							if _, ok := rr.(*ssa.FieldAddr); !ok {
								escaped = true
							}
						}
					}
				}
			case *ssa.MakeClosure:
				// captured by a closure: harmless if no closure ever stores to the captured variable
				if ClosureStores(r, a) {
					escaped = true
				}
			default:
				escaped = true
			}
		}
	}
	if n != 1 || escaped {
		stored = nil
	}
	o.single[a] = stored
	return stored
}

// SpilledValue looks through the return sequence go/ssa emits for functions with defers and named results
// (store result; rundefers; load result; return): for such a load it returns the value stored to the result variable
// earlier in the same block, provided no closure writes to that variable (a deferred function could change it).
// Any other value is returned unchanged.
func SpilledValue(v ssa.Value) ssa.Value {
	u, ok := v.(*ssa.UnOp)
	if !ok || u.Op != token.MUL {
		return v
	}
	a, ok := u.X.(*ssa.Alloc)
	if !ok || a.Referrers() == nil {
		return v
	}
	blk := u.Block()
	if blk == nil {
		return v
	}
	sawDefers := false
	var stored ssa.Value
	for _, in := range blk.Instrs {
		if in == ssa.Instruction(u) {
			break
		}
		switch x := in.(type) {
		case *ssa.RunDefers:
			sawDefers = true
		case *ssa.Store:
			if x.Addr == ssa.Value(a) {
				stored = x.Val
				sawDefers = false
			}
		}
	}
	if stored == nil || !sawDefers {
		return v
	}
	for _, r := range *a.Referrers() {
		if mc, ok := r.(*ssa.MakeClosure); ok && ClosureStores(mc, a) {
			// a closure that only ever replaces a nil result (if err == nil { err = … }) cannot turn the stored
			// failure into a success: for necessary conditions of success the stored value stands
			if SpillGuardOK == nil || !SpillGuardOK(mc, a) {
				return v
			}
		}
	}
	return stored
}

// forwardedStore: store-to-load forwarding for a variable that lives in memory only because a closure captures it
// (x, err := f(); if err != nil …  with err captured by a deferred function). The load u of a sees the value of the last
// store to a on the straight-line path leading to it (same block, or up through blocks with a single predecessor),
// provided nothing in between can write a: no RunDefers when a deferred closure writes a, no call at all when a closure
// that is called (not deferred) writes a, and a does not escape otherwise.
func forwardedStore(a *ssa.Alloc, u *ssa.UnOp) ssa.Value {
	if a.Referrers() == nil {
		return nil
	}
	deferredWriter, calledWriter := false, false
	for _, r := range *a.Referrers() {
		switch r := r.(type) {
		case *ssa.Store:
			if r.Addr != ssa.Value(a) {
				return nil // the address itself is stored somewhere
			}
		case *ssa.UnOp, *ssa.DebugRef:
		case *ssa.MakeClosure:
			if !ClosureStores(r, a) {
				continue
			}
			onlyDeferred := r.Referrers() != nil
			if onlyDeferred {
				for _, rr := range *r.Referrers() {
					if d, isDefer := rr.(*ssa.Defer); !isDefer || d.Call.Value != ssa.Value(r) {
						if _, isDbg := rr.(*ssa.DebugRef); !isDbg {
							onlyDeferred = false
						}
					}
				}
			}
			if onlyDeferred {
				deferredWriter = true
			} else {
				calledWriter = true
			}
		default:
			return nil // escapes (address passed on, field address taken, …)
		}
	}
	if !deferredWriter && !calledWriter {
		return nil // several plain stores: a value that differs per path, left to φ-less description
	}
	blk := u.Block()
	limit := ssa.Instruction(u)
	for depth := 0; depth < 6 && blk != nil; depth++ {
		var last ssa.Value
		killed := false
		for _, in := range blk.Instrs {
			if in == limit {
				break
			}
			switch x := in.(type) {
			case *ssa.Store:
				if x.Addr == ssa.Value(a) {
					last, killed = x.Val, false
				}
			case *ssa.RunDefers:
				if deferredWriter {
					last, killed = nil, true
				}
			case ssa.CallInstruction:
				if calledWriter {
					last, killed = nil, true
				}
			}
		}
		if last != nil {
			return last
		}
		if killed || len(blk.Preds) != 1 {
			return nil
		}
		blk = blk.Preds[0]
		limit = nil
	}
	return nil
}

// SpillGuardOK, when set, reports that every write of the closure to the captured result variable is reached only
// while that variable is nil.
var SpillGuardOK func(mc *ssa.MakeClosure, cell *ssa.Alloc) bool

// CellValue describes the content of a captured variable cell (the binding of a closure's free variable) when it is
// assigned exactly once; nil otherwise.
func (o *Origins) CellValue(cell ssa.Value) *Term {
	if a, ok := cell.(*ssa.Alloc); ok {
		if s := o.onlyStore(a); s != nil {
			return o.Of(s)
		}
		return nil
	}
	return nil
}

// Of returns the origin term of v.
func (o *Origins) Of(v ssa.Value) *Term {
	if v == nil {
		return &Term{Kind: "opaque", Name: "nil-value"}
	}
	if t, ok := o.memo[v]; ok {
		return t
	}
	if o.stack[v] {
		return &Term{Kind: "opaque", Name: "cycle:" + v.Name(), V: v, Type: v.Type()}
	}
	o.stack[v] = true
	t := o.compute(v)
	delete(o.stack, v)
	if t.V == nil {
		t.V = v
	}
	if t.Type == nil {
		t.Type = v.Type()
	}
	o.memo[v] = t
	return t
}

func constString(c *ssa.Const) string {
	if c.Value == nil {
		return "nil"
	}
	if c.Value.Kind() == constant.String {
		return fmt.Sprintf("%q", constant.StringVal(c.Value))
	}
	return c.Value.ExactString()
}

func (o *Origins) compute(v ssa.Value) *Term {
	switch x := v.(type) {
	case *ssa.Const:
		return &Term{Kind: "const", Name: constString(x)}
	case *ssa.Parameter:
		return &Term{Kind: "param", Name: x.Name()}
	case *ssa.FreeVar:
		return &Term{Kind: "fv", Name: x.Name()}
	case *ssa.Global:
		return &Term{Kind: "global", Name: x.Pkg.Pkg.Name() + "." + x.Name()}
	case *ssa.Function:
		return &Term{Kind: "closure", Name: x.String()}
	case *ssa.MakeClosure:
		t := &Term{Kind: "closure", Name: x.Fn.(*ssa.Function).String()}
		return t
	case *ssa.Builtin:
		return &Term{Kind: "builtin", Name: x.Name()}
	case *ssa.ChangeType:
		return o.Of(x.X)
	case *ssa.MakeInterface:
		return o.Of(x.X)
	case *ssa.ChangeInterface:
		return o.Of(x.X)
	case *ssa.Convert:
		return &Term{Kind: "convert", Name: ShortType(x.Type()), Args: []*Term{o.Of(x.X)}}
	case *ssa.UnOp:
		switch x.Op {
		case token.MUL: // load
			return o.load(x)
		case token.NOT:
			return &Term{Kind: "unop", Name: "!", Args: []*Term{o.Of(x.X)}}
		case token.ARROW:
			return &Term{Kind: "unop", Name: "<-", Args: []*Term{o.Of(x.X)}}
		default:
			return &Term{Kind: "unop", Name: x.Op.String(), Args: []*Term{o.Of(x.X)}}
		}
	case *ssa.BinOp:
		return &Term{Kind: "binop", Name: x.Op.String(), Args: []*Term{o.Of(x.X), o.Of(x.Y)}}
	case *ssa.Call:
		return o.call(&x.Call, x)
	case *ssa.Extract:
		return &Term{Kind: "extract", Name: fmt.Sprint(x.Index), Args: []*Term{o.Of(x.Tuple)}}
	case *ssa.TypeAssert:
		k := "typeassert"
		if x.CommaOk {
			k = "typeassert,ok"
		}
		return &Term{Kind: k, Name: ShortType(x.AssertedType), Args: []*Term{o.Of(x.X)}}
	case *ssa.Phi:
		t := &Term{Kind: "phi", Name: x.Comment}
		for _, e := range x.Edges {
			t.Args = append(t.Args, o.Of(e))
		}
		return t
	case *ssa.FieldAddr:
		return &Term{Kind: "fieldaddr", Name: FieldName(x.X.Type(), x.Field), Args: []*Term{o.Of(x.X)}}
	case *ssa.Field:
		return &Term{Kind: "field", Name: FieldName(x.X.Type(), x.Field), Args: []*Term{o.Of(x.X)}}
	case *ssa.IndexAddr:
		return &Term{Kind: "indexaddr", Args: []*Term{o.Of(x.X), o.Of(x.Index)}}
	case *ssa.Index:
		return &Term{Kind: "index", Args: []*Term{o.Of(x.X), o.Of(x.Index)}}
	case *ssa.Lookup:
		k := "lookup"
		if x.CommaOk {
			k = "lookup,ok"
		}
		return &Term{Kind: k, Args: []*Term{o.Of(x.X), o.Of(x.Index)}}
	case *ssa.Slice:
		t := &Term{Kind: "slice", Args: []*Term{o.Of(x.X)}}
		for i, b := range []ssa.Value{x.Low, x.High, x.Max} {
			if b != nil {
				t.Args = append(t.Args, o.Of(b))
			} else if i == 0 {
				t.Args = append(t.Args, &Term{Kind: "const", Name: "0"}) // x[:n] is x[0:n]
			} else {
				t.Args = append(t.Args, &Term{Kind: "const", Name: "-"})
			}
		}
		return t
	case *ssa.Alloc:
		return &Term{Kind: "alloc", Name: ShortType(x.Type()) + ":" + x.Comment}
	case *ssa.MakeSlice:
		return &Term{Kind: "make", Name: ShortType(x.Type()), Args: []*Term{o.Of(x.Len), o.Of(x.Cap)}}
	case *ssa.MakeMap:
		return &Term{Kind: "make", Name: ShortType(x.Type())}
	case *ssa.Range:
		return &Term{Kind: "range", Args: []*Term{o.Of(x.X)}}
	case *ssa.Next:
		return &Term{Kind: "next", Args: []*Term{o.Of(x.Iter)}}
	case *ssa.SliceToArrayPointer:
		return o.Of(x.X)
	}
	return &Term{Kind: "opaque", Name: fmt.Sprintf("%T:%s", v, v.Name())}
}

func (o *Origins) call(c *ssa.CallCommon, v ssa.Value) *Term {
	name := CalleeName(c)
	if c.IsInvoke() {
		t := &Term{Kind: "invoke", Name: name, Args: []*Term{o.Of(c.Value)}}
		for _, a := range c.Args {
			t.Args = append(t.Args, o.Of(a))
		}
		return t
	}
	if name == "" {
		t := &Term{Kind: "dyncall", Args: []*Term{o.Of(c.Value)}}
		for _, a := range c.Args {
			t.Args = append(t.Args, o.Of(a))
		}
		return t
	}
	t := &Term{Kind: "call", Name: name}
	for _, a := range c.Args {
		t.Args = append(t.Args, o.Of(a))
	}
	return t
}

// load describes *addr.
func (o *Origins) load(u *ssa.UnOp) *Term {
	switch a := u.X.(type) {
	case *ssa.FieldAddr:
		return &Term{Kind: "field", Name: FieldName(a.X.Type(), a.Field), Args: []*Term{o.baseOf(a.X)}}
	case *ssa.IndexAddr:
		return &Term{Kind: "index", Args: []*Term{o.baseOf(a.X), o.Of(a.Index)}}
	case *ssa.Alloc:
		if s := o.onlyStore(a); s != nil {
			return o.Of(s)
		}
		if sv := SpilledValue(u); sv != ssa.Value(u) {
			return o.Of(sv)
		}
		if fw := forwardedStore(a, u); fw != nil {
			return o.Of(fw)
		}
		if lit := o.structLit(a, u); lit != nil {
			return lit
		}
		// several stores or captured: a distinct value per load
		return &Term{Kind: "local", Name: a.Comment + "@" + u.Name()}
	case *ssa.Global:
		return &Term{Kind: "global", Name: a.Pkg.Pkg.Name() + "." + a.Name()}
	case *ssa.FreeVar:
		return &Term{Kind: "fv", Name: a.Name()}
	case *ssa.Parameter:
		return &Term{Kind: "deref", Args: []*Term{o.Of(a)}}
	}
	return &Term{Kind: "deref", Args: []*Term{o.Of(u.X)}}
}

// structLit describes the load u of a local composite literal T{f: x, …} that is only built (one store per field, in
// the block of the allocation) and then read as a whole: lit:T(x, …) with one argument per field (const:zero if unset).
func (o *Origins) structLit(a *ssa.Alloc, u *ssa.UnOp) *Term {
	if a.Comment != "complit" || a.Heap || a.Referrers() == nil {
		return nil
	}
	st, ok := a.Type().Underlying().(*types.Pointer).Elem().Underlying().(*types.Struct)
	if !ok {
		return nil
	}
	vals := make([]ssa.Value, st.NumFields())
	for _, r := range *a.Referrers() {
		switch r := r.(type) {
		case *ssa.UnOp, *ssa.DebugRef:
		case *ssa.FieldAddr:
			if r.Referrers() == nil || len(*r.Referrers()) != 1 {
				return nil
			}
			s, isStore := (*r.Referrers())[0].(*ssa.Store)
			if !isStore || s.Addr != ssa.Value(r) || s.Block() != a.Block() || vals[r.Field] != nil {
				return nil
			}
			vals[r.Field] = s.Val
		default:
			return nil
		}
	}
	t := &Term{Kind: "lit", Name: ShortType(a.Type().Underlying().(*types.Pointer).Elem()), Type: a.Type().Underlying().(*types.Pointer).Elem()}
	for _, v := range vals {
		if v == nil {
			t.Args = append(t.Args, &Term{Kind: "const", Name: "zero"})
		} else {
			t.Args = append(t.Args, o.Of(v))
		}
	}
	return t
}

// Project simplifies field:T.f(lit:T(…)) to the literal's value of that field.
func Project(t *Term) *Term {
	if t == nil || t.Kind != "field" || len(t.Args) != 1 || t.Args[0].Kind != "lit" || t.Args[0].Type == nil {
		return t
	}
	lit := t.Args[0]
	for i := range lit.Args {
		if FieldName(lit.Type, i) == t.Name {
			return lit.Args[i]
		}
	}
	return t
}

// baseOf describes the object a field/index address is taken from: for a local Alloc this is the
// variable itself (not its content history).
func (o *Origins) baseOf(v ssa.Value) *Term {
	switch a := v.(type) {
	case *ssa.Alloc:
		if s := o.onlyStore(a); s != nil {
			return o.Of(s)
		}
		return &Term{Kind: "local", Name: a.Comment, V: a, Type: a.Type()}
	case *ssa.FieldAddr:
		return &Term{Kind: "field", Name: FieldName(a.X.Type(), a.Field), Args: []*Term{o.baseOf(a.X)}, V: a, Type: a.Type()}
	case *ssa.IndexAddr:
		return &Term{Kind: "index", Args: []*Term{o.baseOf(a.X), o.Of(a.Index)}, V: a, Type: a.Type()}
	case *ssa.UnOp:
		if a.Op == token.MUL {
			return o.Of(a)
		}
	}
	return o.Of(v)
}

// closureStores reports whether the closure created by mc (or a closure nested in it) stores to the
// variable it captures as cell (or lets it escape further than loads / field loads).
func ClosureStores(mc *ssa.MakeClosure, cell ssa.Value) bool {
	fn := mc.Fn.(*ssa.Function)
	for i, b := range mc.Bindings {
		if b != cell || i >= len(fn.FreeVars) {
			continue
		}
		fv := fn.FreeVars[i]
		if fv.Referrers() == nil {
			continue
		}
		for _, r := range *fv.Referrers() {
			switch x := r.(type) {
			case *ssa.UnOp, *ssa.DebugRef:
			case *ssa.FieldAddr:
				if x.Referrers() != nil {
					for _, rr := range *x.Referrers() {
						switch rr.(type) {
						case *ssa.UnOp, *ssa.FieldAddr, *ssa.DebugRef:
						default:
							return true
						}
					}
				}
			case *ssa.MakeClosure:
				if ClosureStores(x, fv) {
					return true
				}
			default:
				return true
			}
		}
	}
	return false
}

// Subst returns a copy of t in which every parameter term "param:<name>" listed in m is replaced.
func Subst(t *Term, m map[string]*Term) *Term {
	seen := map[*Term]*Term{}
	var rec func(x *Term, d int) *Term
	rec = func(x *Term, d int) *Term {
		if x == nil || d > 40 {
			return x
		}
		if r, ok := seen[x]; ok {
			return r
		}
		if x.Kind == "param" {
			if r, ok := m[x.Name]; ok {
				return r
			}
			return x
		}
		n := &Term{Kind: x.Kind, Name: x.Name, V: x.V, Type: x.Type}
		seen[x] = n
		for _, a := range x.Args {
			n.Args = append(n.Args, rec(a, d+1))
		}
		if p := Project(n); p != n {
			seen[x] = p
			return p
		}
		return n
	}
	return rec(t, 0)
}
