// Package core loads /repo (current working tree) as a type-checked program with SSA bodies
// for the module's own packages and offers lookups by package suffix / object name.
package core

import (
	"fmt"
	"go/ast"
	"go/token"
	"go/types"
	"os"
	"sort"
	"strings"

	"golang.org/x/tools/go/packages"
	"golang.org/x/tools/go/ssa"
	"golang.org/x/tools/go/ssa/ssautil"
)

// ModPath is the module path of the repository under analysis.
const ModPath = "github.com/reedom/convergen"

// Prog is the loaded program.
type Prog struct {
	Repo     string
	Fset     *token.FileSet
	Pkgs     []*packages.Package          // module packages only, sorted by path
	ByPath   map[string]*packages.Package // module packages by import path
	SSA      *ssa.Program
	SSAPkgs  map[string]*ssa.Package // by import path
	AllPkgs  int                     // number of packages loaded incl. deps
	funcs    []*ssa.Function         // all module functions incl. anonymous ones
	declOf   map[*ssa.Function]*ast.FuncDecl
	infoOf   map[*types.Package]*types.Info
	fileOf   map[*ast.FuncDecl]*ast.File
	WholeSSA bool
}

// Load loads the repository at dir. whole=true builds SSA bodies for all dependencies too.
func Load(dir string, whole bool) (*Prog, error) { return LoadMin(dir, whole, 11) }

// LoadMin is Load with the minimum number of module packages that must be found (the positive-control module is small).
func LoadMin(dir string, whole bool, minPkgs int) (*Prog, error) {
	os.Unsetenv("GOWORK")
	mode := packages.NeedName | packages.NeedFiles | packages.NeedCompiledGoFiles | packages.NeedImports |
		packages.NeedDeps | packages.NeedTypes | packages.NeedTypesSizes | packages.NeedSyntax | packages.NeedTypesInfo | packages.NeedModule
	fset := token.NewFileSet()
	cfg := &packages.Config{
		Mode:  mode,
		Dir:   dir,
		Fset:  fset,
		Tests: false,
		Env: append(os.Environ(), "GOFLAGS=-mod=mod", "GOPROXY=off", "GOSUMDB=off", "GOTOOLCHAIN=local",
			"GOWORK=off"),
	}
	initial, err := packages.Load(cfg, ".", "./pkg/...")
	if err != nil {
		return nil, fmt.Errorf("packages.Load: %w", err)
	}
	p := &Prog{Repo: dir, Fset: fset, ByPath: map[string]*packages.Package{}, SSAPkgs: map[string]*ssa.Package{},
		declOf: map[*ssa.Function]*ast.FuncDecl{}, infoOf: map[*types.Package]*types.Info{}, fileOf: map[*ast.FuncDecl]*ast.File{}, WholeSSA: whole}
	var errs []string
	packages.Visit(initial, nil, func(pkg *packages.Package) {
		p.AllPkgs++
		if !strings.HasPrefix(pkg.PkgPath, ModPath) {
			return
		}
		for _, e := range pkg.Errors {
			errs = append(errs, e.Error())
		}
	})
	if len(errs) > 0 {
		sort.Strings(errs)
		return nil, fmt.Errorf("type/parse errors in /repo (%d): %s", len(errs), strings.Join(errs, "; "))
	}
	for _, pkg := range initial {
		if !strings.HasPrefix(pkg.PkgPath, ModPath) {
			continue
		}
		if strings.Contains(pkg.PkgPath, "/tests") {
			continue
		}
		p.Pkgs = append(p.Pkgs, pkg)
		p.ByPath[pkg.PkgPath] = pkg
		if pkg.Types == nil || pkg.TypesInfo == nil || len(pkg.Syntax) == 0 {
			return nil, fmt.Errorf("package %s loaded without types/syntax", pkg.PkgPath)
		}
		p.infoOf[pkg.Types] = pkg.TypesInfo
	}
	sort.Slice(p.Pkgs, func(i, j int) bool { return p.Pkgs[i].PkgPath < p.Pkgs[j].PkgPath })
	if len(p.Pkgs) < minPkgs {
		return nil, fmt.Errorf("expected >= %d module packages, loaded %d", minPkgs, len(p.Pkgs))
	}
	for _, pkg := range p.Pkgs {
		for imp := range pkg.Imports {
			if imp == "reflect" || imp == "unsafe" {
				return nil, fmt.Errorf("package %s imports %s: the flow engines assume it does not", pkg.PkgPath, imp)
			}
		}
	}

	smode := ssa.InstantiateGenerics
	var prog *ssa.Program
	var spkgs []*ssa.Package
	if whole {
		prog, spkgs = ssautil.AllPackages(initial, smode)
	} else {
		prog, spkgs = ssautil.Packages(initial, smode)
	}
	_ = spkgs
	prog.Build()
	p.SSA = prog
	for _, pkg := range p.Pkgs {
		sp := prog.Package(pkg.Types)
		if sp == nil {
			return nil, fmt.Errorf("no SSA package for %s", pkg.PkgPath)
		}
		p.SSAPkgs[pkg.PkgPath] = sp
	}
	// collect module functions
	seen := map[*ssa.Function]bool{}
	var add func(f *ssa.Function)
	add = func(f *ssa.Function) {
		if f == nil || seen[f] {
			return
		}
		seen[f] = true
		if f.Blocks == nil {
			return
		}
		p.funcs = append(p.funcs, f)
		for _, a := range f.AnonFuncs {
			add(a)
		}
	}
	for _, pkg := range p.Pkgs {
		sp := p.SSAPkgs[pkg.PkgPath]
		var names []string
		for n := range sp.Members {
			names = append(names, n)
		}
		sort.Strings(names)
		for _, n := range names {
			switch m := sp.Members[n].(type) {
			case *ssa.Function:
				add(m)
			case *ssa.Type:
				for _, T := range []types.Type{m.Type(), types.NewPointer(m.Type())} {
					ms := prog.MethodSets.MethodSet(T)
					for i := 0; i < ms.Len(); i++ {
						fn := prog.MethodValue(ms.At(i))
						if fn != nil && fn.Pkg == sp && fn.Synthetic == "" {
							add(fn)
						}
					}
				}
			}
		}
		for _, file := range pkg.Syntax {
			for _, d := range file.Decls {
				if fd, ok := d.(*ast.FuncDecl); ok {
					p.fileOf[fd] = file
				}
			}
		}
	}
	sort.Slice(p.funcs, func(i, j int) bool { return p.funcs[i].String() < p.funcs[j].String() })
	return p, nil
}

// Funcs returns all module functions with bodies, including anonymous functions.
func (p *Prog) Funcs() []*ssa.Function { return p.funcs }

// Pkg returns the module package whose path is ModPath+suffix ("" for main, "/pkg/parser", ...).
func (p *Prog) Pkg(suffix string) *packages.Package { return p.ByPath[ModPath+suffix] }

// InModule reports whether the package belongs to the analysed module.
func InModule(pkg *types.Package) bool {
	return pkg != nil && strings.HasPrefix(pkg.Path(), ModPath)
}

// Info returns the types.Info for the package declaring obj's package.
func (p *Prog) Info(pkg *types.Package) *types.Info { return p.infoOf[pkg] }

// LookupFunc finds a package-level function by package suffix and name.
func (p *Prog) LookupFunc(suffix, name string) *ssa.Function {
	sp := p.SSAPkgs[ModPath+suffix]
	if sp == nil {
		return nil
	}
	return sp.Func(name)
}

// LookupMethod finds a method by package suffix, receiver type name and method name (value or pointer receiver).
func (p *Prog) LookupMethod(suffix, typ, name string) *ssa.Function {
	pkg := p.Pkg(suffix)
	if pkg == nil {
		return nil
	}
	obj := pkg.Types.Scope().Lookup(typ)
	if obj == nil {
		return nil
	}
	for _, T := range []types.Type{obj.Type(), types.NewPointer(obj.Type())} {
		sel := p.SSA.MethodSets.MethodSet(T).Lookup(pkg.Types, name)
		if sel != nil {
			if fn := p.SSA.MethodValue(sel); fn != nil {
				return fn
			}
		}
	}
	return nil
}

// LookupType finds a named type by package suffix and name.
func (p *Prog) LookupType(suffix, name string) *types.Named {
	pkg := p.Pkg(suffix)
	if pkg == nil {
		return nil
	}
	obj := pkg.Types.Scope().Lookup(name)
	if obj == nil {
		return nil
	}
	n, _ := obj.Type().(*types.Named)
	return n
}

// Pos renders a position relative to the repo root.
func (p *Prog) Pos(pos token.Pos) string {
	if !pos.IsValid() {
		return "-"
	}
	ps := p.Fset.Position(pos)
	f := strings.TrimPrefix(ps.Filename, p.Repo+"/")
	return fmt.Sprintf("%s:%d", f, ps.Line)
}

// FuncName gives a stable short name for a function: pkgsuffix.(Recv).Name or pkgsuffix.Name$N for closures.
func FuncName(f *ssa.Function) string {
	if f == nil {
		return "<nil>"
	}
	s := f.String()
	s = strings.ReplaceAll(s, ModPath+"/pkg/", "")
	s = strings.ReplaceAll(s, ModPath, "main")
	return s
}

// SyntaxOf returns the FuncDecl or FuncLit of an SSA function.
func SyntaxOf(f *ssa.Function) ast.Node { return f.Syntax() }

// Implementers returns the named module types (value or pointer) that implement iface, sorted by name.
func (p *Prog) Implementers(iface *types.Interface) []*types.Named {
	var out []*types.Named
	for _, pkg := range p.Pkgs {
		sc := pkg.Types.Scope()
		for _, n := range sc.Names() {
			tn, ok := sc.Lookup(n).(*types.TypeName)
			if !ok || tn.IsAlias() {
				continue
			}
			named, ok := tn.Type().(*types.Named)
			if !ok || types.IsInterface(named) {
				continue
			}
			if types.Implements(named, iface) || types.Implements(types.NewPointer(named), iface) {
				out = append(out, named)
			}
		}
	}
	sort.Slice(out, func(i, j int) bool { return out[i].String() < out[j].String() })
	return out
}

// FileOfDecl returns the file containing a FuncDecl.
func (p *Prog) FileOfDecl(fd *ast.FuncDecl) *ast.File { return p.fileOf[fd] }

// PkgOfFunc returns the go/packages package that declares f.
func (p *Prog) PkgOfFunc(f *ssa.Function) *packages.Package {
	if f.Pkg == nil {
		if f.Parent() != nil {
			return p.PkgOfFunc(f.Parent())
		}
		return nil
	}
	return p.ByPath[f.Pkg.Pkg.Path()]
}
