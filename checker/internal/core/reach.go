package core

import (
	"fmt"
	"go/token"
	"go/types"
	"sort"
	"strings"

	"golang.org/x/tools/go/ssa"
)

// Lit is a branch outcome: the If operand V evaluated to !Neg.
type Lit struct {
	V   ssa.Value
	Neg bool
	// T, when set, is the literal's term: the literal was produced by substituting the arguments of a call into the
	// summary of the callee (see Expander) and V is the callee's value, kept for positions only.
	T *Term
}

// TermOf returns the literal's term.
func (l Lit) TermOf(o *Origins) *Term {
	if l.T != nil {
		return l.T
	}
	return o.Of(l.V)
}

// Expander, when set, returns for a literal a condition that the literal implies (for "helper(args) returned
// true / false / nil / non-nil": the helper's return condition with the arguments substituted).
var Expander func(l Lit) (DNF, bool)

// AndLit conjoins one literal, named by atom key k, to every conjunct of d.
func AndLit(d DNF, k string, l Lit) DNF { return d.and(k, l) }

// Conj is a conjunction of literals keyed by atom key (see Reach.KeyOf): two SSA values that
// denote the same stable expression (e.g. two loads of opts.Rule compared with the same constant)
// share a key and are therefore the same propositional atom.
type Conj map[string]Lit

// DNF is a disjunction of conjunctions. An empty DNF is false; a DNF containing an empty Conj is true.
type DNF []Conj

// Reach holds the reaching conditions of every block of one function.
type Reach struct {
	Fn      *ssa.Function
	blocks  map[*ssa.BasicBlock]DNF
	back    map[[2]int]bool
	blocked map[*ssa.BasicBlock]bool
	// KeyOf names the propositional atom of a condition value; nil = one atom per SSA value.
	KeyOf func(ssa.Value) string
	Err   error
}

// Key returns the atom key of a condition value.
func (r *Reach) Key(v ssa.Value) string { return r.key(v) }

func (r *Reach) key(v ssa.Value) string {
	if r.KeyOf != nil {
		if k := r.KeyOf(v); k != "" {
			return k
		}
	}
	return fmt.Sprintf("%p", v)
}

const maxConj = 2048

func trueDNF() DNF { return DNF{Conj{}} }

func (c Conj) clone() Conj {
	n := make(Conj, len(c)+1)
	for k, v := range c {
		n[k] = v
	}
	return n
}

// and adds literal l (atom key k) to every conjunct; contradictory conjuncts are dropped.
func (d DNF) and(k string, l Lit) DNF {
	var out DNF
	for _, c := range d {
		if old, ok := c[k]; ok {
			if old.Neg != l.Neg {
				continue
			}
			out = append(out, c)
			continue
		}
		n := c.clone()
		n[k] = l
		out = append(out, n)
	}
	return out
}

func subset(a, b Conj) bool { // a ⊆ b
	if len(a) > len(b) {
		return false
	}
	for k, v := range a {
		if w, ok := b[k]; !ok || w.Neg != v.Neg {
			return false
		}
	}
	return true
}

// simplify removes duplicates, absorbed conjuncts and merges X∧c ∨ X∧¬c into X.
func simplify(d DNF) DNF {
	changed := true
	for changed {
		changed = false
		// dedupe + absorption
		sort.Slice(d, func(i, j int) bool { return len(d[i]) < len(d[j]) })
		var out DNF
		for _, c := range d {
			abs := false
			for _, o := range out {
				if subset(o, c) {
					abs = true
					break
				}
			}
			if !abs {
				out = append(out, c)
			}
		}
		if len(out) != len(d) {
			changed = true
		}
		d = out
		// merge
	merge:
		for i := 0; i < len(d); i++ {
			for j := i + 1; j < len(d); j++ {
				if len(d[i]) != len(d[j]) {
					continue
				}
				var diff string
				nd := 0
				ok := true
				for k, v := range d[i] {
					w, has := d[j][k]
					if !has {
						ok = false
						break
					}
					if w.Neg != v.Neg {
						nd++
						diff = k
					}
				}
				if ok && nd == 1 {
					n := d[i].clone()
					delete(n, diff)
					d[i] = n
					d = append(d[:j], d[j+1:]...)
					changed = true
					break merge
				}
			}
		}
	}
	return d
}

func or(a, b DNF) DNF {
	out := append(append(DNF{}, a...), b...)
	return simplify(out)
}

// NewReach computes reaching conditions for fn (back edges dropped).
func NewReach(fn *ssa.Function) *Reach { return NewReachAvoid(fn, nil) }

// NewReachAvoid computes reaching conditions over the paths that do not leave any of the blocked
// blocks (flow entering a blocked block stops there): reach(B) then describes the ways of getting
// to B without passing through a blocked block first.
func NewReachAvoid(fn *ssa.Function, blocked map[*ssa.BasicBlock]bool) *Reach {
	return NewReachKeyed(fn, blocked, nil)
}

// NewReachKeyed is NewReachAvoid with an atom-naming function.
func NewReachKeyed(fn *ssa.Function, blocked map[*ssa.BasicBlock]bool, keyOf func(ssa.Value) string) *Reach {
	r := &Reach{Fn: fn, blocks: map[*ssa.BasicBlock]DNF{}, back: map[[2]int]bool{}, blocked: blocked, KeyOf: keyOf}
	if len(fn.Blocks) == 0 {
		return r
	}
	// back edges: P->B where B dominates P
	for _, b := range fn.Blocks {
		for _, s := range b.Succs {
			if s.Dominates(b) {
				r.back[[2]int{b.Index, s.Index}] = true
			}
		}
	}
	// topological order ignoring back edges (reverse postorder)
	var order []*ssa.BasicBlock
	seen := map[*ssa.BasicBlock]bool{}
	var dfs func(b *ssa.BasicBlock)
	dfs = func(b *ssa.BasicBlock) {
		seen[b] = true
		for _, s := range b.Succs {
			if !seen[s] && !r.back[[2]int{b.Index, s.Index}] {
				dfs(s)
			}
		}
		order = append(order, b)
	}
	dfs(fn.Blocks[0])
	for i, j := 0, len(order)-1; i < j; i, j = i+1, j-1 {
		order[i], order[j] = order[j], order[i]
	}
	r.blocks[fn.Blocks[0]] = trueDNF()
	for _, b := range order[1:] {
		var acc DNF
		for _, p := range b.Preds {
			if r.back[[2]int{p.Index, b.Index}] {
				continue
			}
			acc = or(acc, r.edge(p, b, 0))
			if len(acc) > maxConj {
				r.Err = fmt.Errorf("reaching condition of block %d of %s exceeds %d conjuncts", b.Index, fn, maxConj)
				acc = trueDNF() // weakest: nothing is known
				break
			}
		}
		r.blocks[b] = acc
	}
	return r
}

// edge returns the condition under which control flows along p->b.
func (r *Reach) edge(p, b *ssa.BasicBlock, depth int) DNF {
	base, ok := r.blocks[p]
	if !ok || r.blocked[p] {
		return nil // unreachable predecessor (or not yet computed: only via back edge), or flow cut
	}
	if len(p.Instrs) == 0 {
		return base
	}
	iff, ok := p.Instrs[len(p.Instrs)-1].(*ssa.If)
	if !ok {
		return base
	}
	if p.Succs[0] == p.Succs[1] {
		return base
	}
	neg := p.Succs[1] == b
	return r.andCond(p, base, iff.Cond, neg, depth)
}

// andCond conjoins "cond == !neg" evaluated at the end of block p to base (=reach(p)), resolving
// boolean negation and φ-nodes of the same block per incoming edge.
func (r *Reach) andCond(p *ssa.BasicBlock, base DNF, cond ssa.Value, neg bool, depth int) DNF {
	cond = SpilledValue(cond)
	for {
		if u, ok := cond.(*ssa.UnOp); ok && u.Op == token.NOT {
			cond = u.X
			neg = !neg
			continue
		}
		break
	}
	if c, ok := cond.(*ssa.Const); ok {
		if c.Value != nil && (c.Value.ExactString() == "true") != neg {
			return base
		}
		return nil
	}
	if phi, ok := cond.(*ssa.Phi); ok && phi.Block() == p && depth < 6 {
		// base is reach(p) when the branch at the end of p is being evaluated; when the φ is looked at from further down
		// (as the value of a later φ) base carries more than that and must be kept
		own := r.blocks[p]
		isOwn := len(base) == len(own) && (len(base) == 0 || &base[0] == &own[0])
		var acc DNF
		for i, q := range p.Preds {
			if r.back[[2]int{q.Index, p.Index}] {
				continue
			}
			in := r.edge(q, p, depth+1)
			if in == nil {
				continue
			}
			ci := r.andCond(q, in, phi.Edges[i], neg, depth+1)
			if !isOwn && ci != nil {
				ci = And(base, ci)
			}
			acc = or(acc, ci)
		}
		return acc
	}
	// a boolean computed earlier as a value (x := a && b && f(); … if ok && !x): the φ lives in a block that
	// dominates p; the path to p entered that block along exactly one edge
	if phi, ok := cond.(*ssa.Phi); ok && phi.Block() != p && phi.Block().Dominates(p) && depth < 6 && (allBoolish(phi) || r.flagPhi(phi)) {
		pb := phi.Block()
		var acc DNF
		for i, q := range pb.Preds {
			if r.back[[2]int{q.Index, pb.Index}] {
				continue
			}
			in := r.edge(q, pb, depth+1)
			if in == nil {
				continue
			}
			ci := r.andCond(q, in, phi.Edges[i], neg, depth+1)
			if ci == nil {
				continue
			}
			acc = or(acc, And(base, ci))
		}
		return acc
	}
	return base.and(r.key(cond), Lit{V: cond, Neg: neg})
}

// flagPhi: a boolean variable assigned on several straight-line paths (fits := a && b; if fits && c { fits = f() }): a φ of
// type bool whose block is entered by forward edges only (a flag carried round a loop stays an opaque atom).
func (r *Reach) flagPhi(phi *ssa.Phi) bool {
	if b, ok := phi.Type().Underlying().(*types.Basic); !ok || b.Kind() != types.Bool {
		return false
	}
	pb := phi.Block()
	for _, q := range pb.Preds {
		if r.back[[2]int{q.Index, pb.Index}] {
			return false
		}
	}
	return len(phi.Edges) >= 2 && len(phi.Edges) <= 4
}

// allBoolish: every incoming value of the φ is a constant or a non-φ value (the shape go/ssa gives to && / || used as values).
func allBoolish(phi *ssa.Phi) bool {
	n := 0
	for _, e := range phi.Edges {
		if _, isC := e.(*ssa.Const); isC {
			n++
		}
	}
	return n >= 1 && phi.Comment != "" && (phi.Comment == "&&" || phi.Comment == "||")
}

// At returns the reaching condition of the block (nil = unreachable).
func (r *Reach) At(b *ssa.BasicBlock) DNF { return r.blocks[b] }

// LitMatcher decides whether a literal (value with polarity) establishes a required fact.
type LitMatcher func(l Lit) bool

// Implies reports whether every way of reaching (every conjunct of d) contains a literal accepted
// by at least one of the matchers (i.e. d ⇒ m1 ∨ m2 ∨ …). An unreachable block satisfies everything.
func (d DNF) Implies(ms ...LitMatcher) bool { return d.implies(ms, 3) }

func (d DNF) implies(ms []LitMatcher, depth int) bool {
	for _, c := range d {
		ok := false
	lits:
		for _, l := range c {
			for _, m := range ms {
				if m(l) {
					ok = true
					break lits
				}
			}
		}
		if !ok && depth > 0 && Expander != nil {
			// a literal of the conjunct may stand for a helper's verdict: c ⇒ l ⇒ summary(l); the conjunct is fine
			// when every way the helper can give that verdict (consistent with c) establishes the fact
			keys := make([]string, 0, len(c))
			for k := range c {
				keys = append(keys, k)
			}
			sort.Strings(keys)
			for _, k := range keys {
				s, has := Expander(c[k])
				if !has {
					continue
				}
				if And(DNF{c}, s).implies(ms, depth-1) {
					ok = true
					break
				}
			}
		}
		if !ok {
			return false
		}
	}
	return true
}

// Describe renders a DNF with the given origin computer.
func (d DNF) Describe(o *Origins) string {
	if d == nil {
		return "unreachable"
	}
	var cs []string
	for _, c := range d {
		var ls []string
		for _, l := range c {
			s := l.TermOf(o).String()
			if l.Neg {
				s = "¬" + s
			}
			ls = append(ls, s)
		}
		sort.Strings(ls)
		if len(ls) == 0 {
			cs = append(cs, "true")
		} else {
			cs = append(cs, strings.Join(ls, " ∧ "))
		}
	}
	sort.Strings(cs)
	return strings.Join(cs, "  ∨  ")
}

// And returns the conjunction of two DNFs (used to combine a closure's condition with its creation site's).
func And(a, b DNF) DNF {
	var out DNF
	for _, x := range a {
	next:
		for _, y := range b {
			n := x.clone()
			for k, v := range y {
				if w, ok := n[k]; ok && w.Neg != v.Neg {
					continue next
				}
				n[k] = v
			}
			out = append(out, n)
		}
	}
	return simplify(out)
}

// Or returns the disjunction of two DNFs.
func Or(a, b DNF) DNF { return or(a, b) }

// RetCond returns the condition under which fn returns with result idx equal to want (a bool result):
// the disjunction over all Return instructions of reach(block) ∧ (result == want), with φ-nodes of
// constants resolved per incoming edge.
func (r *Reach) RetCond(idx int, want bool) DNF {
	var acc DNF
	for _, b := range r.Fn.Blocks {
		if len(b.Instrs) == 0 {
			continue
		}
		ret, ok := b.Instrs[len(b.Instrs)-1].(*ssa.Return)
		if !ok || idx >= len(ret.Results) {
			continue
		}
		base := r.blocks[b]
		if base == nil {
			continue
		}
		acc = or(acc, r.andCond(b, base, ret.Results[idx], !want, 0))
	}
	return acc
}

// RetCondAt is RetCond restricted to one Return instruction.
func (r *Reach) RetCondAt(ret *ssa.Return, idx int, want bool) DNF {
	base := r.blocks[ret.Block()]
	if base == nil || idx >= len(ret.Results) {
		return nil
	}
	return r.andCond(ret.Block(), base, ret.Results[idx], !want, 0)
}

// Returns lists the Return instructions of fn in block order.
func Returns(fn *ssa.Function) []*ssa.Return {
	var out []*ssa.Return
	for _, b := range fn.Blocks {
		if len(b.Instrs) == 0 {
			continue
		}
		if ret, ok := b.Instrs[len(b.Instrs)-1].(*ssa.Return); ok {
			out = append(out, ret)
		}
	}
	return out
}

// CanReach reports whether block to is reachable from block from along forward (non-back) edges.
func (r *Reach) CanReach(from, to *ssa.BasicBlock) bool {
	seen := map[*ssa.BasicBlock]bool{}
	var dfs func(b *ssa.BasicBlock) bool
	dfs = func(b *ssa.BasicBlock) bool {
		if b == to {
			return true
		}
		if seen[b] {
			return false
		}
		seen[b] = true
		for _, s := range b.Succs {
			if r.back[[2]int{b.Index, s.Index}] {
				continue
			}
			if dfs(s) {
				return true
			}
		}
		return false
	}
	return dfs(from)
}

// EdgeCond returns the condition under which control flows along pred->blk.
func (r *Reach) EdgeCond(pred, blk *ssa.BasicBlock) DNF {
	if r.back[[2]int{pred.Index, blk.Index}] {
		return nil
	}
	return r.edge(pred, blk, 0)
}

// BackEdgeCond returns the condition under which control flows along the back edge pred->blk (the reach of pred
// conjoined with the branch outcome that takes the edge): the ways an iteration ends through this latch.
func (r *Reach) BackEdgeCond(pred, blk *ssa.BasicBlock) DNF { return r.edge(pred, blk, 0) }

// ValueCase is one possible (non-φ) definition of a value with the condition under which it is chosen.
type ValueCase struct {
	V    ssa.Value
	Cond DNF
}

// Cases flattens φ-nodes: it returns the non-φ values v can take together with the reaching
// condition of the incoming edge chain (back edges ignored; depth-limited).
func (r *Reach) Cases(v ssa.Value) []ValueCase { return r.CasesStop(v, nil) }

// CasesStop is Cases that does not expand the φ-nodes in stop (e.g. a loop-header φ when looking at loop-carried values).
func (r *Reach) CasesStop(v ssa.Value, stop map[ssa.Value]bool) []ValueCase {
	var out []ValueCase
	var rec func(x ssa.Value, cond DNF, depth int)
	rec = func(x ssa.Value, cond DNF, depth int) {
		phi, ok := x.(*ssa.Phi)
		if !ok || depth > 4 || stop[x] {
			out = append(out, ValueCase{V: x, Cond: cond})
			return
		}
		b := phi.Block()
		for i, p := range b.Preds {
			ec := r.EdgeCond(p, b)
			if ec == nil {
				continue
			}
			c2 := ec
			if cond != nil {
				c2 = And(cond, ec)
			}
			rec(phi.Edges[i], c2, depth+1)
		}
	}
	rec(v, nil, 0)
	return out
}

// Compatible reports whether conjunction cj is consistent with at least one conjunct of d
// (no atom with opposite polarity). Used to ask "can a path satisfying cj have passed through a block whose reach is d?".
func Compatible(cj Conj, d DNF) bool {
	for _, o := range d {
		ok := true
		for k, l := range o {
			if m, has := cj[k]; has && m.Neg != l.Neg {
				ok = false
				break
			}
		}
		if ok {
			return true
		}
	}
	return false
}

// Restrict returns the conjuncts of d that are compatible with through.
func Restrict(d DNF, through DNF) DNF {
	var out DNF
	for _, cj := range d {
		if Compatible(cj, through) {
			out = append(out, cj)
		}
	}
	return out
}
