// Package tpl extracts, by structural recursion over the type-checked syntax tree, the grammar of the text that
// convergen's string-building functions can emit (a string analysis in the JSA tradition): the result is a
// template tree of literals, holes (IR fields), guarded alternatives, repetitions and dynamic dispatch, which
// is then interrogated by enumerating its bounded language (see render.go). No repository code is executed.
package tpl

import (
	"fmt"
	"go/ast"
	"go/constant"
	"go/token"
	"go/types"
	"sort"
	"strings"

	"golang.org/x/tools/go/packages"
)

// ---------- template trees ----------

// T is a template node.
type T interface{ isT() }

// Lit is constant text.
type Lit struct{ S string }

// Hole is the text of an IR field (string-typed location).
type Hole struct{ Path string }

// Seq is a concatenation.
type Seq struct{ Parts []T }

// Alt is a guarded alternative.
type Alt struct {
	G          G
	Then, Else T
}

// Rep repeats Body for every element of the slice at Over; inside Body the element is addressed as Elem ("<Over>[]").
type Rep struct {
	Over, Elem string
	Body       T
}

// Dyn dispatches on the dynamic type of the interface value at Path.
type Dyn struct {
	Path  string
	Impls map[string]T // by type name (types.TypeString without package path)
}

// Cut marks a recursion that was not unfolded further.
type Cut struct{ Fn string }

func (Lit) isT()  {}
func (Hole) isT() {}
func (Seq) isT()  {}
func (Alt) isT()  {}
func (Rep) isT()  {}
func (Dyn) isT()  {}
func (Cut) isT()  {}

// ---------- guards ----------

// G is a boolean expression over IR locations.
type G interface{ isG() }

type GConst struct{ V bool }
type GLeaf struct{ Path string }         // bool field
type GNot struct{ X G }                  //
type GAnd struct{ A, B G }               //
type GOr struct{ A, B G }                //
type GStrEq struct{ Path, Const string } // string field == constant
type GNil struct{ Path string }          // pointer field == nil
// GStrTest is a test on the text of a string location: strings.HasPrefix / HasSuffix / Contains(Path, Const).
type GStrTest struct{ Path, Op, Const string }
type GBoolEq struct{ A, B G }          // a == b on bools
type GType struct{ Path, Type string } // dynamic type of interface value is Type
type GDyn struct {                     // bool method through an interface
	Path  string
	Impls map[string]G
}
type GIf struct{ C, A, B G } // C ? A : B
// GIdx compares the loop index of the repetition whose element pattern is Elem with a constant.
type GIdx struct {
	Elem string
	Op   string // "<" ">" "==" "!=" "<=" ">="  (index Op K)
	K    int
}
type GCut struct{ Fn string }

// GAny holds when Body holds for some element of the slice at Over (Elem is the element pattern, as in Rep):
// the guard form of `for _, e := range xs { if <Body> { return true } }; return false`.
type GAny struct {
	Over, Elem string
	Body       G
}

func (GConst) isG()   {}
func (GLeaf) isG()    {}
func (GNot) isG()     {}
func (GAnd) isG()     {}
func (GOr) isG()      {}
func (GStrEq) isG()   {}
func (GNil) isG()     {}
func (GStrTest) isG() {}
func (GBoolEq) isG()  {}
func (GType) isG()    {}
func (GDyn) isG()     {}
func (GIf) isG()      {}
func (GIdx) isG()     {}
func (GCut) isG()     {}
func (GAny) isG()     {}

// ---------- symbolic values ----------

type sym interface{}

type sPath struct { // an IR location
	P string
	T types.Type
}
type sStruct struct { // local copy of a struct location with overridden fields
	Base sPath
	Over map[string]sym
}
type sStr struct{ T T }
type sBool struct{ G G }
type sFunc struct {
	Lit *ast.FuncLit
	Env *env
	Pkg *packages.Package
}
type sNone struct{}

// listItem is one element of a local []string that is joined later: text T, present when G holds (nil: always);
// with Over set it stands for one element per entry of the IR slice at Over (element pattern Elem).
type listItem struct {
	G    G
	T    T
	Over string
	Elem string
}

// sList is a local []string built by append and consumed by strings.Join.
type sList struct{ Items []listItem }

func isStringSlice(t types.Type) bool {
	sl, ok := t.Underlying().(*types.Slice)
	if !ok {
		return false
	}
	b, ok := sl.Elem().Underlying().(*types.Basic)
	return ok && b.Info()&types.IsString != 0
}

func orG(a, b G) G {
	if k, ok := a.(GConst); ok {
		if k.V {
			return a
		}
		return b
	}
	if k, ok := b.(GConst); ok {
		if k.V {
			return b
		}
		return a
	}
	return GOr{A: a, B: b}
}

func andG(a, b G) G {
	if a == nil {
		return b
	}
	if b == nil {
		return a
	}
	return GAnd{A: a, B: b}
}

// listDelta: full = base ⧺ d.
func listDelta(base, full sList) ([]listItem, bool) {
	if len(full.Items) < len(base.Items) {
		return nil, false
	}
	for i := range base.Items {
		if fmt.Sprintf("%v", base.Items[i]) != fmt.Sprintf("%v", full.Items[i]) {
			return nil, false
		}
	}
	return full.Items[len(base.Items):], true
}

// joinList renders strings.Join(l, sep): the separator stands before every present element that has a present predecessor.
func (x *Extractor) joinList(pos token.Pos, l sList, sep T) T {
	var out T = Seq{}
	var any G = GConst{V: false}
	afterRep := false
	for _, it := range l.Items {
		if afterRep {
			if k, ok := any.(GConst); !ok || !k.V {
				x.fail(pos, "strings.Join: an element follows a repeated element whose presence is not known statically")
			}
		}
		if it.Over == "" {
			g := it.G
			if g == nil {
				g = GConst{V: true}
			}
			piece := cat(mkAlt(any, sep, Seq{}), it.T)
			out = cat(out, mkAlt(g, piece, Seq{}))
			any = orG(any, g)
			continue
		}
		if it.G != nil && strings.Contains(GString(it.G), it.Elem) {
			// the condition is about the element: an earlier element of the same loop may be absent
			x.fail(pos, "strings.Join: conditionally appended element inside a loop")
		}
		body := cat(mkAlt(orG(GIdx{Elem: it.Elem, Op: ">", K: 0}, any), sep, Seq{}), it.T)
		var rep T = Rep{Over: it.Over, Elem: it.Elem, Body: body}
		if it.G != nil {
			// a loop-invariant condition around the whole loop (`if flag { for … { l = append(l, …) } }`)
			rep = mkAlt(it.G, rep, Seq{})
		}
		out = cat(out, rep)
		afterRep = true
	}
	return out
}

// sVoid is the "value" of a return without results (closures used for their effects on captured accumulators).
type sVoid struct{}

// Undecided is raised (as panic) when a construct outside the supported subset is met.
type Undecided struct {
	Pos token.Pos
	Msg string
}

func (u Undecided) Error() string { return u.Msg }

type env struct {
	vars   map[types.Object]sym
	parent *env
}

func newEnv(parent *env) *env { return &env{vars: map[types.Object]sym{}, parent: parent} }

func (e *env) get(o types.Object) (sym, bool) {
	for x := e; x != nil; x = x.parent {
		if v, ok := x.vars[o]; ok {
			return v, true
		}
	}
	return nil, false
}

func (e *env) set(o types.Object, v sym) {
	for x := e; x != nil; x = x.parent {
		if _, ok := x.vars[o]; ok {
			x.vars[o] = v
			return
		}
	}
	e.vars[o] = v
}

func (e *env) def(o types.Object, v sym) { e.vars[o] = v }

// flat copies the visible bindings (for branch execution).
func (e *env) clone() *env {
	n := newEnv(nil)
	var chain []*env
	for x := e; x != nil; x = x.parent {
		chain = append(chain, x)
	}
	for i := len(chain) - 1; i >= 0; i-- {
		for k, v := range chain[i].vars {
			n.vars[k] = v
		}
	}
	return n
}

// Extractor holds the program and the inlining stack.
type Extractor struct {
	Pkgs    map[string]*packages.Package // by import path
	decls   map[*types.Func]*ast.FuncDecl
	declPkg map[*types.Func]*packages.Package
	stack   []*types.Func
	// Implementers resolves an interface type to the named module types implementing it.
	Implementers func(*types.Interface) []*types.Named
	MaxDepth     int               // how often one function may be active on the inlining stack
	Funcs        map[string]bool   // functions inlined (evidence)
	synth        map[ast.Expr]bool // synthesized comparison nodes of desugared switches
	tsDone       bool
	// Opaque: calls that cannot be inlined (external functions, interface methods, methods without source)
	// become leaves named by their normalised text ("n.parent.AssignExpr()", "IsPtr(n.arg.ExprType())").
	Opaque bool
}

// NewExtractor indexes function declarations of the given packages.
func NewExtractor(pkgs []*packages.Package, impl func(*types.Interface) []*types.Named) *Extractor {
	x := &Extractor{Pkgs: map[string]*packages.Package{}, decls: map[*types.Func]*ast.FuncDecl{}, declPkg: map[*types.Func]*packages.Package{}, Implementers: impl, MaxDepth: 3, Funcs: map[string]bool{}, synth: map[ast.Expr]bool{}}
	for _, p := range pkgs {
		x.Pkgs[p.PkgPath] = p
		for _, f := range p.Syntax {
			for _, d := range f.Decls {
				if fd, ok := d.(*ast.FuncDecl); ok && fd.Body != nil {
					if o, ok := p.TypesInfo.Defs[fd.Name].(*types.Func); ok {
						x.decls[o] = fd
						x.declPkg[o] = p
					}
				}
			}
		}
	}
	return x
}

func (x *Extractor) fail(pos token.Pos, format string, a ...any) {
	panic(Undecided{Pos: pos, Msg: fmt.Sprintf(format, a...)})
}

// ExtractFunc extracts the template of fn with its receiver/parameters bound to the given root paths
// (names → path strings, e.g. {"f": "f"}).
func (x *Extractor) ExtractFunc(fn *types.Func, roots map[string]string) (t T, err error) {
	defer func() {
		if r := recover(); r != nil {
			if u, ok := r.(Undecided); ok {
				err = u
				return
			}
			panic(r)
		}
	}()
	fd := x.decls[fn]
	if fd == nil {
		return nil, fmt.Errorf("no declaration for %s", fn.FullName())
	}
	pkg := x.declPkg[fn]
	e := newEnv(nil)
	bind := func(fl *ast.FieldList) {
		if fl == nil {
			return
		}
		for _, f := range fl.List {
			for _, n := range f.Names {
				o := pkg.TypesInfo.Defs[n]
				if o == nil {
					continue
				}
				p, ok := roots[n.Name]
				if !ok {
					p = n.Name
				}
				e.def(o, sPath{P: p, T: o.Type()})
			}
		}
	}
	bind(fd.Recv)
	bind(fd.Type.Params)
	x.stack = append(x.stack, fn)
	x.Funcs[fn.FullName()] = true
	ret := x.execBlockT(pkg, fd.Body.List, e, true)
	x.stack = x.stack[:len(x.stack)-1]
	s, ok := ret.(sStr)
	if !ok {
		return nil, fmt.Errorf("%s does not return a string on every path", fn.FullName())
	}
	return s.T, nil
}

// ---------- statements ----------

// execBlock executes statements; it returns the returned value if every path returns, else nil.
func (x *Extractor) execBlock(pkg *packages.Package, stmts []ast.Stmt, e *env) sym {
	return x.execBlockT(pkg, stmts, e, false)
}

// execBlockT: tail reports that the end of stmts is the end of the function body (falling off = returning).
func (x *Extractor) execBlockT(pkg *packages.Package, stmts []ast.Stmt, e *env, tail bool) sym {
	for i, st := range stmts {
		switch s := st.(type) {
		case *ast.ReturnStmt:
			if len(s.Results) == 0 {
				return sVoid{}
			}
			if len(s.Results) != 1 {
				x.fail(s.Pos(), "return with %d results", len(s.Results))
			}
			return x.eval(pkg, s.Results[0], e)
		case *ast.IfStmt:
			return x.execIfT(pkg, s, stmts[i+1:], e, tail)
		case *ast.SwitchStmt:
			return x.execIfT(pkg, x.switchToIf(pkg, s), stmts[i+1:], e, tail)
		case *ast.TypeSwitchStmt:
			return x.execTypeSwitch(pkg, s, stmts[i+1:], e, tail)
		case *ast.BlockStmt:
			inner := newEnv(e)
			if r := x.execBlock(pkg, s.List, inner); r != nil {
				return r
			}
		case *ast.RangeStmt:
			// `for _, c := range xs { if g(c) { return K } }` with a constant K and no effects is `if ∃c: g(c) { return K }`
			if g, ret, ok := x.quantifiedReturn(pkg, s, e); ok {
				rRest := x.execBlockT(pkg, stmts[i+1:], e, tail)
				if rRest == nil {
					x.fail(s.Pos(), "a loop returns but the rest of the block does not")
				}
				return altSym(g, ret, rRest)
			}
			x.execSimple(pkg, st, e)
		default:
			x.execSimple(pkg, st, e)
		}
	}
	return nil
}

func (x *Extractor) execIf(pkg *packages.Package, s *ast.IfStmt, rest []ast.Stmt, e *env) sym {
	return x.execIfT(pkg, s, rest, e, false)
}

func (x *Extractor) execIfT(pkg *packages.Package, s *ast.IfStmt, rest []ast.Stmt, e *env, tail bool) sym {
	scope := newEnv(e)
	var cond G
	if s.Init != nil {
		// v, ok := a.(T)
		if as, ok := s.Init.(*ast.AssignStmt); ok && len(as.Lhs) == 2 && len(as.Rhs) == 1 {
			if ta, ok := as.Rhs[0].(*ast.TypeAssertExpr); ok && ta.Type != nil {
				v := x.eval(pkg, ta.X, scope)
				p, ok := v.(sPath)
				if !ok {
					x.fail(as.Pos(), "type assertion on a non-location")
				}
				tt := pkg.TypesInfo.TypeOf(ta.Type)
				tn := typeName(tt)
				if id, ok := as.Lhs[0].(*ast.Ident); ok && id.Name != "_" {
					scope.def(pkg.TypesInfo.Defs[id], sPath{P: p.P, T: tt})
				}
				if id, ok := as.Lhs[1].(*ast.Ident); ok && id.Name != "_" {
					scope.def(pkg.TypesInfo.Defs[id], sBool{G: GType{Path: p.P, Type: tn}})
				}
			} else {
				x.fail(s.Init.Pos(), "unsupported if-initialiser")
			}
		} else {
			x.execSimple(pkg, s.Init, scope)
		}
	}
	cv := x.eval(pkg, s.Cond, scope)
	cb, ok := cv.(sBool)
	if !ok {
		x.fail(s.Cond.Pos(), "condition is not a boolean expression over IR fields")
	}
	cond = cb.G

	thenEnv := scope.clone()
	rThen := x.execBlock(pkg, s.Body.List, thenEnv)
	elseEnv := scope.clone()
	var rElse sym
	switch el := s.Else.(type) {
	case nil:
	case *ast.BlockStmt:
		rElse = x.execBlock(pkg, el.List, elseEnv)
	case *ast.IfStmt:
		rElse = x.execIf(pkg, el, nil, elseEnv)
	}
	_, voidThen := rThen.(sVoid)
	_, voidElse := rElse.(sVoid)
	if (voidThen && rElse == nil) || (voidElse && rThen == nil) {
		// early `return` (no results) on one side inside a function used for its effects: the state at the
		// return and the state after the rest of the body are alternatives
		if !tail {
			x.fail(s.Pos(), "early return inside a nested block of a result-less function")
		}
		pre := e.clone()
		retEnv, contEnv := thenEnv, elseEnv
		c := cond
		if voidElse {
			retEnv, contEnv = elseEnv, thenEnv
			c = GNot{X: cond}
		}
		joinEnv(e, GConst{false}, retEnv, contEnv) // continue with the non-returning side
		if r := x.execBlockT(pkg, rest, e, true); r != nil {
			if _, ok := r.(sVoid); !ok {
				x.fail(s.Pos(), "mixed value and result-less returns")
			}
		}
		post := e.clone()
		for k := range post.vars {
			old, had := pre.get(k)
			if !had {
				continue
			}
			a, okA := retEnv.get(k)
			if !okA {
				a = old
			}
			e.set(k, joinSym(c, old, a, post.vars[k]))
		}
		return sVoid{}
	}
	switch {
	case rThen == nil && rElse == nil:
		joinEnv(e, cond, thenEnv, elseEnv)
		return x.execBlockT(pkg, rest, e, tail)
	case rThen != nil && rElse == nil:
		pre := e.clone()
		joinEnv(e, GConst{false}, thenEnv, elseEnv) // continue with the else-side state
		rRest := x.execBlock(pkg, rest, e)
		if rRest == nil {
			if len(rest) == 0 {
				// caller continues: cannot represent "returned on one side only" without its continuation
				x.fail(s.Pos(), "a branch returns while the enclosing block continues (nested early return)")
			}
			x.fail(s.Pos(), "a branch returns but the rest of the block does not")
		}
		mergeAtReturn(e, pre, cond, thenEnv)
		return altSym(cond, rThen, rRest)
	case rThen == nil && rElse != nil:
		pre := e.clone()
		joinEnv(e, GConst{true}, thenEnv, elseEnv)
		rRest := x.execBlock(pkg, rest, e)
		if rRest == nil {
			x.fail(s.Pos(), "a branch returns but the rest of the block does not")
		}
		mergeAtReturn(e, pre, GNot{X: cond}, elseEnv)
		return altSym(cond, rRest, rElse)
	default:
		return altSym(cond, rThen, rElse)
	}
}

// mergeAtReturn: a branch returned early (under c) with the state retEnv while e went on through the rest of the
// block: the accumulators that outlive the function (builders handed in by pointer, captured variables) hold the
// returning side's content under c and the continuing side's content otherwise.
func mergeAtReturn(e, pre *env, c G, retEnv *env) {
	post := e.clone()
	for k, after := range post.vars {
		old, had := pre.get(k)
		if !had {
			continue
		}
		a, okA := retEnv.get(k)
		if !okA {
			a = old
		}
		if fmt.Sprintf("%v", a) == fmt.Sprintf("%v", after) {
			continue
		}
		switch after.(type) {
		case sStr, sList:
			e.set(k, joinSym(c, old, a, after))
		}
	}
}

func altSym(c G, a, b sym) sym {
	switch av := a.(type) {
	case sStr:
		if bv, ok := b.(sStr); ok {
			return sStr{T: mkAlt(c, av.T, bv.T)}
		}
	case sBool:
		if bv, ok := b.(sBool); ok {
			return sBool{G: GIf{C: c, A: av.G, B: bv.G}}
		}
	}
	panic(Undecided{Msg: "branches return values of different kinds"})
}

func mkAlt(c G, a, b T) T {
	if k, ok := c.(GConst); ok {
		if k.V {
			return a
		}
		return b
	}
	return Alt{G: c, Then: a, Else: b}
}

// joinEnv merges the two branch states into e (which both were cloned from).
func joinEnv(e *env, c G, a, b *env) {
	keys := map[types.Object]bool{}
	for k := range a.vars {
		keys[k] = true
	}
	for k := range b.vars {
		keys[k] = true
	}
	for k := range keys {
		old, had := e.get(k)
		if !had {
			continue // branch-local
		}
		va, vb := a.vars[k], b.vars[k]
		if va == nil {
			va = old
		}
		if vb == nil {
			vb = old
		}
		e.set(k, joinSym(c, old, va, vb))
	}
}

func joinSym(c G, old, a, b sym) sym {
	if k, ok := c.(GConst); ok {
		if k.V {
			return a
		}
		return b
	}
	switch a.(type) {
	case sIndex, sNone, sFunc:
		if fmt.Sprintf("%v", a) == fmt.Sprintf("%v", b) {
			return a
		}
	}
	switch av := a.(type) {
	case sList:
		bv, ok := b.(sList)
		ol, ok2 := old.(sList)
		if !ok || !ok2 {
			break
		}
		da, oka := listDelta(ol, av)
		db, okb := listDelta(ol, bv)
		if !oka || !okb {
			break
		}
		out := sList{Items: append([]listItem{}, ol.Items...)}
		for _, it := range da {
			it.G = andG(c, it.G)
			out.Items = append(out.Items, it)
		}
		for _, it := range db {
			it.G = andG(GNot{X: c}, it.G)
			out.Items = append(out.Items, it)
		}
		return out
	case sStr:
		bv, ok := b.(sStr)
		if !ok {
			break
		}
		// common prefix = old content
		if os, ok := old.(sStr); ok {
			da, oka := suffixOf(os.T, av.T)
			db, okb := suffixOf(os.T, bv.T)
			if oka && okb {
				if isEmpty(da) && isEmpty(db) {
					return old
				}
				return sStr{T: cat(os.T, mkAlt(c, da, db))}
			}
		}
		return sStr{T: mkAlt(c, av.T, bv.T)}
	case sBool:
		if bv, ok := b.(sBool); ok {
			if fmt.Sprint(av.G) == fmt.Sprint(bv.G) {
				return a
			}
			return sBool{G: GIf{C: c, A: av.G, B: bv.G}}
		}
	case sStruct:
		bv, ok := b.(sStruct)
		if !ok {
			if bp, isP := b.(sPath); isP {
				bv = sStruct{Base: bp, Over: map[string]sym{}}
				ok = true
			}
		}
		if ok && av.Base.P == bv.Base.P {
			out := sStruct{Base: av.Base, Over: map[string]sym{}}
			fields := map[string]bool{}
			for f := range av.Over {
				fields[f] = true
			}
			for f := range bv.Over {
				fields[f] = true
			}
			for f := range fields {
				fa, fb := av.Over[f], bv.Over[f]
				base := fieldOfPath(av.Base, f)
				if fa == nil {
					fa = base
				}
				if fb == nil {
					fb = base
				}
				out.Over[f] = joinSym(c, base, fa, fb)
			}
			return out
		}
	case sPath:
		if bv, ok := b.(sPath); ok && av.P == bv.P {
			return a
		}
		if bs, ok := b.(sStruct); ok {
			return joinSym(c, old, sStruct{Base: av, Over: map[string]sym{}}, bs)
		}
	case sFunc, sNone:
		return a
	}
	panic(Undecided{Msg: fmt.Sprintf("cannot join %T and %T", a, b)})
}

func fieldOfPath(p sPath, f string) sym {
	st, ok := deref(p.T).Underlying().(*types.Struct)
	if !ok {
		return sNone{}
	}
	for i := 0; i < st.NumFields(); i++ {
		if st.Field(i).Name() == f {
			return leaf(sPath{P: p.P + "." + f, T: st.Field(i).Type()})
		}
	}
	return sNone{}
}

// leaf turns a location into a value according to its type: strings become holes, bools guards.
func leaf(p sPath) sym {
	if b, ok := p.T.Underlying().(*types.Basic); ok {
		switch {
		case b.Info()&types.IsString != 0:
			return sStr{T: Hole{Path: p.P}}
		case b.Info()&types.IsBoolean != 0:
			return sBool{G: GLeaf{Path: p.P}}
		}
	}
	return p
}

func deref(t types.Type) types.Type {
	if p, ok := t.Underlying().(*types.Pointer); ok {
		return p.Elem()
	}
	return t
}

func parts(t T) []T {
	if s, ok := t.(Seq); ok {
		return s.Parts
	}
	if t == nil {
		return nil
	}
	return []T{t}
}

func cat(a, b T) T {
	pa, pb := parts(a), parts(b)
	if len(pb) == 0 {
		return a
	}
	if len(pa) == 0 {
		return b
	}
	out := make([]T, 0, len(pa)+len(pb))
	out = append(out, pa...)
	// merge adjacent literals
	for _, p := range pb {
		if l, ok := p.(Lit); ok && len(out) > 0 {
			if ll, ok := out[len(out)-1].(Lit); ok {
				out[len(out)-1] = Lit{S: ll.S + l.S}
				continue
			}
		}
		out = append(out, p)
	}
	return Seq{Parts: out}
}

func isEmpty(t T) bool { return len(parts(t)) == 0 }

// suffixOf: if full = base ⧺ d (structurally, by part identity) it returns d.
func suffixOf(base, full T) (T, bool) {
	pb, pf := parts(base), parts(full)
	if len(pf) < len(pb) {
		return nil, false
	}
	for i := range pb {
		if i == len(pb)-1 {
			// the last literal may have been extended by merging
			if lb, ok := pb[i].(Lit); ok {
				if lf, ok := pf[i].(Lit); ok && strings.HasPrefix(lf.S, lb.S) {
					rest := []T{}
					if len(lf.S) > len(lb.S) {
						rest = append(rest, Lit{S: lf.S[len(lb.S):]})
					}
					rest = append(rest, pf[i+1:]...)
					return Seq{Parts: rest}, true
				}
			}
		}
		if fmt.Sprintf("%v", pb[i]) != fmt.Sprintf("%v", pf[i]) {
			return nil, false
		}
	}
	return Seq{Parts: append([]T{}, pf[len(pb):]...)}, true
}

func (x *Extractor) execSimple(pkg *packages.Package, st ast.Stmt, e *env) {
	info := pkg.TypesInfo
	switch s := st.(type) {
	case *ast.DeclStmt:
		gd, ok := s.Decl.(*ast.GenDecl)
		if !ok || gd.Tok != token.VAR {
			x.fail(s.Pos(), "unsupported declaration")
		}
		for _, sp := range gd.Specs {
			vs := sp.(*ast.ValueSpec)
			for i, n := range vs.Names {
				o := info.Defs[n]
				if len(vs.Values) > i {
					e.def(o, x.eval(pkg, vs.Values[i], e))
					continue
				}
				e.def(o, zeroOf(o.Type()))
			}
		}
	case *ast.AssignStmt:
		if len(s.Lhs) != len(s.Rhs) {
			// _, err = sb.WriteString(...)
			if len(s.Rhs) == 1 {
				if call, ok := s.Rhs[0].(*ast.CallExpr); ok && x.tryWrite(pkg, call, e) {
					return
				}
			}
			// v, ok := a.(T) as a statement of its own
			if len(s.Lhs) == 2 && len(s.Rhs) == 1 && s.Tok == token.DEFINE {
				if ta, isTA := s.Rhs[0].(*ast.TypeAssertExpr); isTA && ta.Type != nil {
					if p, isP := x.eval(pkg, ta.X, e).(sPath); isP {
						tt := info.TypeOf(ta.Type)
						if id, isID := s.Lhs[0].(*ast.Ident); isID && id.Name != "_" {
							e.def(info.Defs[id], sPath{P: p.P, T: tt})
						}
						if id, isID := s.Lhs[1].(*ast.Ident); isID && id.Name != "_" {
							e.def(info.Defs[id], sBool{G: GType{Path: p.P, Type: typeName(tt)}})
						}
						return
					}
				}
			}
			x.fail(s.Pos(), "unsupported multi-value assignment")
		}
		for i := range s.Lhs {
			switch s.Tok {
			case token.DEFINE, token.ASSIGN:
				v := x.eval(pkg, s.Rhs[i], e)
				x.assign(pkg, s.Lhs[i], v, e, s.Tok == token.DEFINE)
			case token.ADD_ASSIGN:
				cur := x.eval(pkg, s.Lhs[i], e)
				v := x.eval(pkg, s.Rhs[i], e)
				cs, ok1 := cur.(sStr)
				vs, ok2 := v.(sStr)
				if !ok1 || !ok2 {
					x.fail(s.Pos(), "+= on non-strings")
				}
				x.assign(pkg, s.Lhs[i], sStr{T: cat(cs.T, vs.T)}, e, false)
			default:
				x.fail(s.Pos(), "unsupported assignment operator %s", s.Tok)
			}
		}
	case *ast.ExprStmt:
		call, ok := s.X.(*ast.CallExpr)
		if !ok {
			x.fail(s.Pos(), "unsupported expression statement")
		}
		if x.tryWrite(pkg, call, e) {
			return
		}
		// call of a local closure (statement position): inline for its effects on captured accumulators
		if id, ok := call.Fun.(*ast.Ident); ok {
			if v, ok := e.get(info.Uses[id]); ok {
				if f, ok := v.(sFunc); ok {
					x.callClosure(f, call, pkg, e)
					return
				}
			}
		}
		// call of a module function/method that writes into accumulators passed by pointer
		if fn, recv, ok := x.staticCallee(pkg, call, e); ok {
			x.inlineEffects(fn, recv, call, pkg, e)
			return
		}
		x.fail(s.Pos(), "unsupported call statement %s", exprString(call.Fun))
	case *ast.RangeStmt:
		x.execRange(pkg, s, e)
	case *ast.EmptyStmt:
	default:
		x.fail(st.Pos(), "unsupported statement %T", st)
	}
}

func zeroOf(t types.Type) sym {
	if b, ok := t.Underlying().(*types.Basic); ok {
		switch {
		case b.Info()&types.IsString != 0:
			return sStr{T: Seq{}}
		case b.Info()&types.IsBoolean != 0:
			return sBool{G: GConst{false}}
		}
	}
	ts := t.String()
	if ts == "strings.Builder" || ts == "bytes.Buffer" {
		return sStr{T: Seq{}}
	}
	if isStringSlice(t) {
		return sList{}
	}
	return sNone{}
}

func (x *Extractor) assign(pkg *packages.Package, lhs ast.Expr, v sym, e *env, define bool) {
	info := pkg.TypesInfo
	switch l := lhs.(type) {
	case *ast.Ident:
		if l.Name == "_" {
			return
		}
		var o types.Object
		if define {
			o = info.Defs[l]
			if o == nil {
				o = info.Uses[l]
			}
			e.def(o, v)
			return
		}
		o = info.Uses[l]
		e.set(o, v)
	case *ast.SelectorExpr:
		// dst.Pointer = true on a local struct copy
		id, ok := l.X.(*ast.Ident)
		if !ok {
			x.fail(lhs.Pos(), "assignment to a nested selector")
		}
		o := info.Uses[id]
		cur, ok := e.get(o)
		if !ok {
			x.fail(lhs.Pos(), "assignment to field of unknown variable %s", id.Name)
		}
		var st sStruct
		switch c := cur.(type) {
		case sStruct:
			st = sStruct{Base: c.Base, Over: map[string]sym{}}
			for k, vv := range c.Over {
				st.Over[k] = vv
			}
		case sPath:
			if _, isPtr := c.T.Underlying().(*types.Pointer); isPtr {
				x.fail(lhs.Pos(), "write through a pointer to IR data")
			}
			st = sStruct{Base: c, Over: map[string]sym{}}
		default:
			x.fail(lhs.Pos(), "assignment to field of %T", cur)
		}
		st.Over[l.Sel.Name] = v
		e.set(o, st)
	default:
		x.fail(lhs.Pos(), "unsupported assignment target")
	}
}

// tryWrite handles sb.WriteString(x) / sb.WriteByte / buf.WriteString on a local accumulator.
func (x *Extractor) tryWrite(pkg *packages.Package, call *ast.CallExpr, e *env) bool {
	sel, ok := call.Fun.(*ast.SelectorExpr)
	if !ok {
		return false
	}
	id, ok := sel.X.(*ast.Ident)
	if !ok {
		return false
	}
	o := pkg.TypesInfo.Uses[id]
	cur, ok := e.get(o)
	if !ok {
		return false
	}
	acc, ok := cur.(sStr)
	if !ok {
		return false
	}
	ts := deref(o.Type()).String()
	if ts != "strings.Builder" && ts != "bytes.Buffer" {
		return false
	}
	switch sel.Sel.Name {
	case "WriteString":
		v := x.eval(pkg, call.Args[0], e)
		s, ok := v.(sStr)
		if !ok {
			x.fail(call.Pos(), "WriteString of a non-string value")
		}
		e.set(o, sStr{T: cat(acc.T, s.T)})
		return true
	case "WriteByte", "WriteRune":
		tv := pkg.TypesInfo.Types[call.Args[0]]
		if tv.Value == nil {
			x.fail(call.Pos(), "WriteByte of a non-constant")
		}
		n, _ := constant.Int64Val(tv.Value)
		e.set(o, sStr{T: cat(acc.T, Lit{S: string(rune(n))})})
		return true
	}
	return false
}

func (x *Extractor) execRange(pkg *packages.Package, s *ast.RangeStmt, e *env) {
	info := pkg.TypesInfo
	over := x.eval(pkg, s.X, e)
	p, ok := over.(sPath)
	if !ok {
		x.fail(s.Pos(), "range over something that is not an IR slice")
	}
	sl, ok := p.T.Underlying().(*types.Slice)
	if !ok {
		x.fail(s.Pos(), "range over a non-slice")
	}
	elem := sPath{P: p.P + "[]", T: sl.Elem()}
	body := e.clone()
	inner := newEnv(body)
	if s.Key != nil {
		if id, ok := s.Key.(*ast.Ident); ok && id.Name != "_" {
			inner.def(info.Defs[id], sIndex{Of: p.P})
		}
	}
	if s.Value != nil {
		if id, ok := s.Value.(*ast.Ident); ok && id.Name != "_" {
			inner.def(info.Defs[id], leaf(elem))
		}
	}
	if r := x.execBlock(pkg, s.Body.List, inner); r != nil {
		x.fail(s.Pos(), "return inside a loop")
	}
	// deltas of accumulators
	for k, after := range body.vars {
		before, _ := e.get(k)
		if fmt.Sprintf("%v", before) == fmt.Sprintf("%v", after) {
			continue
		}
		if bl, isL := before.(sList); isL {
			al, isL2 := after.(sList)
			if !isL2 {
				x.fail(s.Pos(), "a string list changes kind inside a loop")
			}
			d, ok := listDelta(bl, al)
			if !ok {
				x.fail(s.Pos(), "loop body rewrites a string list")
			}
			out := sList{Items: append([]listItem{}, bl.Items...)}
			for _, it := range d {
				if it.Over != "" {
					x.fail(s.Pos(), "nested loops appending to a string list")
				}
				it.Over, it.Elem = p.P, elem.P
				out.Items = append(out.Items, it)
			}
			e.set(k, out)
			continue
		}
		bs, ok1 := before.(sStr)
		as, ok2 := after.(sStr)
		if !ok1 || !ok2 {
			x.fail(s.Pos(), "a non-accumulator variable changes inside a loop")
		}
		d, ok := suffixOf(bs.T, as.T)
		if !ok {
			x.fail(s.Pos(), "loop body rewrites an accumulator")
		}
		e.set(k, sStr{T: cat(bs.T, Rep{Over: p.P, Elem: elem.P, Body: d})})
	}
}

// quantifiedReturn recognises a search loop: a range over an IR slice whose body is one `if` (no else, no initialiser)
// that does nothing but return a boolean constant. It answers the guard ∃ element: condition, and the constant.
func (x *Extractor) quantifiedReturn(pkg *packages.Package, s *ast.RangeStmt, e *env) (G, sym, bool) {
	if len(s.Body.List) != 1 {
		return nil, nil, false
	}
	ifs, ok := s.Body.List[0].(*ast.IfStmt)
	if !ok || ifs.Else != nil || ifs.Init != nil || len(ifs.Body.List) != 1 {
		return nil, nil, false
	}
	ret, ok := ifs.Body.List[0].(*ast.ReturnStmt)
	if !ok || len(ret.Results) != 1 {
		return nil, nil, false
	}
	tv, ok := pkg.TypesInfo.Types[ret.Results[0]]
	if !ok || tv.Value == nil || tv.Value.Kind() != constant.Bool {
		return nil, nil, false
	}
	if s.Key != nil {
		if id, isID := s.Key.(*ast.Ident); !isID || id.Name != "_" {
			return nil, nil, false
		}
	}
	over, ok := x.eval(pkg, s.X, e).(sPath)
	if !ok {
		return nil, nil, false
	}
	sl, ok := over.T.Underlying().(*types.Slice)
	if !ok {
		return nil, nil, false
	}
	elem := sPath{P: over.P + "[]", T: sl.Elem()}
	inner := newEnv(e.clone())
	if s.Value != nil {
		if id, isID := s.Value.(*ast.Ident); isID && id.Name != "_" {
			inner.def(pkg.TypesInfo.Defs[id], leaf(elem))
		}
	}
	cb, ok := x.eval(pkg, ifs.Cond, inner).(sBool)
	if !ok {
		x.fail(ifs.Cond.Pos(), "condition of a search loop is not a boolean expression over IR fields")
	}
	return GAny{Over: over.P, Elem: elem.P, Body: cb.G}, sBool{G: GConst{V: constant.BoolVal(tv.Value)}}, true
}

// sIndex is the loop index of a range over the slice at Of.
type sIndex struct{ Of string }

// ---------- expressions ----------

func (x *Extractor) eval(pkg *packages.Package, ex ast.Expr, e *env) sym {
	info := pkg.TypesInfo
	if tv, ok := info.Types[ex]; ok && tv.Value != nil {
		switch tv.Value.Kind() {
		case constant.String:
			return sStr{T: Lit{S: constant.StringVal(tv.Value)}}
		case constant.Bool:
			return sBool{G: GConst{V: constant.BoolVal(tv.Value)}}
		case constant.Int:
			return sNone{}
		}
	}
	switch v := ex.(type) {
	case *ast.ParenExpr:
		return x.eval(pkg, v.X, e)
	case *ast.Ident:
		if v.Name == "nil" {
			return sNone{}
		}
		o := info.Uses[v]
		if o == nil {
			o = info.Defs[v]
		}
		if val, ok := e.get(o); ok {
			return val
		}
		if c, ok := o.(*types.Const); ok && c.Val().Kind() == constant.String {
			return sStr{T: Lit{S: constant.StringVal(c.Val())}}
		}
		x.fail(v.Pos(), "unknown identifier %s", v.Name)
	case *ast.SelectorExpr:
		base := x.eval(pkg, v.X, e)
		switch b := base.(type) {
		case sPath:
			r := fieldOfPath(b, v.Sel.Name)
			if _, none := r.(sNone); none {
				x.fail(v.Pos(), "unknown field %s", v.Sel.Name)
			}
			return r
		case sStruct:
			if o, ok := b.Over[v.Sel.Name]; ok {
				return o
			}
			return fieldOfPath(b.Base, v.Sel.Name)
		}
		x.fail(v.Pos(), "selector on %T", base)
	case *ast.IndexExpr:
		base := x.eval(pkg, v.X, e)
		idx := x.eval(pkg, v.Index, e)
		p, ok1 := base.(sPath)
		i, ok2 := idx.(sIndex)
		if ok1 && ok2 && i.Of == p.P {
			sl := p.T.Underlying().(*types.Slice)
			return leaf(sPath{P: p.P + "[]", T: sl.Elem()})
		}
		x.fail(v.Pos(), "index expression that is not slice[loop index]")
	case *ast.BinaryExpr:
		return x.evalBinary(pkg, v, e)
	case *ast.UnaryExpr:
		if v.Op == token.NOT {
			b, ok := x.eval(pkg, v.X, e).(sBool)
			if !ok {
				x.fail(v.Pos(), "! on non-bool")
			}
			return sBool{G: GNot{X: b.G}}
		}
		if v.Op == token.AND {
			return x.eval(pkg, v.X, e)
		}
	case *ast.StarExpr:
		return x.eval(pkg, v.X, e)
	case *ast.CallExpr:
		return x.evalCall(pkg, v, e)
	case *ast.FuncLit:
		return sFunc{Lit: v, Env: e, Pkg: pkg}
	case *ast.CompositeLit:
		t := info.TypeOf(v)
		if ts := t.String(); (ts == "strings.Builder" || ts == "bytes.Buffer") && len(v.Elts) == 0 {
			return sStr{T: Seq{}}
		}
		if isStringSlice(t) {
			var l sList
			for _, el := range v.Elts {
				sv, ok := x.eval(pkg, el, e).(sStr)
				if !ok {
					x.fail(el.Pos(), "non-string element in a string list literal")
				}
				l.Items = append(l.Items, listItem{T: sv.T})
			}
			return l
		}
	}
	x.fail(ex.Pos(), "unsupported expression %s", exprString(ex))
	return nil
}

func exprString(e ast.Expr) string { return types.ExprString(e) }

func (x *Extractor) evalBinary(pkg *packages.Package, v *ast.BinaryExpr, e *env) sym {
	l := x.eval(pkg, v.X, e)
	r := x.eval(pkg, v.Y, e)
	switch v.Op {
	case token.ADD:
		ls, ok1 := l.(sStr)
		rs, ok2 := r.(sStr)
		if ok1 && ok2 {
			return sStr{T: cat(ls.T, rs.T)}
		}
	case token.LAND, token.LOR:
		lb, ok1 := l.(sBool)
		rb, ok2 := r.(sBool)
		if ok1 && ok2 {
			if v.Op == token.LAND {
				return sBool{G: GAnd{lb.G, rb.G}}
			}
			return sBool{G: GOr{lb.G, rb.G}}
		}
	case token.EQL, token.NEQ:
		neg := v.Op == token.NEQ
		wrap := func(g G) sym {
			if neg {
				return sBool{G: GNot{X: g}}
			}
			return sBool{G: g}
		}
		// string location vs constant
		if g, ok := strEq(l, r); ok {
			return wrap(g)
		}
		if g, ok := strEq(r, l); ok {
			return wrap(g)
		}
		// pointer vs nil
		if p, ok := l.(sPath); ok {
			if _, isNil := r.(sNone); isNil {
				return wrap(GNil{Path: p.P})
			}
		}
		if lb, ok := l.(sBool); ok {
			if rb, ok := r.(sBool); ok {
				return wrap(GBoolEq{lb.G, rb.G})
			}
		}
	}
	// loop index vs integer constant
	if g, ok := x.idxCmp(pkg, v, l, r); ok {
		return sBool{G: g}
	}
	x.fail(v.Pos(), "unsupported binary expression %s", exprString(v))
	return nil
}

func (x *Extractor) idxCmp(pkg *packages.Package, v *ast.BinaryExpr, l, r sym) (G, bool) {
	konst := func(e ast.Expr) (int, bool) {
		tv := pkg.TypesInfo.Types[e]
		if tv.Value == nil || tv.Value.Kind() != constant.Int {
			return 0, false
		}
		n, ok := constant.Int64Val(tv.Value)
		return int(n), ok
	}
	flip := map[string]string{"<": ">", ">": "<", "<=": ">=", ">=": "<=", "==": "==", "!=": "!="}
	op := v.Op.String()
	if _, ok := flip[op]; !ok {
		return nil, false
	}
	if i, ok := l.(sIndex); ok {
		if k, ok := konst(v.Y); ok {
			return GIdx{Elem: i.Of + "[]", Op: op, K: k}, true
		}
	}
	if i, ok := r.(sIndex); ok {
		if k, ok := konst(v.X); ok {
			return GIdx{Elem: i.Of + "[]", Op: flip[op], K: k}, true
		}
	}
	return nil, false
}

func strEq(a, b sym) (G, bool) {
	as, ok1 := a.(sStr)
	bs, ok2 := b.(sStr)
	if !ok1 || !ok2 {
		return nil, false
	}
	h, ok := as.T.(Hole)
	if !ok {
		return nil, false
	}
	switch k := bs.T.(type) {
	case Lit:
		return GStrEq{Path: h.Path, Const: k.S}, true
	case Seq:
		if len(k.Parts) == 0 {
			return GStrEq{Path: h.Path, Const: ""}, true
		}
	}
	return nil, false
}

func typeName(t types.Type) string {
	return types.TypeString(t, func(p *types.Package) string { return p.Name() })
}

// opaqueLeaf names a call that is not inlined by its normalised text and types it by its result.
func (x *Extractor) opaqueLeaf(pkg *packages.Package, call *ast.CallExpr, e *env) (sym, bool) {
	if !x.Opaque {
		return nil, false
	}
	var name func(ex ast.Expr) (string, bool)
	name = func(ex ast.Expr) (string, bool) {
		switch v := ex.(type) {
		case *ast.ParenExpr:
			return name(v.X)
		case *ast.CallExpr:
			var args []string
			for _, a := range v.Args {
				s, ok := name(a)
				if !ok {
					return "", false
				}
				args = append(args, s)
			}
			switch f := v.Fun.(type) {
			case *ast.SelectorExpr:
				if id, ok := f.X.(*ast.Ident); ok {
					if _, isPkg := pkg.TypesInfo.Uses[id].(*types.PkgName); isPkg {
						return f.Sel.Name + "(" + strings.Join(args, ", ") + ")", true
					}
				}
				r, ok := name(f.X)
				if !ok {
					return "", false
				}
				return r + "." + f.Sel.Name + "(" + strings.Join(args, ", ") + ")", true
			case *ast.Ident:
				return f.Name + "(" + strings.Join(args, ", ") + ")", true
			}
			return "", false
		default:
			val := x.eval(pkg, ex, e)
			switch p := val.(type) {
			case sPath:
				return p.P, true
			case sStr:
				if h, ok := p.T.(Hole); ok {
					return h.Path, true
				}
				if l, ok := p.T.(Lit); ok {
					return fmt.Sprintf("%q", l.S), true
				}
			case sBool:
				if l, ok := p.G.(GLeaf); ok {
					return l.Path, true
				}
			}
			return "", false
		}
	}
	n, ok := name(call)
	if !ok {
		return nil, false
	}
	t := pkg.TypesInfo.TypeOf(call)
	if t == nil {
		return nil, false
	}
	if tup, isTup := t.(*types.Tuple); isTup {
		if tup.Len() != 1 {
			return nil, false
		}
		t = tup.At(0).Type()
	}
	return leaf(sPath{P: n, T: t}), true
}

func (x *Extractor) evalCall(pkg *packages.Package, call *ast.CallExpr, e *env) sym {
	if x.Opaque {
		if r, ok := x.tryOpaque(pkg, call, e); ok {
			return r
		}
	}
	return x.evalCallInl(pkg, call, e)
}

// tryOpaque decides whether a call must stay opaque: external package functions (except fmt.Sprintf),
// interface method calls and methods of external types.
func (x *Extractor) tryOpaque(pkg *packages.Package, call *ast.CallExpr, e *env) (sym, bool) {
	info := pkg.TypesInfo
	sel, ok := call.Fun.(*ast.SelectorExpr)
	if !ok {
		return nil, false
	}
	if id, ok := sel.X.(*ast.Ident); ok {
		if pn, ok := info.Uses[id].(*types.PkgName); ok {
			if pn.Imported().Path() == "fmt" && sel.Sel.Name == "Sprintf" {
				return nil, false
			}
			if pn.Imported().Path() == "strings" && sel.Sel.Name == "Join" && len(call.Args) == 2 {
				if aid, ok := call.Args[0].(*ast.Ident); ok {
					if v, ok := e.get(info.Uses[aid]); ok {
						if _, isList := v.(sList); isList {
							return nil, false
						}
					}
				}
			}
			if fn, ok := info.Uses[sel.Sel].(*types.Func); ok && x.decls[fn] != nil {
				// module helper such as util.IsPtr: keep opaque when it takes non-IR operands (types)
				return x.opaqueLeaf(pkg, call, e)
			}
			return x.opaqueLeaf(pkg, call, e)
		}
		if o := info.Uses[id]; o != nil {
			ts := deref(o.Type()).String()
			if ts == "strings.Builder" || ts == "bytes.Buffer" {
				return nil, false
			}
		}
	}
	if s := info.Selections[sel]; s != nil {
		if fn, ok := s.Obj().(*types.Func); ok {
			if _, isIface := s.Recv().Underlying().(*types.Interface); isIface || x.decls[fn] == nil {
				return x.opaqueLeaf(pkg, call, e)
			}
		}
	}
	return nil, false
}

func (x *Extractor) evalCallInl(pkg *packages.Package, call *ast.CallExpr, e *env) sym {
	info := pkg.TypesInfo
	// conversions string(x) / model.DstVarStyle("arg") are constants, handled by the caller
	switch fun := call.Fun.(type) {
	case *ast.Ident:
		if _, isBuiltin := info.Uses[fun].(*types.Builtin); isBuiltin {
			switch fun.Name {
			case "make":
				if t := info.TypeOf(call); t != nil && isStringSlice(t) {
					if len(call.Args) >= 2 {
						if tv, ok := info.Types[call.Args[1]]; !ok || tv.Value == nil || tv.Value.String() != "0" {
							x.fail(call.Pos(), "make of a string list with non-zero length")
						}
					}
					return sList{}
				}
			case "append":
				if base, ok := x.eval(pkg, call.Args[0], e).(sList); ok {
					out := sList{Items: append([]listItem{}, base.Items...)}
					for i, a := range call.Args[1:] {
						v := x.eval(pkg, a, e)
						if call.Ellipsis.IsValid() && i == len(call.Args)-2 {
							other, ok := v.(sList)
							if !ok {
								x.fail(a.Pos(), "append of a spread value that is not a string list")
							}
							out.Items = append(out.Items, other.Items...)
							continue
						}
						sv, ok := v.(sStr)
						if !ok {
							x.fail(a.Pos(), "append of a non-string value to a string list")
						}
						out.Items = append(out.Items, listItem{T: sv.T})
					}
					return out
				}
			}
		}
		if v, ok := e.get(info.Uses[fun]); ok {
			if f, ok := v.(sFunc); ok {
				return x.callClosure(f, call, pkg, e)
			}
		}
		if fn, ok := info.Uses[fun].(*types.Func); ok {
			return x.inline(fn, nil, call, pkg, e)
		}
		if tn, ok := info.Uses[fun].(*types.TypeName); ok && len(call.Args) == 1 {
			_ = tn
			return x.eval(pkg, call.Args[0], e) // conversion between string-kinded types
		}
	case *ast.SelectorExpr:
		// package-qualified function
		if id, ok := fun.X.(*ast.Ident); ok {
			if pn, ok := info.Uses[id].(*types.PkgName); ok {
				full := pn.Imported().Path() + "." + fun.Sel.Name
				switch full {
				case "fmt.Sprintf":
					return x.sprintf(pkg, call, e)
				case "strings.HasPrefix", "strings.HasSuffix", "strings.Contains":
					subj, ok1 := x.eval(pkg, call.Args[0], e).(sStr)
					if h, isHole := subj.T.(Hole); ok1 && isHole {
						if tv, ok := info.Types[call.Args[1]]; ok && tv.Value != nil && tv.Value.Kind() == constant.String {
							return sBool{G: GStrTest{Path: h.Path, Op: fun.Sel.Name, Const: constant.StringVal(tv.Value)}}
						}
					}
				case "strings.Join":
					l, ok1 := x.eval(pkg, call.Args[0], e).(sList)
					sep, ok2 := x.eval(pkg, call.Args[1], e).(sStr)
					if ok1 && ok2 {
						return sStr{T: x.joinList(call.Pos(), l, sep.T)}
					}
				}
				if fn, ok := info.Uses[fun.Sel].(*types.Func); ok && x.decls[fn] != nil {
					return x.inline(fn, nil, call, pkg, e)
				}
				x.fail(call.Pos(), "call of external function %s", full)
			}
		}
		// accumulator.String()
		if id, ok := fun.X.(*ast.Ident); ok && fun.Sel.Name == "String" {
			if o := info.Uses[id]; o != nil {
				ts := deref(o.Type()).String()
				if ts == "strings.Builder" || ts == "bytes.Buffer" {
					v, _ := e.get(o)
					return v
				}
			}
		}
		// method call
		recv := x.eval(pkg, fun.X, e)
		sel := info.Selections[fun]
		if sel == nil {
			x.fail(call.Pos(), "unresolved method %s", fun.Sel.Name)
		}
		m := sel.Obj().(*types.Func)
		var rp sPath
		switch rv := recv.(type) {
		case sPath:
			rp = rv
		case sStruct:
			return x.inline(m, rv, call, pkg, e)
		case sStr:
			// method on a string-kinded value, e.g. style.String()
			if m.Name() == "String" {
				return rv
			}
			x.fail(call.Pos(), "method %s on a string value", m.Name())
		default:
			x.fail(call.Pos(), "method call on %T", recv)
		}
		if iface, ok := rp.T.Underlying().(*types.Interface); ok {
			return x.dispatch(rp, iface, m, call, pkg, e)
		}
		return x.inline(m, rp, call, pkg, e)
	}
	x.fail(call.Pos(), "unsupported call %s", exprString(call.Fun))
	return nil
}

func (x *Extractor) sprintf(pkg *packages.Package, call *ast.CallExpr, e *env) sym {
	tv := pkg.TypesInfo.Types[call.Args[0]]
	if tv.Value == nil || tv.Value.Kind() != constant.String {
		x.fail(call.Pos(), "Sprintf with a non-constant format")
	}
	f := constant.StringVal(tv.Value)
	var out T = Seq{}
	arg := 1
	for len(f) > 0 {
		i := strings.IndexByte(f, '%')
		if i < 0 {
			out = cat(out, Lit{S: f})
			break
		}
		out = cat(out, Lit{S: f[:i]})
		if i+1 >= len(f) {
			x.fail(call.Pos(), "dangling %% in format")
		}
		j := i + 1
		// explicit argument index %[n]v
		if f[j] == '[' {
			k := strings.IndexByte(f[j:], ']')
			if k < 0 {
				x.fail(call.Pos(), "bad argument index in format")
			}
			n := 0
			for _, ch := range f[j+1 : j+k] {
				if ch < '0' || ch > '9' {
					x.fail(call.Pos(), "bad argument index in format")
				}
				n = n*10 + int(ch-'0')
			}
			arg = n
			j += k + 1
			if j >= len(f) {
				x.fail(call.Pos(), "dangling argument index in format")
			}
		}
		switch f[j] {
		case 'v', 's':
			if arg >= len(call.Args) {
				x.fail(call.Pos(), "Sprintf: missing operand")
			}
			v := x.eval(pkg, call.Args[arg], e)
			s, ok := v.(sStr)
			if !ok {
				x.fail(call.Pos(), "Sprintf operand is not a string")
			}
			out = cat(out, s.T)
			arg++
		case '%':
			out = cat(out, Lit{S: "%"})
		default:
			x.fail(call.Pos(), "Sprintf verb %%%c", f[j])
		}
		f = f[j+1:]
	}
	return sStr{T: out}
}

func (x *Extractor) active(fn *types.Func) int {
	n := 0
	for _, f := range x.stack {
		if f == fn {
			n++
		}
	}
	return n
}

// inline extracts the body of fn with receiver recv (sPath or sStruct or nil) and the call's arguments.
func (x *Extractor) inline(fn *types.Func, recv sym, call *ast.CallExpr, pkg *packages.Package, e *env) sym {
	fd := x.decls[fn]
	if fd == nil {
		x.fail(call.Pos(), "call of %s: no source", fn.FullName())
	}
	// a helper that writes into a builder handed over by pointer is inlined for its effects as well as its result
	if ps := fn.Type().(*types.Signature).Params(); ps != nil {
		for i := 0; i < ps.Len(); i++ {
			if isBuilderPtr(ps.At(i).Type()) {
				return x.inlineEffects(fn, recv, call, pkg, e)
			}
		}
	}
	isBool := false
	if res := fn.Type().(*types.Signature).Results(); res.Len() == 1 {
		if b, ok := res.At(0).Type().Underlying().(*types.Basic); ok && b.Info()&types.IsBoolean != 0 {
			isBool = true
		}
	}
	if x.active(fn) >= x.MaxDepth {
		if isBool {
			return sBool{G: GCut{Fn: fn.FullName()}}
		}
		return sStr{T: Cut{Fn: fn.FullName()}}
	}
	fpkg := x.declPkg[fn]
	ne := newEnv(nil)
	if fd.Recv != nil && len(fd.Recv.List) == 1 && len(fd.Recv.List[0].Names) == 1 {
		o := fpkg.TypesInfo.Defs[fd.Recv.List[0].Names[0]]
		if recv == nil {
			x.fail(call.Pos(), "method %s without receiver value", fn.Name())
		}
		ne.def(o, recv)
	}
	i := 0
	for _, f := range fd.Type.Params.List {
		for _, n := range f.Names {
			if i >= len(call.Args) {
				x.fail(call.Pos(), "variadic or missing arguments")
			}
			if n.Name != "_" {
				ne.def(fpkg.TypesInfo.Defs[n], x.eval(pkg, call.Args[i], e))
			}
			i++
		}
	}
	x.stack = append(x.stack, fn)
	x.Funcs[fn.FullName()] = true
	r := x.execBlockT(fpkg, fd.Body.List, ne, true)
	x.stack = x.stack[:len(x.stack)-1]
	if r == nil {
		x.fail(call.Pos(), "%s does not return on every path", fn.FullName())
	}
	return r
}

func (x *Extractor) callClosure(f sFunc, call *ast.CallExpr, pkg *packages.Package, e *env) sym {
	// captured variables are looked up (by object identity) in the caller's current state, which derives from
	// the defining environment; the closure must be called within the defining function
	ne := newEnv(e)
	i := 0
	for _, fl := range f.Lit.Type.Params.List {
		for _, n := range fl.Names {
			ne.def(f.Pkg.TypesInfo.Defs[n], x.eval(pkg, call.Args[i], e))
			i++
		}
	}
	r := x.execBlockT(f.Pkg, f.Lit.Body.List, ne, true)
	if r == nil {
		return sNone{}
	}
	if _, ok := r.(sVoid); ok {
		return sNone{}
	}
	return r
}

// dispatch builds the alternation over all implementers of the interface method.
func (x *Extractor) dispatch(rp sPath, iface *types.Interface, m *types.Func, call *ast.CallExpr, pkg *packages.Package, e *env) sym {
	impls := x.Implementers(iface)
	if len(impls) == 0 {
		x.fail(call.Pos(), "no implementers of the interface")
	}
	strs := map[string]T{}
	bools := map[string]G{}
	for _, named := range impls {
		var cm *types.Func
		for _, T := range []types.Type{named, types.NewPointer(named)} {
			ms := types.NewMethodSet(T)
			if sel := ms.Lookup(m.Pkg(), m.Name()); sel != nil {
				cm = sel.Obj().(*types.Func)
				break
			}
		}
		if cm == nil {
			continue
		}
		r := x.inline(cm, sPath{P: rp.P, T: named}, call, pkg, e)
		tn := typeName(named)
		switch rv := r.(type) {
		case sStr:
			strs[tn] = rv.T
		case sBool:
			bools[tn] = rv.G
		default:
			x.fail(call.Pos(), "implementer returns %T", r)
		}
	}
	if len(strs) > 0 && len(bools) == 0 {
		return sStr{T: Dyn{Path: rp.P, Impls: strs}}
	}
	if len(bools) > 0 && len(strs) == 0 {
		return sBool{G: GDyn{Path: rp.P, Impls: bools}}
	}
	x.fail(call.Pos(), "mixed implementer results")
	return nil
}

// ImplNames lists the implementer names of a Dyn node (sorted).
func ImplNames(d Dyn) []string {
	var ks []string
	for k := range d.Impls {
		ks = append(ks, k)
	}
	sort.Strings(ks)
	return ks
}

// switchToIf rewrites `switch [tag] { case a, b: …; default: … }` (no fallthrough, no init) into an if/else-if chain.
func (x *Extractor) switchToIf(pkg *packages.Package, sw *ast.SwitchStmt) *ast.IfStmt {
	var def *ast.CaseClause
	var clauses []*ast.CaseClause
	for _, st := range sw.Body.List {
		cc := st.(*ast.CaseClause)
		for _, b := range cc.Body {
			if br, ok := b.(*ast.BranchStmt); ok && br.Tok == token.FALLTHROUGH {
				x.fail(br.Pos(), "fallthrough")
			}
		}
		if cc.List == nil {
			def = cc
		} else {
			clauses = append(clauses, cc)
		}
	}
	condOf := func(cc *ast.CaseClause) ast.Expr {
		var c ast.Expr
		for _, ex := range cc.List {
			var one ast.Expr = ex
			if sw.Tag != nil {
				be := &ast.BinaryExpr{X: sw.Tag, Op: token.EQL, Y: ex, OpPos: ex.Pos()}
				one = be
				x.synth[be] = true
			}
			if c == nil {
				c = one
			} else {
				be := &ast.BinaryExpr{X: c, Op: token.LOR, Y: one, OpPos: ex.Pos()}
				x.synth[be] = true
				c = be
			}
		}
		return c
	}
	var build func(i int) ast.Stmt
	build = func(i int) ast.Stmt {
		if i == len(clauses) {
			if def == nil {
				return nil
			}
			return &ast.BlockStmt{List: def.Body, Lbrace: def.Pos()}
		}
		ifs := &ast.IfStmt{If: clauses[i].Pos(), Cond: condOf(clauses[i]), Body: &ast.BlockStmt{List: clauses[i].Body, Lbrace: clauses[i].Pos()}}
		if el := build(i + 1); el != nil {
			ifs.Else = el
		}
		return ifs
	}
	if len(clauses) == 0 {
		x.fail(sw.Pos(), "switch without cases")
	}
	first := build(0).(*ast.IfStmt)
	first.Init = sw.Init // `switch v := e; v { … }`: the initialiser runs once, before the first comparison
	return first
}

// execTypeSwitch handles `switch n := a.(type) { case T: …; default: … }` on an IR interface location.
func (x *Extractor) execTypeSwitch(pkg *packages.Package, sw *ast.TypeSwitchStmt, rest []ast.Stmt, e *env, tail bool) sym {
	if sw.Init != nil {
		x.fail(sw.Pos(), "type switch with an init statement")
	}
	var bindName *ast.Ident
	var subject ast.Expr
	switch a := sw.Assign.(type) {
	case *ast.AssignStmt:
		bindName, _ = a.Lhs[0].(*ast.Ident)
		subject = a.Rhs[0].(*ast.TypeAssertExpr).X
	case *ast.ExprStmt:
		subject = a.X.(*ast.TypeAssertExpr).X
	}
	sv := x.eval(pkg, subject, e)
	sp, ok := sv.(sPath)
	if !ok {
		x.fail(sw.Pos(), "type switch on a non-location")
	}
	var def *ast.CaseClause
	var clauses []*ast.CaseClause
	for _, st := range sw.Body.List {
		cc := st.(*ast.CaseClause)
		if cc.List == nil {
			def = cc
		} else {
			clauses = append(clauses, cc)
		}
	}
	// evaluate as a chain: each clause is a guarded branch whose else is the next clause
	var run func(i int, e *env) sym
	pre := e
	run = func(i int, cur *env) sym {
		if i == len(clauses) {
			if def == nil {
				return nil
			}
			inner := newEnv(cur)
			if bindName != nil {
				if o := pkg.TypesInfo.Implicits[def]; o != nil {
					inner.def(o, sp)
				}
			}
			r := x.execBlockT(pkg, def.Body, inner, tail && len(rest) == 0)
			return r
		}
		cc := clauses[i]
		if len(cc.List) != 1 {
			x.fail(cc.Pos(), "type switch case with several types")
		}
		tt := pkg.TypesInfo.TypeOf(cc.List[0])
		cond := GType{Path: sp.P, Type: typeName(tt)}
		thenEnv := cur.clone()
		inner := newEnv(thenEnv)
		if bindName != nil {
			if o := pkg.TypesInfo.Implicits[cc]; o != nil {
				inner.def(o, sPath{P: sp.P, T: tt})
			}
		}
		rThen := x.execBlockT(pkg, cc.Body, inner, tail && len(rest) == 0)
		elseEnv := cur.clone()
		rElse := run(i+1, elseEnv)
		switch {
		case rThen == nil && rElse == nil:
			joinEnv(cur, cond, thenEnv, elseEnv)
			return nil
		case rThen != nil && rElse != nil:
			return altSym(cond, rThen, rElse)
		case rThen != nil:
			// the else side falls through to the rest of the enclosing block
			joinEnv(cur, GConst{false}, thenEnv, elseEnv)
			rRest := x.execBlockT(pkg, rest, cur, tail)
			if rRest == nil {
				x.fail(cc.Pos(), "a type-switch case returns but the rest of the block does not")
			}
			x.tsDone = true
			return altSym(cond, rThen, rRest)
		default:
			joinEnv(cur, GConst{true}, thenEnv, elseEnv)
			rRest := x.execBlockT(pkg, rest, cur, tail)
			if rRest == nil {
				x.fail(cc.Pos(), "a type-switch case returns but the rest of the block does not")
			}
			x.tsDone = true
			return altSym(cond, rRest, rElse)
		}
	}
	x.tsDone = false
	r := run(0, pre)
	if r != nil {
		return r
	}
	return x.execBlockT(pkg, rest, e, tail)
}

// staticCallee resolves a call to a module function or a method on a concrete IR location.
func (x *Extractor) staticCallee(pkg *packages.Package, call *ast.CallExpr, e *env) (*types.Func, sym, bool) {
	info := pkg.TypesInfo
	switch fun := call.Fun.(type) {
	case *ast.Ident:
		if fn, ok := info.Uses[fun].(*types.Func); ok && x.decls[fn] != nil {
			return fn, nil, true
		}
	case *ast.SelectorExpr:
		if id, ok := fun.X.(*ast.Ident); ok {
			if _, isPkg := info.Uses[id].(*types.PkgName); isPkg {
				if fn, ok := info.Uses[fun.Sel].(*types.Func); ok && x.decls[fn] != nil {
					return fn, nil, true
				}
				return nil, nil, false
			}
		}
		if sel := info.Selections[fun]; sel != nil {
			if fn, ok := sel.Obj().(*types.Func); ok && x.decls[fn] != nil {
				if _, isIface := sel.Recv().Underlying().(*types.Interface); !isIface {
					return fn, x.eval(pkg, fun.X, e), true
				}
			}
		}
	}
	return nil, nil, false
}

func isBuilderPtr(t types.Type) bool {
	p, ok := t.Underlying().(*types.Pointer)
	if !ok {
		return false
	}
	ts := p.Elem().String()
	return ts == "strings.Builder" || ts == "bytes.Buffer"
}

// inlineEffects inlines a call used for its effect on accumulators handed over by pointer: inside the callee the
// parameter is a fresh accumulator; what the callee wrote is appended to the caller's accumulator afterwards.
func (x *Extractor) inlineEffects(fn *types.Func, recv sym, call *ast.CallExpr, pkg *packages.Package, e *env) sym {
	fd := x.decls[fn]
	fpkg := x.declPkg[fn]
	if x.active(fn) >= x.MaxDepth {
		x.fail(call.Pos(), "recursive effectful helper %s", fn.FullName())
	}
	ne := newEnv(nil)
	if fd.Recv != nil && len(fd.Recv.List) == 1 && len(fd.Recv.List[0].Names) == 1 && recv != nil {
		ne.def(fpkg.TypesInfo.Defs[fd.Recv.List[0].Names[0]], recv)
	}
	type out struct{ param, target types.Object }
	var outs []out
	i := 0
	for _, f := range fd.Type.Params.List {
		for _, n := range f.Names {
			if i >= len(call.Args) {
				x.fail(call.Pos(), "variadic or missing arguments")
			}
			po := fpkg.TypesInfo.Defs[n]
			arg := call.Args[i]
			i++
			if po == nil {
				continue
			}
			if isBuilderPtr(po.Type()) {
				// &sb or sb (already a pointer parameter of the caller)
				var id *ast.Ident
				switch a := arg.(type) {
				case *ast.UnaryExpr:
					id, _ = a.X.(*ast.Ident)
				case *ast.Ident:
					id = a
				}
				if id == nil {
					x.fail(arg.Pos(), "builder argument is not a variable")
				}
				target := pkg.TypesInfo.Uses[id]
				if _, ok := e.get(target); !ok {
					x.fail(arg.Pos(), "builder argument is not a known accumulator")
				}
				ne.def(po, sStr{T: Seq{}})
				outs = append(outs, out{po, target})
				continue
			}
			ne.def(po, x.eval(pkg, arg, e))
		}
	}
	x.stack = append(x.stack, fn)
	x.Funcs[fn.FullName()] = true
	r := x.execBlockT(fpkg, fd.Body.List, ne, true)
	x.stack = x.stack[:len(x.stack)-1]
	for _, o := range outs {
		cur, _ := e.get(o.target)
		acc, ok1 := cur.(sStr)
		wrote, ok2 := ne.vars[o.param].(sStr)
		if !ok1 || !ok2 {
			x.fail(call.Pos(), "accumulator lost in helper %s", fn.Name())
		}
		e.set(o.target, sStr{T: cat(acc.T, wrote.T)})
	}
	if _, void := r.(sVoid); void || r == nil {
		return sNone{}
	}
	return r
}
