package tpl

import (
	"fmt"
	"sort"
	"strings"
)

// Val is a valuation of the IR leaves a template's guards and holes mention. Paths are concrete
// ("f.Assignments[1].Contents[0].LHS"): Rep element patterns ("…[]") are instantiated while rendering.
type Val interface {
	Bool(path string) bool
	Str(path string) string     // text of a string field (empty string = empty)
	Len(path string) int        // length of a slice field
	Nil(path string) bool       // pointer field is nil
	DynType(path string) string // dynamic type name of an interface value
}

// Render produces the member of the grammar selected by v. It fails on Cut nodes that are reached
// (the valuation must not select more nesting than was unfolded).
func Render(t T, v Val) (string, error) {
	var sb strings.Builder
	r := &renderer{v: v, sb: &sb}
	if err := r.render(t, nil); err != nil {
		return "", err
	}
	return sb.String(), nil
}

type binding struct{ pattern, concrete string }

type renderer struct {
	v  Val
	sb *strings.Builder
}

func resolve(path string, bs []binding) string {
	// apply the innermost (longest) pattern that prefixes path, repeatedly from outermost to innermost
	for i := len(bs) - 1; i >= 0; i-- {
		b := bs[i]
		if strings.HasPrefix(path, b.pattern) {
			return b.concrete + path[len(b.pattern):] // patterns are in unresolved form; the innermost match is fully concrete
		}
	}
	return path
}

func (r *renderer) render(t T, bs []binding) error {
	switch n := t.(type) {
	case nil:
		return nil
	case Lit:
		r.sb.WriteString(n.S)
	case Hole:
		r.sb.WriteString(r.v.Str(resolve(n.Path, bs)))
	case Seq:
		for _, p := range n.Parts {
			if err := r.render(p, bs); err != nil {
				return err
			}
		}
	case Alt:
		c, err := EvalG(n.G, r.v, bs)
		if err != nil {
			return err
		}
		if c {
			return r.render(n.Then, bs)
		}
		return r.render(n.Else, bs)
	case Rep:
		over := resolve(n.Over, bs)
		cnt := r.v.Len(over)
		for i := 0; i < cnt; i++ {
			nb := append(append([]binding{}, bs...), binding{pattern: n.Elem, concrete: fmt.Sprintf("%s[%d]", over, i)})
			if err := r.render(n.Body, nb); err != nil {
				return err
			}
		}
	case Dyn:
		p := resolve(n.Path, bs)
		dt := r.v.DynType(p)
		impl, ok := n.Impls[dt]
		if !ok {
			return fmt.Errorf("valuation selects dynamic type %q at %s which has no template", dt, p)
		}
		return r.render(impl, bs)
	case Cut:
		return fmt.Errorf("recursion cut reached (%s): valuation nests deeper than the template was unfolded", n.Fn)
	default:
		return fmt.Errorf("unknown template node %T", t)
	}
	return nil
}

// EvalG evaluates a guard under a valuation.
func EvalG(g G, v Val, bs []binding) (bool, error) {
	switch n := g.(type) {
	case GConst:
		return n.V, nil
	case GLeaf:
		return v.Bool(resolve(n.Path, bs)), nil
	case GNot:
		x, err := EvalG(n.X, v, bs)
		return !x, err
	case GAnd:
		a, err := EvalG(n.A, v, bs)
		if err != nil || !a {
			return false, err
		}
		return EvalG(n.B, v, bs)
	case GOr:
		a, err := EvalG(n.A, v, bs)
		if err != nil || a {
			return a, err
		}
		return EvalG(n.B, v, bs)
	case GStrEq:
		return v.Str(resolve(n.Path, bs)) == n.Const, nil
	case GStrTest:
		str := v.Str(resolve(n.Path, bs))
		switch n.Op {
		case "HasPrefix":
			return strings.HasPrefix(str, n.Const), nil
		case "HasSuffix":
			return strings.HasSuffix(str, n.Const), nil
		default:
			return strings.Contains(str, n.Const), nil
		}
	case GNil:
		return v.Nil(resolve(n.Path, bs)), nil
	case GBoolEq:
		a, err := EvalG(n.A, v, bs)
		if err != nil {
			return false, err
		}
		b, err := EvalG(n.B, v, bs)
		return a == b, err
	case GType:
		return v.DynType(resolve(n.Path, bs)) == n.Type, nil
	case GDyn:
		p := resolve(n.Path, bs)
		impl, ok := n.Impls[v.DynType(p)]
		if !ok {
			return false, fmt.Errorf("no guard for dynamic type %q at %s", v.DynType(p), p)
		}
		return EvalG(impl, v, bs)
	case GIf:
		c, err := EvalG(n.C, v, bs)
		if err != nil {
			return false, err
		}
		if c {
			return EvalG(n.A, v, bs)
		}
		return EvalG(n.B, v, bs)
	case GCut:
		return false, fmt.Errorf("recursion cut reached in guard (%s)", n.Fn)
	case GAny:
		over := resolve(n.Over, bs)
		for i, cnt := 0, v.Len(over); i < cnt; i++ {
			nb := append(append([]binding{}, bs...), binding{pattern: n.Elem, concrete: fmt.Sprintf("%s[%d]", over, i)})
			ok, err := EvalG(n.Body, v, nb)
			if err != nil || ok {
				return ok, err
			}
		}
		return false, nil
	case GIdx:
		elem := resolve(n.Elem, bs) // outer bindings applied; the binding for this repetition has pattern == n.Elem (after outer resolution)
		for i := len(bs) - 1; i >= 0; i-- {
			if bs[i].pattern == n.Elem || bs[i].pattern == elem {
				c := bs[i].concrete
				lb := strings.LastIndex(c, "[")
				var idx int
				if _, err := fmt.Sscanf(c[lb:], "[%d]", &idx); err != nil {
					return false, fmt.Errorf("bad index binding %s", c)
				}
				switch n.Op {
				case "<":
					return idx < n.K, nil
				case ">":
					return idx > n.K, nil
				case "<=":
					return idx <= n.K, nil
				case ">=":
					return idx >= n.K, nil
				case "==":
					return idx == n.K, nil
				case "!=":
					return idx != n.K, nil
				}
			}
		}
		return false, fmt.Errorf("loop index of %s used outside its repetition", n.Elem)
	}
	return false, fmt.Errorf("unknown guard %T", g)
}

// Leaves collects the IR paths (patterns, with [] for slice elements) a template mentions, by kind.
type Leaves struct {
	Bools, Strs, Slices, Ptrs, Dyns, StrGuards map[string]bool
	Consts                                     map[string]map[string]bool // string path -> constants it is compared with
	Cuts                                       int
}

// CollectLeaves walks a template.
func CollectLeaves(t T) *Leaves {
	l := &Leaves{Bools: map[string]bool{}, Strs: map[string]bool{}, Slices: map[string]bool{}, Ptrs: map[string]bool{}, Dyns: map[string]bool{},
		StrGuards: map[string]bool{}, Consts: map[string]map[string]bool{}}
	var wt func(T)
	var wg func(G)
	wg = func(g G) {
		switch n := g.(type) {
		case GLeaf:
			l.Bools[n.Path] = true
		case GNot:
			wg(n.X)
		case GAnd:
			wg(n.A)
			wg(n.B)
		case GOr:
			wg(n.A)
			wg(n.B)
		case GStrEq:
			l.StrGuards[n.Path] = true
			if l.Consts[n.Path] == nil {
				l.Consts[n.Path] = map[string]bool{}
			}
			l.Consts[n.Path][n.Const] = true
		case GStrTest:
			l.StrGuards[n.Path] = true
			if l.Consts[n.Path] == nil {
				l.Consts[n.Path] = map[string]bool{}
			}
			l.Consts[n.Path][n.Op+":"+n.Const] = true
		case GNil:
			l.Ptrs[n.Path] = true
		case GBoolEq:
			wg(n.A)
			wg(n.B)
		case GType:
			l.Dyns[n.Path] = true
		case GDyn:
			l.Dyns[n.Path] = true
			for _, k := range sortedG(n.Impls) {
				wg(n.Impls[k])
			}
		case GIf:
			wg(n.C)
			wg(n.A)
			wg(n.B)
		case GCut:
			l.Cuts++
		case GAny:
			l.Slices[n.Over] = true
			wg(n.Body)
		}
	}
	wt = func(t T) {
		switch n := t.(type) {
		case Hole:
			l.Strs[n.Path] = true
		case Seq:
			for _, p := range n.Parts {
				wt(p)
			}
		case Alt:
			wg(n.G)
			wt(n.Then)
			wt(n.Else)
		case Rep:
			l.Slices[n.Over] = true
			wt(n.Body)
		case Dyn:
			l.Dyns[n.Path] = true
			for _, k := range ImplNames(n) {
				wt(n.Impls[k])
			}
		case Cut:
			l.Cuts++
		}
	}
	wt(t)
	return l
}

func sortedG(m map[string]G) []string {
	var ks []string
	for k := range m {
		ks = append(ks, k)
	}
	sort.Strings(ks)
	return ks
}

// String renders a template for diagnostics.
func String(t T) string {
	var sb strings.Builder
	var w func(T, int)
	w = func(t T, d int) {
		switch n := t.(type) {
		case Lit:
			fmt.Fprintf(&sb, "%q", n.S)
		case Hole:
			fmt.Fprintf(&sb, "<%s>", n.Path)
		case Seq:
			for i, p := range n.Parts {
				if i > 0 {
					sb.WriteString(" ")
				}
				w(p, d)
			}
		case Alt:
			fmt.Fprintf(&sb, "(%s ? ", GString(n.G))
			w(n.Then, d+1)
			sb.WriteString(" : ")
			w(n.Else, d+1)
			sb.WriteString(")")
		case Rep:
			fmt.Fprintf(&sb, "{%s: ", n.Over)
			w(n.Body, d+1)
			sb.WriteString("}*")
		case Dyn:
			fmt.Fprintf(&sb, "[%s as ", n.Path)
			for i, k := range ImplNames(n) {
				if i > 0 {
					sb.WriteString(" | ")
				}
				sb.WriteString(k + ": ")
				w(n.Impls[k], d+1)
			}
			sb.WriteString("]")
		case Cut:
			fmt.Fprintf(&sb, "CUT(%s)", n.Fn)
		}
	}
	w(t, 0)
	return sb.String()
}

// GString renders a guard.
func GString(g G) string {
	switch n := g.(type) {
	case GConst:
		return fmt.Sprint(n.V)
	case GLeaf:
		return n.Path
	case GStrTest:
		return fmt.Sprintf("%s(%s,%q)", n.Op, n.Path, n.Const)
	case GNot:
		return "!" + GString(n.X)
	case GAnd:
		return "(" + GString(n.A) + " && " + GString(n.B) + ")"
	case GOr:
		return "(" + GString(n.A) + " || " + GString(n.B) + ")"
	case GStrEq:
		return fmt.Sprintf("%s==%q", n.Path, n.Const)
	case GNil:
		return n.Path + "==nil"
	case GBoolEq:
		return "(" + GString(n.A) + " == " + GString(n.B) + ")"
	case GType:
		return n.Path + ".(" + n.Type + ")"
	case GDyn:
		var ps []string
		for _, k := range sortedG(n.Impls) {
			ps = append(ps, k+":"+GString(n.Impls[k]))
		}
		return "dyn(" + n.Path + "){" + strings.Join(ps, ",") + "}"
	case GIf:
		return "(" + GString(n.C) + " ? " + GString(n.A) + " : " + GString(n.B) + ")"
	case GCut:
		return "CUT"
	case GAny:
		return "any(" + n.Elem + "){" + GString(n.Body) + "}"
	case GIdx:
		return fmt.Sprintf("idx(%s)%s%d", n.Elem, n.Op, n.K)
	}
	return "?"
}
