module github.com/reedom/convergen

go 1.19
