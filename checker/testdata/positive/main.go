// Package main of the positive-control module: tiny constructs that MUST be reported by the rules whose expected
// number of findings on the real tree is zero. It is never built or run; the checker loads it with go/packages and
// asserts that each named detector fires (a detector that stopped matching anything would otherwise pass forever).
package main

import "github.com/reedom/convergen/pkg/runner"

func main() { _ = runner.Run("x") }
