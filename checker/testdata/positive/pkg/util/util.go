package util

import "go/ast"

// Detach: a doc link set to nil without testing that very group (control for the doc-detach rule).
func Detach(f *ast.File) {
	if len(f.Comments) == 0 {
		f.Doc = nil
	}
}
