package runner

import (
	"os"
	"sort"
)

// Run: a deferred function overwrites the error result unconditionally (control for C14-13 / C15-3).
func Run(path string) (err error) {
	f, ferr := os.Open(path)
	if ferr != nil {
		return ferr
	}
	defer func() { err = f.Close() }()
	_, err = f.Stat()
	return err
}

// Spawn: goroutine and channel use (control for C13-1 concurrency).
func Spawn() int {
	ch := make(chan int)
	go func() { ch <- 1 }()
	return <-ch
}

// FirstKey: first match over a map wins (control for C13-2).
func FirstKey(m map[string]int) string {
	for k := range m {
		return k
	}
	return ""
}

// Keys: collected but never sorted before use (control for C13-2's collect idiom).
func Keys(m map[string]int) []string {
	var ks []string
	for k := range m {
		ks = append(ks, k)
	}
	return ks
}

// SortedKeys: the accepted idiom (must NOT be reported).
func SortedKeys(m map[string]int) []string {
	var ks []string
	for k := range m {
		ks = append(ks, k)
	}
	sort.Strings(ks)
	return ks
}

// At: a variable index without a bound (control for C14-12).
func At(xs []string, i int) string {
	if i < 0 {
		return ""
	}
	if len(xs) < i { // off by one: i == len(xs) passes
		return ""
	}
	return xs[i]
}

// Uniq: the search flag is declared outside the element loop (control for the search-flag rule).
func Uniq(xs, seen []string) []string {
	var out []string
	dup := false
	for _, x := range xs {
		for _, s := range seen {
			if s == x {
				dup = true
				break
			}
		}
		if !dup {
			out = append(out, x)
		}
	}
	return out
}

// UniqOK: the accepted form (must NOT be reported).
func UniqOK(xs, seen []string) []string {
	var out []string
	for _, x := range xs {
		dup := false
		for _, s := range seen {
			if s == x {
				dup = true
				break
			}
		}
		if !dup {
			out = append(out, x)
		}
	}
	return out
}
