//go:build convergen

package literal

type A struct{ X int }
type B struct {
	X    int
	Kind string
}

type Convergen interface {
	// :literal Kind "fixed
	AtoB(*A) *B
}
