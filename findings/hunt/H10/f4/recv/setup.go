//go:build convergen

package recv

type Type struct{ X int }
type B struct{ X int }

type Convergen interface {
	// :recv type
	ToB(*Type) *B
}
