#!/bin/bash
# usage: run.sh <repository root>
# exit 1 = property violated, 0 = not violated
export GOFLAGS=-mod=mod GOPROXY=off GOSUMDB=off GOTOOLCHAIN=local; unset GOWORK
set -u
repo=$(cd "$1" && pwd)
here=$(cd "$(dirname "$0")" && pwd)
tmp=$(mktemp -d)
trap 'rm -rf "$tmp"' EXIT
(cd "$repo" && go build -o "$tmp/convergen" .) || { echo "build failed"; exit 2; }
mkdir "$tmp/play" && cp -r "$here"/go.mod "$here"/literal "$here"/recv "$tmp/play/"
bad=0

check() { # dir, line of the offending notation, description
  cd "$tmp/play/$1"
  "$tmp/convergen" -dry setup.go >"$tmp/out.txt" 2>"$tmp/err.txt"
  rc=$?
  first=$(head -n 1 "$tmp/err.txt")
  echo "[$1] exit status: $rc"
  echo "[$1] stderr:"; sed 's/^/    /' "$tmp/err.txt"
  if [ $rc -eq 0 ]; then
    echo "[$1] run succeeded - nothing to check"; return
  fi
  # C14: the message for a notation error starts with file:line:column of the offending item
  if ! printf '%s\n' "$first" | grep -Eq "^(/[^:]*/)?setup\.go:$2:[0-9]+: "; then
    echo "VIOLATION [$1]: $3"
    echo "  observed: message starts with '$first' (no position in setup.go; the only position given lies in setup.gen.go, which is not even written in a dry run)"
    echo "  expected: message starting with <path>/setup.go:$2:<column>: (the position of the notation)"
    bad=1
  fi
}
check literal 12 'malformed :literal value ("fixed - unterminated string)'
check recv 9 'malformed :recv value (the keyword "type" is not an identifier)'
[ $bad -eq 0 ] && echo ok
exit $bad
