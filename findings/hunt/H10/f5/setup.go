//go:build convergen

package play

type A struct{ X int }
type B struct{ X int }

//go:generate go run github.com/reedom/convergen
type (
	// Convergen is the converter definition.
	Convergen interface {
		AtoB(*A) *B
	}
)
