#!/bin/bash
# usage: run.sh <repository root>
# exit 1 = property violated, 0 = not violated
export GOFLAGS=-mod=mod GOPROXY=off GOSUMDB=off GOTOOLCHAIN=local; unset GOWORK
set -u
repo=$(cd "$1" && pwd)
here=$(cd "$(dirname "$0")" && pwd)
tmp=$(mktemp -d)
trap 'rm -rf "$tmp"' EXIT
(cd "$repo" && go build -o "$tmp/convergen" .) || { echo "build failed"; exit 2; }
mkdir "$tmp/play" && cp "$here"/go.mod "$here"/setup.go "$tmp/play/"
cd "$tmp/play"

"$tmp/convergen" -dry -print setup.go >"$tmp/out.txt" 2>"$tmp/err.txt"
rc=$?
echo "exit status: $rc"
echo "--- stderr (first 12 lines)"; head -n 12 "$tmp/err.txt"
if grep -q '^panic: ' "$tmp/err.txt" || grep -q '^goroutine 1 \[running\]' "$tmp/err.txt"; then
  echo "VIOLATION: convergen panicked"
  echo "  observed: $(grep -m1 '^panic: ' "$tmp/err.txt") (exit status $rc)"
  echo "  expected: generated code, or exit status 1 with a diagnostic - never a panic"
  exit 1
fi
echo "ok (no panic)"
exit 0
