#!/bin/bash
# usage: run.sh <repository root>
# exit 1 = property violated, 0 = not violated
export GOFLAGS=-mod=mod GOPROXY=off GOSUMDB=off GOTOOLCHAIN=local; unset GOWORK
set -u
repo=$(cd "$1" && pwd)
here=$(cd "$(dirname "$0")" && pwd)
tmp=$(mktemp -d)
trap 'rm -rf "$tmp"' EXIT
(cd "$repo" && go build -o "$tmp/convergen" .) || { echo "build failed"; exit 2; }
mkdir "$tmp/play" && cp "$here"/go.mod "$here"/setup.go "$tmp/play/"
cd "$tmp/play"

"$tmp/convergen" -dry -print setup.go >"$tmp/out.txt" 2>"$tmp/err.txt"
rc=$?
echo "exit status: $rc"
echo "--- stderr"; cat "$tmp/err.txt"
echo "--- generated functions"; grep '^func ' "$tmp/out.txt"

if [ $rc -eq 0 ] && ! grep -q '^func BtoA(' "$tmp/out.txt"; then
  echo "VIOLATION: setup.go marks interface More with :convergen (method BtoA);"
  echo "  observed: exit 0, no diagnostic, no func BtoA in the output (interface More is copied to the output as is)"
  echo "  expected: func BtoA generated, or a non-zero exit with a diagnostic"
  exit 1
fi
echo "ok"
exit 0
