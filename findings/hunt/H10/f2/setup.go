//go:build convergen

package play

type A struct{ X int }
type B struct{ X int }

type Convergen interface {
	AtoB(*A) *B
}

// The rest of this file was produced from a template; the directive makes
// compiler messages point at the template (a legal and common Go idiom).
//
//line setup.tmpl:12

// :convergen
type More interface {
	BtoA(*B) *A
}
