//go:build convergen

package play

type A struct{ X int }
type B struct{ X int }

// First setup file of the package.
type Convergen interface {
	AtoB(*A) *B
}
