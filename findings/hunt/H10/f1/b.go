//go:build convergen

package play

type C struct{ Y int }
type D struct{ Y int }

// Second setup file of the same package: it has its own Convergen interface,
// exactly like the first one, plus a second converter interface.
type Convergen interface {
	CtoD(*C) *D
}

// :convergen
type More interface {
	DtoC(*D) *C
}
