//go:build convergen

package dup

type A struct{ X int }
type B struct{ X int }
type D struct{ X int }

// Two methods with the same name but different receivers, put into ONE
// interface (the README wants them in two interfaces).
type Convergen interface {
	// :recv a
	ToD(*A) *D
	// :recv b
	ToD(*B) *D
}
