//go:build convergen

package embed

type A struct{ X int }
type B struct{ X int }

type baseConverters interface {
	BtoA(*B) *A
}

type Convergen interface {
	baseConverter // misspelled: the declared name is baseConverters
	AtoB(*A) *B
}
