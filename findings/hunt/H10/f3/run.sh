#!/bin/bash
# usage: run.sh <repository root>
# exit 1 = property violated, 0 = not violated
export GOFLAGS=-mod=mod GOPROXY=off GOSUMDB=off GOTOOLCHAIN=local; unset GOWORK
set -u
repo=$(cd "$1" && pwd)
here=$(cd "$(dirname "$0")" && pwd)
tmp=$(mktemp -d)
trap 'rm -rf "$tmp"' EXIT
(cd "$repo" && go build -o "$tmp/convergen" .) || { echo "build failed"; exit 2; }
mkdir "$tmp/play" && cp -r "$here"/go.mod "$here"/dup "$here"/embed "$tmp/play/"
bad=0

cd "$tmp/play/dup"
"$tmp/convergen" -dry -print setup.go >"$tmp/out1.txt" 2>"$tmp/err1.txt"
rc=$?
n=$(grep -c '^func .*ToD(' "$tmp/out1.txt")
echo "[dup] exit status: $rc, stderr: $(cat "$tmp/err1.txt")"
echo "[dup] generated: $(grep '^func ' "$tmp/out1.txt")"
if [ $rc -eq 0 ] && [ "$n" -lt 2 ]; then
  echo "VIOLATION [dup]: the interface declares two methods (ToD(*A) *D and ToD(*B) *D);"
  echo "  observed: exit 0, empty stderr, $n function(s) generated"
  echo "  expected: 2 functions, or a non-zero exit with a diagnostic at the duplicate method"
  bad=1
fi

cd "$tmp/play/embed"
"$tmp/convergen" -dry -print setup.go >"$tmp/out2.txt" 2>"$tmp/err2.txt"
rc=$?
echo "[embed] exit status: $rc, stderr: $(cat "$tmp/err2.txt")"
echo "[embed] generated: $(grep '^func ' "$tmp/out2.txt")"
if [ $rc -eq 0 ] && ! grep -q '^func BtoA(' "$tmp/out2.txt"; then
  echo "VIOLATION [embed]: Convergen embeds an interface that cannot be resolved (baseConverter);"
  echo "  observed: exit 0, empty stderr, the embedded methods are silently absent"
  echo "  expected: a non-zero exit with a diagnostic at the unresolved embedded type (setup.go:13:2)"
  bad=1
fi
[ $bad -eq 0 ] && echo ok
exit $bad
