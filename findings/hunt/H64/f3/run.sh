#!/bin/sh
# f3 - property B (C15): with GOFLAGS=-mod=mod in the environment a run (even -dry, even a failing one)
# lets the go command it starts rewrite go.mod of the module that holds the setup file.
# usage: run.sh <repository root>     exit 1 = property violated, 0 = holds, 2 = could not run
root=${1:?usage: run.sh <repository root>}
root=$(cd "$root" 2>/dev/null && pwd) || exit 2
export GOFLAGS=-mod=mod GOPROXY=off GOSUMDB=off GOTOOLCHAIN=local
unset GOWORK
T=$(mktemp -d) || exit 2
trap 'rm -rf "$T"' EXIT INT TERM
(cd "$root" && go build -o "$T/convergen" .) >"$T/build.log" 2>&1 || { cat "$T/build.log"; exit 2; }

mkdir -p "$T/play/p"
# a go.mod without a go directive (modules created before Go 1.12, or written by hand)
printf 'module play\n' >"$T/play/go.mod"
cat >"$T/play/p/setup.go" <<'EOS'
//go:build convergen

package p

type Src struct{ A int }
type Dst struct{ A int }

type Convergen interface {
	Copy(*Src) *Dst
}
EOS
cat >"$T/play/p/broken.go" <<'EOS'
//go:build convergen

package p

type NoConvergenHere struct{}
EOS
cd "$T/play/p" || exit 2
snapshot() { (cd "$T/play" && find . -type f | LC_ALL=C sort | while read -r f; do printf '%s ' "$f"; cksum <"$f"; done); }

bad=0
before=$(snapshot)
"$T/convergen" -dry setup.go >"$T/run.out" 2>&1
rc=$?
[ $rc -eq 0 ] || { echo "dry run failed"; cat "$T/run.out"; exit 2; }
after=$(snapshot)
if [ "$before" != "$after" ]; then
	echo "VIOLATION: a -dry run (exit $rc) changed the module tree; go.mod is now:"
	sed 's/^/    /' "$T/play/go.mod"
	bad=1
else
	echo "ok: -dry run changed nothing"
fi

printf 'module play\n' >"$T/play/go.mod"
before=$(snapshot)
"$T/convergen" broken.go >"$T/run.out" 2>&1
rc=$?
after=$(snapshot)
if [ $rc -ne 0 ] && [ "$before" != "$after" ]; then
	echo "VIOLATION: a failing run (exit $rc: $(head -1 "$T/run.out")) changed the module tree; go.mod is now:"
	sed 's/^/    /' "$T/play/go.mod"
	bad=1
elif [ $rc -ne 0 ]; then
	echo "ok: failing run changed nothing"
fi
exit $bad
