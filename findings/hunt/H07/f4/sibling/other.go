//go:build convergen

package play

// This file is NOT the input file; the line directive merely names the input file.
//line setup.go:100
type Convergen interface {
	B(*Src) *Dst
}
