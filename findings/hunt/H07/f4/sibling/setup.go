//go:build convergen

package play

// :convergen
type Mine interface {
	// :typecast
	A(*Src) *Dst
}
