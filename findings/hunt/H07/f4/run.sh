#!/bin/sh
# usage: run.sh <repository root>
# exit 1: property C17 violated, exit 0: not violated, exit 2: could not build/run
export GOFLAGS=-mod=mod GOPROXY=off GOSUMDB=off GOTOOLCHAIN=local
unset GOWORK
[ -n "$1" ] || { echo "usage: run.sh <repository root>"; exit 2; }
ROOT=$(cd "$1" && pwd) || exit 2
HERE=$(cd "$(dirname "$0")" && pwd)
TMP=$(mktemp -d) || exit 2
trap 'rm -rf "$TMP"' EXIT
(cd "$ROOT" && go build -o "$TMP/convergen" .) || { echo "build failed"; exit 2; }
for d in reject silent sibling control; do
	cp -r "$HERE/$d" "$TMP/$d"
	(cd "$TMP/$d" && "$TMP/convergen" -dry -print setup.go >"$TMP/$d.out" 2>"$TMP/$d.err"; echo $? >"$TMP/$d.rc")
done
funcs() { grep -o '^func [A-Za-z]*' "$1" | tr '\n' ' '; }
bad=0

if [ "$(cat "$TMP/control.rc")" != 0 ] || [ "$(funcs "$TMP/control.out")" != "func A func B " ]; then
	echo "control (no line directives) did not produce A and B; cannot judge"; exit 2
fi
echo "control: without line directives -> exit 0, functions A and B"

rc=$(cat "$TMP/reject.rc")
if [ "$rc" != 0 ] || ! grep -q '^func A(' "$TMP/reject.out"; then
	echo "VIOLATION (reject): the input file declares Convergen after a //line directive; expected func A, observed exit $rc:"
	sed 's/^/    /' "$TMP/reject.err"
	bad=1
else echo "reject: ok"; fi

rc=$(cat "$TMP/silent.rc")
if [ "$rc" != 0 ] || ! grep -q '^func B(' "$TMP/silent.out" || grep -q '^type Second interface' "$TMP/silent.out"; then
	echo "VIOLATION (silent): expected functions A and B; observed exit $rc, functions: $(funcs "$TMP/silent.out")"
	echo "  the :convergen-marked interface Second is carried over as if it were unmarked:"
	grep -n -B2 -A2 '^type Second' "$TMP/silent.out" | sed 's/^/    /'
	bad=1
else echo "silent: ok"; fi

rc=$(cat "$TMP/sibling.rc")
if [ "$rc" != 0 ] || grep -q '^func B(' "$TMP/sibling.out" || ! grep -q '^func A(' "$TMP/sibling.out"; then
	echo "VIOLATION (sibling): expected exit 0 with func A only (Convergen lives in other.go); observed exit $rc,"
	echo "  functions in the (unformatted) output: $(funcs "$TMP/sibling.out")"
	sed 's/^/    /' "$TMP/sibling.err"
	bad=1
else echo "sibling: ok"; fi
exit $bad
