//go:build convergen

package play

//line setup.tmpl:10
type Convergen interface {
	// :typecast
	A(*Src) *Dst
}
