//go:build convergen

package play

type Convergen interface {
	// :typecast
	A(*Src) *Dst
}

// :convergen
type Second interface {
	B(*Src) *Dst
}
