//go:build convergen

package play

type Convergen interface {
	// :typecast
	A(*Src) *Dst
}

/*line conv.tmpl:1:1*/
// :convergen
type Second interface {
	B(*Src) *Dst
}
