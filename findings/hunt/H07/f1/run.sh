#!/bin/sh
# usage: run.sh <repository root>
# exit 1: property C17 violated, exit 0: not violated, exit 2: could not build/run
export GOFLAGS=-mod=mod GOPROXY=off GOSUMDB=off GOTOOLCHAIN=local
unset GOWORK
[ -n "$1" ] || { echo "usage: run.sh <repository root>"; exit 2; }
ROOT=$(cd "$1" && pwd) || exit 2
HERE=$(cd "$(dirname "$0")" && pwd)
TMP=$(mktemp -d) || exit 2
trap 'rm -rf "$TMP"' EXIT
(cd "$ROOT" && go build -o "$TMP/convergen" .) || { echo "build failed"; exit 2; }
for d in grouped panic control; do cp -r "$HERE/$d" "$TMP/$d"; done

bad=0
run() { # $1 = dir
	(cd "$TMP/$1" && "$TMP/convergen" -dry -print setup.go >"$TMP/$1.out" 2>"$TMP/$1.err"; echo $? >"$TMP/$1.rc")
}

run control
if [ "$(cat "$TMP/control.rc")" != 0 ] || ! grep -q '^func A(' "$TMP/control.out" || ! grep -q '^type Other interface' "$TMP/control.out"; then
	echo "control (ungrouped declarations) did not behave as expected; cannot judge"; cat "$TMP/control.err"; exit 2
fi
echo "control: ungrouped declarations -> exit 0, func A generated, Other kept"

run grouped
rc=$(cat "$TMP/grouped.rc")
if [ "$rc" != 0 ] || ! grep -q '^func A(' "$TMP/grouped.out" || ! grep -q 'Other interface' "$TMP/grouped.out"; then
	echo "VIOLATION (grouped): expected exit 0 with func A and interface Other carried over;"
	echo "  observed exit $rc, stderr:"; sed 's/^/    /' "$TMP/grouped.err"
	echo "  stdout (unformatted intermediate code, note 'type (' followed by 'func' and the missing Other):"; sed 's/^/    /' "$TMP/grouped.out"
	bad=1
else
	echo "grouped: ok"
fi

run panic
rc=$(cat "$TMP/panic.rc")
if grep -q '^panic:' "$TMP/panic.err" || [ "$rc" != 0 ]; then
	echo "VIOLATION (panic): expected exit 0 with func A; observed exit $rc:"
	head -n 6 "$TMP/panic.err" | sed 's/^/    /'
	bad=1
else
	echo "panic: ok"
fi
exit $bad
