//go:build convergen

package play

//go:generate go run github.com/reedom/convergen
type (
	// :convergen
	Conv interface {
		// :typecast
		A(*Src) *Dst
	}
)
