//go:build convergen

package play

// A parenthesised type declaration: legal Go, commonly produced by hand and by tools.
type (
	Convergen interface {
		// :typecast
		A(*Src) *Dst
	}

	// Other is not a converter and has to survive verbatim.
	Other interface {
		Foo() int
	}
)
