//go:build convergen

package play

// The same declarations as in grouped/setup.go, written without parentheses.
type Convergen interface {
	// :typecast
	A(*Src) *Dst
}

// Other is not a converter and has to survive verbatim.
type Other interface {
	Foo() int
}
