//go:build convergen

package play

// setup file 1 of the package
type Convergen interface {
	// :typecast
	UserToDst(*Src) *Dst
}
