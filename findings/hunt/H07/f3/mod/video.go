//go:build convergen

package play

// setup file 2 of the package
type Convergen interface {
	// :typecast
	VideoToDst(*Src) *Dst
}
