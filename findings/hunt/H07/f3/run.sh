#!/bin/sh
# usage: run.sh <repository root>
# exit 1: property C17 violated, exit 0: not violated, exit 2: could not build/run
export GOFLAGS=-mod=mod GOPROXY=off GOSUMDB=off GOTOOLCHAIN=local
unset GOWORK
[ -n "$1" ] || { echo "usage: run.sh <repository root>"; exit 2; }
ROOT=$(cd "$1" && pwd) || exit 2
HERE=$(cd "$(dirname "$0")" && pwd)
TMP=$(mktemp -d) || exit 2
trap 'rm -rf "$TMP"' EXIT
(cd "$ROOT" && go build -o "$TMP/convergen" .) || { echo "build failed"; exit 2; }
cp -r "$HERE/mod" "$TMP/mod"; cd "$TMP/mod" || exit 2

bad=0
for f in user video; do
	"$TMP/convergen" -dry -print $f.go >"$TMP/$f.out" 2>"$TMP/$f.err"; rc=$?
	fn=$(grep -o '^func [A-Za-z]*' "$TMP/$f.out" | tr '\n' ' ')
	echo "both files present, input $f.go: exit $rc, functions: ${fn:-none}"
	if [ $rc != 0 ]; then sed 's/^/    /' "$TMP/$f.err"; bad=1; fi
done

# control: each file on its own is accepted
for f in user video; do
	mkdir "$TMP/only_$f"; cp go.mod types.go $f.go "$TMP/only_$f/"
	(cd "$TMP/only_$f" && "$TMP/convergen" -dry -print $f.go >/dev/null 2>&1) || { echo "control failed for $f.go alone"; exit 2; }
done
echo "control: user.go alone and video.go alone are both accepted"

# variant: the shadowed input file also holds a second, :convergen-marked interface -> exit 0, silent drop
cp -r "$HERE/mod2" "$TMP/mod2"; cd "$TMP/mod2" || exit 2
"$TMP/convergen" -dry -print video.go >"$TMP/v2.out" 2>"$TMP/v2.err"; rc=$?
fn=$(grep -o '^func [A-Za-z]*' "$TMP/v2.out" | tr '\n' ' ')
echo "mod2 (video.go with Convergen and Extra), input video.go: exit $rc, functions: ${fn:-none}"
if [ $rc != 0 ] || ! grep -q '^func VideoToDst(' "$TMP/v2.out" || grep -q '^type Convergen interface' "$TMP/v2.out"; then
	echo "VIOLATION (mod2): expected functions VideoToDst and ExtraToDst and no interface left over; observed exit $rc,"
	echo "  VideoToDst is missing and the interface Convergen of the input file is carried over like an unmarked one:"
	sed 's/^/    /' "$TMP/v2.out"
	bad=1
fi

if [ $bad = 1 ]; then
	echo "VIOLATION: the input file declares an interface named Convergen, yet it is rejected ('Convergen interface not found')"
	echo "  because a sibling file that sorts before it declares one too; expected: the sibling's interface is ignored and"
	echo "  the functions of the input file's interface are generated (as happens for the file that sorts first)."
fi
exit $bad
