//go:build convergen

package play

// Base is an ordinary, unmarked interface of the setup file.
type Base interface {
	// :typecast
	A(*Src) *Dst
}

// :convergen
type Conv = Base
