//go:build convergen

package play

// Base is an ordinary, unmarked interface of the setup file.
type Base interface {
	// A converts a Src.
	// :typecast
	A(*Src) *Dst
}

// :convergen
type Conv interface {
	Base
	// :typecast
	B(*Src) *Dst
}
