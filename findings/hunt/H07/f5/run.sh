#!/bin/sh
# usage: run.sh <repository root>
# exit 1: property C17 violated, exit 0: not violated, exit 2: could not build/run
export GOFLAGS=-mod=mod GOPROXY=off GOSUMDB=off GOTOOLCHAIN=local
unset GOWORK
[ -n "$1" ] || { echo "usage: run.sh <repository root>"; exit 2; }
ROOT=$(cd "$1" && pwd) || exit 2
HERE=$(cd "$(dirname "$0")" && pwd)
TMP=$(mktemp -d) || exit 2
trap 'rm -rf "$TMP"' EXIT
(cd "$ROOT" && go build -o "$TMP/convergen" .) || { echo "build failed"; exit 2; }
for d in embed defined alias; do
	cp -r "$HERE/$d" "$TMP/$d"
	(cd "$TMP/$d" && "$TMP/convergen" -dry -print setup.go >"$TMP/$d.out" 2>"$TMP/$d.err"; echo $? >"$TMP/$d.rc")
done
bad=0

# embed: the unmarked interface Base must be carried over untouched
iface() { awk '/^type Base interface/ {p=1} p {print} p && /^}/ {exit}' "$1" | sed 's/^[ \t]*//' | grep -v '^$'; }
iface "$HERE/embed/setup.go" >"$TMP/base.in"
iface "$TMP/embed.out" >"$TMP/base.out"
rc=$(cat "$TMP/embed.rc")
if [ "$rc" != 0 ] || ! cmp -s "$TMP/base.in" "$TMP/base.out"; then
	echo "VIOLATION (embed): exit $rc; the unmarked interface Base is not carried over untouched:"
	diff "$TMP/base.in" "$TMP/base.out" | sed 's/^/    /'
	bad=1
else echo "embed: ok"; fi

for d in defined alias; do
	rc=$(cat "$TMP/$d.rc")
	if [ "$rc" != 0 ] || ! grep -q '^func A(' "$TMP/$d.out" || ! grep -q '^type Base interface' "$TMP/$d.out"; then
		echo "VIOLATION ($d): expected exit 0, func A generated for the marked interface Conv and Base kept; observed exit $rc:"
		sed 's/^/    /' "$TMP/$d.err"
		echo "  start of the intermediate code on stdout:"; head -n 14 "$TMP/$d.out" | sed 's/^/    /'
		bad=1
	else echo "$d: ok"; fi
done
exit $bad
