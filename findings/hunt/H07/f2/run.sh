#!/bin/sh
# usage: run.sh <repository root>
# exit 1: property violated, exit 0: not violated, exit 2: could not build/run
export GOFLAGS=-mod=mod GOPROXY=off GOSUMDB=off GOTOOLCHAIN=local
unset GOWORK
[ -n "$1" ] || { echo "usage: run.sh <repository root>"; exit 2; }
ROOT=$(cd "$1" && pwd) || exit 2
HERE=$(cd "$(dirname "$0")" && pwd)
TMP=$(mktemp -d) || exit 2
trap 'rm -rf "$TMP"' EXIT
(cd "$ROOT" && go build -o "$TMP/convergen" .) || { echo "build failed"; exit 2; }
for d in pkgdoc leak_ab leak_b dropped; do
	cp -r "$HERE/$d" "$TMP/$d"
	(cd "$TMP/$d" && "$TMP/convergen" -dry -print setup.go >"$TMP/$d.out" 2>"$TMP/$d.err") || {
		echo "$d: unexpected failure"; cat "$TMP/$d.err"; exit 2; }
done
bad=0

# 1. the package doc comment must appear once (above the package clause), not above generated functions
n=$(grep -c '^// Package play holds' "$TMP/pkgdoc.out")
if [ "$n" != 1 ]; then
	echo "VIOLATION (pkgdoc): the package doc comment occurs $n times in the output, expected once;"
	echo "  it has become the doc comment of every generated function whose method has no doc comment:"
	grep -n -A1 '^// Package play holds' "$TMP/pkgdoc.out" | sed 's/^/    /'
	bad=1
else
	echo "pkgdoc: ok"
fi

# 2. non-interference: B generated next to A must equal B generated alone
body() { awk -v f="$1" '$0 ~ "^func " f "\\(" {p=1} p {print} p && /^}/ {exit}' "$2"; }
body B "$TMP/leak_ab.out" >"$TMP/B_with_A"
body B "$TMP/leak_b.out" >"$TMP/B_alone"
if ! cmp -s "$TMP/B_with_A" "$TMP/B_alone"; then
	echo "VIOLATION (leak): function B differs depending on the presence of method A (C09 non-interference):"
	echo "  B generated next to A:"; sed 's/^/    /' "$TMP/B_with_A"
	echo "  B generated alone:";     sed 's/^/    /' "$TMP/B_alone"
	bad=1
else
	echo "leak: ok"
fi

# 3. (informational) the package doc comment is deleted when the converter interface has no doc comment
if ! grep -q '^// Package play holds' "$TMP/dropped.out"; then
	echo "VIOLATION (dropped): the package doc comment is missing from the output although it is not a doc comment of the converter interface"
	bad=1
else
	echo "dropped: ok"
fi
exit $bad
