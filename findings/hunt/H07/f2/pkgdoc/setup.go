//go:build convergen

// Package play holds the converters between the storage and the domain model.
package play

// Convergen lists the converters.
type Convergen interface {
	// A has its own doc comment.
	A(*Src) *Dst
	B(*Src) *Dst
	C(*Src) *Dst
}
