//go:build convergen

// Package play holds the converters.
// :typecast
package play

// :convergen
type Conv interface {
	B(*Src) *Dst
}
