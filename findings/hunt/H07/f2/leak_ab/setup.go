//go:build convergen

// Package play holds the converters.
// :typecast
package play

// :convergen
type Conv interface {
	A(*Src) *Dst
	B(*Src) *Dst
}
