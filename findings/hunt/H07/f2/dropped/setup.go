//go:build convergen

// Package play holds the converters between the storage and the domain model.
package play

type Convergen interface {
	A(*Src) *Dst
}
