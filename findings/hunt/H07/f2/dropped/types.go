package play

type Src struct {
	ID   int
	Name string
}

type Dst struct {
	ID   int64
	Name string
}
