#!/bin/bash
# f1: a type alias (declared in the setup file's package) for a struct of a package the setup
# file itself does not import is written without package qualifier in the generated signature.
# exit 1 = property violated, 0 = not violated, 2 = could not run
set -u
ROOT=${1:?usage: run.sh <repository root>}
ROOT=$(cd "$ROOT" 2>/dev/null && pwd) || { echo "no such directory: $1"; exit 2; }
export GOFLAGS=-mod=mod GOPROXY=off GOSUMDB=off GOTOOLCHAIN=local
unset GOWORK
TMP=$(mktemp -d) || exit 2
trap 'rm -rf "$TMP"' EXIT

(cd "$ROOT" && go build -o "$TMP/convergen" .) >"$TMP/build.log" 2>&1 || { cat "$TMP/build.log"; echo "cannot build the tool"; exit 2; }

M="$TMP/play"
mkdir -p "$M/model"
cat > "$M/go.mod" <<'EOT'
module play

go 1.19
EOT
cat > "$M/model/model.go" <<'EOT'
package model

type User struct {
	ID   int
	Name string
}
EOT
# An ordinary file of the package: it imports play/model and re-exports User under an alias.
cat > "$M/types.go" <<'EOT'
package play

import "play/model"

type U = model.User

type Dst struct {
	ID   int
	Name string
}
EOT
# The setup file only uses names of its own package, so it has no import of play/model.
cat > "$M/setup.go" <<'EOT'
//go:build convergen

package play

type Convergen interface {
	ToDst(*U) *Dst
	FromDst(*Dst) *U
}
EOT

cd "$M" || exit 2
# sanity: the input itself is well-typed
go vet -tags convergen ./... >"$TMP/vet.log" 2>&1 || { cat "$TMP/vet.log"; echo "input does not type-check?"; exit 2; }

"$TMP/convergen" setup.go >"$TMP/out.log" 2>"$TMP/err.log"
rc=$?
if [ $rc -ne 0 ]; then
	echo "VIOLATION (B): well-formed setup file rejected, exit=$rc"
	cat "$TMP/err.log"
	exit 1
fi
[ -f setup.gen.go ] || { echo "VIOLATION (B): exit 0 but no output file"; exit 1; }
if ! go build ./... >"$TMP/gobuild.log" 2>&1; then
	echo "VIOLATION (B): convergen exited 0 but the generated file does not compile:"
	cat "$TMP/gobuild.log"
	echo "--- generated functions:"
	grep '^func' setup.gen.go
	exit 1
fi
n=$(grep -c '^func ' setup.gen.go)
if [ "$n" -ne 2 ]; then
	echo "VIOLATION (B): expected 2 functions, found $n"
	exit 1
fi
echo "ok: output compiles, 2 functions"
exit 0
