#!/bin/bash
# f2: the generated file depends on the directory the process is started in: imports are
# "optimized" by golang.org/x/tools/imports with the go command running in the process's
# working directory. Started outside the module, needed imports are dropped / not added.
# exit 1 = property violated, 0 = not violated, 2 = could not run
set -u
ROOT=${1:?usage: run.sh <repository root>}
ROOT=$(cd "$ROOT" 2>/dev/null && pwd) || { echo "no such directory: $1"; exit 2; }
export GOFLAGS=-mod=mod GOPROXY=off GOSUMDB=off GOTOOLCHAIN=local
unset GOWORK
TMP=$(mktemp -d) || exit 2
trap 'rm -rf "$TMP"' EXIT

(cd "$ROOT" && go build -o "$TMP/convergen" .) >"$TMP/build.log" 2>&1 || { cat "$TMP/build.log"; echo "cannot build the tool"; exit 2; }

M="$TMP/play"
mkdir -p "$M/models" "$M/third" "$M/a" "$M/b" "$TMP/elsewhere"
cat > "$M/go.mod" <<'EOT'
module play

go 1.19
EOT
# Directory "models", package name "model" (as with .../go-foo, .../v2, gopkg.in/yaml.v3 ...).
cat > "$M/models/m.go" <<'EOT'
package model

import "play/third"

type Src struct {
	ID   int
	Tags []third.Tag
}

type Dst struct {
	ID   int
	Tags []third.Tag
}

type P struct{ ID int }
type Q struct{ ID int }

type Wrap struct{ In Src }
type Wrap2 struct {
	In    Dst
	Extra int
}
EOT
cat > "$M/third/t.go" <<'EOT'
package third

type Tag struct{ K, V string }
EOT
# case a: nothing but an import whose package name differs from its directory name
cat > "$M/a/setup.go" <<'EOT'
//go:build convergen

package a

import "play/models"

type Convergen interface {
	ToQ(*model.P) *model.Q
}
EOT
# case b: a slice element type of a package (play/third) that the setup file does not import
cat > "$M/b/setup.go" <<'EOT'
//go:build convergen

package b

import model "play/models"

type Convergen interface {
	ToWrap2(*model.Wrap) *model.Wrap2
}
EOT

(cd "$M" && go vet -tags convergen ./...) >"$TMP/vet.log" 2>&1 || { cat "$TMP/vet.log"; echo "input does not type-check?"; exit 2; }

bad=0
for c in a b; do
	# 1st run: started in the package directory (as go:generate does)
	(cd "$M/$c" && "$TMP/convergen" setup.go) >"$TMP/$c.in.log" 2>&1
	rc1=$?
	cp "$M/$c/setup.gen.go" "$TMP/$c.in.gen" 2>/dev/null
	(cd "$M" && go build "./$c") >"$TMP/$c.in.build" 2>&1
	b1=$?
	rm -f "$M/$c/setup.gen.go"
	# 2nd run: same input, absolute path, started in a directory outside the module
	(cd "$TMP/elsewhere" && "$TMP/convergen" "$M/$c/setup.go") >"$TMP/$c.out.log" 2>&1
	rc2=$?
	cp "$M/$c/setup.gen.go" "$TMP/$c.out.gen" 2>/dev/null
	(cd "$M" && go build "./$c") >"$TMP/$c.out.build" 2>&1
	b2=$?
	rm -f "$M/$c/setup.gen.go"

	echo "case $c: started in package dir: exit=$rc1 output-compiles=$([ $b1 -eq 0 ] && echo yes || echo no);" \
		"started elsewhere: exit=$rc2 output-compiles=$([ $b2 -eq 0 ] && echo yes || echo no)"
	if [ $rc1 -ne 0 ] || [ $b1 -ne 0 ]; then
		bad=1; echo "  VIOLATION (B): run inside the package directory failed"; cat "$TMP/$c.in.log" "$TMP/$c.in.build"
	fi
	if [ $rc2 -ne 0 ] || [ $b2 -ne 0 ]; then
		bad=1; echo "  VIOLATION (B): exit $rc2 but the output written from another working directory does not compile:"
		cat "$TMP/$c.out.log" "$TMP/$c.out.build" | sed 's/^/    /'
	fi
	if ! cmp -s "$TMP/$c.in.gen" "$TMP/$c.out.gen"; then
		bad=1; echo "  VIOLATION (B): the result depends on the working directory:"
		diff "$TMP/$c.in.gen" "$TMP/$c.out.gen" | sed 's/^/    /'
	fi
done
[ $bad -eq 0 ] && echo "ok: same, compiling output from both directories"
exit $bad
