#!/bin/bash
# f8: a type error inside an interface that the converter interface EMBEDS (duplicate method,
# unresolved embedded interface) silently drops converter methods: exit 0, nothing on stderr.
# Only errors inside the converter interface's own declaration are looked at.
# exit 1 = property violated, 0 = not violated, 2 = could not run
set -u
ROOT=${1:?usage: run.sh <repository root>}
ROOT=$(cd "$ROOT" 2>/dev/null && pwd) || { echo "no such directory: $1"; exit 2; }
export GOFLAGS=-mod=mod GOPROXY=off GOSUMDB=off GOTOOLCHAIN=local
unset GOWORK
TMP=$(mktemp -d) || exit 2
trap 'rm -rf "$TMP"' EXIT

(cd "$ROOT" && go build -o "$TMP/convergen" .) >"$TMP/build.log" 2>&1 || { cat "$TMP/build.log"; echo "cannot build the tool"; exit 2; }

M="$TMP/play"
mkdir -p "$M/ctl" "$M/a" "$M/b"
cat > "$M/go.mod" <<'EOT'
module play

go 1.19
EOT
for c in ctl a b; do
cat > "$M/$c/types.go" <<EOT
package $c

type A struct{ ID int }
type B struct{ ID int }
EOT
done
# control: the duplicate is written in the converter interface itself -> diagnosed since db9dcb4
cat > "$M/ctl/setup.go" <<'EOT'
//go:build convergen

package ctl

type Convergen interface {
	ToB(*A) *B
	ToB(*A, int) *B
	Back(*B) *A
}
EOT
# a: the same duplicate, one level down
cat > "$M/a/setup.go" <<'EOT'
//go:build convergen

package a

type part interface {
	ToB(*A) *B
	ToB(*A, int) *B
}

type Convergen interface {
	part
	Back(*B) *A
}
EOT
# b: an embedded interface that embeds something unresolved (a typo, a missing import)
cat > "$M/b/setup.go" <<'EOT'
//go:build convergen

package b

type part interface {
	morePart
	ToB(*A) *B
}

type Convergen interface {
	part
	Back(*B) *A
}
EOT

bad=0
for c in ctl a b; do
	(cd "$M" && go vet -tags convergen "./$c") >"$TMP/$c.vet" 2>&1
	(cd "$M/$c" && "$TMP/convergen" setup.go) >"$TMP/$c.out" 2>"$TMP/$c.err"
	rc=$?
	n=0; [ -f "$M/$c/setup.gen.go" ] && n=$(grep -c '^func ' "$M/$c/setup.gen.go")
	echo "case $c: exit=$rc functions=$n stderr: $(head -1 "$TMP/$c.err")"
	if [ $c = ctl ]; then
		[ $rc -ne 0 ] || { echo "control case was accepted?"; exit 2; }
		continue
	fi
	if [ $rc -eq 0 ]; then
		bad=1
		echo "  VIOLATION (A): the package does not type-check inside the converter's method set, yet success is reported:"
		grep -v '^#' "$TMP/$c.vet" | head -3 | sed 's/^/    go /'
		grep '^func ' "$M/$c/setup.gen.go" | sed 's/^/    generated: /'
	fi
done
exit $bad
