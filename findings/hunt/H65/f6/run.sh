#!/bin/bash
# f6: acceptance depends on the position of a comment: a line comment between the keyword
# "interface" (or between "type" and the name) and the opening brace makes the run fail with a
# syntax error about the never written output file.
# exit 1 = property violated, 0 = not violated, 2 = could not run
set -u
ROOT=${1:?usage: run.sh <repository root>}
ROOT=$(cd "$ROOT" 2>/dev/null && pwd) || { echo "no such directory: $1"; exit 2; }
export GOFLAGS=-mod=mod GOPROXY=off GOSUMDB=off GOTOOLCHAIN=local
unset GOWORK
TMP=$(mktemp -d) || exit 2
trap 'rm -rf "$TMP"' EXIT

(cd "$ROOT" && go build -o "$TMP/convergen" .) >"$TMP/build.log" 2>&1 || { cat "$TMP/build.log"; echo "cannot build the tool"; exit 2; }

M="$TMP/play"
mkdir -p "$M/ctl" "$M/a" "$M/b"
cat > "$M/go.mod" <<'EOT'
module play

go 1.19
EOT
for c in ctl a b; do
cat > "$M/$c/types.go" <<EOT
package $c

type A struct{ ID int }
type B struct{ ID int }
EOT
done
# control: the comment trails the opening brace
cat > "$M/ctl/setup.go" <<'EOT'
//go:build convergen

package ctl

type Convergen interface { // the converters of this package
	ToB(*A) *B
}
EOT
# a: the same comment one token earlier (gofmt leaves this file as it is)
cat > "$M/a/setup.go" <<'EOT'
//go:build convergen

package a

type Convergen interface // the converters of this package
{
	ToB(*A) *B
}
EOT
# b: a line comment after the keyword "type"
cat > "$M/b/setup.go" <<'EOT'
//go:build convergen

package b

type // the converters of this package
Convergen interface {
	ToB(*A) *B
}
EOT

(cd "$M" && go vet -tags convergen ./...) >"$TMP/vet.log" 2>&1 || { cat "$TMP/vet.log"; echo "input does not type-check?"; exit 2; }
[ -z "$(cd "$M" && gofmt -l a/setup.go)" ] || echo "(note: gofmt would rewrite a/setup.go)"

bad=0
for c in ctl a b; do
	(cd "$M/$c" && "$TMP/convergen" setup.go) >"$TMP/$c.log" 2>&1
	rc=$?
	ok=no
	if [ $rc -eq 0 ] && (cd "$M" && go build "./$c") >"$TMP/$c.build" 2>&1 && grep -q '^func ToB(' "$M/$c/setup.gen.go"; then ok=yes; fi
	echo "case $c: exit=$rc, output with func ToB that compiles: $ok"
	if [ $ok = no ]; then
		[ $c = ctl ] && { echo "control case failed"; cat "$TMP/$c.log"; exit 2; }
		bad=1
		echo "  VIOLATION (B): well-formed setup file rejected because of the position of a comment:"
		sed 's/^/    /' "$TMP/$c.log"
	fi
done
exit $bad
