#!/bin/bash
# f7: a converter / hook name with more than two dot-separated parts (pkg.Func.Extra) is
# "found" by looking at its first two parts only. :conv then emits a call of the text as
# written, which does not compile; :preprocess quietly calls a different function than named.
# exit 1 = property violated, 0 = not violated, 2 = could not run
set -u
ROOT=${1:?usage: run.sh <repository root>}
ROOT=$(cd "$ROOT" 2>/dev/null && pwd) || { echo "no such directory: $1"; exit 2; }
export GOFLAGS=-mod=mod GOPROXY=off GOSUMDB=off GOTOOLCHAIN=local
unset GOWORK
TMP=$(mktemp -d) || exit 2
trap 'rm -rf "$TMP"' EXIT

(cd "$ROOT" && go build -o "$TMP/convergen" .) >"$TMP/build.log" 2>&1 || { cat "$TMP/build.log"; echo "cannot build the tool"; exit 2; }

M="$TMP/play"
mkdir -p "$M/model" "$M/a" "$M/b"
cat > "$M/go.mod" <<'EOT'
module play

go 1.19
EOT
cat > "$M/model/m.go" <<'EOT'
package model

type Src struct{ ID int }
type Dst struct{ ID int64 }

func Conv(i int) int64   { return int64(i) }
func Pre(d *Dst, s *Src) {}
EOT
cat > "$M/a/setup.go" <<'EOT'
//go:build convergen

package a

import "play/model"

type Convergen interface {
	// :conv model.Conv.Extra ID
	ToDst(*model.Src) *model.Dst
}
EOT
cat > "$M/b/setup.go" <<'EOT'
//go:build convergen

package b

import "play/model"

type Convergen interface {
	// :preprocess model.Pre.NoSuchThing
	ToDst(*model.Src) *model.Dst
}
EOT

bad=0
for c in a b; do
	(cd "$M/$c" && "$TMP/convergen" setup.go) >"$TMP/$c.log" 2>&1
	rc=$?
	if [ $rc -ne 0 ]; then
		if grep -q "setup.go:8:[0-9]*: " "$TMP/$c.log"; then
			echo "case $c: rejected with a positioned diagnostic (exit $rc): $(head -1 "$TMP/$c.log")"
		else
			bad=1; echo "case $c: VIOLATION (A): exit $rc without a diagnostic positioned at the notation"; cat "$TMP/$c.log"
		fi
		continue
	fi
	if (cd "$M" && go build "./$c") >"$TMP/$c.build" 2>&1; then
		bad=1
		echo "case $c: VIOLATION (A): the notation names model.Pre.NoSuchThing, which does not exist; exit 0, no message, and the function calls:"
		grep -n "Pre" "$M/$c/setup.gen.go" | sed 's/^/    /'
	else
		bad=1
		echo "case $c: VIOLATION (A): exit 0, no diagnostic, and the output does not compile:"
		sed 's/^/    /' "$TMP/$c.build"
	fi
done
exit $bad
