#!/bin/bash
# f4: under :typecast an integer field is "cast" to a string field with string(src.X): the value
# 65 arrives as "A". With :stringer also on, a String() method with pointer receiver on the
# (addressable) field is overlooked and the same rune conversion is emitted instead.
# exit 1 = property violated, 0 = not violated, 2 = could not run
set -u
ROOT=${1:?usage: run.sh <repository root>}
ROOT=$(cd "$ROOT" 2>/dev/null && pwd) || { echo "no such directory: $1"; exit 2; }
export GOFLAGS=-mod=mod GOPROXY=off GOSUMDB=off GOTOOLCHAIN=local
unset GOWORK
TMP=$(mktemp -d) || exit 2
trap 'rm -rf "$TMP"' EXIT

(cd "$ROOT" && go build -o "$TMP/convergen" .) >"$TMP/build.log" 2>&1 || { cat "$TMP/build.log"; echo "cannot build the tool"; exit 2; }

M="$TMP/play"
mkdir -p "$M"
cat > "$M/go.mod" <<'EOT'
module play

go 1.19
EOT
cat > "$M/types.go" <<'EOT'
package play

import "strconv"

type Status int

func (s *Status) String() string { return "status-" + strconv.Itoa(int(*s)) }

type Src struct {
	ID     int
	Status Status
	Count  int32
}

type Dst struct {
	ID     string
	Status string
	Count  int64
}
EOT
cat > "$M/setup.go" <<'EOT'
//go:build convergen

package play

type Convergen interface {
	// :typecast
	// :stringer
	ToDst(*Src) *Dst
}
EOT
cat > "$M/conv_test.go" <<'EOT'
package play

import "testing"

func TestToDst(t *testing.T) {
	dst := ToDst(&Src{ID: 65, Status: 66, Count: 7})
	t.Logf("ID=%q Status=%q Count=%d", dst.ID, dst.Status, dst.Count)
	if dst.Count != 7 {
		t.Errorf("Count = %d", dst.Count)
	}
	if dst.ID != "" && dst.ID != "65" {
		t.Errorf("ID: 65 was copied as %q", dst.ID)
	}
	if dst.Status != "" && dst.Status != "status-66" && dst.Status != "66" {
		t.Errorf("Status: 66 was copied as %q", dst.Status)
	}
}
EOT

cd "$M" || exit 2
"$TMP/convergen" setup.go >"$TMP/out.log" 2>"$TMP/err.log"
rc=$?
if [ $rc -ne 0 ]; then
	echo "VIOLATION (B): well-formed setup file rejected, exit=$rc"; cat "$TMP/err.log"; exit 1
fi
go build ./... >"$TMP/gobuild.log" 2>&1 || { echo "VIOLATION (B): output does not compile"; cat "$TMP/gobuild.log"; exit 1; }

bad=0
# (1) run the generated function (vet off, to see the values)
if ! go test -vet=off -count=1 -v . >"$TMP/test.log" 2>&1; then
	bad=1
	echo "VIOLATION (B): exit 0, but the generated function copies wrong values:"
	grep -E "ID=|copied as|Count =" "$TMP/test.log" | sed 's/^/    /'
fi
# (2) plain 'go test' runs vet's stringintconv check and refuses to build the package
if ! go test -count=1 . >"$TMP/test2.log" 2>&1; then
	if grep -q "yields a string of one rune" "$TMP/test2.log"; then
		bad=1
		echo "VIOLATION (B): plain 'go test' refuses the generated file:"
		grep "yields a string of one rune" "$TMP/test2.log" | sed 's/^/    /'
	fi
fi
echo "--- generated:"
sed -n '/^func/,$p' setup.gen.go | sed 's/^/    | /'
[ $bad -eq 0 ] && echo "ok"
exit $bad
