#!/bin/bash
# f10: slice copies spell out element types that cannot be written outside their package:
# isNameable() only looks through pointers, slices, arrays and maps; unexported names inside
# type arguments, channels, function and unnamed struct types get through.
# exit 1 = property violated, 0 = not violated, 2 = could not run
set -u
ROOT=${1:?usage: run.sh <repository root>}
ROOT=$(cd "$ROOT" 2>/dev/null && pwd) || { echo "no such directory: $1"; exit 2; }
export GOFLAGS=-mod=mod GOPROXY=off GOSUMDB=off GOTOOLCHAIN=local
unset GOWORK
TMP=$(mktemp -d) || exit 2
trap 'rm -rf "$TMP"' EXIT

(cd "$ROOT" && go build -o "$TMP/convergen" .) >"$TMP/build.log" 2>&1 || { cat "$TMP/build.log"; echo "cannot build the tool"; exit 2; }

M="$TMP/play"
mkdir -p "$M/model"
cat > "$M/go.mod" <<'EOT'
module play

go 1.19
EOT
cat > "$M/model/m.go" <<'EOT'
package model

type level int

type Opt[T any] struct {
	V  T
	OK bool
}

type Src struct {
	ID     int
	Plain  []level            // control: handled since a98a95c (reported as "no match")
	Levels []Opt[level]       // unexported name in a type argument
	Hooks  []func(level) bool // ... in a function type
	Events []chan level       // ... in a channel type
	Pairs  []struct{ k, v string } // unnamed struct with unexported fields
}

type Dst struct {
	ID     int
	Plain  []level
	Levels []Opt[level]
	Hooks  []func(level) bool
	Events []chan level
	Pairs  []struct{ k, v string }
}
EOT
cat > "$M/setup.go" <<'EOT'
//go:build convergen

package play

import "play/model"

type Convergen interface {
	ToDst(*model.Src) *model.Dst
}
EOT

cd "$M" || exit 2
go vet -tags convergen ./... >"$TMP/vet.log" 2>&1 || { cat "$TMP/vet.log"; echo "input does not type-check?"; exit 2; }
"$TMP/convergen" setup.go >"$TMP/out.log" 2>"$TMP/err.log"
rc=$?
if [ $rc -ne 0 ]; then
	echo "VIOLATION (B): well-formed setup file rejected, exit=$rc"; cat "$TMP/err.log"; exit 1
fi
if go build ./... >"$TMP/gobuild.log" 2>&1; then
	echo "ok: output compiles"; exit 0
fi
echo "VIOLATION (B): exit 0 but the generated file does not compile:"
sed 's/^/    /' "$TMP/gobuild.log"
echo "--- generated:"
grep -n "make(\|no match" setup.gen.go | sed 's/^/    | /'
exit 1
