#!/bin/bash
# f5: notations that address a member of a nested destination struct (:skip In.Secret,
# :literal In.A 7, :map X In.A, :conv f X In.A) are silently ignored when the nested field is a
# POINTER to a struct: the field is assigned as a whole, the skipped member is copied.
# exit 1 = property violated, 0 = not violated, 2 = could not run
set -u
ROOT=${1:?usage: run.sh <repository root>}
ROOT=$(cd "$ROOT" 2>/dev/null && pwd) || { echo "no such directory: $1"; exit 2; }
export GOFLAGS=-mod=mod GOPROXY=off GOSUMDB=off GOTOOLCHAIN=local
unset GOWORK
TMP=$(mktemp -d) || exit 2
trap 'rm -rf "$TMP"' EXIT

(cd "$ROOT" && go build -o "$TMP/convergen" .) >"$TMP/build.log" 2>&1 || { cat "$TMP/build.log"; echo "cannot build the tool"; exit 2; }

M="$TMP/play"
mkdir -p "$M"
cat > "$M/go.mod" <<'EOT'
module play

go 1.19
EOT
cat > "$M/types.go" <<'EOT'
package play

type Inner struct {
	A      int
	Secret string
}

type Src struct {
	ID int
	In *Inner // by pointer
	V  Inner  // by value, for comparison
}

type Dst struct {
	ID int
	In *Inner
	V  Inner
}
EOT
cat > "$M/setup.go" <<'EOT'
//go:build convergen

package play

type Convergen interface {
	// :skip In.Secret
	// :skip V.Secret
	// :literal In.A 7
	// :literal V.A 7
	ToDst(*Src) *Dst
}
EOT
cat > "$M/conv_test.go" <<'EOT'
package play

import "testing"

func TestToDst(t *testing.T) {
	src := &Src{ID: 1, In: &Inner{A: 1, Secret: "s3cret"}, V: Inner{A: 1, Secret: "s3cret"}}
	dst := ToDst(src)
	if dst.V.Secret != "" || dst.V.A != 7 {
		t.Errorf("by value:   V.Secret=%q V.A=%d (want \"\" and 7)", dst.V.Secret, dst.V.A)
	}
	if dst.In == nil {
		return // not copied at all: nothing leaked
	}
	if dst.In.Secret != "" || dst.In.A != 7 {
		t.Errorf("by pointer: In.Secret=%q In.A=%d (want \"\" and 7): ':skip In.Secret' and ':literal In.A 7' were ignored", dst.In.Secret, dst.In.A)
	}
}
EOT

cd "$M" || exit 2
"$TMP/convergen" setup.go >"$TMP/out.log" 2>"$TMP/err.log"
rc=$?
if [ $rc -ne 0 ]; then
	# Refusing the notation with a positioned message would be an honest answer.
	if grep -q "setup.go:[0-9]*:[0-9]*: " "$TMP/err.log"; then echo "rejected with a diagnostic (exit $rc):"; cat "$TMP/err.log"; exit 0; fi
	echo "VIOLATION: exit $rc without positioned diagnostic"; cat "$TMP/err.log"; exit 1
fi
go build ./... >"$TMP/gobuild.log" 2>&1 || { echo "VIOLATION (B): output does not compile"; cat "$TMP/gobuild.log"; exit 1; }
echo "convergen: exit 0, stderr: $(tr '\n' ' ' < "$TMP/err.log")"
echo "--- generated:"
sed -n '/^func/,$p' setup.gen.go | sed 's/^/    | /'
if go test -count=1 . >"$TMP/test.log" 2>&1; then
	echo "ok: the nested notations are honoured"
	exit 0
fi
echo "VIOLATION (B): the function copies what it was told to skip / ignores the literal:"
grep -E "by value|by pointer" "$TMP/test.log" | sed 's/^/    /'
exit 1
