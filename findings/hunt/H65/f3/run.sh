#!/bin/bash
# f3: parameter / result names chosen in the interface are copied into the generated function,
# where they shadow identifiers the generator itself emits in the body: the package qualifier
# of the types, and the loop variables i and e of slice copies.
# exit 1 = property violated, 0 = not violated, 2 = could not run
set -u
ROOT=${1:?usage: run.sh <repository root>}
ROOT=$(cd "$ROOT" 2>/dev/null && pwd) || { echo "no such directory: $1"; exit 2; }
export GOFLAGS=-mod=mod GOPROXY=off GOSUMDB=off GOTOOLCHAIN=local
unset GOWORK
TMP=$(mktemp -d) || exit 2
trap 'rm -rf "$TMP"' EXIT

(cd "$ROOT" && go build -o "$TMP/convergen" .) >"$TMP/build.log" 2>&1 || { cat "$TMP/build.log"; echo "cannot build the tool"; exit 2; }

M="$TMP/play"
mkdir -p "$M/model" "$M/src" "$M/a" "$M/b" "$M/c"
cat > "$M/go.mod" <<'EOT'
module play

go 1.19
EOT
cat > "$M/model/m.go" <<'EOT'
package model

type Tag struct{ K string }

type Src struct {
	ID   int
	Tags []Tag
}

type Dst struct {
	ID   int
	Tags []Tag
}
EOT
# case a: the source parameter is called like the package of its type (legal: a parameter's scope is the function body)
cat > "$M/a/setup.go" <<'EOT'
//go:build convergen

package a

import "play/model"

type Convergen interface {
	ToDst(model *model.Src) *model.Dst
}
EOT
# case b: the result is called e (i behaves alike): the name of the element variable of the emitted copy loop
cat > "$M/b/setup.go" <<'EOT'
//go:build convergen

package b

import "play/model"

type Convergen interface {
	ToDst(s *model.Src) (e *model.Dst)
}
EOT

# case c: nothing is named by the user; the package of the types is called src, the name the tool gives to an unnamed source
cat > "$M/src/m.go" <<'EOT'
package src

type A struct{ ID int }
type B struct{ ID int }
EOT
cat > "$M/c/setup.go" <<'EOT'
//go:build convergen

package c

import "play/src"

type Convergen interface {
	ToB(*src.A) *src.B
}
EOT

(cd "$M" && go vet -tags convergen ./...) >"$TMP/vet.log" 2>&1 || { cat "$TMP/vet.log"; echo "input does not type-check?"; exit 2; }

bad=0
for c in a b c; do
	(cd "$M/$c" && "$TMP/convergen" setup.go) >"$TMP/$c.log" 2>&1
	rc=$?
	if [ $rc -ne 0 ]; then
		# A positioned diagnostic would be an acceptable way out for an unusable name; anything else is not.
		if grep -q "^$M/$c/setup.go:[0-9]*:[0-9]*: " "$TMP/$c.log" || grep -q "^setup.go:[0-9]*:[0-9]*: " "$TMP/$c.log"; then
			echo "case $c: rejected with a positioned diagnostic (exit $rc)"
		else
			bad=1; echo "case $c: VIOLATION: exit $rc without positioned diagnostic"; cat "$TMP/$c.log"
		fi
		continue
	fi
	if (cd "$M" && go build "./$c") >"$TMP/$c.build" 2>&1; then
		echo "case $c: exit 0, output compiles"
	else
		bad=1
		echo "case $c: VIOLATION (B): exit 0 but the generated function does not compile:"
		sed 's/^/    /' "$TMP/$c.build"
		sed -n '/^func/,$p' "$M/$c/setup.gen.go" | sed 's/^/    | /'
	fi
done
exit $bad
