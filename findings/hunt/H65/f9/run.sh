#!/bin/bash
# f9: for a type of a package that the setup file does not import, the generator prints the
# package's own name as qualifier without looking whether that name already means something
# else in the setup file. Two packages called "model": the emitted model.Tag is the wrong one.
# exit 1 = property violated, 0 = not violated, 2 = could not run
set -u
ROOT=${1:?usage: run.sh <repository root>}
ROOT=$(cd "$ROOT" 2>/dev/null && pwd) || { echo "no such directory: $1"; exit 2; }
export GOFLAGS=-mod=mod GOPROXY=off GOSUMDB=off GOTOOLCHAIN=local
unset GOWORK
TMP=$(mktemp -d) || exit 2
trap 'rm -rf "$TMP"' EXIT

(cd "$ROOT" && go build -o "$TMP/convergen" .) >"$TMP/build.log" 2>&1 || { cat "$TMP/build.log"; echo "cannot build the tool"; exit 2; }

M="$TMP/play"
mkdir -p "$M/api/model" "$M/db/model" "$M/dom" "$M/conv"
cat > "$M/go.mod" <<'EOT'
module play

go 1.19
EOT
cat > "$M/api/model/m.go" <<'EOT'
package model

type Tag struct{ K string }

type Req struct{ ID int }
type Resp struct{ ID int }
EOT
cat > "$M/db/model/m.go" <<'EOT'
package model

type Tag struct{ K string }

type Row struct {
	Tags []Tag
	N    int32
}

type Rec struct {
	Tags []Tag
	N    Count
}

type Count int32
EOT
cat > "$M/dom/d.go" <<'EOT'
package dom

import "play/db/model"

type Src struct {
	ID  int
	Row model.Row
}

type Dst struct {
	ID  int
	Row model.Rec
}
EOT
# The setup file imports play/api/model (as "model") and play/dom; play/db/model only occurs inside dom's structs.
cat > "$M/conv/setup.go" <<'EOT'
//go:build convergen

package conv

import (
	"play/api/model"
	"play/dom"
)

// :typecast
type Convergen interface {
	ToResp(*model.Req) *model.Resp
	ToDst(*dom.Src) *dom.Dst
}
EOT

(cd "$M" && go vet -tags convergen ./...) >"$TMP/vet.log" 2>&1 || { cat "$TMP/vet.log"; echo "input does not type-check?"; exit 2; }

cd "$M/conv" || exit 2
"$TMP/convergen" setup.go >"$TMP/out.log" 2>"$TMP/err.log"
rc=$?
if [ $rc -ne 0 ]; then
	echo "VIOLATION (B): well-formed setup file rejected, exit=$rc"; cat "$TMP/err.log"; exit 1
fi
if (cd "$M" && go build ./conv) >"$TMP/gobuild.log" 2>&1; then
	echo "ok: output compiles"; exit 0
fi
echo "VIOLATION (B): exit 0 but the generated file does not compile:"
sed 's/^/    /' "$TMP/gobuild.log"
echo "--- generated:"
sed -n '/^import/,$p' setup.gen.go | grep -n "model\|^import\|^)" | sed 's/^/    | /'
exit 1
