//go:build convergen

package play

type Convergen interface {
	// :typecast
	Copy(*Src) *Dst
}
