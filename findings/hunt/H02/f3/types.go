package play

type A struct{ X int }
type B struct{ X int }

type Src struct {
	One   *A
	Items []*A
}

type Dst struct {
	One   *B
	Items []*B
}
