package main

import (
	"fmt"
	"os"
	"unsafe"

	"play"
)

func main() {
	bad := false
	a0, a1 := &play.A{X: 1}, &play.A{X: 2}
	src := &play.Src{One: a0, Items: []*play.A{a0, a1, nil}}
	dst := play.Copy(src)

	if unsafe.Pointer(dst.One) != unsafe.Pointer(src.One) {
		fmt.Println("VIOLATION: dst.One != (*B)(src.One)")
		bad = true
	}
	if len(dst.Items) != len(src.Items) {
		fmt.Printf("VIOLATION: len(dst.Items) = %d, expected %d\n", len(dst.Items), len(src.Items))
		bad = true
	} else {
		for i := range src.Items {
			if unsafe.Pointer(dst.Items[i]) != unsafe.Pointer(src.Items[i]) {
				fmt.Printf("VIOLATION: dst.Items[%d] != (*B)(src.Items[%d])\n", i, i)
				bad = true
			}
		}
		dst.Items[0] = nil
		if src.Items[0] != a0 {
			fmt.Println("VIOLATION: dst.Items shares its backing array with src.Items")
			bad = true
		}
	}
	if d := play.Copy(&play.Src{}); d.Items != nil {
		fmt.Println("VIOLATION: nil source slice became a non-nil destination slice")
		bad = true
	}
	if bad {
		os.Exit(1)
	}
	fmt.Println("ok: []*A was copied into a fresh []*B with converted elements")
}
