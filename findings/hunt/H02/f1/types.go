package play

type Src struct {
	Name string
	In   SrcIn
}

type SrcIn struct {
	Name string
	A    int
}

type Dst struct {
	Name string
	In   DstIn
}

type DstIn struct {
	Label string
	A     int
	Tag   string
}
