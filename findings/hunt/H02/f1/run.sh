#!/bin/sh
# usage: run.sh <repository root>
# exit 1 = property violated, 0 = not violated, 2 = the scenario could not be run
set -u
export GOFLAGS=-mod=mod GOPROXY=off GOSUMDB=off GOTOOLCHAIN=local
unset GOWORK
ROOT=${1:?usage: run.sh <repository root>}
HERE=$(cd "$(dirname "$0")" && pwd)
TMP=$(mktemp -d)
trap 'rm -rf "$TMP"' EXIT

(cd "$ROOT" && go build -o "$TMP/convergen" .) || { echo "cannot build convergen"; exit 2; }

mkdir "$TMP/play"
cp -r "$HERE/go.mod" "$HERE/types.go" "$HERE/setup.go" "$HERE/cmd" "$TMP/play/"
cd "$TMP/play" || exit 2

"$TMP/convergen" setup.go >"$TMP/gen.log" 2>&1
rc=$?
cat "$TMP/gen.log"
if [ $rc -ne 0 ]; then
	echo "generator exited $rc (rejecting the input is not the violation examined here)"
	exit 0
fi
echo "--- generated Copy:"
sed -n '/^func Copy(/,/^}/p' setup.gen.go

if ! go build ./... ; then
	echo "VIOLATION: generator exited 0 but the output does not compile"
	exit 1
fi
go run ./cmd/check
rc=$?
if [ $rc -ne 0 ]; then
	echo "observed: see above; expected: dst.In.Label == src.Name and dst.In.Tag == additional argument"
	exit 1
fi
exit 0
