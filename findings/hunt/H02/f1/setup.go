//go:build convergen

package play

type Convergen interface {
	// $1 is the source operand, $2 the first additional argument
	// (same numbering as tests/fixtures/usecase/maps).
	// :map $1.Name In.Label
	// :map $2 In.Tag
	Copy(*Src, string) *Dst
}
