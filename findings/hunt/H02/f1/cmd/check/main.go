package main

import (
	"fmt"
	"os"

	"play"
)

func main() {
	src := &play.Src{Name: "outer", In: play.SrcIn{Name: "inner", A: 7}}
	dst := play.Copy(src, "tag-arg")

	bad := false
	// :map $1.Name In.Label  => dst.In.Label must equal src.Name
	if dst.In.Label != src.Name {
		fmt.Printf("VIOLATION: dst.In.Label = %q, expected src.Name = %q (notation ':map $1.Name In.Label')\n", dst.In.Label, src.Name)
		bad = true
	}
	// :map $2 In.Tag  => dst.In.Tag must equal the additional argument
	if dst.In.Tag != "tag-arg" {
		fmt.Printf("VIOLATION: dst.In.Tag = %q, expected the additional argument %q (notation ':map $2 In.Tag')\n", dst.In.Tag, "tag-arg")
		bad = true
	}
	if dst.In.A != 7 || dst.Name != "outer" {
		fmt.Printf("VIOLATION: name-matched fields wrong: %+v\n", *dst)
		bad = true
	}
	if bad {
		os.Exit(1)
	}
	fmt.Println("ok: templated :map on nested destination fields copies the denoted values")
}
