//go:build convergen

package play

import "play/domain"

type Convergen interface {
	// :typecast
	ToDomain(*User) *domain.User
	// :typecast
	FromDomain(*domain.User) *User
}
