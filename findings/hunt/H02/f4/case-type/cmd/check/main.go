package main

import (
	"fmt"
	"os"

	"play"
	"play/domain"
)

func main() {
	d := play.ToDomain(&play.User{Name: "n", Status: "active"})
	u := play.FromDomain(&domain.User{Name: "n", Status: "active"})
	if d.Status != domain.Status("active") || d.Name != "n" || u.Status != play.Status("active") || u.Name != "n" {
		fmt.Printf("VIOLATION: ToDomain -> %+v, FromDomain -> %+v\n", *d, *u)
		os.Exit(1)
	}
	fmt.Println("ok: Status converted in both directions")
}
