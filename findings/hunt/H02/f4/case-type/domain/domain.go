package domain

type Status string

type User struct {
	Name   string
	Status Status
}
