package play

// The storage-side model lives in the same package as the setup file and has,
// like the domain package, a type called Status.
type Status string

type User struct {
	Name   string
	Status Status
}
