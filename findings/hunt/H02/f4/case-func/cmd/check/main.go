package main

import (
	"fmt"
	"os"

	"play"
	"play/domain"
)

func main() {
	d := play.ToDomain(&play.User{Kind: 1})
	if d.Kind != domain.Kind(1) {
		fmt.Printf("VIOLATION: dst.Kind = %d, expected domain.Kind(src.Kind) = 1 (only the opted-in type conversion)\n", d.Kind)
		os.Exit(1)
	}
	fmt.Println("ok: Kind converted")
}
