package play

import "play/domain"

type User struct {
	Kind int
}

// Kind is an unrelated helper of the package that happens to share its name
// with the type domain.Kind. No notation refers to it.
func Kind(i int) domain.Kind { return domain.Kind(i + 100) }
