package domain

type Kind int

type User struct {
	Kind Kind
}
