#!/bin/sh
# usage: run.sh <repository root>
# exit 1 = property violated, 0 = not violated, 2 = the scenario could not be run
set -u
export GOFLAGS=-mod=mod GOPROXY=off GOSUMDB=off GOTOOLCHAIN=local
unset GOWORK
ROOT=${1:?usage: run.sh <repository root>}
HERE=$(cd "$(dirname "$0")" && pwd)
TMP=$(mktemp -d)
trap 'rm -rf "$TMP"' EXIT

(cd "$ROOT" && go build -o "$TMP/convergen" .) || { echo "cannot build convergen"; exit 2; }

violated=0
for c in case-type case-func; do
	echo "=== $c"
	cp -r "$HERE/$c" "$TMP/$c"
	cd "$TMP/$c" || exit 2
	"$TMP/convergen" setup.go >"$TMP/gen.log" 2>&1
	rc=$?
	cat "$TMP/gen.log"
	if [ $rc -ne 0 ]; then
		echo "generator exited $rc (rejecting the input is not the violation examined here)"
		continue
	fi
	echo "--- generated functions:"
	sed -n '/^func /,$p' setup.gen.go
	if ! go build ./... ; then
		echo "VIOLATION ($c): generator exited 0 but the output does not compile;"
		echo "  expected a conversion to the destination field's type domain.<T>(src.<field>)"
		violated=1
		continue
	fi
	if ! go run ./cmd/check ; then
		echo "VIOLATION ($c): the destination field does not hold the converted source value (see above)"
		violated=1
	fi
done
exit $violated
