package main

import (
	"fmt"
	"os"
	"reflect"

	"play"
)

func main() {
	bad := false
	rec := play.Record{ID: 7, Name: "seven", Tags: []string{"a", "b"}}

	// control: forward direction, by-value types in the signature
	var r play.Record
	play.ToRecord(&r, play.User{ID: 7, Name: "seven", Tags: []string{"a", "b"}})
	if r.ID != 7 || r.Name != "seven" || len(r.Tags) != 2 {
		fmt.Printf("VIOLATION (control): ToRecord left the destination at %+v\n", r)
		bad = true
	}

	// receiver form; works for a value receiver and for a pointer receiver alike
	var u1 play.User
	u1.FromRecord(&rec)
	if u1.ID != rec.ID || u1.Name != rec.Name || len(u1.Tags) != len(rec.Tags) {
		fmt.Printf("VIOLATION: after u.FromRecord(&rec) the destination is %+v, expected the fields of %+v\n", u1, rec)
		bad = true
	}

	// function form; called through reflection so that this program compiles
	// whether the destination parameter is declared as User or as *User
	var u2 play.User
	fn := reflect.ValueOf(play.FillFromRecord)
	dstArg := reflect.ValueOf(u2)
	if fn.Type().In(1).Kind() == reflect.Ptr {
		dstArg = reflect.ValueOf(&u2)
	}
	fn.Call([]reflect.Value{reflect.ValueOf(&rec), dstArg})
	if u2.ID != rec.ID || u2.Name != rec.Name || len(u2.Tags) != len(rec.Tags) {
		fmt.Printf("VIOLATION: after FillFromRecord(&rec, u) [signature %v] the destination is %+v, expected the fields of %+v\n", fn.Type(), u2, rec)
		bad = true
	}

	if bad {
		os.Exit(1)
	}
	fmt.Println("ok: the reversed functions fill their destination")
}
