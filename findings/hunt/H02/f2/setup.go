//go:build convergen

package play

type Convergen interface {
	// Forward direction with a by-value destination type: the generator turns
	// the destination into a pointer parameter (dst *Record), so the copy is visible.
	// :style arg
	ToRecord(User) Record

	// The same signature, reversed, in receiver form.
	// :style arg
	// :recv u
	// :reverse
	FromRecord(User) Record

	// The same signature, reversed, in function form.
	// :style arg
	// :reverse
	FillFromRecord(User) Record
}
