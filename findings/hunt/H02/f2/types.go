package play

// User is the local type that is to be filled from a Record.
type User struct {
	ID   int
	Name string
	Tags []string
}

type Record struct {
	ID   int
	Name string
	Tags []string
}
