//go:build convergen

package play

import "fmt"

type St int

func (s St) String() string { return fmt.Sprint(int(s)) }

type PSt int

func (s *PSt) String() string { return "p" }

type Src struct {
	A   *St
	B   fmt.Stringer
	C   PSt
	D   *PSt
	E   St
	F   **St
	G   [2]St
	H   map[string]St
	I   func() string
	J   *int
	K   int
	L   []St
	M   []*St
	N   [][]int
	O   []fmt.Stringer
	_   struct{}
}

func (s *Src) P() St { return 1 }
func (s Src) Q() PSt { return 1 }

type Dst struct {
	A string
	B string
	C string
	D string
	E string
	F string
	G [2]int
	H map[string]int
	I string
	J *int64
	K *int
	L []string
	M []string
	N [][]int
	O []string
	P string
	Q string
	_ struct{}
}

type Convergen interface {
	// :stringer
	// :typecast
	// :getter
	Copy(*Src) *Dst
}
