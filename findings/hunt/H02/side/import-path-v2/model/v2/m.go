package model

type User struct {
	ID   int64
	Name string
	Tags []Tag
}
type Tag string
