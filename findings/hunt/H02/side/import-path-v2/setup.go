//go:build convergen

package play

import "play/model/v2"

type User struct {
	ID   int
	Name string
	Tags []string
}

type Convergen interface {
	// :typecast
	ToModel(*User) *model.User
}
