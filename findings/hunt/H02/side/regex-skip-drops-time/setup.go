//go:build convergen

package play

import "time"

type Src struct {
	Text    string
	Next    int
	Created time.Time
	Name    string
}
type Dst struct {
	Text    string
	Next    int
	Created time.Time
	Name    string
}

type Convergen interface {
	// :skip /ext$/
	// :case:off
	Copy(*Src) *Dst
}
