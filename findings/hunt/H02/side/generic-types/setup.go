//go:build convergen

package play

type Opt[T any] struct {
	V  T
	OK bool
}

type Src struct {
	A  Opt[int]
	L  []Opt[int]
	In SrcIn
}
type SrcIn struct{ X Opt[string]; Y int }

type Dst struct {
	A  Opt[int]
	L  []Opt[int]
	In DstIn
}
type DstIn struct{ X Opt[string]; Y int }

type Convergen interface {
	Copy(*Src) *Dst
	CopyOpt(*Opt[int]) *Opt[int]
}
