package storage

import "play/geo"

type Track struct {
	Name    string
	Points  []geo.Point
	Heights []geo.Meters
}
