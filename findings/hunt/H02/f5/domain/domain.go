package domain

import "play/geo"

type Track struct {
	Name    string
	Points  []geo.Point
	Heights []int
}
