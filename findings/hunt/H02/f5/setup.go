//go:build convergen

package play

import (
	"play/domain"
	"play/storage"
)

type Convergen interface {
	// Points: identical element type on both sides, no notation needed.
	ToStorage(*domain.Track) *storage.Track

	// Heights: []int -> []geo.Meters under :typecast.
	// :typecast
	ToStorageCast(*domain.Track) *storage.Track
}
