package geo

type Point struct{ X, Y int }

type Meters int
