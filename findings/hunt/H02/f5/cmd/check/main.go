package main

import (
	"fmt"
	"os"

	"play"
	"play/domain"
	"play/geo"
)

func main() {
	bad := false
	src := &domain.Track{Name: "t", Points: []geo.Point{{X: 1, Y: 2}, {X: 3, Y: 4}}, Heights: []int{10, 20}}

	d := play.ToStorage(src)
	if len(d.Points) != 2 || d.Points[0] != src.Points[0] || d.Points[1] != src.Points[1] {
		fmt.Printf("VIOLATION: ToStorage: dst.Points = %v, expected %v\n", d.Points, src.Points)
		bad = true
	} else {
		d.Points[0].X = 99
		if src.Points[0].X != 1 {
			fmt.Println("VIOLATION: ToStorage: dst.Points shares storage with src.Points")
			bad = true
		}
	}

	c := play.ToStorageCast(src)
	if len(c.Heights) != 2 || c.Heights[0] != 10 || c.Heights[1] != 20 {
		fmt.Printf("VIOLATION: ToStorageCast: dst.Heights = %v, expected [10 20]\n", c.Heights)
		bad = true
	}
	if n := play.ToStorage(&domain.Track{}); n.Points != nil {
		fmt.Println("VIOLATION: nil source slice became non-nil")
		bad = true
	}
	if bad {
		os.Exit(1)
	}
	fmt.Println("ok: slices with element types from a third package are copied into fresh storage")
}
