#!/bin/bash
# usage: run.sh <repository root>
# Builds convergen from the given tree, runs it on setup.go of this module (in a temporary copy)
# and type-checks the result with the ordinary build (setup.go is excluded by its build tag).
# exit 1: property violated (convergen exited 0 but the emitted file does not compile)
# exit 0: not violated (the file compiles, or convergen refused the input)
set -u
export GOFLAGS=-mod=mod GOPROXY=off GOSUMDB=off GOTOOLCHAIN=local
unset GOWORK
repo=${1:?usage: run.sh <repository root>}
repo=$(cd "$repo" && pwd)
here=$(cd "$(dirname "$0")" && pwd)
tmp=$(mktemp -d)
trap 'rm -rf "$tmp"' EXIT

(cd "$repo" && go build -o "$tmp/convergen" .) || { echo "cannot build convergen from $repo"; exit 2; }

mkdir "$tmp/mod"
cp -r "$here"/. "$tmp/mod/"
rm -f "$tmp/mod/run.sh" "$tmp/mod/README.md" "$tmp/mod/setup.gen.go"
cd "$tmp/mod" || exit 2

"$tmp/convergen" setup.go >"$tmp/stdout" 2>"$tmp/stderr"
rc=$?
if [ $rc -ne 0 ]; then
	echo "not violated: convergen refused the input (exit $rc), which the property allows:"
	cat "$tmp/stderr"
	exit 0
fi
if [ ! -f setup.gen.go ]; then
	echo "convergen exited 0 but wrote no setup.gen.go"
	exit 2
fi

if out=$(go build ./... 2>&1); then
	echo "not violated: convergen exited 0 and setup.gen.go compiles"
	exit 0
fi

echo "VIOLATED: convergen exited 0 but the emitted setup.gen.go does not compile"
echo "--- expected: code that does not name model.tag / model.level (e.g. "// no match: dst.Tags", "// no match: dst.Level"), or a non-zero exit"
echo "--- observed (go build ./...):"
echo "$out"
echo "--- offending lines of setup.gen.go:"
grep -n -E 'model\.(tag|level)' setup.gen.go
exit 1
