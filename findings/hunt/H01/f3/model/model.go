package model

// tag and level are unexported types; the fields that use them are exported,
// so other packages may read and assign the fields but cannot name the types.
type tag string

type level int

type A struct {
	Tags  []tag
	Level int
}

type B struct {
	Tags  []tag
	Level level
}

func NewA(tags ...string) *A {
	a := &A{}
	for _, t := range tags {
		a.Tags = append(a.Tags, tag(t))
	}
	return a
}
