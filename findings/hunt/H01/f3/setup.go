//go:build convergen

package play

import "play/model"

type Convergen interface {
	// :typecast
	AtoB(*model.A) *model.B
}
