//go:build convergen

package play

import "play/model"

type Convergen interface {
	// :typecast
	AtoB(*A) *model.B
}
