package model

type Status string

type B struct {
	Name   string
	Status Status
}
