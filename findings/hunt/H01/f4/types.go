package play

// Status is the local (numeric) status; model.Status is the textual one.
type Status int

type A struct {
	Name   string
	Status string
}
