package play

type B struct {
	N int
}
