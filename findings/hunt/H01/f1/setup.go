//go:build convergen

package play

import (
	"play/model/v2"
)

type Convergen interface {
	AtoB(*model.A) *B
}
