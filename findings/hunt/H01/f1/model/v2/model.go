// Package model lives in a directory whose name differs from the package name,
// exactly like every Go module of major version 2 or higher (import ".../v2").
package model

type A struct {
	N int
}
