//go:build convergen

package play

import "play/model"

type Convergen interface {
	AtoB(*model.A) *model.B
}
