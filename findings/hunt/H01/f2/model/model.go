package model

import "time"

type A struct {
	Name  string
	Dates []time.Time
}

type B struct {
	Name  string
	Dates []time.Time
}
