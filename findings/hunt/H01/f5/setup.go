//go:build convergen

package play

type Convergen interface {
	// :typecast
	// :stringer
	// :conv FormatMoney Price() Price
	// :conv FormatInt64 Count
	// :conv Quote Level
	AtoB(*A) *B
}
