package play

import "strconv"

type Money struct{ Cents int64 }

type Level int

func (l Level) String() string { return strconv.Itoa(int(l)) }

type A struct {
	price Money
	Count int
	Level Level
}

// Price is a getter that returns the struct by value.
func (a *A) Price() Money { return a.price }

type B struct {
	Price string
	Count string
	Level string
}

// Converters that take their argument by pointer.
func FormatMoney(m *Money) string { return strconv.FormatInt(m.Cents, 10) }
func FormatInt64(n *int64) string { return strconv.FormatInt(*n, 10) }
func Quote(s *string) string      { return strconv.Quote(*s) }
