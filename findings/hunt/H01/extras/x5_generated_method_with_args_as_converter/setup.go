//go:build convergen

package play

type In struct{ N int }
type Out struct{ N int }
type A struct{ In *In }
type B struct{ Out *Out }

// Emits dst.Out = InToOut(src.In) although the generated InToOut takes (src *In, arg0 int).
// pkg/parser/comment.go resolveConverters accepts a to-be-generated method as converter without
// checking that it has no additional arguments. (It also prints "function InToOut not found" and
// still exits 0.)
type Convergen interface {
	// :conv InToOut In Out
	AtoB(*A) *B
	InToOut(*In, int) *Out
}
