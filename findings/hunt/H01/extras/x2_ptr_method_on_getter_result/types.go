package play

type Inner struct{ name string }

func (i *Inner) Name() string { return i.name }

type A struct{ inner Inner }

func (a *A) Inner() Inner { return a.inner }

type InnerB struct{ Name string }
type B struct {
	Inner InnerB
	Label string
}
