//go:build convergen

package play

// Emits src.Inner().Name() although Name has a pointer receiver and src.Inner() is not addressable
// ("cannot call pointer method Name on Inner"), both for the :getter name match
// (pkg/builder/model/util.go IterateStructMethods ignores the receiver kind) and for :map
// (pkg/builder/assignment.go resolveExpr calls types.LookupFieldOrMethod with addressable=true).
type Convergen interface {
	// :getter
	// :map Inner().Name() Label
	AtoB(*A) *B
}
