package play

type A struct{ Nums []int }
type B struct{ Total int }

func Sum(xs ...int) (t int) {
	for _, x := range xs {
		t += x
	}
	return
}
