//go:build convergen

package play

// Emits dst.Total = Sum(src.Nums); a variadic parameter needs Sum(src.Nums...).
// pkg/parser/comment.go lookupConverterFunc takes sig.Params().At(0).Type() ([]int) without
// looking at sig.Variadic().
type Convergen interface {
	// :conv Sum Nums Total
	AtoB(*A) *B
}
