//go:build convergen

package play

import "unsafe"

type P struct{ P *int }
type Q struct{ P unsafe.Pointer }

// Emits func PtoQ(src *P, arg0 Pointer) and dst.P = Pointer(src.P): types.Basic.Name() of
// unsafe.Pointer is "Pointer" (pkg/util/import.go TypeName line 77, pkg/builder/model/node.go
// NewTypecast line 260).
type Convergen interface {
	// :typecast
	PtoQ(*P, unsafe.Pointer) *Q
}
