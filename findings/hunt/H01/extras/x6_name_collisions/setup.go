//go:build convergen

package play

// Declared names collide with the names the generator invents (dst, err, loop variables i/e):
// F1: func F1(dst *A) (dst *B)            - duplicate dst   (pkg/builder/method.go createVar default name)
// F2: func F2(err *A) (dst *B, err error) - duplicate err   (pkg/generator/function.go ", err error")
// F3: for i, e := range src.Xs { e.Xs[i] = e }  - result named e is shadowed by the loop variable
// F4: for i, e := range src.Xs { i.Xs[i] = e }  - receiver named i is shadowed by the loop variable
//     (pkg/generator/model/assignment.go SliceLoopAssignment/SliceTypecastAssignment fixed names i, e)
type Convergen interface {
	F1(dst *A) *B
	F2(err *A) (*B, error)
	F3(src *A) (e *B)
	// :style arg
	// :recv i
	// :reverse
	F4(*A) *B
}
