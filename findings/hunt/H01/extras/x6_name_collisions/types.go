package play

type A struct {
	N  int
	Xs []A
}
type B struct {
	N  int
	Xs []A
}
