package model

type X struct{ N int }
type B struct{ Xs []*X }
