//go:build convergen

package play

import (
	"play/domain"
	"play/model"
)

// Emits dst.Xs[i] = *model.X(e); needs (*model.X)(e).
// pkg/builder/assignment.go sliceToSlice line 603 (Cast: TypeName(lhsElem)) +
// pkg/generator/model/assignment.go SliceTypecastAssignment.String (Cast + "(e)").
type Convergen interface {
	// :typecast
	AtoB(*domain.A) *model.B
}
