package domain

type X struct{ N int }
type A struct{ Xs []*X }
