//go:build convergen

package play

// C08: F(src *A, opts ...int) is emitted as func F(src *A, opts []int) (dst *B): the declared
// parameter type is not preserved (pkg/builder/model/method.go AdditionalArgVars / createVar ignore
// sig.Variadic()). The caller in types.go no longer compiles.
type Convergen interface {
	F(src *A, opts ...int) *B
}
