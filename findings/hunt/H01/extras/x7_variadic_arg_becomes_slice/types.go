package play

type A struct{ N int }
type B struct{ N int }

// The generated F must still be callable the way the interface method is declared.
func use() *B { return F(&A{}, 1, 2, 3) }
