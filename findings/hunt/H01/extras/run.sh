#!/bin/bash
# usage: run.sh <repository root>
# Further confirmed cases (beyond f1..f5): for each module, convergen exits 0 and the result does not compile.
# Prints one line per case; exits 1 if any case is violated.
set -u
export GOFLAGS=-mod=mod GOPROXY=off GOSUMDB=off GOTOOLCHAIN=local
unset GOWORK
repo=$(cd "${1:?usage: run.sh <repository root>}" && pwd)
here=$(cd "$(dirname "$0")" && pwd)
tmp=$(mktemp -d)
trap 'rm -rf "$tmp"' EXIT
(cd "$repo" && go build -o "$tmp/convergen" .) || { echo "cannot build convergen"; exit 2; }
bad=0
for d in "$here"/x*/; do
	name=$(basename "$d")
	rm -rf "$tmp/mod"; mkdir "$tmp/mod"; cp -r "$d". "$tmp/mod/"; rm -f "$tmp/mod/setup.gen.go"
	cd "$tmp/mod" || exit 2
	if ! "$tmp/convergen" setup.go >"$tmp/out" 2>&1; then
		echo "$name: not violated (convergen refused the input)"
		continue
	fi
	if out=$(go build ./... 2>&1); then
		echo "$name: not violated (output compiles)"
	else
		echo "$name: VIOLATED - exit 0 but the package does not compile:"
		echo "$out" | sed 's/^/    /'
		bad=1
	fi
done
exit $bad
