package play

type A struct{ N int }
type B struct{ N int }

type MyErr struct{}

func (*MyErr) Error() string { return "" }

func pre(dst *B, src *A, e *MyErr)    {}
func post(dst *B, src *A, xs ...int) {}
