//go:build convergen

package play

// F1 emits pre(dst, src, arg0) with arg0 of type error for a parameter of type *MyErr:
// pkg/builder/postprocess.go buildManipulator line 54 tests types.AssignableTo(hookParam, methodArg),
// i.e. the wrong direction (it also rejects a hook that takes `any` for an int argument).
// F2 emits post(dst, src, arg0) for a variadic hook (needs arg0...).
type Convergen interface {
	// :preprocess pre
	F1(*A, error) *B
	// :postprocess post
	F2(*A, []int) *B
}
