#!/bin/sh
# usage: run.sh <repository root>
# C18: with -print the code written to the file (or, with -dry, that would have been written)
# must appear on stdout identically.
export GOFLAGS=-mod=mod GOPROXY=off GOSUMDB=off GOTOOLCHAIN=local
unset GOWORK GOFILE
ROOT=$(cd "$1" && pwd) || exit 2
HERE=$(cd "$(dirname "$0")" && pwd)
TMP=$(mktemp -d) || exit 2
trap 'rm -rf "$TMP"' EXIT
(cd "$ROOT" && go build -o "$TMP/convergen" .) || { echo "build failed"; exit 2; }

mkdir "$TMP/play" && cp "$HERE/go.mod" "$HERE/setup.go" "$TMP/play/" && cd "$TMP/play" || exit 2

"$TMP/convergen" -print setup.go >"$TMP/print.out" || { echo "unexpected failure (-print)"; exit 2; }
"$TMP/convergen" -dry -print -out other.go setup.go >"$TMP/dryprint.out" || { echo "unexpected failure (-dry -print)"; exit 2; }

bad=0
if ! cmp -s setup.gen.go "$TMP/print.out"; then
	bad=1
	echo "VIOLATION (C18): stdout of -print is not identical to the file that was written"
	echo "  file:   $(wc -c <setup.gen.go) bytes, last bytes: $(tail -c 3 setup.gen.go | od -An -tx1 | tr -d "\n")"
	echo "  stdout: $(wc -c <"$TMP/print.out") bytes, last bytes: $(tail -c 3 "$TMP/print.out" | od -An -tx1 | tr -d "\n")"
fi
if ! cmp -s setup.gen.go "$TMP/dryprint.out"; then
	bad=1
	echo "VIOLATION (C18): stdout of -dry -print is not identical to the file a real run writes"
fi
# consequence: the file is gofmt-clean, the printed code is not
cp "$TMP/dryprint.out" "$TMP/printed.go"
echo "  gofmt -l on the written file : '$(gofmt -l setup.gen.go)' (empty = formatted)"
echo "  gofmt -l on the printed code : '$(gofmt -l "$TMP/printed.go")'"
if [ $bad = 0 ]; then
	echo "OK: stdout is byte-identical to the generated file"
	exit 0
fi
echo "expected: stdout byte-identical to the generated file"
exit 1
