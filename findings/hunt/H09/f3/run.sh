#!/bin/sh
# usage: run.sh <repository root>
# C18: -log writes a log next to the output WITHOUT changing the generated code or exit status.
export GOFLAGS=-mod=mod GOPROXY=off GOSUMDB=off GOTOOLCHAIN=local
unset GOWORK GOFILE
ROOT=$(cd "$1" && pwd) || exit 2
HERE=$(cd "$(dirname "$0")" && pwd)
TMP=$(mktemp -d) || exit 2
trap 'rm -rf "$TMP"' EXIT
(cd "$ROOT" && go build -o "$TMP/convergen" .) || { echo "build failed"; exit 2; }

mkdir "$TMP/play" && cp "$HERE/go.mod" "$HERE/setup.go" "$TMP/play/" && cd "$TMP/play" || exit 2

# Dry run (nothing is to be written) for an output directory that does not exist yet.
"$TMP/convergen" -dry -print -out gen/conv.gen.go setup.go >"$TMP/nolog.out" 2>"$TMP/nolog.err"; rc1=$?
"$TMP/convergen" -dry -print -log -out gen/conv.gen.go setup.go >"$TMP/log.out" 2>"$TMP/log.err"; rc2=$?

if [ $rc1 = $rc2 ] && cmp -s "$TMP/nolog.out" "$TMP/log.out"; then
	echo "OK: -log changed neither the exit status nor the printed code"
	exit 0
fi
echo "VIOLATION (C18): adding -log changed the result of the same dry run"
echo "  without -log: exit=$rc1, stdout=$(wc -c <"$TMP/nolog.out") bytes, stderr: $(cat "$TMP/nolog.err")"
echo "  with    -log: exit=$rc2, stdout=$(wc -c <"$TMP/log.out") bytes, stderr: $(cat "$TMP/log.err")"
echo "expected: same exit status and identical stdout"
exit 1
