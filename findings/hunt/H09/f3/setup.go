//go:build convergen

package play

type A struct {
	ID   string
	Name string
}

type B struct {
	ID   string
	Name string
}

type Convergen interface {
	AtoB(*A) *B
}
