package model

type A struct {
	ID   string
	Name string
}

type B struct {
	ID   string
	Name string
}
