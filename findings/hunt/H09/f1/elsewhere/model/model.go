package model

// Same import path "play/model" as in the parent module, different fields.
type A struct {
	ID    int
	Extra string
}

type B struct {
	ID    int
	Extra string
}
