//go:build convergen

package conv

import "play/model"

type Convergen interface {
	AtoB(*model.A) *model.B
}
