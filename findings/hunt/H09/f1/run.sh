#!/bin/sh
# usage: run.sh <repository root>
# C13: the same setup file with the same flags must give the same output, exit status and
# diagnostics whatever the working directory is.
export GOFLAGS=-mod=mod GOPROXY=off GOSUMDB=off GOTOOLCHAIN=local
unset GOWORK GOFILE
ROOT=$(cd "$1" && pwd) || exit 2
HERE=$(cd "$(dirname "$0")" && pwd)
TMP=$(mktemp -d) || exit 2
trap 'rm -rf "$TMP"' EXIT
(cd "$ROOT" && go build -o "$TMP/convergen" .) || { echo "build failed"; exit 2; }

# work on a copy so that nothing is written into the deliverable directory
cp -r "$HERE" "$TMP/play"
SETUP="$TMP/play/conv/setup.go"
mkdir "$TMP/nomodule"

run() { # $1 = label, $2 = cwd
	(cd "$2" && "$TMP/convergen" -dry -print "$SETUP" >"$TMP/$1.out" 2>"$TMP/$1.err"; echo $? >"$TMP/$1.rc")
}
run inside   "$TMP/play/conv"       # cwd = package directory (as under go generate)
run nomodule "$TMP/nomodule"        # cwd = a directory that belongs to no module
run othermod "$TMP/play/elsewhere"  # cwd = a different module that also provides "play/model"

bad=0
for v in nomodule othermod; do
	if ! cmp -s "$TMP/inside.rc" "$TMP/$v.rc" || ! cmp -s "$TMP/inside.out" "$TMP/$v.out" || ! cmp -s "$TMP/inside.err" "$TMP/$v.err"; then
		bad=1
		echo "VIOLATION (C13): cwd=$v differs from cwd=inside for the same absolute input path and flags"
		echo "--- exit status: inside=$(cat "$TMP/inside.rc") $v=$(cat "$TMP/$v.rc")"
		echo "--- stdout diff (inside vs $v):"
		diff "$TMP/inside.out" "$TMP/$v.out"
		echo "--- stderr diff (inside vs $v):"
		diff "$TMP/inside.err" "$TMP/$v.err"
	fi
done
if [ $bad = 0 ]; then
	echo "OK: output, exit status and diagnostics are independent of the working directory"
	exit 0
fi
echo "expected: byte-identical stdout/stderr and the same exit status in all three working directories"
exit 1
