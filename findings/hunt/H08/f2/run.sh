#!/usr/bin/env bash
# Usage: run.sh <repository root>
# Property C15: "With -dry, or whenever the run ends in an error, the output path is left exactly
# as it was"; quantified over all flag combinations (-dry, -print, -log, -out).
# Input: -log together with an -out path whose extension is ".log": the derived log path IS the
# output path, and the log is opened with O_TRUNC before anything else happens.
set -u
REPO=${1:?usage: run.sh <repository root>}
HERE=$(cd "$(dirname "$0")" && pwd)
export GOFLAGS=-mod=mod GOPROXY=off GOSUMDB=off GOTOOLCHAIN=local
unset GOWORK

TMP=$(mktemp -d)
trap 'rm -rf "$TMP"' EXIT
(cd "$REPO" && go build -o "$TMP/convergen.bin" .) || { echo "build failed"; exit 2; }
BIN=$TMP/convergen.bin

violated=0
scenario() { # name, setup file, flags...
  local name=$1 setup=$2; shift 2
  local W=$TMP/work.$name
  mkdir -p "$W"
  cp "$HERE/go.mod" "$W/"
  cp "$HERE/$setup" "$W/setup.go"
  cd "$W" || exit 2
  printf 'PREVIOUS CONTENT OF THE OUTPUT PATH\n' > conv.log
  cp conv.log "$TMP/before"
  "$BIN" "$@" -out conv.log setup.go >/dev/null 2>"$TMP/stderr"
  local status=$?
  echo "$name: convergen $* -out conv.log setup.go -> exit status $status"
  if cmp -s conv.log "$TMP/before"; then
    echo "  OK: output path untouched"
  else
    echo "  VIOLATION: the output path was modified; it now holds:"
    head -3 conv.log | sed 's/^/    | /'
    violated=1
  fi
}

scenario dry      setup.go    -dry -log     # accepted input, dry run: must not touch the output path
scenario rejected rejected.go -log          # rejected input, run ends in an error: must not touch it

exit $violated
