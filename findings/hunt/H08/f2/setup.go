//go:build convergen

package play

type A struct{ X int }
type B struct{ X int }

type Convergen interface {
	AtoB(*A) *B
}
