#!/usr/bin/env bash
# Usage: run.sh <repository root>
# Property C15: "With -dry ... the output path is left exactly as it was" and "a run creates or
# modifies no file other than the designated output path".
# Input: the flags written AFTER the input path. They are swallowed without a word and the run
# proceeds as a normal writing run to the default output path, exit status 0.
set -u
REPO=${1:?usage: run.sh <repository root>}
HERE=$(cd "$(dirname "$0")" && pwd)
export GOFLAGS=-mod=mod GOPROXY=off GOSUMDB=off GOTOOLCHAIN=local
unset GOWORK

TMP=$(mktemp -d)
trap 'rm -rf "$TMP"' EXIT
(cd "$REPO" && go build -o "$TMP/convergen.bin" .) || { echo "build failed"; exit 2; }
BIN=$TMP/convergen.bin

violated=0

# --- scenario 1: -dry after the input path --------------------------------------------------
W=$TMP/w1; mkdir -p "$W"; cp "$HERE/go.mod" "$HERE/setup.go" "$W/"; cd "$W" || exit 2
"$BIN" setup.go -dry >"$TMP/o1" 2>&1
status=$?
echo "scenario 1: convergen setup.go -dry -> exit status $status, output: '$(cat "$TMP/o1")'"
if [ "$status" -eq 0 ] && [ -e setup.gen.go ]; then
  echo "  VIOLATION: the command line says -dry, the run reports success without any diagnostic,"
  echo "             and setup.gen.go was created ($(wc -c < setup.gen.go) bytes)"
  violated=1
elif [ "$status" -ne 0 ] && [ ! -e setup.gen.go ]; then
  echo "  OK: the misplaced flag is rejected and nothing was written"
else
  echo "  OK: nothing was written"
fi

# --- scenario 2: -out after the input path --------------------------------------------------
W=$TMP/w2; mkdir -p "$W"; cp "$HERE/go.mod" "$HERE/setup.go" "$W/"; cd "$W" || exit 2
"$BIN" setup.go -out designated.go >"$TMP/o2" 2>&1
status=$?
echo "scenario 2: convergen setup.go -out designated.go -> exit status $status, output: '$(cat "$TMP/o2")'"
if [ "$status" -eq 0 ] && [ -e setup.gen.go ] && [ ! -e designated.go ]; then
  echo "  VIOLATION: exit 0 without diagnostic; a file other than the designated output path was"
  echo "             created (setup.gen.go) and the designated one (designated.go) was not"
  violated=1
else
  echo "  OK"
fi

exit $violated
