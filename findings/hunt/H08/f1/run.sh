#!/usr/bin/env bash
# Usage: run.sh <repository root>
# Property C15: "whenever the run ends in an error, the output path is left exactly as it was
# (absent stays absent, existing content stays byte-identical)".
# Fault injected: the final write of the output fails half-way (file-size limit -> EFBIG; the same
# happens with ENOSPC / EDQUOT / EIO).
set -u
REPO=${1:?usage: run.sh <repository root>}
HERE=$(cd "$(dirname "$0")" && pwd)
export GOFLAGS=-mod=mod GOPROXY=off GOSUMDB=off GOTOOLCHAIN=local
unset GOWORK

TMP=$(mktemp -d)
trap 'rm -rf "$TMP"' EXIT
(cd "$REPO" && go build -o "$TMP/convergen.bin" .) || { echo "build failed"; exit 2; }
BIN=$TMP/convergen.bin

W=$TMP/work
mkdir -p "$W"
cp "$HERE/go.mod" "$HERE/setup.go" "$W/"
cd "$W" || exit 2

violated=0

# --- scenario 1: a good output exists, the next run fails while writing ------------------------
"$BIN" setup.go >/dev/null 2>&1 || { echo "unexpected: the fault-free run failed"; exit 2; }
cp setup.gen.go "$TMP/good.gen.go"
size=$(wc -c < setup.gen.go)
if [ "$size" -le 8192 ]; then echo "unexpected: output too small for the scenario ($size bytes)"; exit 2; fi

( ulimit -f 8; exec "$BIN" setup.go ) >"$TMP/out1.txt" 2>&1   # bash: 8 blocks of 1024 bytes
status=$?
echo "scenario 1 (existing output, write fails): exit status $status"
sed 's/^/    | /' "$TMP/out1.txt" | grep -v "no assignment" | head -5
if [ "$status" -eq 0 ]; then
  echo "  the fault did not make the run fail; scenario not applicable"
elif cmp -s setup.gen.go "$TMP/good.gen.go"; then
  echo "  OK: failed run, output byte-identical to what it was"
else
  echo "  VIOLATION: the run ended in an error but the output path changed:"
  echo "    before: $size bytes (complete, compiles)"
  echo "    after : $(wc -c < setup.gen.go) bytes (truncated)"
  violated=1
fi

# --- scenario 2: no output exists, the run fails while writing --------------------------------
rm -f setup.gen.go
( ulimit -f 8; exec "$BIN" setup.go ) >"$TMP/out2.txt" 2>&1
status=$?
echo "scenario 2 (absent output, write fails): exit status $status"
if [ "$status" -eq 0 ]; then
  echo "  the fault did not make the run fail; scenario not applicable"
elif [ ! -e setup.gen.go ]; then
  echo "  OK: failed run, output still absent"
else
  echo "  VIOLATION: the run ended in an error but created the output path ($(wc -c < setup.gen.go) bytes, truncated)"
  violated=1
fi

exit $violated
