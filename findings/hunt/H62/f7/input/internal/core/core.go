package core

type User struct {
	ID   int
	Name string
}
