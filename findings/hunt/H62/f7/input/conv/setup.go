//go:build convergen

package conv

import (
	"play/api"
)

type Convergen interface {
	ToDTO(*api.User) *api.UserDTO
	FromDTO(*api.UserDTO) *api.User
}
