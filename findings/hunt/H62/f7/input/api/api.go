// Package api re-exports the core types under its own name, a common facade layout.
package api

import "play/internal/core"

type User = core.User

type UserDTO struct {
	ID   int
	Name string
}
