package main

import (
	"fmt"
	"os"

	"play/conv"
)

func main() {
	src := &conv.Tree{
		ID: 1,
		Children: []conv.Entity{
			{ID: 10, Children: []conv.Entity{{ID: 100}}},
		},
	}
	dst := conv.ToEntity(src)

	fmt.Printf("dst.ID=%d len(dst.Children)=%d dst.Children[0].ID=%d (want 10)\n",
		dst.ID, len(dst.Children), dst.Children[0].ID)
	fmt.Printf("src.Children[0].Children[0].ID=%d (want 100: the source must not be written to)\n",
		src.Children[0].Children[0].ID)

	bad := false
	if dst.Children[0].ID != 10 {
		fmt.Println("WRONG: dst.Children[0] was not copied")
		bad = true
	}
	if src.Children[0].Children[0].ID != 100 {
		fmt.Println("WRONG: the source was modified")
		bad = true
	}
	if bad {
		os.Exit(3)
	}
}
