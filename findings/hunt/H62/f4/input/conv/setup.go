//go:build convergen

package conv

// Tree and Entity are two views of the same recursive shape.
type Tree struct {
	ID       int
	Children []Entity
}

type Entity struct {
	ID       int
	Children []Entity
}

type Convergen interface {
	// ToEntity names its result the way Go code usually does: e for entity.
	ToEntity(t *Tree) (e *Entity)
}
