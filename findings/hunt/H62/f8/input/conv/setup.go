//go:build convergen

package conv

type A struct {
	ID   int
	Name string
}

type B struct {
	ID   int
	Name string
}

// Blank parameter and result names are legal in an interface method declaration.
type Convergen interface {
	AB(_ *A) *B
	BA(b *B) (_ *A)
}
