#!/bin/bash
# usage: run.sh <repository root>
# exit 1: defect observed, 0: not observed, 2: could not run
set -u
repo=${1:?usage: run.sh <repository root>}
repo=$(cd "$repo" 2>/dev/null && pwd) || { echo "cannot enter the repository root"; exit 2; }
here=$(cd "$(dirname "$0")" && pwd)
export GOFLAGS=-mod=mod GOPROXY=off GOSUMDB=off GOTOOLCHAIN=local
unset GOWORK
tmp=$(mktemp -d) || exit 2
trap 'rm -rf "$tmp"' EXIT

(cd "$repo" && go build -o "$tmp/convergen" .) >"$tmp/build.log" 2>&1 ||
	{ cat "$tmp/build.log"; echo "could not build the tool"; exit 2; }

cp -r "$here/input" "$tmp/play" || exit 2
cd "$tmp/play/conv" || exit 2
"$tmp/convergen" setup.go >"$tmp/stdout" 2>"$tmp/stderr"
rc=$?
echo "tool exit code: $rc"
sed 's/^/stderr: /' "$tmp/stderr"
if [ $rc -ne 0 ] || [ ! -f setup.gen.go ]; then
	echo "the tool refused the input: nothing wrong was written"
	exit 0
fi
echo "--- generated functions"
sed -n '/^func /,$p' setup.gen.go

cd "$tmp/play" || exit 2
if go build ./... >"$tmp/compile.log" 2>&1; then
	echo "the generated code compiles: defect not observed"
	exit 0
fi
echo "--- go build ./..."
cat "$tmp/compile.log"
echo "VIOLATION [C04]: exit 0 and no warning, but every assignment reads from / writes to the blank identifier."
exit 1
