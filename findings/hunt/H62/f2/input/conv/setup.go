//go:build convergen

package conv

import (
	"play/other"
)

type Src struct {
	ID   int
	Name string
}

type Convergen interface {
	Conv(*Src) *other.Dst
}
