package other

// base is unexported, its field ID is not: other.Dst{}.ID is a legal selector in every package.
type base struct {
	ID int
}

type Dst struct {
	base
	Name string
}
