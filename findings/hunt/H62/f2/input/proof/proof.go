// Package proof shows that a package other than play/other may legally write Dst.ID.
package proof

import "play/other"

func Touch(dst *other.Dst, id int) {
	dst.ID = id
}
