#!/bin/bash
# usage: run.sh <repository root>
# exit 1: property violated, 0: not violated, 2: could not run
set -u
repo=${1:?usage: run.sh <repository root>}
repo=$(cd "$repo" 2>/dev/null && pwd) || { echo "cannot enter the repository root"; exit 2; }
here=$(cd "$(dirname "$0")" && pwd)
export GOFLAGS=-mod=mod GOPROXY=off GOSUMDB=off GOTOOLCHAIN=local
unset GOWORK
tmp=$(mktemp -d) || exit 2
trap 'rm -rf "$tmp"' EXIT

(cd "$repo" && go build -o "$tmp/convergen" .) >"$tmp/build.log" 2>&1 ||
	{ cat "$tmp/build.log"; echo "could not build the tool"; exit 2; }

cp -r "$here/input" "$tmp/play" || exit 2

# The field is reachable: play/proof writes other.Dst{}.ID from outside play/other.
(cd "$tmp/play" && go build ./proof ./other) >"$tmp/proof.log" 2>&1 ||
	{ cat "$tmp/proof.log"; echo "the proof package does not compile"; exit 2; }
echo "play/proof compiles: dst.ID = ... is legal outside play/other"

cd "$tmp/play/conv" || exit 2
"$tmp/convergen" setup.go >"$tmp/stdout" 2>"$tmp/stderr"
rc=$?
echo "tool exit code: $rc"
sed 's/^/stderr: /' "$tmp/stderr"
if [ $rc -ne 0 ] || [ ! -f setup.gen.go ]; then
	echo "the tool refused the input: no violation of C05 to show"
	exit 0
fi
echo "--- generated function"
sed -n '/^func /,$p' setup.gen.go

# dst.ID must be covered: by an assignment, a skip / no match comment on dst.ID or on the enclosing dst.base.
if grep -Eq 'dst\.(base\.)?ID\b|(skip|no match): dst\.base\b' setup.gen.go; then
	echo "dst.ID is accounted for: no violation"
	exit 0
fi
if grep -Eq 'ID|base' "$tmp/stderr"; then
	echo "dst.ID is at least reported on stderr: no violation"
	exit 0
fi
echo "VIOLATION [C05]: other.Dst has the reachable field ID (promoted through the unexported embedded struct 'base');"
echo "Src offers ID int; the generated function neither assigns dst.ID nor mentions it, and nothing is reported on stderr."
exit 1
