//go:build convergen

package conv

import (
	"play/other"
)

type Convergen interface {
	Conv(*other.Src) *other.Dst
}
