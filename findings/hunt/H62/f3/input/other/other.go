package other

type hidden struct{ N int }

// Hid makes the unexported type usable (but not spellable as "hidden") elsewhere.
type Hid = hidden

type Src struct {
	Points []struct{ x, y int } // unnamed struct type with unexported members
	Events []chan Hid           // chan of an unexported type
}

type Dst struct {
	Points []struct{ x, y int }
	Events []chan Hid
}
