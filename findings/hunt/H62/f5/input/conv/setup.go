//go:build convergen

package conv

type AddrV1 struct {
	Line string
}

type AddrV2 struct {
	Street string
	City   string
}

// SrcA and SrcB have the same two fields, declared in opposite order.
// Under :case:off both "Address" and "address" are same-named candidates for Dst.Address.
type SrcA struct {
	Address AddrV1 // legacy form: no member in common with AddrV2
	address AddrV2 // exactly the destination's type
}

type SrcB struct {
	address AddrV2
	Address AddrV1
}

type Dst struct {
	Address AddrV2
}

type Convergen interface {
	// :case:off
	FromA(*SrcA) *Dst
	// :case:off
	FromB(*SrcB) *Dst
}
