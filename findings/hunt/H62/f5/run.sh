#!/bin/bash
# usage: run.sh <repository root>
# exit 1: property violated, 0: not violated, 2: could not run
set -u
repo=${1:?usage: run.sh <repository root>}
repo=$(cd "$repo" 2>/dev/null && pwd) || { echo "cannot enter the repository root"; exit 2; }
here=$(cd "$(dirname "$0")" && pwd)
export GOFLAGS=-mod=mod GOPROXY=off GOSUMDB=off GOTOOLCHAIN=local
unset GOWORK
tmp=$(mktemp -d) || exit 2
trap 'rm -rf "$tmp"' EXIT

(cd "$repo" && go build -o "$tmp/convergen" .) >"$tmp/build.log" 2>&1 ||
	{ cat "$tmp/build.log"; echo "could not build the tool"; exit 2; }

cp -r "$here/input" "$tmp/play" || exit 2
cd "$tmp/play/conv" || exit 2
"$tmp/convergen" setup.go >"$tmp/stdout" 2>"$tmp/stderr"
rc=$?
echo "tool exit code: $rc"
sed 's/^/stderr: /' "$tmp/stderr"
if [ $rc -ne 0 ] || [ ! -f setup.gen.go ]; then
	echo "the tool failed on a well-formed input"
	exit 2
fi
echo "--- generated functions"
sed -n '/^func /,$p' setup.gen.go
(cd "$tmp/play" && go build ./...) || { echo "generated code does not compile"; exit 1; }

bodyA=$(sed -n '/^func FromA(/,/^}/p' setup.gen.go)
bodyB=$(sed -n '/^func FromB(/,/^}/p' setup.gen.go)
okA=0; okB=0
echo "$bodyA" | grep -q 'dst\.Address = src\.address' && okA=1
echo "$bodyB" | grep -q 'dst\.Address = src\.address' && okB=1
echo "FromA assigns dst.Address = src.address: $okA"
echo "FromB assigns dst.Address = src.address: $okB"
if [ $okA -eq 1 ] && [ $okB -eq 1 ]; then
	echo "both functions use the assignable candidate: no violation"
	exit 0
fi
echo "VIOLATION [C04]: SrcA offers the accessible, same-named (under :case:off), assignable candidate 'address AddrV2',"
echo "yet dst.Address is left unassigned because the earlier candidate 'Address AddrV1', whose member-wise copy matches"
echo "nothing, ended the search. The outcome depends on the declaration order of the source fields."
exit 1
