package out

import "play/b/model"

// Dst is the destination struct.
type Dst struct {
	Status model.Status
	Tags   []model.Tag
}
