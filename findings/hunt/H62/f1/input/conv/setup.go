//go:build convergen

package conv

import (
	"play/a/model"
	"play/out"
)

type Convergen interface {
	// :typecast
	Conv(*model.Src) *out.Dst
}
