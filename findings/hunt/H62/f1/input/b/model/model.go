// Package model (play/b/model) has the same name as play/a/model.
// The setup file does not import it; it is only reached through out.Dst.
package model

type Status int

type Tag int
