package model

// Src is the source struct. Its package is imported by the setup file as "model".
type Src struct {
	Status int
	Tags   []int
}
