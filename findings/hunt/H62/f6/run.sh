#!/bin/bash
# usage: run.sh <repository root>
# exit 1: property violated, 0: not violated, 2: could not run
set -u
repo=${1:?usage: run.sh <repository root>}
repo=$(cd "$repo" 2>/dev/null && pwd) || { echo "cannot enter the repository root"; exit 2; }
here=$(cd "$(dirname "$0")" && pwd)
export GOFLAGS=-mod=mod GOPROXY=off GOSUMDB=off GOTOOLCHAIN=local
unset GOWORK
tmp=$(mktemp -d) || exit 2
trap 'rm -rf "$tmp"' EXIT

(cd "$repo" && go build -o "$tmp/convergen" .) >"$tmp/build.log" 2>&1 ||
	{ cat "$tmp/build.log"; echo "could not build the tool"; exit 2; }

cp -r "$here/input" "$tmp/play" || exit 2
cd "$tmp/play/conv" || exit 2
"$tmp/convergen" setup.go >"$tmp/stdout" 2>"$tmp/stderr"
rc=$?
echo "tool exit code: $rc"
sed 's/^/stderr: /' "$tmp/stderr"
if [ $rc -ne 0 ] || [ ! -f setup.gen.go ]; then
	echo "the tool refused the input: nothing to compare"
	exit 0
fi
echo "--- generated functions"
sed -n '/^func /,$p' setup.gen.go

first=$(sed -n '/^func First(/,/^}/p' setup.gen.go | grep -c 'dst\.ID = int64(src\.ID)')
second=$(sed -n '/^func Second(/,/^}/p' setup.gen.go | grep -c 'dst\.ID = int64(src\.ID)')
echo "First  converts ID with int64(): $first"
echo "Second converts ID with int64(): $second"
if [ "$first" = "$second" ]; then
	echo "both methods are treated alike: no violation"
	exit 0
fi
echo "VIOLATION [C04]: First and Second have the same signature, no doc comment of their own and sit in the same"
echo "interface, yet one gets the :typecast conversion and the other a 'no match'. Whatever the notation on the"
echo "embedded interface means, one of the two is wrong: a conversion without opt-in, or an opt-in that is ignored."
exit 1
