//go:build convergen

package conv

type X struct{ ID int }
type Y struct{ ID int64 }

// shared holds converters that several converter interfaces embed.
// :typecast
type shared interface {
	First(*X) *Y
	Second(*X) *Y
}

type Convergen interface {
	shared
}
