#!/bin/sh
# usage: run.sh <repository root>
# exit 1: property C04 violated, exit 0: not violated, exit 2: could not run
set -u
export GOFLAGS=-mod=mod GOPROXY=off GOSUMDB=off GOTOOLCHAIN=local
unset GOWORK
REPO=${1:?usage: run.sh <repository root>}
HERE=$(cd "$(dirname "$0")" && pwd)
TMP=$(mktemp -d)
trap 'rm -rf "$TMP"' EXIT
(cd "$REPO" && go build -o "$TMP/convergen.bin" .) || { echo "cannot build the tool"; exit 2; }
mkdir "$TMP/mod" && cp "$HERE/go.mod" "$HERE/setup.go" "$TMP/mod/" || exit 2
cd "$TMP/mod" || exit 2

"$TMP/convergen.bin" -dry -print setup.go >"$TMP/out" 2>"$TMP/err"
rc=$?
if [ $rc -ne 0 ]; then echo "tool exited $rc"; cat "$TMP/err"; exit 2; fi
sed -n '/^func Conv/,/^}/p' "$TMP/out" >"$TMP/body"

# control: a destination field without any same-name source field is reported
grep -q 'no match: dst\.DeletedAt' "$TMP/body" || { echo "control failed: dst.DeletedAt not reported"; cat "$TMP/body"; exit 2; }

if grep -q 'dst\.CreatedAt' "$TMP/body"; then
	echo "C04 holds for this input: dst.CreatedAt is assigned or reported"
	exit 0
fi
echo "C04 violated: destination field dst.CreatedAt (time.Time) can not be assigned from src.CreatedAt (sql.NullTime),"
echo "expected '// no match: dst.CreatedAt' in the function body and a 'no assignment' warning, observed neither:"
sed 's/^/    /' "$TMP/body"
echo "stderr:"
sed 's/^/    /' "$TMP/err"
exit 1
