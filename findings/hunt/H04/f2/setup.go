//go:build convergen

package play

import (
	"database/sql"
	"time"
)

type Dst struct {
	ID        int
	CreatedAt time.Time
	DeletedAt time.Time
}

type Src struct {
	ID        int
	CreatedAt sql.NullTime // a struct, but not time.Time
}

type Convergen interface {
	Conv(*Src) *Dst
}
