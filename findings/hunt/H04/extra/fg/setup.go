//go:build convergen

package play

import "play/ext"

type Convergen interface {
	// :getter
	Conv(*ext.Src) *ext.Dst
}
