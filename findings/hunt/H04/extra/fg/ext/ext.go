package ext

type Dst struct {
	Inner struct {
		A int
		b int
	}
	G GI
}

type Src struct {
	Inner struct {
		A int
		b int
		C int
	}
}

type GI struct{ Name string }
type GS struct{ name string }

func (s *GS) Name() string { return s.name }
func (s *Src) G() GS      { return GS{} }
