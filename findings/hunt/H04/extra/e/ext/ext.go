package ext

type Tag struct{ V string }

type Dst struct {
	Tags []*Tag
}
