//go:build convergen

package play

import "play/ext"

type Tag struct{ V string }

type Src struct {
	Tags []*Tag
}

type Convergen interface {
	// :typecast
	Conv(*Src) *ext.Dst
}
