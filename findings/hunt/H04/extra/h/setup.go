//go:build convergen

package play

type Box[T any] struct{ V T }

type Dst struct {
	Items []Box[int]
	One   Box[string]
}

type Src struct {
	Items []Box[int]
	One   Box[string]
}

type Convergen interface {
	Conv(*Src) *Dst
}
