//go:build convergen

package play

import "fmt"

type PS struct{ v int }

func (p *PS) String() string { return fmt.Sprint(p.v) }

type VS struct{ v int }

func (p VS) String() string { return fmt.Sprint(p.v) }

type Dst struct {
	A string
	B string
	C string
	D string
	E string
	F string
}

type Src struct {
	A *PS
	B PS
	C *VS
	D VS
	E fmt.Stringer
	F *fmt.Stringer
}

type Convergen interface {
	// :stringer
	Conv(*Src) *Dst
}
