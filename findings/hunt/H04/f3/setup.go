//go:build convergen

package play

import "play/ext"

type Dst struct {
	ID       int
	Millisec int64 // to be skipped
	At       ext.Stamp
	Span     ext.Span
}

type Src struct {
	ID       int
	Millisec int64
	At       ext.Stamp
	Span     ext.Span
}

type Convergen interface {
	// :skip /sec/
	Conv(*Src) *Dst
	// (control: the same without :skip)
	Plain(*Src) *Dst
}
