package play

import (
	"testing"

	"play/ext"
)

func TestConv(t *testing.T) {
	src := &Src{ID: 1, Millisec: 2, At: ext.NewStamp(3, 4), Span: ext.NewSpan(5, 6)}

	ctl := Plain(src)
	if ctl.ID != 1 || ctl.Millisec != 2 || ctl.At != src.At || ctl.Span != src.Span {
		t.Fatalf("control failed: Plain = %+v", *ctl)
	}

	dst := Conv(src)
	if dst.ID != 1 {
		t.Errorf("dst.ID = %v, want 1", dst.ID)
	}
	if dst.Millisec != 0 {
		t.Errorf("dst.Millisec = %v, want 0 (path Millisec matches /sec/)", dst.Millisec)
	}
	if dst.At != src.At {
		t.Errorf("dst.At = %+v, want %+v (path At does not match /sec/, it has no accessible member)", dst.At, src.At)
	}
	if dst.Span != src.Span {
		t.Errorf("dst.Span = %+v, want %+v (neither Span nor Span.Start matches /sec/)", dst.Span, src.Span)
	}
}
