// Package ext stands for any third-party package with value types that keep part of their state unexported.
package ext

// Stamp is an opaque point in time (like time.Time: unexported members only).
type Stamp struct {
	sec  int64
	nsec int32
}

func NewStamp(sec int64, nsec int32) Stamp { return Stamp{sec, nsec} }

// Span has one exported and one unexported member.
type Span struct {
	Start int64
	nsec  int32
}

func NewSpan(start int64, nsec int32) Span { return Span{start, nsec} }
