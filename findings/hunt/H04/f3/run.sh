#!/bin/sh
# usage: run.sh <repository root>
# exit 1: properties C19/C04 violated, exit 0: not violated, exit 2: could not run
set -u
export GOFLAGS=-mod=mod GOPROXY=off GOSUMDB=off GOTOOLCHAIN=local
unset GOWORK
REPO=${1:?usage: run.sh <repository root>}
HERE=$(cd "$(dirname "$0")" && pwd)
TMP=$(mktemp -d)
trap 'rm -rf "$TMP"' EXIT
(cd "$REPO" && go build -o "$TMP/convergen.bin" .) || { echo "cannot build the tool"; exit 2; }
mkdir "$TMP/mod" && cp -r "$HERE/go.mod" "$HERE/setup.go" "$HERE/conv_test.go" "$HERE/ext" "$TMP/mod/" || exit 2
cd "$TMP/mod" || exit 2

"$TMP/convergen.bin" -print setup.go >"$TMP/out" 2>"$TMP/err"
rc=$?
if [ $rc -ne 0 ]; then echo "tool exited $rc"; cat "$TMP/err"; exit 2; fi
echo "generated (exit 0):"
sed -n '/^func Conv/,/^}/p' "$TMP/out" | sed 's/^/    /'
go vet . >"$TMP/vet" 2>&1 || { echo "generated code does not compile:"; cat "$TMP/vet"; exit 1; }

if go test -count=1 . >"$TMP/test" 2>&1; then
	echo "C19/C04 hold for this input: only the destination path Millisec is skipped"
	exit 0
fi
if grep -q 'control failed' "$TMP/test"; then cat "$TMP/test"; exit 2; fi
echo "C19/C04 violated: ':skip /sec/' matches only the destination path 'Millisec' among the accessible paths"
echo "{ID, Millisec, At, Span, Span.Start}; expected dst.At and dst.Span to be copied as in Plain(), observed:"
grep -- '--- FAIL\|conv_test.go' "$TMP/test" | sed 's/^/    /'
exit 1
