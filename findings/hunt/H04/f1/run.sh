#!/bin/sh
# usage: run.sh <repository root>
# exit 1: property C04 violated, exit 0: not violated, exit 2: could not run
set -u
export GOFLAGS=-mod=mod GOPROXY=off GOSUMDB=off GOTOOLCHAIN=local
unset GOWORK
REPO=${1:?usage: run.sh <repository root>}
HERE=$(cd "$(dirname "$0")" && pwd)
TMP=$(mktemp -d)
trap 'rm -rf "$TMP"' EXIT
(cd "$REPO" && go build -o "$TMP/convergen.bin" .) || { echo "cannot build the tool"; exit 2; }
mkdir "$TMP/mod" && cp -r "$HERE/go.mod" "$HERE/a" "$HERE/b" "$TMP/mod/" || exit 2

fail=0
for d in a b; do
	cd "$TMP/mod/$d" || exit 2
	"$TMP/convergen.bin" -dry -print setup.go >"$TMP/$d.out" 2>"$TMP/$d.err"
	rc=$?
	if [ $rc -ne 0 ]; then echo "variant $d: tool exited $rc"; cat "$TMP/$d.err"; exit 2; fi
	if grep -q 'dst\.NAME = src\.Name$' "$TMP/$d.out"; then
		echo "variant $d: ok      dst.NAME = src.Name"
	else
		echo "variant $d: VIOLATION expected 'dst.NAME = src.Name' (Src.Name is a string field equal to NAME under :case:off), observed:"
		sed -n '/^func Conv/,/^}/p' "$TMP/$d.out" | sed 's/^/    /'
		fail=1
	fi
done
if [ $fail -ne 0 ]; then
	echo "C04 violated: an assignable same-name candidate exists but the field is reported as 'no match';"
	echo "the result depends on the declaration order of the source fields (variants a and b differ only in that order)."
	exit 1
fi
echo "C04 holds for this input"
exit 0
