//go:build convergen

package b

type Dst struct {
	NAME string
	Age  int
}

// Same as package a, only the order of the first two fields is swapped.
type Src struct {
	Name string
	name int
	Age  int
}

type Convergen interface {
	// :case:off
	Conv(*Src) *Dst
}
