//go:build convergen

package a

type Dst struct {
	NAME string
	Age  int
}

// Src has two fields that are equal to "NAME" under case folding.
// Only the second one has a type that is assignable to Dst.NAME.
type Src struct {
	name int
	Name string
	Age  int
}

type Convergen interface {
	// :case:off
	Conv(*Src) *Dst
}
