//go:build convergen

package play

// Both structs use the usual blank-field idioms (keyed literals only / not comparable / padding).
type Dst struct {
	_    struct{}
	Name string
	_    [0]func()
}

type Src struct {
	_    struct{}
	Name string
	_    [0]func()
}

type Convergen interface {
	Conv(*Src) *Dst
}
