#!/bin/sh
# usage: run.sh <repository root>
# exit 1: property C04 violated, exit 0: not violated, exit 2: could not run
set -u
export GOFLAGS=-mod=mod GOPROXY=off GOSUMDB=off GOTOOLCHAIN=local
unset GOWORK
REPO=${1:?usage: run.sh <repository root>}
HERE=$(cd "$(dirname "$0")" && pwd)
TMP=$(mktemp -d)
trap 'rm -rf "$TMP"' EXIT
(cd "$REPO" && go build -o "$TMP/convergen.bin" .) || { echo "cannot build the tool"; exit 2; }
mkdir "$TMP/mod" && cp "$HERE/go.mod" "$HERE/setup.go" "$TMP/mod/" || exit 2
cd "$TMP/mod" || exit 2

"$TMP/convergen.bin" -print setup.go >"$TMP/out" 2>"$TMP/err"
rc=$?
if [ $rc -ne 0 ]; then echo "tool exited $rc"; cat "$TMP/err"; exit 2; fi
echo "generated (exit 0):"
sed -n '/^func Conv/,/^}/p' "$TMP/out" | sed 's/^/    /'
if go build . >"$TMP/build" 2>&1 && ! grep -q '^[[:space:]]*dst\._ = ' "$TMP/out"; then
	echo "C04 holds for this input: blank fields are not assigned, the output compiles"
	exit 0
fi
echo "C04 violated: the blank field '_' is not an accessible candidate (it can not be referred to), expected only"
echo "'dst.Name = src.Name'; observed an assignment between blank fields, the output does not compile:"
sed 's/^/    /' "$TMP/build"
exit 1
