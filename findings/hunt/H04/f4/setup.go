//go:build convergen

package play

import "play/ext"

// ID allocates a fresh identifier in the given shard. It has nothing to do with the conversion below.
func ID(shard int) ext.ID { return ext.ID(shard)<<32 | 1 }

type Src struct {
	ID int
}

type Convergen interface {
	// :typecast
	Conv(*Src) *ext.Dst
}
