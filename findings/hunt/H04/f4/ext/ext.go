package ext

type ID int64

type Dst struct {
	ID ID
}
