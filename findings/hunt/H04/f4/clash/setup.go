//go:build convergen

package clash

import "play/ext"

// ID is this package's own identifier type; it only shares its name with ext.ID.
type ID string

type Src struct {
	ID int
}

type Convergen interface {
	// :typecast
	Conv(*Src) *ext.Dst
}
