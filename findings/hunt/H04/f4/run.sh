#!/bin/sh
# usage: run.sh <repository root>
# exit 1: property C04 violated, exit 0: not violated, exit 2: could not run
set -u
export GOFLAGS=-mod=mod GOPROXY=off GOSUMDB=off GOTOOLCHAIN=local
unset GOWORK
REPO=${1:?usage: run.sh <repository root>}
HERE=$(cd "$(dirname "$0")" && pwd)
TMP=$(mktemp -d)
trap 'rm -rf "$TMP"' EXIT
(cd "$REPO" && go build -o "$TMP/convergen.bin" .) || { echo "cannot build the tool"; exit 2; }
mkdir "$TMP/mod" && cp -r "$HERE/go.mod" "$HERE/setup.go" "$HERE/conv_test.go" "$HERE/ext" "$HERE/clash" "$TMP/mod/" || exit 2
fail=0

# scenario 1: a function of the setup package has the name of the imported destination type
cd "$TMP/mod" || exit 2
"$TMP/convergen.bin" -print setup.go >"$TMP/out1" 2>"$TMP/err1"
rc=$?
if [ $rc -ne 0 ]; then echo "scenario 1: tool exited $rc"; cat "$TMP/err1"; exit 2; fi
echo "scenario 1 (func ID in the setup package), generated with exit 0:"
sed -n '/^func Conv/,/^}/p' "$TMP/out1" | sed 's/^/    /'
if ! go vet . >"$TMP/vet1" 2>&1; then
	echo "  VIOLATION: generated code does not compile"; sed 's/^/    /' "$TMP/vet1"; fail=1
elif ! go test -count=1 . >"$TMP/test1" 2>&1; then
	echo "  VIOLATION: expected 'dst.ID = ext.ID(src.ID)' (a conversion), observed a call of the unrelated function play.ID:"
	grep 'conv_test.go' "$TMP/test1" | sed 's/^/    /'
	fail=1
else
	echo "  ok"
fi

# scenario 2: a type of the setup package has the name of the imported destination type
cd "$TMP/mod/clash" || exit 2
"$TMP/convergen.bin" -print setup.go >"$TMP/out2" 2>"$TMP/err2"
rc=$?
if [ $rc -ne 0 ]; then echo "scenario 2: tool exited $rc"; cat "$TMP/err2"; exit 2; fi
echo "scenario 2 (type ID string in the setup package), generated with exit 0:"
sed -n '/^func Conv/,/^}/p' "$TMP/out2" | sed 's/^/    /'
if ! go build . >"$TMP/build2" 2>&1; then
	echo "  VIOLATION: expected 'dst.ID = ext.ID(src.ID)', the generated code does not compile:"
	sed 's/^/    /' "$TMP/build2"
	fail=1
else
	echo "  ok"
fi

if [ $fail -ne 0 ]; then
	echo "C04 violated: the opted-in conversion to the imported type ext.ID is emitted with the unqualified name ID"
	exit 1
fi
echo "C04 holds for this input"
exit 0
