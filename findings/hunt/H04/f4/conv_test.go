package play

import "testing"

func TestConv(t *testing.T) {
	dst := Conv(&Src{ID: 7})
	if dst.ID != 7 {
		t.Errorf("Conv(&Src{ID: 7}).ID = %d, want 7 (the conversion ext.ID(src.ID))", dst.ID)
	}
}
