#!/bin/sh
# usage: run.sh <repository root>
# C01: an operand (parameter, result or receiver) named like the local hook function hides that function
# in the generated body: convergen exits 0 and the output does not compile.
root=${1:?usage: run.sh <repository root>}
root=$(cd "$root" 2>/dev/null && pwd) || { echo "no such root"; exit 2; }
export GOFLAGS=-mod=mod GOPROXY=off GOSUMDB=off GOTOOLCHAIN=local
unset GOWORK
tmp=$(mktemp -d) || exit 2
trap 'rm -rf "$tmp"' EXIT INT TERM

(cd "$root" && go build -o "$tmp/convergen" .) >"$tmp/build.log" 2>&1 || { cat "$tmp/build.log"; echo "build failed"; exit 2; }

# mk <dir> <method line>
mk() {
	mkdir -p "$1" || return 1
	printf 'module play\ngo 1.19\n' >"$1/go.mod"
	cat >"$1/types.go" <<'EOT'
package play

type Src struct{ A int }
type Dst struct{ A int }

var Calls int

func prepare(dst *Dst, src *Src) { Calls++ }
EOT
	cat >"$1/setup.go" <<EOT
//go:build convergen

package play

type Convergen interface {
	// :preprocess prepare
	$2
}
EOT
}

# control: the same input with an ordinary parameter name must generate and compile
mk "$tmp/ctl" 'F(src *Src) (dst *Dst)'
(cd "$tmp/ctl" && "$tmp/convergen" setup.go >gen.log 2>&1 && go build ./... >build.log 2>&1) || {
	cat "$tmp/ctl/gen.log" "$tmp/ctl/build.log" 2>/dev/null
	echo "control case failed"
	exit 2
}
grep -q 'prepare(dst, src)' "$tmp/ctl/setup.gen.go" || { echo "control: hook call not found"; exit 2; }

bad=""
n=0
for m in 'F(prepare *Src) (dst *Dst)' 'F(src *Src) (prepare *Dst)' 'F(src *Src, prepare int) (dst *Dst)'; do
	n=$((n + 1))
	d="$tmp/case$n"
	mk "$d" "$m"
	if (cd "$d" && "$tmp/convergen" setup.go >gen.log 2>&1); then
		[ -f "$d/setup.gen.go" ] || { echo "no output file for: $m"; exit 2; }
		if ! (cd "$d" && go build ./... >build.log 2>&1); then
			bad="$bad
  $m -> exit 0, but: $(grep -v '^#' "$d/build.log" | head -1)"
		fi
	fi
done

if [ -n "$bad" ]; then
	echo "VIOLATED: C01 - convergen exits 0 but the emitted file does not compile: an operand named like the local hook hides it:$bad"
	exit 1
fi
echo "not violated"
exit 0
