#!/bin/sh
# usage: run.sh <repository root>
# C01: the hook's package is imported twice in the setup file (dot import, used for the hook, and a named
# import, used for the types). convergen exits 0, writes the hook call with the named import and keeps the
# dot import, which is then unused: the output does not compile.
root=${1:?usage: run.sh <repository root>}
root=$(cd "$root" 2>/dev/null && pwd) || { echo "no such root"; exit 2; }
export GOFLAGS=-mod=mod GOPROXY=off GOSUMDB=off GOTOOLCHAIN=local
unset GOWORK
tmp=$(mktemp -d) || exit 2
trap 'rm -rf "$tmp"' EXIT INT TERM

(cd "$root" && go build -o "$tmp/convergen" .) >"$tmp/build.log" 2>&1 || { cat "$tmp/build.log"; echo "build failed"; exit 2; }

# mk <dir> <import lines> <hook name> <type qualifier>
mk() {
	mkdir -p "$1/hooks" || return 1
	printf 'module play\ngo 1.19\n' >"$1/go.mod"
	cat >"$1/hooks/hooks.go" <<'EOT'
package hooks

type Src struct{ A int }
type Dst struct{ A int }

var Calls int

func Pre(dst *Dst, src *Src) { Calls++ }
EOT
	cat >"$1/setup.go" <<EOT
//go:build convergen

package play

import (
$2
)

type Convergen interface {
	// :preprocess $3
	F(src *$4Src) (dst *$4Dst)
}
EOT
}

# control: dot import alone, and named import alone, generate and compile
mk "$tmp/ctl1" '	. "play/hooks"' Pre ''
mk "$tmp/ctl2" '	hk "play/hooks"' hk.Pre hk.
for c in ctl1 ctl2; do
	(cd "$tmp/$c" && "$tmp/convergen" setup.go >gen.log 2>&1 && go build ./... >build.log 2>&1) || {
		cat "$tmp/$c/gen.log" "$tmp/$c/build.log" 2>/dev/null
		echo "control case $c failed"
		exit 2
	}
done

mk "$tmp/case" '	. "play/hooks"
	hk "play/hooks"' Pre hk.
if ! (cd "$tmp/case" && "$tmp/convergen" setup.go >gen.log 2>&1); then
	echo "not violated (input rejected: $(sort -u "$tmp/case/gen.log" | head -1))"
	exit 0
fi
[ -f "$tmp/case/setup.gen.go" ] || { echo "no output file"; exit 2; }
if (cd "$tmp/case" && go build ./... >build.log 2>&1); then
	echo "not violated"
	exit 0
fi
echo "VIOLATED: C01 - convergen exits 0 for a setup file that imports the hook's package as '.' and as 'hk', but the emitted file does not compile: $(grep -v '^#' "$tmp/case/build.log" | head -1)"
exit 1
