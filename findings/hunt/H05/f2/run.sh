#!/bin/sh
# usage: run.sh <repository root>
# exit 1: property violated; exit 0: not violated; exit 2: could not run the scenario
set -u
export GOFLAGS=-mod=mod GOPROXY=off GOSUMDB=off GOTOOLCHAIN=local
unset GOWORK
REPO=${1:?usage: run.sh <repository root>}
REPO=$(cd "$REPO" && pwd)
HERE=$(cd "$(dirname "$0")" && pwd)
TMP=$(mktemp -d)
trap 'rm -rf "$TMP"' EXIT

(cd "$REPO" && go build -o "$TMP/convergen" .) || { echo "cannot build the tool"; exit 2; }
mkdir "$TMP/mod" && cp "$HERE"/go.mod "$HERE"/*.go "$TMP/mod/" || exit 2
cd "$TMP/mod" || exit 2

"$TMP/convergen" setup.go >"$TMP/stdout" 2>"$TMP/stderr"
rc=$?
if [ $rc -ne 0 ] || [ ! -f setup.gen.go ]; then
	echo "the tool failed (exit $rc):"; cat "$TMP/stderr"; exit 2
fi

echo "--- generated functions:"
sed -n '/^func /,/^}/p' setup.gen.go
echo "--- stderr of the tool:"
cat "$TMP/stderr"

bad=0
if grep -n '\._\b' setup.gen.go | grep -v '^\s*[0-9]*:\s*//' >"$TMP/blank"; [ -s "$TMP/blank" ]; then
	echo "VIOLATION: a blank field, which no package can refer to, is assigned (expected: never mentioned):"
	cat "$TMP/blank"
	bad=1
fi
if grep -n '^\s*// \(no match\|skip\): .*\._$' setup.gen.go >"$TMP/blankc"; [ -s "$TMP/blankc" ]; then
	echo "NOTE: a blank field is reported as unmatched (it can never be matched):"
	cat "$TMP/blankc"
fi

echo "--- go build of the generated package:"
if ! go build ./... 2>&1; then
	echo "VIOLATION: the tool exited 0 but its output does not compile"
	bad=1
fi

if [ $bad -ne 0 ]; then
	echo "RESULT: property C05 violated"
	exit 1
fi
echo "RESULT: no violation"
exit 0
