//go:build convergen

package play

type Convergen interface {
	Copy(*Src) *Dst
	Copy2(*Src2) *Dst2
}
