package play

// The blank field is the usual idiom that forces keyed composite literals
// (other common forms: `_ [0]func()` to forbid ==, `_ noCopy`, padding `_ [4]byte`).

type Src struct {
	_    struct{}
	Name string
}

type Dst struct {
	_    struct{}
	Name string
}

// Only the destination has a blank field.
type Dst2 struct {
	_    [0]func()
	Name string
}

type Src2 struct {
	Name string
}
