#!/bin/sh
# usage: run.sh <repository root>
# exit 1: property violated; exit 0: not violated; exit 2: could not run the scenario
set -u
export GOFLAGS=-mod=mod GOPROXY=off GOSUMDB=off GOTOOLCHAIN=local
unset GOWORK
REPO=${1:?usage: run.sh <repository root>}
REPO=$(cd "$REPO" && pwd)
HERE=$(cd "$(dirname "$0")" && pwd)
TMP=$(mktemp -d)
trap 'rm -rf "$TMP"' EXIT

(cd "$REPO" && go build -o "$TMP/convergen" .) || { echo "cannot build the tool"; exit 2; }
mkdir "$TMP/mod" && cp "$HERE"/go.mod "$HERE"/*.go "$TMP/mod/" || exit 2
cd "$TMP/mod" || exit 2

"$TMP/convergen" setup.go >"$TMP/stdout" 2>"$TMP/stderr"
rc=$?
if [ $rc -ne 0 ] || [ ! -f setup.gen.go ]; then
	echo "the tool failed (exit $rc):"; cat "$TMP/stderr"; exit 2
fi

echo "--- generated functions:"
sed -n '/^func /,/^}/p' setup.gen.go
echo "--- stderr of the tool:"
cat "$TMP/stderr"
echo "---"

bad=0
body=$(sed -n '/^func ByPointer(/,/^}/p' setup.gen.go)
# each of the four addressed paths must be covered by its own line
# (skip comment, literal, mapped source, converter call - or a "no match" comment)
for path in Secret Source Zip Street; do
	if ! printf '%s\n' "$body" | grep -q "dst\.Addr\.$path\b"; then
		echo "VIOLATION: ByPointer: the notation addressing Addr.$path left no trace (expected a line for dst.Addr.$path as in ByValue)"
		bad=1
	fi
done
if printf '%s\n' "$body" | grep -q '^	dst\.Addr = src\.Addr$'; then
	echo "VIOLATION: ByPointer: the enclosing member is copied as a whole (dst.Addr = src.Addr), which assigns the :skip'ed member and overrides :literal/:map/:conv"
	bad=1
fi

echo "--- behaviour of the generated functions (go test):"
if ! go test ./... 2>&1; then
	bad=1
fi

if [ $bad -ne 0 ]; then
	echo "RESULT: property C06 violated"
	exit 1
fi
echo "RESULT: no violation"
exit 0
