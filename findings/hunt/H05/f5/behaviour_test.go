package play

import "testing"

// Compiled only after setup.gen.go has been generated (see run.sh).

func TestByValueControl(t *testing.T) {
	src := &UserV{Name: "n", Zip: "outer", Addr: Address{Street: "s", Secret: "x", Source: "orig", Zip: "inner"}}
	got := ByValue(src).Addr
	want := Address{Street: "<n>", Secret: "", Source: "import", Zip: "outer"}
	if got != want {
		t.Errorf("control: got %+v, want %+v", got, want)
	}
}

func TestByPointer(t *testing.T) {
	src := &User{Name: "n", Zip: "outer", Addr: &Address{Street: "s", Secret: "x", Source: "orig", Zip: "inner"}}
	dst := ByPointer(src)
	if dst.Addr == nil {
		t.Fatalf("dst.Addr is nil")
	}
	if dst.Addr.Secret != "" {
		t.Errorf(":skip Addr.Secret: dst.Addr.Secret = %q, want it untouched (\"\")", dst.Addr.Secret)
	}
	if dst.Addr.Source != "import" {
		t.Errorf(":literal Addr.Source \"import\": dst.Addr.Source = %q", dst.Addr.Source)
	}
	if dst.Addr.Zip != "outer" {
		t.Errorf(":map Zip Addr.Zip: dst.Addr.Zip = %q, want %q (src.Zip)", dst.Addr.Zip, "outer")
	}
	if dst.Addr.Street != "<n>" {
		t.Errorf(":conv upper Name Addr.Street: dst.Addr.Street = %q, want %q", dst.Addr.Street, "<n>")
	}
}
