package play

type Address struct {
	Street string
	Secret string
	Source string
	Zip    string
}

// The address is held by pointer (optional member).
type User struct {
	Name string
	Zip  string
	Addr *Address
}

type UserRow struct {
	Name string
	Addr *Address
}

// Control: the same shapes with the address held by value.
type UserV struct {
	Name string
	Zip  string
	Addr Address
}

type UserRowV struct {
	Name string
	Addr Address
}

func upper(s string) string { return "<" + s + ">" }
