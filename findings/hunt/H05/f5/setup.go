//go:build convergen

package play

type Convergen interface {
	// :skip Addr.Secret
	// :literal Addr.Source "import"
	// :map Zip Addr.Zip
	// :conv upper Name Addr.Street
	ByPointer(*User) *UserRow

	// :skip Addr.Secret
	// :literal Addr.Source "import"
	// :map Zip Addr.Zip
	// :conv upper Name Addr.Street
	ByValue(*UserV) *UserRowV
}
