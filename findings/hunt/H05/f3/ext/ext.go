// Package ext stands for any imported package (a protobuf/config/ORM model, ...).
package ext

// Config has a member of an unnamed struct type with an unexported field.
type Config struct {
	Name  string
	Limit struct {
		max   int // not visible outside package ext
		Burst int
	}
}

// SetMax is how other packages are expected to set the limit.
func (c *Config) SetMax(n int) { c.Limit.max = n }
