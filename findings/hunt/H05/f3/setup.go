//go:build convergen

package play

import "play/ext"

type Convergen interface {
	// destination side: ext.Config.Limit.max must not be mentioned
	ToExt(*Settings) *ext.Config
	// source side: the same member must not be read either
	FromExt(*ext.Config) *Settings
}
