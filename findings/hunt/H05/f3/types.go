package play

type Limit struct {
	max   int
	Burst int
}

type Settings struct {
	Name  string
	Limit Limit
}
