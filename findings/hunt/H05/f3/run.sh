#!/bin/sh
# usage: run.sh <repository root>
# exit 1: property violated; exit 0: not violated; exit 2: could not run the scenario
set -u
export GOFLAGS=-mod=mod GOPROXY=off GOSUMDB=off GOTOOLCHAIN=local
unset GOWORK
REPO=${1:?usage: run.sh <repository root>}
REPO=$(cd "$REPO" && pwd)
HERE=$(cd "$(dirname "$0")" && pwd)
TMP=$(mktemp -d)
trap 'rm -rf "$TMP"' EXIT

(cd "$REPO" && go build -o "$TMP/convergen" .) || { echo "cannot build the tool"; exit 2; }
mkdir -p "$TMP/mod/ext" && cp "$HERE"/go.mod "$HERE"/*.go "$TMP/mod/" && cp "$HERE"/ext/*.go "$TMP/mod/ext/" || exit 2
cd "$TMP/mod" || exit 2

"$TMP/convergen" setup.go >"$TMP/stdout" 2>"$TMP/stderr"
rc=$?
if [ $rc -ne 0 ] || [ ! -f setup.gen.go ]; then
	echo "the tool failed (exit $rc):"; cat "$TMP/stderr"; exit 2
fi

echo "--- generated functions:"
sed -n '/^func /,/^}/p' setup.gen.go
echo "--- stderr of the tool:"
cat "$TMP/stderr"

bad=0
# ext.Config.Limit.max is the only member the generated package cannot see.
sed -n '/^func ToExt/,/^}/p' setup.gen.go | grep -n 'dst\.Limit\.max' >"$TMP/m1"
sed -n '/^func FromExt/,/^}/p' setup.gen.go | grep -n 'src\.Limit\.max' >"$TMP/m2"
if [ -s "$TMP/m1" ]; then
	echo "VIOLATION: ToExt mentions the unexported member max of the imported type ext.Config (expected: never mentioned):"
	cat "$TMP/m1"
	bad=1
fi
if [ -s "$TMP/m2" ]; then
	echo "VIOLATION: FromExt reads the unexported member max of the imported type ext.Config (expected: dst.Limit.max is 'no match'):"
	cat "$TMP/m2"
	bad=1
fi

echo "--- go build of the generated package:"
if ! go build ./... 2>&1; then
	echo "VIOLATION: the tool exited 0 but its output does not compile"
	bad=1
fi

if [ $bad -ne 0 ]; then
	echo "RESULT: property C05 violated"
	exit 1
fi
echo "RESULT: no violation"
exit 0
