package play

import "testing"

// Compiled only after setup.gen.go has been generated (see run.sh).
func TestNested(t *testing.T) {
	src := &Src{X: 1, In: SrcIn{X: 2}}
	dst := Nested(src, 3)
	if dst.In.V != 1 {
		t.Errorf(":map $1.X In.V: dst.In.V = %d, want 1 (src.X); 2 is src.In.X", dst.In.V)
	}
	if dst.In.W != 3 {
		t.Errorf(":map $2 In.W: dst.In.W = %d, want 3 (the additional argument)", dst.In.W)
	}
}

func TestFlatControl(t *testing.T) {
	src := &Src{X: 1, In: SrcIn{X: 2}}
	dst := Flat(src, 3)
	if dst.V != 1 || dst.W != 3 {
		t.Errorf("control: got V=%d W=%d, want V=1 W=3", dst.V, dst.W)
	}
}
