package play

type SrcIn struct {
	X int
}

type DstIn struct {
	V int
	W int
}

type Src struct {
	X  int
	In SrcIn
}

type Dst struct {
	In DstIn
}
