//go:build convergen

package play

type Convergen interface {
	// $1 is the source argument, $2 the first additional argument (see the
	// usecase "maps" in the repository). Here they feed nested destination fields.
	// :map $1.X In.V
	// :map $2 In.W
	Nested(*Src, int) *Dst

	// Control: the same two sources feeding top-level destination fields.
	// :map $1.X V
	// :map $2 W
	Flat(*Src, int) *DstIn
}
