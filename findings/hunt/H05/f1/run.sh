#!/bin/sh
# usage: run.sh <repository root>
# exit 1: property violated; exit 0: not violated; exit 2: could not run the scenario
set -u
export GOFLAGS=-mod=mod GOPROXY=off GOSUMDB=off GOTOOLCHAIN=local
unset GOWORK
REPO=${1:?usage: run.sh <repository root>}
REPO=$(cd "$REPO" && pwd)
HERE=$(cd "$(dirname "$0")" && pwd)
TMP=$(mktemp -d)
trap 'rm -rf "$TMP"' EXIT

(cd "$REPO" && go build -o "$TMP/convergen" .) || { echo "cannot build the tool"; exit 2; }
mkdir "$TMP/mod" && cp "$HERE"/go.mod "$HERE"/*.go "$TMP/mod/" || exit 2
cd "$TMP/mod" || exit 2

"$TMP/convergen" setup.go >"$TMP/stdout" 2>"$TMP/stderr"
rc=$?
if [ $rc -ne 0 ] || [ ! -f setup.gen.go ]; then
	echo "the tool failed (exit $rc):"; cat "$TMP/stderr"; exit 2
fi

echo "--- generated function Nested:"
sed -n '/^func Nested/,/^}/p' setup.gen.go
echo "--- stderr of the tool:"
cat "$TMP/stderr"

bad=0
if ! grep -q '^	dst\.In\.V = src\.X$' setup.gen.go; then
	echo "VIOLATION: ':map \$1.X In.V' expected 'dst.In.V = src.X', observed: $(grep -n 'dst\.In\.V' setup.gen.go)"
	bad=1
fi
if ! grep -q '^	dst\.In\.W = arg0$' setup.gen.go; then
	echo "VIOLATION: ':map \$2 In.W' expected 'dst.In.W = arg0', observed: $(grep -n 'dst\.In\.W' setup.gen.go)"
	bad=1
fi

echo "--- behaviour of the generated functions (go test):"
if ! go test ./... 2>&1; then
	bad=1
fi

if [ $bad -ne 0 ]; then
	echo "RESULT: property C06 violated"
	exit 1
fi
echo "RESULT: no violation"
exit 0
