//go:build convergen

package play

type Convergen interface {
	// A
	ToEventRow(*Event) *EventRow

	// B: the user wants to leave out everything that has "loc" in its name
	// :case:off
	// :skip /loc/
	ToShopRow(*Shop) *ShopRow

	// C
	ToTaggedRow(*Tagged) *TaggedRow
}
