#!/bin/sh
# usage: run.sh <repository root>
# exit 1: property violated; exit 0: not violated; exit 2: could not run the scenario
set -u
export GOFLAGS=-mod=mod GOPROXY=off GOSUMDB=off GOTOOLCHAIN=local
unset GOWORK
REPO=${1:?usage: run.sh <repository root>}
REPO=$(cd "$REPO" && pwd)
HERE=$(cd "$(dirname "$0")" && pwd)
TMP=$(mktemp -d)
trap 'rm -rf "$TMP"' EXIT

(cd "$REPO" && go build -o "$TMP/convergen" .) || { echo "cannot build the tool"; exit 2; }
mkdir "$TMP/mod" && cp "$HERE"/go.mod "$HERE"/*.go "$TMP/mod/" || exit 2
cd "$TMP/mod" || exit 2

"$TMP/convergen" setup.go >"$TMP/stdout" 2>"$TMP/stderr"
rc=$?
if [ $rc -ne 0 ] || [ ! -f setup.gen.go ]; then
	echo "the tool failed (exit $rc):"; cat "$TMP/stderr"; exit 2
fi

echo "--- generated functions:"
sed -n '/^func /,/^}/p' setup.gen.go
echo "--- stderr of the tool:"
cat "$TMP/stderr"
echo "---"

bad=0
# check <function> <destination field>: the field (or a member of it) must occur in the
# body as an assignment, a "// skip:" or a "// no match:" line.
check() {
	if ! sed -n "/^func $1(/,/^}/p" setup.gen.go | grep -q "dst\.$2\b"; then
		echo "VIOLATION: $1: destination field dst.$2 is silently dropped (no assignment, no '// skip:', no '// no match:'; nothing about it on stderr)"
		bad=1
	fi
}
check ToEventRow ID
check ToEventRow Created
check ToShopRow Name
check ToShopRow Location
check ToShopRow Opened
check ToTaggedRow Mark
check ToTaggedRow N

if [ $bad -ne 0 ]; then
	echo "RESULT: property C05 violated"
	exit 1
fi
echo "RESULT: no violation"
exit 0
