package play

import "time"

// ---- scenario A: source member is a struct, destination member is an imported
// struct whose members are all unexported (time.Time: wall, ext, loc).

type Timestamp struct {
	Sec  int64
	Nsec int64
}

type Event struct {
	ID      int
	Created Timestamp
}

type EventRow struct {
	ID      int
	Created time.Time
}

// ---- scenario B: the two members have the same type (time.Time) and would simply be
// assigned, but a :skip regexp happens to match the name of an unexported member.

type Shop struct {
	Name     string
	Location string
	Opened   time.Time
}

type ShopRow struct {
	Name     string
	Location string
	Opened   time.Time
}

// ---- scenario C: empty struct types.

type MarkA struct{}
type MarkB struct{}

type Tagged struct {
	Mark MarkA
	N    int
}

type TaggedRow struct {
	Mark MarkB
	N    int
}
