//go:build convergen

package play

import (
	. "play/hooks"
	"play/model"
)

type Convergen interface {
	// Finish comes from the dot-imported package play/hooks.
	// :skip Touched
	// :postprocess Finish
	Copy(*model.Src) *model.Dst
}

// Reset uses the dot import in ordinary code, so the import is legitimately used.
func Reset(dst *model.Dst) {
	*dst = model.Dst{}
	Touch(dst)
}
