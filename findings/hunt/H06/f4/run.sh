#!/bin/sh
# usage: run.sh <repository root>
# exit 1: property C10 violated; exit 0: not violated; exit 2: could not run.
REPO=${1:?usage: run.sh <repository root>}
HERE=$(cd "$(dirname "$0")" && pwd)
export GOFLAGS=-mod=mod GOPROXY=off GOSUMDB=off GOTOOLCHAIN=local
unset GOWORK
TMP=$(mktemp -d)
trap 'rm -rf "$TMP"' EXIT
(cd "$REPO" && go build -o "$TMP/convergen" .) || { echo "cannot build the tool"; exit 2; }

mkdir "$TMP/mod"
cp -r "$HERE/go.mod" "$HERE/setup.go" "$HERE/model" "$HERE/hooks" "$TMP/mod/"
cd "$TMP/mod" || exit 2

# The setup file itself is valid Go (with the convergen tag).
if ! go vet -tags convergen . >"$TMP/vet" 2>&1; then
	echo "setup file is not valid Go:"; cat "$TMP/vet"; exit 2
fi

"$TMP/convergen" -print setup.go >"$TMP/out" 2>"$TMP/err"; rc=$?
if [ $rc -ne 0 ]; then
	echo "OBSERVED: the tool fails (exit $rc) on a hook that comes from a dot-imported package:"
	cat "$TMP/err"
	echo "the text it produced for the function:"
	sed -n '/^func Copy/,/^}/p' "$TMP/out"
	echo "EXPECTED: exit 0 and the call Finish(dst, src)"
	exit 1
fi
if ! go build ./... >"$TMP/build" 2>&1; then
	echo "OBSERVED: exit 0 but the output does not compile:"
	cat "$TMP/build"
	exit 1
fi
cp "$HERE/behaviour_test.go.txt" behaviour_test.go
if ! go test . >"$TMP/test" 2>&1; then
	echo "OBSERVED: the hook is not called on the real operands:"
	cat "$TMP/test"
	exit 1
fi
echo "hook from the dot-imported package is called correctly"
exit 0
