package hooks

import "play/model"

// Finish is meant to be used as a :postprocess hook.
func Finish(dst *model.Dst, src *model.Src) { Touch(dst) }

func Touch(dst *model.Dst) { dst.Touched = true }
