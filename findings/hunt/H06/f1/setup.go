//go:build convergen

package play

import (
	"errors"
	"strconv"
)

// Calls records every user function the generated code calls.
var Calls []string

var ErrGetA = errors.New("GetA failed")

type Src struct {
	A int
}

// GetA is an error-returning getter.
func (s *Src) GetA() (int, error) {
	Calls = append(Calls, "GetA")
	if s.A < 0 {
		return 0, ErrGetA
	}
	return s.A, nil
}

type Dst struct {
	A string
}

// Itoa is a converter without an error result.
func Itoa(i int) string {
	Calls = append(Calls, "Itoa")
	return strconv.Itoa(i)
}

type Convergen interface {
	// The method has an error result: GetA's error must be returned.
	// :conv Itoa GetA() A
	WithErr(*Src) (*Dst, error)
	// The method has no error result: GetA must not be wired in.
	// :conv Itoa GetA() A
	NoErr(*Src) *Dst
}
