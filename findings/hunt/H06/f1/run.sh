#!/bin/sh
# usage: run.sh <repository root>
# exit 1: property C07 violated; exit 0: not violated; exit 2: could not run.
REPO=${1:?usage: run.sh <repository root>}
HERE=$(cd "$(dirname "$0")" && pwd)
export GOFLAGS=-mod=mod GOPROXY=off GOSUMDB=off GOTOOLCHAIN=local
unset GOWORK
TMP=$(mktemp -d)
trap 'rm -rf "$TMP"' EXIT
(cd "$REPO" && go build -o "$TMP/convergen" .) || { echo "cannot build the tool"; exit 2; }

mkdir "$TMP/mod"
cp "$HERE/go.mod" "$HERE/setup.go" "$TMP/mod/"
cd "$TMP/mod" || exit 2

"$TMP/convergen" setup.go >"$TMP/gen.out" 2>"$TMP/gen.err"
rc=$?
if [ $rc -ne 0 ]; then
	echo "tool refused the input (exit $rc): no generated function, C07 not violated"
	cat "$TMP/gen.err"
	exit 0
fi

echo "tool exit 0; generated functions:"
sed -n '/^func WithErr/,/^}/p;/^func NoErr/,/^}/p' setup.gen.go

if ! go build ./... >"$TMP/build.err" 2>&1; then
	echo "OBSERVED: exit 0, but the generated code does not compile:"
	cat "$TMP/build.err"
	echo "EXPECTED: the error of the error-returning getter GetA() is returned by WithErr (or the"
	echo "          notation is reported as not applicable), and GetA() is not wired into NoErr,"
	echo "          which has no error result."
	exit 1
fi

cp "$HERE/behaviour_test.go.txt" behaviour_test.go
if ! go test ./... >"$TMP/test.out" 2>&1; then
	echo "OBSERVED: generated code compiles but mishandles the getter's error:"
	cat "$TMP/test.out"
	exit 1
fi
echo "generated code compiles and handles the getter's error correctly"
exit 0
