//go:build convergen

package play

import (
	"play/hooks/v2"
	"play/model"
)

type Convergen interface {
	// The package imported from "play/hooks/v2" is named hooks.
	// :skip Touched
	// :postprocess hooks.Finish
	Copy(*model.Src) *model.Dst
}

// Reset uses the import in ordinary code under the name Go gives it: hooks.
func Reset(dst *model.Dst) {
	*dst = model.Dst{}
	hooks.Touch(dst)
}
