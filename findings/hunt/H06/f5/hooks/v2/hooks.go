// Package hooks lives in a directory whose name (v2) is not the package name,
// as every Go module of major version 2+ does.
package hooks

import "play/model"

// Finish is meant to be used as a :postprocess hook.
func Finish(dst *model.Dst, src *model.Src) { Touch(dst) }

func Touch(dst *model.Dst) { dst.Touched = true }
