package model

type Src struct{ A int }
type Dst struct {
	A       int
	Touched bool
}
