#!/bin/sh
# usage: run.sh <repository root>
# exit 1: property C10 violated; exit 0: not violated; exit 2: could not run.
REPO=${1:?usage: run.sh <repository root>}
HERE=$(cd "$(dirname "$0")" && pwd)
export GOFLAGS=-mod=mod GOPROXY=off GOSUMDB=off GOTOOLCHAIN=local
unset GOWORK
TMP=$(mktemp -d)
trap 'rm -rf "$TMP"' EXIT
(cd "$REPO" && go build -o "$TMP/convergen" .) || { echo "cannot build the tool"; exit 2; }

mkdir "$TMP/mod"
cp -r "$HERE/go.mod" "$HERE/slice" "$HERE/single" "$HERE/none" "$TMP/mod/"
bad=0

# --- slice: variadic hook (...string), method argument []string
cd "$TMP/mod/slice" || exit 2
"$TMP/convergen" setup.go >"$TMP/out" 2>"$TMP/err"; rc=$?
if [ $rc -ne 0 ]; then
	echo "slice: rejected at generation time (exit $rc) - acceptable"
elif go build . >"$TMP/build" 2>&1; then
	echo "slice: accepted and the output compiles - fine"
else
	echo "slice: OBSERVED exit 0, variadic hook accepted, but the generated call does not compile:"
	sed -n '/^func Copy/,/^}/p' setup.gen.go
	cat "$TMP/build"
	echo "slice: EXPECTED either tag(dst, src, arg0...) or a rejection at generation time"
	bad=1
fi

# --- single / none (informational, does not change the verdict): the variadic hook could be
# called with one / no additional argument, yet it is rejected with a misleading message.
for s in single none; do
	cd "$TMP/mod/$s" || exit 2
	"$TMP/convergen" setup.go >"$TMP/out" 2>"$TMP/err"; rc=$?
	if [ $rc -ne 0 ]; then
		echo "$s: note: a variadic hook that fits the method is rejected (exit $rc):"
		sort -u "$TMP/err"
	elif go build . >"$TMP/build" 2>&1; then
		echo "$s: accepted and the output compiles"
	else
		echo "$s: OBSERVED accepted but the output does not compile:"
		cat "$TMP/build"
		bad=1
	fi
done

exit $bad
