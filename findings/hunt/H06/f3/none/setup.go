//go:build convergen

package none

type Src struct{ A int }
type Dst struct {
	A    int
	Tags []string
}

type Convergen interface {
	// tag(dst, src) is a valid call, so the hook fits.
	// :skip Tags
	// :postprocess tag
	Copy(*Src) *Dst
}

// tag is a variadic hook.
func tag(dst *Dst, src *Src, tags ...string) {
	dst.Tags = append(dst.Tags, tags...)
}
