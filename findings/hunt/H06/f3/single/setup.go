//go:build convergen

package single

type Src struct{ A int }
type Dst struct {
	A    int
	Tags []string
}

type Convergen interface {
	// tag(dst, src, arg0) is a valid call, so the hook fits.
	// :skip Tags
	// :postprocess tag
	Copy(*Src, string) *Dst
}

// tag is a variadic hook.
func tag(dst *Dst, src *Src, tags ...string) {
	dst.Tags = append(dst.Tags, tags...)
}
