//go:build convergen

package slice

type Src struct{ A int }
type Dst struct {
	A    int
	Tags []string
}

type Convergen interface {
	// tag(dst, src, arg0) does not type-check ([]string is not a string); tag(dst, src, arg0...) would.
	// :skip Tags
	// :postprocess tag
	Copy(*Src, []string) *Dst
}

// tag is a variadic hook.
func tag(dst *Dst, src *Src, tags ...string) {
	dst.Tags = append(dst.Tags, tags...)
}
