//go:build convergen

package iface

type Src struct{ A int }
type Dst struct{ A int }

func (d *Dst) Validate() error { return nil }

type Validator interface{ Validate() error }

type Convergen interface {
	// The hook takes the destination as an interface that *Dst implements:
	// check(dst, src) is a valid call, so the hook fits.
	// :postprocess check
	Copy(*Src) (*Dst, error)
}

func check(dst Validator, src *Src) error {
	return dst.Validate()
}
