#!/bin/sh
# usage: run.sh <repository root>
# exit 1: property C10 violated; exit 0: not violated; exit 2: could not run.
REPO=${1:?usage: run.sh <repository root>}
HERE=$(cd "$(dirname "$0")" && pwd)
export GOFLAGS=-mod=mod GOPROXY=off GOSUMDB=off GOTOOLCHAIN=local
unset GOWORK
TMP=$(mktemp -d)
trap 'rm -rf "$TMP"' EXIT
(cd "$REPO" && go build -o "$TMP/convergen" .) || { echo "cannot build the tool"; exit 2; }

mkdir "$TMP/mod"
cp -r "$HERE/go.mod" "$HERE/narrow" "$HERE/wide" "$HERE/iface" "$TMP/mod/"
bad=0

# --- scenario 1: hook parameter narrower than the method's additional argument: must be rejected
cd "$TMP/mod/narrow" || exit 2
"$TMP/convergen" setup.go >"$TMP/out" 2>"$TMP/err"; rc=$?
if [ $rc -ne 0 ]; then
	echo "narrow: rejected at generation time (exit $rc) - as required"
elif go build . >"$TMP/build" 2>&1; then
	echo "narrow: accepted and the output compiles - fine"
else
	echo "narrow: OBSERVED exit 0, hook accepted, but the generated call does not compile:"
	sed -n '/^func Copy/,/^}/p' setup.gen.go
	cat "$TMP/build"
	echo "narrow: EXPECTED the hook logTo(*Dst, *Src, *bytes.Buffer) to be rejected at generation time:"
	echo "        its 3rd parameter cannot take the method's io.Writer argument"
	bad=1
fi

# --- scenarios 2 and 3: hook parameter wider than the operand (interface): must be accepted
for s in wide iface; do
	cd "$TMP/mod/$s" || exit 2
	"$TMP/convergen" setup.go >"$TMP/out" 2>"$TMP/err"; rc=$?
	if [ $rc -ne 0 ]; then
		echo "$s: OBSERVED the tool rejects a hook that fits the method (exit $rc):"
		sort -u "$TMP/err"
		echo "$s: EXPECTED exit 0 and a call of the hook with the function's own operands"
		bad=1
	elif go build . >"$TMP/build" 2>&1; then
		echo "$s: accepted and the output compiles - as required"
	else
		echo "$s: OBSERVED accepted but the output does not compile:"
		cat "$TMP/build"
		bad=1
	fi
done

exit $bad
