//go:build convergen

package narrow

import (
	"bytes"
	"io"
)

type Src struct{ A int }
type Dst struct{ A int }

type Convergen interface {
	// The method's additional argument is an io.Writer, the hook wants a *bytes.Buffer:
	// an io.Writer cannot be passed as a *bytes.Buffer, so the hook does not fit.
	// :postprocess logTo
	Copy(*Src, io.Writer) *Dst
}

func logTo(dst *Dst, src *Src, w *bytes.Buffer) {
	w.WriteString("copied")
}
