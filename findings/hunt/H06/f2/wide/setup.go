//go:build convergen

package wide

import (
	"bytes"
	"io"
)

type Src struct{ A int }
type Dst struct{ A int }

var Seen io.Writer

type Convergen interface {
	// The method's additional argument is a *bytes.Buffer, the hook accepts any io.Writer:
	// logTo(dst, src, arg0) is a valid call, so the hook fits.
	// :postprocess logTo
	Copy(*Src, *bytes.Buffer) *Dst
}

func logTo(dst *Dst, src *Src, w io.Writer) {
	Seen = w
	io.WriteString(w, "copied")
}
