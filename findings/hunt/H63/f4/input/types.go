package play

type User struct {
	Login    string
	Name     string
	Password string
}

type UserDTO struct {
	Name     string
	Password string
}
