//go:build convergen

package play

// UserConv is shared by several setup files.
type UserConv interface {
	// :skip Password
	// :map Login Name
	ToDTO(*User) *UserDTO
}
