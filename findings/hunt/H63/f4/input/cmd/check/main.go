package main

import (
	"fmt"
	"os"

	"play"
)

func main() {
	u := &play.User{Login: "ann", Name: "Ann Lee", Password: "hunter2"}
	bad := false
	for name, dto := range map[string]*play.UserDTO{"ToDTO (embedded from userconv.go)": play.ToDTO(u), "ToDTO2 (embedded from setup.go)": play.ToDTO2(u)} {
		ok := dto.Password == "" && dto.Name == "ann"
		fmt.Printf("%-34s Name=%q Password=%q  want Name=\"ann\" (:map Login Name) Password=\"\" (:skip)  ok=%v\n", name, dto.Name, dto.Password, ok)
		if !ok {
			bad = true
		}
	}
	if bad {
		os.Exit(1)
	}
}
