//go:build convergen

package play

// localConv is embedded as well, from this very file.
type localConv interface {
	// :skip Password
	// :map Login Name
	ToDTO2(*User) *UserDTO
}

type Convergen interface {
	UserConv
	localConv
}
