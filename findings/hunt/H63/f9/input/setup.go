//go:build convergen

package play

type Convergen interface {
	// The control: a plain function over the instantiated type.
	ToRow(*Box[int]) *Row
	// :recv b
	AsRow(*Box[int]) *Row
}
