package play

type Box[T any] struct {
	Label string
	Value T
}

type Row struct {
	Label string
	Value int
}
