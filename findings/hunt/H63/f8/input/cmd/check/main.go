package main

import (
	"fmt"
	"os"

	"play"
)

func main() {
	owner := "bob"
	row := &play.Row{Title: "old", Tags: []string{"stale"}, Labels: []play.Label{{Text: "stale"}}, Owner: &owner}
	// The issue has lost its tags, its labels and its owner.
	issue := &play.Issue{Title: "new"}
	play.Update(row, issue)

	bad := false
	fmt.Printf("Title  = %q (source %q)\n", row.Title, issue.Title)
	fmt.Printf("Owner  = %v (source %v)\n", row.Owner, issue.Owner)
	fmt.Printf("Tags   = %v (source %v)\n", row.Tags, issue.Tags)
	fmt.Printf("Labels = %v (source %v)\n", row.Labels, issue.Labels)
	if row.Title != "new" || row.Owner != nil {
		fmt.Println("unexpected: scalar / pointer fields differ from their source")
		bad = true
	}
	if len(row.Tags) != 0 || len(row.Labels) != 0 {
		bad = true
	}
	if bad {
		os.Exit(1)
	}
}
