//go:build convergen

package play

type Convergen interface {
	// :style arg
	Update(*Issue) *Row
}
