package play

type Label struct{ Text string }

type Issue struct {
	Title  string
	Tags   []string
	Labels []Label
	Owner  *string
}

type Row struct {
	Title  string
	Tags   []string
	Labels []Label
	Owner  *string
}
