//go:build convergen

package play

type Convergen interface {
	// The result is named e ("element"), which is legal Go.
	Clone(t *Tree) (e *Tree)
}
