package main

import (
	"fmt"
	"os"
	"reflect"

	"play"
)

func sample() *play.Tree {
	return &play.Tree{Name: "root", Kids: []play.Tree{
		{Name: "a", Kids: []play.Tree{{Name: "a1"}}},
		{Name: "b", Kids: []play.Tree{{Name: "b1"}, {Name: "b2"}}},
	}}
}

func main() {
	src := sample()
	bad := false
	func() {
		defer func() {
			if r := recover(); r != nil {
				fmt.Println("generated function panicked:", r)
				bad = true
			}
		}()
		dst := play.Clone(src)
		if !reflect.DeepEqual(dst.Kids, sample().Kids) {
			fmt.Printf("dst.Kids: %d elements named %q, %q; want 2 elements named \"a\", \"b\" with their own Kids\n",
				len(dst.Kids), dst.Kids[0].Name, dst.Kids[1].Name)
			bad = true
		}
	}()
	// The damaged source contains itself (the slices share their storage): do not print it whole.
	if got, want := src.Kids[0].Kids[0].Name, "a1"; got != want {
		fmt.Printf("the source operand was modified: src.Kids[0].Kids[0].Name = %q, was %q\n", got, want)
		bad = true
	}
	if got, want := src.Kids[1].Kids[1].Name, "b2"; got != want {
		fmt.Printf("the source operand was modified: src.Kids[1].Kids[1].Name = %q, was %q\n", got, want)
		bad = true
	}
	if bad {
		os.Exit(1)
	}
}
