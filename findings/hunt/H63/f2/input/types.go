package play

type Tree struct {
	Name string
	Kids []Tree
}
