#!/bin/bash
# usage: run.sh <repository root>
# exit 1: property violated, 0: not violated, 2: could not run
repo=${1:?usage: run.sh <repository root>}
repo=$(cd "$repo" 2>/dev/null && pwd) || { echo "no such directory: $1"; exit 2; }
here=$(cd "$(dirname "$0")" && pwd)
export GOFLAGS=-mod=mod GOPROXY=off GOSUMDB=off GOTOOLCHAIN=local
unset GOWORK
work=$(mktemp -d) || exit 2
trap 'rm -rf "$work"' EXIT
(cd "$repo" && go build -o "$work/convergen" .) >"$work/build.log" 2>&1 || { cat "$work/build.log"; echo "cannot build the tool"; exit 2; }

cp -r "$here/input" "$work/play" && cd "$work/play" || exit 2
"$work/convergen" setup.go >"$work/tool.out" 2>&1; rc=$?
if [ $rc -ne 0 ]; then
	cat "$work/tool.out"; echo "the tool rejected the input (exit $rc): no violation"; exit 0
fi
[ -f setup.gen.go ] || { echo "no output file"; exit 2; }
echo "exit 0; generated function:"
sed -n '/^func Clone/,/^}/p' setup.gen.go
if ! go build ./... >"$work/build.out" 2>&1; then
	cat "$work/build.out"; echo "VIOLATION: exit 0 but the generated code does not compile"; exit 1
fi
go run ./cmd/check; rc=$?
case $rc in
0) echo "ok: Clone copies Kids and leaves the source alone"; exit 0 ;;
1) echo "VIOLATION: the generated code compiles, but the loop variable e shadows the destination e"; exit 1 ;;
*) echo "check program failed"; exit 2 ;;
esac
