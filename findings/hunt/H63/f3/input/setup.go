//go:build convergen

package play

type Convergen interface {
	// The control: the enclosing struct is matched by name, the notations on its members are honoured.
	// :skip Profile.Password
	// :literal Profile.Role "guest"
	ByName(*Account) *View

	// The enclosing struct comes from :map, :conv and $2.
	// :map Backup Profile
	// :skip Profile.Password
	// :literal Profile.Role "guest"
	// :conv Redact Backup Second
	// :skip Second.Password
	// :map $2 Third
	// :skip Third.Password
	ByNotation(*Account, Profile) *View

	// The enclosing field is a pointer to a struct.
	// :skip Ptr.Password
	// :literal Ptr.Role "guest"
	ByPointer(*Account) *View
}
