package play

type Profile struct {
	Login    string
	Password string
	Role     string
}

type Account struct {
	Profile Profile
	Backup  Profile
	Ptr     *Profile
}

type View struct {
	Profile Profile
	Second  Profile
	Third   Profile
	Ptr     *Profile
}

func Redact(p Profile) Profile { return p }
