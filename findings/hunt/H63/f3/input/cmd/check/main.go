package main

import (
	"fmt"
	"os"

	"play"
)

func main() {
	secret := play.Profile{Login: "ann", Password: "hunter2", Role: "admin"}
	bad := false
	report := func(what, path, got, want string) {
		if got != want {
			fmt.Printf("%-11s dst.%s = %q, want %q\n", what, path, got, want)
			bad = true
		}
	}

	v := play.ByName(&play.Account{Profile: secret})
	report("ByName:", "Profile.Password (:skip)", v.Profile.Password, "")
	report("ByName:", "Profile.Role (:literal)", v.Profile.Role, "guest")

	v = play.ByNotation(&play.Account{Backup: secret}, secret)
	report("ByNotation:", "Profile.Password (:skip)", v.Profile.Password, "")
	report("ByNotation:", "Profile.Role (:literal)", v.Profile.Role, "guest")
	report("ByNotation:", "Second.Password (:skip)", v.Second.Password, "")
	report("ByNotation:", "Third.Password (:skip)", v.Third.Password, "")

	p := secret
	v = play.ByPointer(&play.Account{Ptr: &p})
	if v.Ptr != nil {
		report("ByPointer:", "Ptr.Password (:skip)", v.Ptr.Password, "")
		report("ByPointer:", "Ptr.Role (:literal)", v.Ptr.Role, "guest")
	}
	if bad {
		os.Exit(1)
	}
}
