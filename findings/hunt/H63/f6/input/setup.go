//go:build convergen

package play

type Convergen interface {
	// The parameter names document the call; _ is a legal parameter name.
	ToDst(_ *Src) *Dst
	// :map $2 B
	WithB(s *Src, _ int) (d *Dst)
	Fill(s *Src) (_ *Dst)
}
