package play

type Src struct{ A, B int }
type Dst struct{ A, B int }
