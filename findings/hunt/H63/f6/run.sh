#!/bin/bash
# usage: run.sh <repository root>
# exit 1: property violated, 0: not violated, 2: could not run
repo=${1:?usage: run.sh <repository root>}
repo=$(cd "$repo" 2>/dev/null && pwd) || { echo "no such directory: $1"; exit 2; }
here=$(cd "$(dirname "$0")" && pwd)
export GOFLAGS=-mod=mod GOPROXY=off GOSUMDB=off GOTOOLCHAIN=local
unset GOWORK
work=$(mktemp -d) || exit 2
trap 'rm -rf "$work"' EXIT
(cd "$repo" && go build -o "$work/convergen" .) >"$work/build.log" 2>&1 || { cat "$work/build.log"; echo "cannot build the tool"; exit 2; }

cp -r "$here/input" "$work/play" && cd "$work/play" || exit 2
"$work/convergen" setup.go >"$work/tool.out" 2>&1; rc=$?
echo "tool output (exit $rc):"; cat "$work/tool.out"
if [ $rc -ne 0 ]; then
	echo "the tool rejected the input: no violation of the property (it does not claim success)"; exit 0
fi
[ -f setup.gen.go ] || { echo "no output file"; exit 2; }
sed -n '/^func /,/^}/p' setup.gen.go
if go build ./... >"$work/build.out" 2>&1; then
	echo "ok: the generated code compiles"; exit 0
fi
cat "$work/build.out"
echo "VIOLATION: exit 0 but the generated code reads from / writes to the blank identifier and does not compile"
exit 1
