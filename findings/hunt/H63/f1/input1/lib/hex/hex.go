// Package hex is the project's own encoder. It has nothing to do with encoding/hex.
package hex

// EncodeToString masks the data.
func EncodeToString(b []byte) string { return "masked by play/lib/hex" }
