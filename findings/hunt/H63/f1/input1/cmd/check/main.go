package main

import (
	"fmt"
	"os"

	"play"
	"play/lib/hex"
)

func main() {
	src := &play.Src{Data: []byte{0xca, 0xfe}}
	got := play.ToDst(src).Data
	want := hex.EncodeToString(src.Data) // the converter named by ":conv hex.EncodeToString Data"
	fmt.Printf("dst.Data = %q, the converter of the setup file returns %q\n", got, want)
	if got != want {
		os.Exit(1)
	}
}
