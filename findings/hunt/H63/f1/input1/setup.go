//go:build convergen

package play

import (
	// The README's idiom: "The referenced library should have been imported anyhow."
	_ "play/lib/hex"
)

type Convergen interface {
	// :conv hex.EncodeToString Data
	ToDst(*Src) *Dst
}
