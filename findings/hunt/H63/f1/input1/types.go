package play

type Src struct{ Data []byte }
type Dst struct{ Data string }
