package model

import "play/z/other"

type Src struct {
	Rank  int
	Users []other.User
}
type Dst struct {
	Rank  other.Rank
	Users []other.User
}
