//go:build convergen

package play

import "play/model"

type Convergen interface {
	// :typecast
	ToDst(*model.Src) *model.Dst
}
