package other

type Rank int
type User struct{ ID int }
