#!/bin/bash
# usage: run.sh <repository root>
# exit 1: property violated, 0: not violated, 2: could not run
repo=${1:?usage: run.sh <repository root>}
repo=$(cd "$repo" 2>/dev/null && pwd) || { echo "no such directory: $1"; exit 2; }
here=$(cd "$(dirname "$0")" && pwd)
export GOFLAGS=-mod=mod GOPROXY=off GOSUMDB=off GOTOOLCHAIN=local
unset GOWORK
work=$(mktemp -d) || exit 2
trap 'rm -rf "$work"' EXIT
(cd "$repo" && go build -o "$work/convergen" .) >"$work/build.log" 2>&1 || { cat "$work/build.log"; echo "cannot build the tool"; exit 2; }

violated=0

# --- scenario 1: a converter of a blank-imported package whose name also exists in the standard library
cp -r "$here/input1" "$work/s1" && cd "$work/s1" || exit 2
"$work/convergen" setup.go >"$work/s1.out" 2>&1; rc=$?
if [ $rc -ne 0 ] || [ ! -f setup.gen.go ]; then
	cat "$work/s1.out"; echo "scenario 1: the tool failed (exit $rc): cannot judge"; exit 2
fi
echo "scenario 1: exit 0; imports and call of the generated file:"
grep -n -e '"encoding/hex"' -e '"play/lib/hex"' -e 'hex\.EncodeToString' setup.gen.go
if ! go build ./... >"$work/s1.build" 2>&1; then
	cat "$work/s1.build"; echo "scenario 1: VIOLATION: the generated code does not compile"; violated=1
else
	go run ./cmd/check; rc=$?
	if [ $rc -eq 1 ]; then
		echo "scenario 1: VIOLATION: dst.Data does not come from the converter that :conv names (play/lib/hex.EncodeToString)"; violated=1
	elif [ $rc -ne 0 ]; then
		echo "scenario 1: check program failed"; exit 2
	else
		echo "scenario 1: ok"
	fi
fi

# --- scenario 2: types of a package that the setup file does not import, while a namesake package exists
cp -r "$here/input2" "$work/s2" && cd "$work/s2" || exit 2
"$work/convergen" setup.go >"$work/s2.out" 2>&1; rc=$?
if [ $rc -ne 0 ] || [ ! -f setup.gen.go ]; then
	cat "$work/s2.out"; echo "scenario 2: the tool failed (exit $rc): cannot judge"; exit 2
fi
echo "scenario 2: exit 0; imports of the generated file:"
grep -n -e '"play/a/other"' -e '"play/z/other"' setup.gen.go
if ! go build ./... >"$work/s2.build" 2>&1; then
	head -5 "$work/s2.build"
	echo "scenario 2: VIOLATION: exit 0 but the generated code does not compile (other.Rank / other.User were taken from play/a/other, model uses play/z/other)"; violated=1
else
	echo "scenario 2: ok"
fi

exit $violated
