package main

import (
	"fmt"
	"os"

	"play"
)

func main() {
	bad := false

	o := play.NewOrder(1, 2, 3)
	snap := play.ToSnapshot(o)
	fmt.Printf("ToSnapshot: the getter Events() was called %d time(s); dst.Events = %v, the getter's result was [{1} {2} {3}]\n", o.Calls(), snap.Events)
	if len(snap.Events) != 3 {
		bad = true
	}

	func() {
		defer func() {
			if r := recover(); r != nil {
				fmt.Println("ToPage: the generated function panicked:", r)
				bad = true
			}
		}()
		page := play.ToPage(&play.Feed{})
		fmt.Printf("ToPage: dst.Items = %v\n", page.Items)
	}()

	if bad {
		os.Exit(1)
	}
}
