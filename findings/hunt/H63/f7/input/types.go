package play

type Event struct{ N int }

// Order collects events; Events hands the pending ones over and forgets them
// (the usual "pull the domain events" accessor).
type Order struct {
	pending []Event
	calls   int
}

func NewOrder(n ...int) *Order {
	o := &Order{}
	for _, v := range n {
		o.pending = append(o.pending, Event{N: v})
	}
	return o
}

func (o *Order) Events() []Event {
	o.calls++
	e := o.pending
	o.pending = nil
	return e
}

func (o *Order) Calls() int { return o.calls }

// Feed grows while it is being read.
type Feed struct{ items []Event }

func (f *Feed) Items() []Event {
	f.items = append(f.items, Event{N: len(f.items)})
	return f.items
}

type Snapshot struct{ Events []Event }
type Page struct{ Items []Event }
