//go:build convergen

package play

type Convergen interface {
	// :getter
	ToSnapshot(*Order) *Snapshot
	// :getter
	ToPage(*Feed) *Page
}
