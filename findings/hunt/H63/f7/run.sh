#!/bin/bash
# usage: run.sh <repository root>
# exit 1: property violated, 0: not violated, 2: could not run
repo=${1:?usage: run.sh <repository root>}
repo=$(cd "$repo" 2>/dev/null && pwd) || { echo "no such directory: $1"; exit 2; }
here=$(cd "$(dirname "$0")" && pwd)
export GOFLAGS=-mod=mod GOPROXY=off GOSUMDB=off GOTOOLCHAIN=local
unset GOWORK
work=$(mktemp -d) || exit 2
trap 'rm -rf "$work"' EXIT
(cd "$repo" && go build -o "$work/convergen" .) >"$work/build.log" 2>&1 || { cat "$work/build.log"; echo "cannot build the tool"; exit 2; }

cp -r "$here/input" "$work/play" && cd "$work/play" || exit 2
"$work/convergen" setup.go >"$work/tool.out" 2>&1; rc=$?
echo "tool output (exit $rc):"; cat "$work/tool.out"
[ $rc -eq 0 ] && [ -f setup.gen.go ] || { echo "the tool failed: cannot judge"; exit 2; }
sed -n '/^func ToSnapshot/,/^}/p' setup.gen.go
go build ./... >"$work/build.out" 2>&1 || { cat "$work/build.out"; echo "generated code does not compile"; exit 2; }
go run ./cmd/check; rc=$?
case $rc in
0) echo "ok: the getter is evaluated once and its result is what arrives in dst"; exit 0 ;;
1) echo "VIOLATION: the slice copy evaluates the getter three times; dst does not hold the getter's result / the function panics"; exit 1 ;;
*) echo "check program failed"; exit 2 ;;
esac
