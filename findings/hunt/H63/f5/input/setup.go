//go:build convergen

package play

type Convergen interface {
	ToDTO(*Account) *DTO
	FromDTO(*DTO) *Account
}
