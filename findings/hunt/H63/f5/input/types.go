package play

import "play/other"

// Account is the name this package uses for other.User.
type Account = other.User

type DTO struct {
	ID   int
	Name string
}
