package main

import (
	"fmt"
	"os"

	"play"
	"play/other"
)

func main() {
	dto := play.ToDTO(&other.User{ID: 7, Name: "ann"})
	back := play.FromDTO(dto)
	fmt.Printf("%+v %+v\n", *dto, *back)
	if dto.ID != 7 || dto.Name != "ann" || back.ID != 7 || back.Name != "ann" {
		os.Exit(1)
	}
}
