package other

type User struct {
	ID   int
	Name string
}
