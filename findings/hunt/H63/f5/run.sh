#!/bin/bash
# usage: run.sh <repository root>
# exit 1: property violated, 0: not violated, 2: could not run
repo=${1:?usage: run.sh <repository root>}
repo=$(cd "$repo" 2>/dev/null && pwd) || { echo "no such directory: $1"; exit 2; }
here=$(cd "$(dirname "$0")" && pwd)
export GOFLAGS=-mod=mod GOPROXY=off GOSUMDB=off GOTOOLCHAIN=local
unset GOWORK
work=$(mktemp -d) || exit 2
trap 'rm -rf "$work"' EXIT
(cd "$repo" && go build -o "$work/convergen" .) >"$work/build.log" 2>&1 || { cat "$work/build.log"; echo "cannot build the tool"; exit 2; }

violated=0

# --- variant 1: no type named User in the package
cp -r "$here/input" "$work/v1" && cd "$work/v1" || exit 2
"$work/convergen" setup.go >"$work/v1.out" 2>&1; rc=$?
echo "variant 1: tool output (exit $rc):"; cat "$work/v1.out"
if [ $rc -ne 0 ]; then
	echo "variant 1: the tool rejected the input: no violation"
else
	[ -f setup.gen.go ] || { echo "no output file"; exit 2; }
	grep -n '^func' setup.gen.go
	if ! go build ./... >"$work/v1.build" 2>&1; then
		head -4 "$work/v1.build"
		echo "variant 1: VIOLATION: exit 0 but the generated code does not compile (the operand type lost its package)"; violated=1
	elif ! go run ./cmd/check; then
		echo "variant 1: VIOLATION: wrong values"; violated=1
	else
		echo "variant 1: ok"
	fi
fi

# --- variant 2: the package happens to have a type User of its own: the functions silently take that one
cp -r "$here/input" "$work/v2" && cd "$work/v2" || exit 2
cat > local.go <<'EOT'
package play

type User struct {
	ID   int
	Name string
}
EOT
"$work/convergen" setup.go >"$work/v2.out" 2>&1; rc=$?
echo "variant 2: tool output (exit $rc):"; cat "$work/v2.out"
if [ $rc -ne 0 ]; then
	echo "variant 2: the tool rejected the input: no violation"
else
	grep -n '^func' setup.gen.go
	if go vet . >"$work/v2.vet" 2>&1 && ! go build ./cmd/check >"$work/v2.build" 2>&1; then
		head -4 "$work/v2.build"
		echo "variant 2: VIOLATION: the package compiles, but ToDTO/FromDTO are declared on play.User instead of play.Account (= other.User)"; violated=1
	elif ! go vet . >/dev/null 2>&1; then
		cat "$work/v2.vet"; echo "variant 2: VIOLATION: exit 0 but the generated code does not compile"; violated=1
	else
		echo "variant 2: ok"
	fi
fi
exit $violated
