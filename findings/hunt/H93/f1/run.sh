#!/bin/sh
# usage: run.sh <repository root>
# C11/C14: a package doc comment with a long line and a //go:generate line below it makes the run fail
# ("expected 'package', found 'func'" in the OUTPUT file) since ff79934.
[ -n "$1" ] && [ -d "$1" ] || { echo "usage: run.sh <repository root>"; exit 2; }
root=$(cd "$1" && pwd) || exit 2
export GOFLAGS=-mod=mod GOPROXY=off GOSUMDB=off GOTOOLCHAIN=local
unset GOWORK
tmp=$(mktemp -d) || exit 2
trap 'rm -rf "$tmp"' EXIT
(cd "$root" && go build -o "$tmp/convergen" .) >"$tmp/build.log" 2>&1 || { cat "$tmp/build.log"; echo "build failed"; exit 2; }
mkdir "$tmp/play" && cd "$tmp/play" || exit 2
printf 'module play\ngo 1.19\n' > go.mod
cat > setup.go <<'EOT'
//go:build convergen

// Package play converts the domain types into the storage models and back again; see the README for the notations.
//go:generate go run github.com/reedom/convergen@v0.7.0
package play

type Convergen interface {
	// ToM converts.
	ToM(*D) *M
}

type D struct{ A int }
type M struct{ A int }
EOT
"$tmp/convergen" setup.go >"$tmp/out.txt" 2>&1
rc=$?
if [ $rc -ne 0 ]; then
	sed "s#$tmp/play/##" "$tmp/out.txt"
	echo "VIOLATED: a well-formed setup file (long package doc line + //go:generate below it) is rejected, exit $rc"
	exit 1
fi
if ! grep -q '^func ToM(' setup.gen.go || grep -q 'interface' setup.gen.go; then
	cat setup.gen.go
	echo "VIOLATED: the converter interface was not replaced by its functions"
	exit 1
fi
if ! go vet ./... >"$tmp/vet.txt" 2>&1; then
	cat "$tmp/vet.txt"
	echo "VIOLATED: the output does not compile"
	exit 1
fi
echo "not violated"
exit 0
