#!/bin/sh
# usage: run.sh <repository root>
# C11: a /* */ doc comment followed by a //go:generate line is still detached from its declaration.
[ -n "$1" ] && [ -d "$1" ] || { echo "usage: run.sh <repository root>"; exit 2; }
root=$(cd "$1" && pwd) || exit 2
export GOFLAGS=-mod=mod GOPROXY=off GOSUMDB=off GOTOOLCHAIN=local
unset GOWORK
tmp=$(mktemp -d) || exit 2
trap 'rm -rf "$tmp"' EXIT
(cd "$root" && go build -o "$tmp/convergen" .) >"$tmp/build.log" 2>&1 || { cat "$tmp/build.log"; echo "build failed"; exit 2; }
mkdir -p "$tmp/play/check" && cd "$tmp/play" || exit 2
printf 'module play\ngo 1.19\n' > go.mod
cat > setup.go <<'EOT'
//go:build convergen

package play

type D struct{ A int }
type M struct{ A int }

/* Kind tells the kinds apart. */
//go:generate stringer -type=Kind
type Kind int

/*
Other is documented in a block, too.
*/
//go:generate stringer -type=Other
type Other int

type Base interface {
	/* FromM is documented in a block. */
	// :skip A
	FromM(*M) *D
}

type Convergen interface {
	Base
	// ToM converts.
	ToM(*D) *M
}
EOT
"$tmp/convergen" setup.go >"$tmp/out.txt" 2>&1 || { cat "$tmp/out.txt"; echo "convergen failed unexpectedly"; exit 2; }
# Ask go/parser which declarations of the output have a doc comment.
cat > check/main.go <<'EOT'
package main

import (
	"fmt"
	"go/ast"
	"go/parser"
	"go/token"
	"os"
	"strings"
)

func main() {
	fset := token.NewFileSet()
	f, err := parser.ParseFile(fset, os.Args[1], nil, parser.ParseComments)
	if err != nil {
		fmt.Println(err)
		os.Exit(2)
	}
	bad := 0
	want := map[string]string{"Kind": "Kind tells", "Other": "Other is documented"}
	for _, d := range f.Decls {
		g, ok := d.(*ast.GenDecl)
		if !ok || g.Tok != token.TYPE {
			continue
		}
		for _, s := range g.Specs {
			ts := s.(*ast.TypeSpec)
			if w, ok := want[ts.Name.Name]; ok {
				if !strings.Contains(g.Doc.Text(), w) {
					fmt.Printf("type %s has lost its doc comment\n", ts.Name.Name)
					bad++
				}
			}
			if it, ok := ts.Type.(*ast.InterfaceType); ok && ts.Name.Name == "Base" {
				for _, m := range it.Methods.List {
					if len(m.Names) == 1 && m.Names[0].Name == "FromM" && !strings.Contains(m.Doc.Text(), "FromM is documented") {
						fmt.Println("method Base.FromM has lost its doc comment")
						bad++
					}
				}
			}
		}
	}
	if bad > 0 {
		os.Exit(1)
	}
}
EOT
go build -o "$tmp/check.bin" ./check >"$tmp/check.txt" 2>&1 || { cat "$tmp/check.txt"; echo "check program does not build"; exit 2; }
"$tmp/check.bin" setup.gen.go >"$tmp/check.txt" 2>&1
rc=$?
cat "$tmp/check.txt"
case $rc in
0) echo "not violated"; exit 0 ;;
1) sed -n '1,25p' setup.gen.go
   echo "VIOLATED: a block doc comment that lost the line below it is printed detached from its declaration"; exit 1 ;;
*) echo "check program failed"; exit 2 ;;
esac
